"""Checks of the client-level properties C06 (and, with the fault-sweep driver, C15): real
aldrin::Client instances, real connection tasks and the real broker on the deterministic executor,
closed role programs, seeded schedules; the event log is judged by TLC with spec/Obs_Client.tla;
the broker's hook trace of the same runs is judged with spec/Obs.tla and validated against
spec/Broker.tla."""
import json
import os
import time

import vlib
from vlib import log

TIERS = {
    "quick": dict(batches=[("all", 120, 1), ("channels,chaos", 60, 1), ("all", 12, 6)], mc_workers=8, mc_timeout=900),
    "thorough": dict(batches=[("all", 1500, 1), ("channels,chaos", 800, 1), ("calls,events", 600, 1), ("all", 150, 10)], mc_workers=16, mc_timeout=3300),
}

BATCHES_C19 = {
    "quick": [("discovery", 120, 1), ("discovery,chaos,calls", 60, 1), ("discovery", 10, 6)],
    "thorough": [("discovery", 2500, 1), ("discovery,chaos,calls,events", 1200, 1), ("discovery", 150, 10)],
}

SWEEP = {
    "quick": dict(programs=4, points=10),
    # (every fault point of 40 programs would be ~60 000 runs / 30 M records: sampled instead)
    "thorough": dict(programs=12, points=40),
}

MC = {"C06": ["MC_ClientChan"]}


def signature(run):
    sig = []
    for r in run:
        if r.get("t") == "api" and r.get("ph") == "ret":
            sig.append(r["task"].split(".")[-1].rstrip("0123456789_") + ":" + r["op"] + ":" + r["res"])
        elif r.get("t") == "fact" and r.get("what") == "devent":
            sig.append(f"devent:{r['d']['key']}:{'c' if r['d']['created'] else 'd'}")
    return tuple(sig)


DISCOVERY = {
    "quick": dict(mc="MC_Discovery_quick.cfg", replay="R_Discovery.cfg", shards=4, cap=8000),
    "thorough": dict(mc="MC_Discovery.cfg", replay="R_Discovery_thorough.cfg", shards=12, cap=60000),
}


def discovery_model(prop, tier, seed, verdict, cov):
    """C19: Discovery.tla -- design check of the implementation-shaped entries against the statement, then every
    behaviour of the bounded model performed with the real client API and a real Discoverer (discovery-replay), the
    reported events and views validated step by step against the specification (Trace_Discovery.tla)."""
    from concurrent.futures import ThreadPoolExecutor
    dc = DISCOVERY[tier]
    cfg = TIERS[tier]
    wd = vlib.workdir(f"{prop}-{tier}-discovery")
    res = vlib.tlc_mc("MC_Discovery.tla", dc["mc"], workers=cfg["mc_workers"], timeout=cfg["mc_timeout"])
    cov["states"] += res["distinct"]
    cov["transitions"] += res["generated"]
    cov["mc"].append(dict(config=dc["mc"], distinct=res["distinct"], generated=res["generated"], depth=res["depth"],
                          wall_s=res["wall_s"], complete=res["left"] == 0))
    if not res["ok"]:
        verdict.violation(f"design check {dc['mc']}: {res['violation']}",
                          dict(kind="tlc-mc", config=dc["mc"], module="MC_Discovery.tla", output_tail=res["raw"][-6000:]))
    ex = vlib.tlc_behaviours("MC_Discovery.tla", dc["replay"], os.path.join(wd, "tlc-behaviours.out"), workers=cfg["mc_workers"],
                             timeout=cfg["mc_timeout"])
    os.remove(os.path.join(wd, "tlc-behaviours.out"))
    allb = ex["behaviours"]
    stride = max(1, (len(allb) + dc["cap"] - 1) // dc["cap"])
    chosen = allb[(seed - 1) % stride::stride]
    bfile = os.path.join(wd, "behaviours.ndjson")
    with open(bfile, "w") as f:
        f.write("\n".join(chosen) + "\n")
    trace = os.path.join(wd, "discovery-replay.ndjson")
    args = ["--in", bfile, "--out", trace, "--seed", seed]
    summ = vlib.run_driver("discovery-replay", args, timeout=3000)
    recs = vlib.read_ndjson(trace)
    shards = vlib.split_runs(trace, dc["shards"], wd, "discovery")
    with ThreadPoolExecutor(max_workers=dc["shards"]) as pool:
        results = list(pool.map(lambda sh: (sh[1], vlib.tlc_trace("Trace_Discovery.tla", "Trace_Discovery.cfg", sh[0])), shards))
    drifts = 0
    for off, r in results:
        if not r["consumed"]:
            raise vlib.ToolError(f"discovery replay shard at {off} was not consumed")
        for (idx, p, why) in r["violations"]:
            gi = idx + off
            a, b = vlib.run_of_record(recs, gi)
            run_no = recs[a].get("run")
            payload = dict(kind="discovery-replay", behaviour=json.loads(chosen[run_no]) if run_no is not None and run_no < len(chosen) else None,
                           record_index=gi, trace=recs[a:b], violated_at=recs[gi - 1])
            verdict.violation(why[:400], payload)
        for (idx, why) in r["drifts"]:
            drifts += 1
            if drifts <= 5:
                log(f"DRIFT property={prop} the real bus deviates from Discovery.tla: {why} (record {idx + off})")
    for p, _ in shards:
        os.remove(p)
    cov["drift"] += drifts
    cov["records"] += len(recs)
    cov["discovery_replay"] = dict(config=dc["replay"], behaviours=len(allb), complete=ex["complete"], replayed=len(chosen), stride=stride,
                                   steps=summ.get("steps", 0), flagged=summ.get("flagged", [])[:3], drifts=drifts, tlc_wall_s=ex["wall_s"])


API_CONFIGS = {"C06": ["Calls", "Mixed", "Events"], "C02": ["Calls", "Mixed"], "C04": ["Events", "Mixed"]}
API_TIERS = {"quick": dict(cap=2500, shards=4, suffix=""), "thorough": dict(cap=40000, shards=12, suffix="_thorough")}
# the two API-level specifications: (module that enumerates, configuration prefix, driver, trace specification)
API_FAMILY = {"bus": ("MC_BusApi.tla", "R_BusApi_", "api-replay", "Trace_BusApi"),
              "chan": ("MC_ChanApi.tla", "R_ChanApi", "chan-replay", "Trace_ChanApi"),
              "lst": ("MC_ListenerApi.tla", "R_ListenerApi", "listener-replay", "Trace_ListenerApi")}
FAMILY_CONFIGS = {"chan": ["", "_probe"], "lst": ["", "_two", "_svc"]}


def api_model(prop, tier, seed, verdict, cov, family="bus"):
    """BusApi.tla: every behaviour of the bounded API-level model (subscriptions, events, calls, aborts, service
    destruction) performed through real clients and a real broker (api-replay); every step's observable outcome
    validated by TLC against the specification (Trace_BusApi.tla)."""
    from concurrent.futures import ThreadPoolExecutor
    at = API_TIERS[tier]
    module, prefix, driver, tspec = API_FAMILY[family]
    wd = vlib.workdir(f"{prop}-{tier}-api-{family}")
    chosen, parts = [], []
    for nm in (API_CONFIGS[prop] if family == "bus" else FAMILY_CONFIGS[family]):
        cfgfile = f"{prefix}{nm}{at['suffix']}.cfg"
        if not os.path.exists(os.path.join(vlib.SPEC, cfgfile)):
            cfgfile = f"{prefix}{nm}.cfg"
        ex = vlib.tlc_behaviours(module, cfgfile, os.path.join(wd, "tlc-behaviours.out"), workers=8, timeout=1800)
        os.remove(os.path.join(wd, "tlc-behaviours.out"))
        allb = ex["behaviours"]
        stride = max(1, (len(allb) + at["cap"] - 1) // at["cap"])
        part = allb[(seed - 1) % stride::stride]
        chosen += part
        parts.append(dict(config=cfgfile, behaviours=len(allb), states=ex["states"], complete=ex["complete"], replayed=len(part), stride=stride,
                          wall_s=ex["wall_s"]))
        cov["states"] = cov.get("states", 0) + ex["states"]
        cov["transitions"] = cov.get("transitions", 0) + ex["states"]
    bfile = os.path.join(wd, "behaviours.ndjson")
    with open(bfile, "w") as f:
        f.write("\n".join(chosen) + "\n")
    trace = os.path.join(wd, f"{driver}.ndjson")
    summ = vlib.run_driver(driver, ["--in", bfile, "--out", trace, "--seed", seed], timeout=3000)
    recs = vlib.read_ndjson(trace)
    shards = vlib.split_runs(trace, at["shards"], wd, "api")
    with ThreadPoolExecutor(max_workers=at["shards"]) as pool:
        results = list(pool.map(lambda sh: (sh[1], vlib.tlc_trace(tspec + ".tla", tspec + ".cfg", sh[0])), shards))
    drifts = 0
    for off, r in results:
        if not r["consumed"]:
            raise vlib.ToolError(f"api replay shard at {off} was not consumed")
        for (idx, p, why) in r["violations"]:
            gi = idx + off
            a, b = vlib.run_of_record(recs, gi)
            run_no = recs[a].get("run")
            # C06 states the consistency of results itself ("a call returns the value computed for that very call")
            # C06 also owns what the client library alone decides: which of a client's listeners an untagged event reaches
            mine = prop in p.split("+") or (prop == "C06" and p in ("C02", "C06")) or (prop == "C06" and family == "lst")
            if mine:
                verdict.violation(why[:400], dict(kind=driver, behaviour=json.loads(chosen[run_no]) if run_no is not None and run_no < len(chosen) else None,
                                                  record_index=gi, trace=recs[a:b], violated_at=recs[gi - 1]))
            else:
                verdict.note(f"violation of {p} observed while checking {prop}: {why[:200]} ({driver}, record {gi})")
        for (idx, why) in r["drifts"]:
            drifts += 1
            if drifts <= 5:
                log(f"DRIFT property={prop} the real bus deviates from {tspec[6:]}.tla: {why} (record {idx + off})")
    for p, _ in shards:
        os.remove(p)
    cov["drift"] = cov.get("drift", 0) + drifts
    cov["records"] = cov.get("records", 0) + len(recs)
    cov[{"bus": "api_replay", "chan": "chan_api_replay", "lst": "listener_api_replay"}[family]] = dict(configs=parts, behaviours_replayed=len(chosen), steps=summ.get("steps", 0),
                                                                        flagged=summ.get("flagged", [])[:3], drifts=drifts)


def run(prop, tier, seed):
    t0 = time.time()
    verdict = vlib.Verdict(prop)
    vlib.build_harness(["bus-driver"])
    cfg = TIERS[tier]
    wd = vlib.workdir(f"{prop}-{tier}")
    cov = dict(runs=0, records=0, roles=0, broker_records=0, drift=0, states=0, transitions=0, mc=[])
    sigs = set()
    samples = []
    # design check: the client's channel-end bookkeeping composed with the broker's (when present)
    for name in MC.get(prop, []):
        cfgfile = f"{name}.cfg" if tier == "quick" or not os.path.exists(os.path.join(vlib.SPEC, f"{name}_thorough.cfg")) else f"{name}_thorough.cfg"
        if os.path.exists(os.path.join(vlib.SPEC, name + ".tla")) and os.path.exists(os.path.join(vlib.SPEC, cfgfile)):
            res = vlib.tlc_mc(name + ".tla", cfgfile, workers=cfg["mc_workers"], timeout=cfg["mc_timeout"])
            cov["states"] += res["distinct"]
            cov["transitions"] += res["generated"]
            cov["mc"].append(dict(config=cfgfile, distinct=res["distinct"], generated=res["generated"], depth=res["depth"],
                                  wall_s=res["wall_s"], complete=res["left"] == 0))
            if not res["ok"]:
                verdict.violation(f"design check {cfgfile}: {res['violation']}",
                                  dict(kind="tlc-mc", config=cfgfile, module=name + ".tla", output_tail=res["raw"][-6000:]))
    if prop == "C19":
        discovery_model(prop, tier, seed, verdict, cov)
    if prop == "C06":
        api_model(prop, tier, seed, verdict, cov)
        api_model(prop, tier, seed, verdict, cov, family="lst")
    if prop == "C15":
        # the connection task's end-of-life protocol (spec/ConnTask.tla), the code as it is: everything but the
        # delivery of a queued Shutdown must hold; that clause is the known finding, re-observed in the model
        for (cfgfile, expect_ok) in (("MC_ConnTask_asis_rest.cfg", True), ("MC_ConnTask_asis.cfg", False), ("MC_ConnTask.cfg", True)):
            res = vlib.tlc_mc("ConnTask.tla", cfgfile, workers=4, timeout=900)
            cov["states"] += res["distinct"]
            cov["transitions"] += res["generated"]
            cov["mc"].append(dict(config=cfgfile, distinct=res["distinct"], generated=res["generated"], depth=res["depth"],
                                  wall_s=res["wall_s"], complete=res["left"] == 0, ok=res["ok"]))
            if cfgfile == "MC_ConnTask_asis.cfg" and not res["ok"]:
                verdict.violation(f"ConnTask.tla as-is: {res['violation']}", dict(kind="tlc-mc", config=cfgfile, module="ConnTask.tla", output_tail=res["raw"][-3000:]))
            elif cfgfile == "MC_ConnTask_asis_rest.cfg" and not res["ok"]:
                verdict.violation(f"ConnTask.tla design check {cfgfile}: {res['violation']}", dict(kind="tlc-mc", config=cfgfile, module="ConnTask.tla", output_tail=res["raw"][-3000:]))
    if prop in ("C15", "C06"):
        # enumerated scenarios around the moment a client stops (a pending reply dropped while the client drains, ...)
        spath = os.path.join(wd, "stop-scenarios.ndjson")
        depth = 6 if tier == "quick" else 40
        ssum = vlib.run_driver("stop-scenarios", ["--out", spath, "--seed", seed, "--depth", depth, "--watchdog", 20], timeout=1200)
        sres = vlib.tlc_trace("Trace_Client.tla", "Trace_Client.cfg", spath)
        srecs = vlib.read_ndjson(spath)
        cov["runs"] += ssum.get("scenarios", 0)
        cov["records"] += len(srecs)
        cov["stop_scenarios"] = dict(scenarios=ssum.get("scenarios", 0), hang=ssum.get("hang", False), records=len(srecs))
        for (idx, p, why) in sres["violations"]:
            a, b = vlib.run_of_record(srecs, idx)
            payload = dict(kind="stop-scenarios", driver_args=["--seed", str(seed), "--depth", str(depth)], record_index=idx, run_header=srecs[a],
                           trace=[r for r in srecs[a:b] if r.get("t") != "tap"][:200], violated_at=srecs[idx - 1])
            if prop in p.split("+"):
                verdict.violation(why, payload, site=json.dumps(srecs[a].get("scenario", {})))
            else:
                verdict.note(f"violation of {p} observed while checking {prop}: {why} (stop-scenarios, record {idx})")
    if prop == "C15":
        # the client's run loop around a stop (spec/ClientStop.tla): every poll ends and the run future returns;
        # the variant with the defect repaired in /repo b29ecdd must fail (the invariant can see that defect)
        res = vlib.tlc_mc("ClientStop.tla", "MC_ClientStop.cfg", workers=4, timeout=600)
        cov["states"] += res["distinct"]
        cov["transitions"] += res["generated"]
        cov["mc"].append(dict(config="MC_ClientStop.cfg", distinct=res["distinct"], generated=res["generated"], depth=res["depth"],
                              wall_s=res["wall_s"], complete=res["left"] == 0, ok=res["ok"]))
        if not res["ok"]:
            verdict.violation(f"ClientStop.tla design check: {res['violation']}", dict(kind="tlc-mc", config="MC_ClientStop.cfg", module="ClientStop.tla", output_tail=res["raw"][-3000:]))
        asis = vlib.tlc_mc("ClientStop.tla", "MC_ClientStop_asis.cfg", workers=4, timeout=600)
        cov["mc"].append(dict(config="MC_ClientStop_asis.cfg", distinct=asis["distinct"], generated=asis["generated"], expected_violation=True, ok=asis["ok"]))
        if asis["ok"]:
            raise vlib.ToolError("ClientStop.tla: the variant with the repaired defect no longer violates NoSpin (the invariant has become vacuous)")
    batches = cfg["batches"] if prop != "C15" else [("sweep", SWEEP[tier]["programs"], SWEEP[tier]["points"])]
    if prop == "C19":
        batches = BATCHES_C19[tier]
    for bi, (mix, runs, schedules) in enumerate(batches):
        s = seed * 1000 + bi
        cpath = os.path.join(wd, f"client-{bi}.ndjson")
        bpath = os.path.join(wd, f"broker-{bi}.ndjson")
        if prop == "C15":
            driver = "fault-sweep"
            args = ["--seed", s, "--programs", runs, "--points", schedules, "--out-client", cpath, "--out-broker", bpath]
            summ = vlib.run_driver(driver, args, timeout=3400)
            cov["runs"] += summ.get("runs", 0)
            cov["triggered"] = cov.get("triggered", 0) + summ.get("triggered", 0)
            cov["victim_ops"] = summ.get("victim_ops", [])
        else:
            driver = "bus-programs"
            args = ["--seed", s, "--runs", runs, "--schedules", schedules, "--mix", mix, "--out-client", cpath, "--out-broker", bpath]
            summ = vlib.run_driver(driver, args, timeout=3000)
            cov["runs"] += runs * schedules
        cov["roles"] += summ.get("roles", 0)
        recs = vlib.read_ndjson(cpath)
        cov["records"] += len(recs)
        res = vlib.tlc_trace_sharded("Trace_Client.tla", "Trace_Client.cfg", cpath, shards=12 if tier == "thorough" else 4)
        if not res["consumed"]:
            raise vlib.ToolError(f"client log {cpath} was not consumed (stopped at {res['consumed_upto']})")
        start = 0
        for i, r in enumerate(recs + [{"t": "reset"}]):
            if r.get("t") == "reset" and i > start:
                sig = signature(recs[start:i])
                if len(sig) >= 3:
                    if sig not in sigs and len(samples) < 2:
                        samples.append(dict(driver="bus-programs", mix=mix, seed=s, api_returns=list(sig)[:40]))
                    sigs.add(sig)
                start = i
        for (idx, p, why) in res["violations"]:
            a, b = vlib.run_of_record(recs, idx)
            payload = dict(kind=driver, driver_args=[str(x) for x in args], record_index=idx, run_header=recs[a],
                           trace=[r for r in recs[a:b] if r.get("t") != "tap"][:400], violated_at=recs[idx - 1])
            if prop in p.split("+"):
                verdict.violation(why, payload)
            else:
                verdict.note(f"violation of {p} observed while checking {prop}: {why} (batch {bi}, seed {s}, record {idx})")
        # the broker side of the same runs
        bres = vlib.tlc_trace_sharded("Trace_Obs.tla", "Trace_Obs.cfg", bpath, shards=12 if tier == "thorough" else 4)
        brecs = None
        cov["broker_records"] += bres["states"] - 1
        for (idx, p, why) in bres["violations"]:
            if brecs is None:
                brecs = vlib.read_ndjson(bpath)
            if prop in p.split("+") or why.startswith("panic"):
                a, b = vlib.run_of_record(brecs, idx)
                verdict.violation(why, dict(kind=driver + "-broker", driver_args=[str(x) for x in args], record_index=idx, trace=brecs[a:b]))
            else:
                verdict.note(f"broker-side violation of {p} observed while checking {prop}: {why} (batch {bi}, seed {s}, record {idx})")
        conf = vlib.tlc_trace_sharded("Trace_Broker.tla", "Trace_Broker.cfg", bpath, shards=12 if tier == "thorough" else 4)
        for (idx, why) in conf["drifts"]:
            cov["drift"] += 1
            if cov["drift"] <= 10:
                log(f"DRIFT property={prop} the broker deviates from Broker.tla: {why} (batch {bi}, seed {s}, record {idx})")
    coverage = dict(
        evaluations=cov["runs"], distinct_nontrivial=len(sigs),
        rule=("one evaluation = one closed multi-client program (servers, callers, subscribers, channel pairs, chaos roles over "
              "2-3 real clients, transports unbounded or bounded 1/2/3/16) under one seeded schedule; distinct = distinct sequences "
              "of (role, API operation, result) returns; non-trivial = at least three API operations returned"),
        samples=samples or [dict(note="no non-trivial run")],
        traces_validated_against_impl=cov["runs"], records_validated=cov["records"], broker_records_validated=cov["broker_records"],
        roles=cov["roles"], conformance_drifts=cov["drift"], other_property_notes=verdict.notes[:10])
    if cov["states"]:
        coverage.update(states=cov["states"], transitions=cov["transitions"], mc=cov["mc"])
    if cov.get("discovery_replay"):
        coverage["spec_to_impl_replay"] = cov["discovery_replay"]
    if cov.get("api_replay"):
        coverage["api_level_replay"] = cov["api_replay"]
    if cov.get("chan_api_replay"):
        coverage["channel_api_replay"] = cov["chan_api_replay"]
    if cov.get("listener_api_replay"):
        coverage["listener_api_replay"] = cov["listener_api_replay"]
    if prop == "C06" and cov.get("stop_scenarios"):
        coverage["stop_scenarios"] = cov["stop_scenarios"]
    if prop == "C15":
        coverage["rule"] = ("one evaluation = one closed multi-client program re-run with one termination cause (k-th transport operation of the "
                            "victim fails / victim requests shutdown / broker shutdown / forced connection shutdown / connection task dropped) "
                            "injected at one point k of the victim's transport operations, the victim holding one value of every kind "
                            "(battery role) whose operations are started after the cause; distinct = distinct sequences of (role, operation, result)")
        coverage["causes_triggered"] = cov.get("triggered", 0)
        coverage["stop_scenarios"] = cov.get("stop_scenarios", {})
        coverage["victim_transport_ops_per_program"] = cov.get("victim_ops", [])
    level = "fault_enumeration" if prop == "C15" else ("model_checking" if cov["states"] else "exploration")
    vlib.write_evidence(prop, tier, seed, level, coverage, time.time() - t0, verdict.violations,
                        assumptions=["programs and schedules are sampled, not exhaustive", "single-threaded executor: no data races are explored",
                                     "HashMap iteration order inside broker and client is not controlled by the seed"])
    return verdict


def replay(prop, path, seed):
    verdict = vlib.Verdict(prop)
    data = json.load(open(path))
    vlib.build_harness(["bus-driver"])
    wd = vlib.workdir(f"replay-{prop}")
    if data.get("kind", "").split("-broker")[0] in ("bus-programs", "fault-sweep"):
        driver = data["kind"].split("-broker")[0]
        args = list(data["driver_args"])
        cpath = os.path.join(wd, "client.ndjson")
        bpath = os.path.join(wd, "broker.ndjson")
        args[args.index("--out-client") + 1] = cpath
        args[args.index("--out-broker") + 1] = bpath
        vlib.run_driver(driver, args, timeout=3400)
        res = vlib.tlc_trace("Trace_Client.tla", "Trace_Client.cfg", cpath)
        recs = vlib.read_ndjson(cpath)
        for (idx, p, why) in res["violations"]:
            if prop in p.split("+"):
                a, b = vlib.run_of_record(recs, idx)
                verdict.violation(why, dict(kind=driver, driver_args=args, record_index=idx,
                                            trace=[r for r in recs[a:b] if r.get("t") != "tap"][:400]))
        log(f"re-run of the recorded driver invocation: {verdict.violations} violation(s) of {prop}")
    elif data.get("kind") == "tlc-mc":
        res = vlib.tlc_mc(data["module"], data["config"], workers=8, timeout=3300)
        if not res["ok"]:
            verdict.violation(f"design check {data['config']}: {res['violation']}", dict(kind="tlc-mc", config=data["config"], module=data["module"]))
    elif data.get("kind") == "stop-scenarios":
        out = os.path.join(wd, "stop-scenarios.ndjson")
        vlib.run_driver("stop-scenarios", list(data["driver_args"]) + ["--out", out, "--watchdog", 20], timeout=1200)
        r = vlib.tlc_trace("Trace_Client.tla", "Trace_Client.cfg", out)
        recs = vlib.read_ndjson(out)
        for (idx, p, why) in r["violations"]:
            if prop in p.split("+"):
                a, b = vlib.run_of_record(recs, idx)
                verdict.violation(why, dict(kind="stop-scenarios", driver_args=data["driver_args"], record_index=idx, trace=recs[a:b][:200]))
        log(f"re-run of the scenarios on the current tree: {verdict.violations} violation(s) of {prop}")
    elif data.get("kind") in ("api-replay", "chan-replay", "listener-replay"):
        bfile = os.path.join(wd, "behaviour.ndjson")
        with open(bfile, "w") as f:
            f.write(json.dumps(data["behaviour"]) + "\n")
        out = os.path.join(wd, "rerun.ndjson")
        vlib.run_driver(data["kind"], ["--in", bfile, "--out", out, "--seed", seed])
        tspec = {"api-replay": "Trace_BusApi", "chan-replay": "Trace_ChanApi", "listener-replay": "Trace_ListenerApi"}[data["kind"]]
        r = vlib.tlc_trace(tspec + ".tla", tspec + ".cfg", out)
        recs = vlib.read_ndjson(out)
        for (idx, p, why) in r["violations"]:
            verdict.violation(why[:400], dict(kind=data["kind"], behaviour=data["behaviour"], record_index=idx, trace=recs, violated_at=recs[idx - 1]))
        log(f"re-run of the stored behaviour on the current tree: {verdict.violations} violation(s)")
    elif data.get("kind") == "discovery-replay":
        bfile = os.path.join(wd, "behaviour.ndjson")
        with open(bfile, "w") as f:
            f.write(json.dumps(data["behaviour"]) + "\n")
        out = os.path.join(wd, "rerun.ndjson")
        vlib.run_driver("discovery-replay", ["--in", bfile, "--out", out, "--seed", seed])
        r = vlib.tlc_trace("Trace_Discovery.tla", "Trace_Discovery.cfg", out)
        recs = vlib.read_ndjson(out)
        for (idx, p, why) in r["violations"]:
            verdict.violation(why[:400], dict(kind="discovery-replay", behaviour=data["behaviour"], record_index=idx, trace=recs, violated_at=recs[idx - 1]))
        log(f"re-run of the stored behaviour on the current tree: {verdict.violations} violation(s) of {prop}")
    else:
        raise vlib.ToolError("unknown replay kind")
    return verdict
