"""C14 -- byte-stream framing is independent of fragmentation and backpressure.

Technique (DESIGN 4.6 / 6 "C14"):

1. design check: TLC, exhaustive, Framing.tla (implementation-shaped models of Packetizer,
   TokioTransport over a scripted I/O object, Buffered over a scripted inner transport) composed with
   the property observer of FramingObs.tla, on toy sizes: every chunking, both input interfaces,
   every I/O result at every I/O call (spec/MC_Framing_*.cfg);
2. spec -> impl replay: the same module with the real constants (reserve step 65536, backpressure
   boundary 8192, frames of 5 .. 131075 bytes) run as a *case generator*: TLC enumerates complete
   behaviours (checking the same invariants on the way) and prints each as one JSON line; the
   driver `framing` replays every event on the real code and compares it with the specification's
   prediction (frames out, Ready/Pending, error kinds, bytes the mock writer received);
3. impl -> spec trace validation: the real traces of every case that differs from the prediction, of
   a sample of the others and of seeded random open-loop behaviours (random real messages x random
   chunkings / I/O results) are folded through the observer by TLC (Trace_Framing.tla).

Only the observer raises VIOLATION (what the property statement says).  A case whose real trace
differs from the prediction but is accepted by the observer is conformance drift: a DRIFT line,
counted, exit 0.
"""
import json
import os
import shutil
import subprocess
import sys
import time

import vlib
from vlib import log

PROP = "C14"
BIG = [5, 6, 22, 8191, 8192, 8193, 65535, 65536, 65537, 131075]
REAL = dict(MinReserve=65536, MaxReserve=4194304, Slack=0, Boundary=8192)


def tla_seq(s):
    return "<<" + ", ".join(str(x) for x in s) + ">>"


def tla_seqs(seqs):
    return "{" + ", ".join(tla_seq(s) for s in seqs) + "}"


def rotation_pairs(seed, count, offset=0):
    """count pairs over BIG such that every size occurs in first and in second position (count >= 10)."""
    k = 1 + (seed + offset) % 9
    pairs = [(BIG[i % 10], BIG[(i + k + (i // 10)) % 10]) for i in range(count)]
    return [list(p) for p in pairs]


def generators(tier, seed):
    """The case generators: Framing.tla with the real constants, Emit = TRUE."""
    q = tier == "quick"
    all_pairs = [[a, b] for a in BIG for b in BIG]
    g = []
    pk_modes = ["ext", "lazy", "spw", "alt", "alt2"]
    # (a) packetizer, short real frames, every chunking down to single bytes, both interfaces
    small = [[5], [6], [7], [5, 6], [6, 5], [5, 5]]
    if not q:
        small += [[7, 5], [6, 7], [5, 5, 5]]
    g.append(dict(name="pk_all", machine="pk", ins=small, outs=[[]], modes=pk_modes, chunk="all", max_chunks=0,
                  max_calls=1000, max_faults=0, inv="ObsOk PkInv"))
    # (a) packetizer, frames around the backpressure boundary / the reserve step, chunks ending at
    # the interesting offsets (header offsets 1, 3, 4, 5, last byte, frame end, 8192, 65536, 65537)
    g.append(dict(name="pk_edge", machine="pk", ins=rotation_pairs(seed, 10) if q else all_pairs, outs=[[]], modes=pk_modes,
                  chunk="edge", max_chunks=3, max_calls=1000, max_faults=0, inv="ObsOk PkInv"))
    if not q:
        trip = [[p[0], p[1], BIG[(i * 3 + seed) % 10]] for i, p in enumerate(rotation_pairs(seed, 10, 4))]
        # 4259845 = MAX_RESERVE_CAPACITY + MIN_RESERVE_CAPACITY + 5: beyond the upper clamp of the reserve rule
        g.append(dict(name="pk_edge4", machine="pk", ins=rotation_pairs(seed, 10, 2) + trip[:4] + [[4259845], [4194309, 5]], outs=[[]], modes=["ext", "spw", "alt"],
                      chunk="edge", max_chunks=4, max_calls=1000, max_faults=0, inv="ObsOk PkInv"))
    # (b) TokioTransport, receive direction
    g.append(dict(name="rx_all", machine="tokio", ins=[[5], [6, 5]] if q else [[5], [7], [5, 6], [6, 5]], outs=[[]], modes=["free"],
                  chunk="all", max_chunks=0, max_calls=8, max_faults=1 if q else 2, inv="ObsOk PkInv TokInv"))
    g.append(dict(name="rx_edge", machine="tokio", ins=rotation_pairs(seed, 10, 3) if q else all_pairs, outs=[[]], modes=["free"],
                  chunk="edge", max_chunks=3, max_calls=8, max_faults=1, inv="ObsOk PkInv TokInv"))
    if not q:
        g.append(dict(name="rx_huge", machine="tokio", ins=[[4259845, 5], [22, 4194309]], outs=[[]], modes=["free"],
                      chunk="edge", max_chunks=3, max_calls=8, max_faults=1, inv="ObsOk PkInv TokInv"))
    # (b) TokioTransport, send direction: below, at and above the backpressure boundary
    g.append(dict(name="tx_all", machine="tokio", ins=[[]], outs=[[5], [7]], modes=["free"],
                  chunk="all", max_chunks=0, max_calls=10, max_faults=1 if q else 2, inv="ObsOk TokInv"))
    if not q:
        g.append(dict(name="tx_all2", machine="tokio", ins=[[]], outs=[[5, 6], [6, 5]], modes=["free"],
                      chunk="all", max_chunks=0, max_calls=10, max_faults=1, inv="ObsOk TokInv"))
    tx_big = [[5, 6], [8191, 5], [8192, 5], [8193, 6], [5, 8187, 22], [65537, 22], [131075, 5]]
    if not q:
        tx_big += [[22, 8169, 5], [8191, 8193], [65536, 65535, 6]]
    g.append(dict(name="tx_edge", machine="tokio", ins=[[]], outs=tx_big, modes=["free"],
                  chunk="edge", max_chunks=3, max_calls=9 if q else 10, max_faults=1, inv="ObsOk TokInv"))
    # (b) both directions interleaved
    g.append(dict(name="mix", machine="tokio", ins=[[5, 6]] if q else [[5, 6], [22, 8193]], outs=[[6, 5]] if q else [[6, 5], [8192, 5]], modes=["free"],
                  chunk="edge", max_chunks=2, max_calls=8 if q else 9, max_faults=1, inv="ObsOk PkInv TokInv"))
    # (c) Buffered over a scripted inner transport
    msgs = [[], [6], [6, 6]] if q else [[], [6], [6, 6], [6, 6, 6]]
    g.append(dict(name="buf", machine="buf", ins=msgs, outs=msgs, modes=["free"], chunk="all", max_chunks=0,
                  max_calls=9 if q else 10, max_faults=1 if q else 2, inv="ObsOk BufInv"))
    return g


DESIGN = {
    "quick": ["MC_Framing_Pk", "MC_Framing_TokioRxQ", "MC_Framing_TokioTxQ", "MC_Framing_TokioMix", "MC_Framing_Buf"],
    "thorough": ["MC_Framing_Pk", "MC_Framing_PkT", "MC_Framing_TokioRx", "MC_Framing_TokioTx", "MC_Framing_TokioMix", "MC_Framing_TokioMixT", "MC_Framing_Buf"],
}


# ------------------------------------------------------------------------------------------------
def build():
    t0 = time.time()
    lock = os.path.join(vlib.HARNESS, "Cargo.lock")
    if not os.path.exists(lock):
        shutil.copy("/repo/Cargo.lock", lock)
    env = dict(os.environ, CARGO_NET_OFFLINE="true", CARGO_TERM_COLOR="never")
    for attempt in range(3):
        p = subprocess.run(["cargo", "build", "--offline", "-p", "framing-driver"], cwd=vlib.HARNESS, env=env,
                           stdout=subprocess.PIPE, stderr=subprocess.STDOUT, text=True)
        if p.returncode == 0:
            break
        if "Blocking waiting" in p.stdout or "could not acquire" in p.stdout:
            time.sleep(5)
            continue
        sys.stdout.write(p.stdout[-6000:])
        raise vlib.ToolError("framing-driver build failed")
    else:
        raise vlib.ToolError("framing-driver build failed (lock)")
    log(f"[build] framing-driver built in {time.time() - t0:.1f}s")


def run_tlc(cwd, module, cfg, out_path, workers, timeout, case_file=None):
    """Runs TLC with stdout streamed to a file.  "CASE ..." lines are decoded, deduplicated and written to
    case_file; returns dict(ok, distinct, generated, violation, tail, cases)."""
    import hashlib
    import re
    meta = vlib.workdir(f"framing/meta-{os.getpid()}-{time.time_ns()}")
    env = dict(os.environ)
    env["JAVA_TOOL_OPTIONS"] = "-Xss1g -Xmx8g"
    cmd = ["tlc", "-workers", str(workers), "-metadir", meta, "-cleanup", "-noGenerateSpecTE", "-config", cfg, module]
    t0 = time.time()
    with open(out_path, "w") as f:
        try:
            subprocess.run(cmd, cwd=cwd, env=env, stdout=f, stderr=subprocess.STDOUT, timeout=timeout)
        except subprocess.TimeoutExpired:
            shutil.rmtree(meta, ignore_errors=True)
            raise vlib.ToolError(f"TLC timed out on {cfg}")
    shutil.rmtree(meta, ignore_errors=True)
    other = []
    seen = set()
    ncases = 0
    cf = open(case_file, "w") if case_file else None
    with open(out_path, errors="replace") as f:
        for line in f:
            if line.startswith('"CASE '):
                if cf is None:
                    continue
                try:
                    c = json.loads(line)[5:]
                except Exception:
                    continue
                h = hashlib.md5(c.encode()).digest()
                if h not in seen:
                    seen.add(h)
                    cf.write(c + "\n")
                    ncases += 1
            elif len(other) < 20000:
                other.append(line)
    if cf:
        cf.close()
    os.remove(out_path)
    text = "".join(other)
    gen = re.search(r"(\d+) states generated, (\d+) distinct states found, (\d+) states left on queue", text)
    violated = re.search(r"Error: Invariant (\S+) is violated", text)
    if gen is None and not violated:
        sys.stdout.write(text[-5000:])
        raise vlib.ToolError(f"TLC failed on {cfg}")
    if "Error:" in text and not violated:
        sys.stdout.write(text[-5000:])
        raise vlib.ToolError(f"TLC error on {cfg}")
    depth = re.search(r"depth of the complete state graph search is (\d+)", text)
    return dict(ok=violated is None, generated=int(gen.group(1)) if gen else 0, distinct=int(gen.group(2)) if gen else 0,
                left=int(gen.group(3)) if gen else -1, depth=int(depth.group(1)) if depth else None,
                violation=violated.group(0) if violated else None, tail=text[-6000:] if violated else "",
                wall_s=round(time.time() - t0, 1), cases=ncases)


def nth_line(path, no):
    with open(path) as f:
        for i, line in enumerate(f):
            if i == no:
                return json.loads(line)
    return None


def run_dir(sub):
    """Work directory of this run (removed at the end); with the development hook VERIF_FRAMING_REUSE a fixed one."""
    if os.environ.get("VERIF_FRAMING_REUSE") or os.environ.get("VERIF_FRAMING_KEEP"):
        return vlib.workdir(f"framing/{sub}")
    return vlib.workdir(f"framing/run-{os.getpid()}/{sub}")


def cleanup():
    if not (os.environ.get("VERIF_FRAMING_REUSE") or os.environ.get("VERIF_FRAMING_KEEP")):
        shutil.rmtree(os.path.join(vlib.WORK, f"framing/run-{os.getpid()}"), ignore_errors=True)


def gen_dir():
    d = run_dir("gen")
    for f in ("Framing.tla", "FramingObs.tla"):
        shutil.copy(os.path.join(vlib.SPEC, f), os.path.join(d, f))
    return d


def write_generator(d, g):
    name = "MC_FramingGen_" + g["name"]
    with open(os.path.join(d, name + ".tla"), "w") as f:
        f.write(f"---- MODULE {name} ----\n\\* generated by lib/framing_checks.py: case generator, real constants\nEXTENDS Framing\n"
                f"GenIn == {tla_seqs(g['ins'])}\nGenOut == {tla_seqs(g['outs'])}\n====\n")
    modes = "{" + ", ".join(f'"{m}"' for m in g["modes"]) + "}"
    with open(os.path.join(d, name + ".cfg"), "w") as f:
        f.write("SPECIFICATION Spec\nCONSTANTS\n"
                f"  Machine = \"{g['machine']}\"\n  InSeqs <- GenIn\n  OutSeqs <- GenOut\n  Modes = {modes}\n"
                f"  MinReserve = {REAL['MinReserve']}\n  MaxReserve = {REAL['MaxReserve']}\n  Slack = {REAL['Slack']}\n  Boundary = {REAL['Boundary']}\n"
                f"  ChunkMode = \"{g['chunk']}\"\n  MaxChunks = {g['max_chunks']}\n  Bounded = TRUE\n  MaxCalls = {g['max_calls']}\n"
                f"  MaxFaults = {g['max_faults']}\n  Emit = TRUE\nINVARIANTS {g['inv']} EmitCases\nCHECK_DEADLOCK FALSE\n")
    return name


def driver(args, timeout=3000):
    """Runs the driver; a hang of the code under test comes back as {"hang": ...}."""
    # development hook: VERIF_FRAMING_BIN = a driver binary built against another source tree
    return vlib.run_driver(os.environ.get("VERIF_FRAMING_BIN", "framing"), args, timeout=timeout)


def observe(trace_path):
    """TLC folds the observer over a real trace; returns list of (record index, why), number of records."""
    if os.path.getsize(trace_path) == 0:
        return [], 0
    res = vlib.tlc_trace("Trace_Framing.tla", "Trace_Framing.cfg", trace_path, timeout=3000)
    if not res["consumed"]:
        raise vlib.ToolError(f"trace {trace_path} was not consumed by the observer (stopped at {res['consumed_upto']})")
    return [(i, why) for (i, p, why) in res["violations"]], res["states"] - 1


def read_idx(trace_path):
    return vlib.read_ndjson(trace_path + ".idx")


def case_of_record(idx, rec):
    for e in idx:
        if e["first_record"] <= rec < e["first_record"] + e["records"]:
            return e
    return None


def judge(verdict, cov, origin, trace_path, cases_by_no, drifts):
    """Folds the observer over the real traces of `trace_path`; VIOLATION for what it rejects, DRIFT for
    cases that merely differ from the prediction."""
    viol, nrec = observe(trace_path)
    cov["records_validated"] += nrec
    idx = read_idx(trace_path)
    recs = vlib.read_ndjson(trace_path) if viol else []
    bad = set()
    for (rec, why) in viol:
        e = case_of_record(idx, rec)
        no = e["case"] if e else -1
        bad.add(no)
        real = recs[e["first_record"] - 1:e["first_record"] - 1 + e["records"]] if e else []
        payload = dict(kind="case", origin=origin, case=cases_by_no(no), real_trace=real, violated_at_event=rec - e["first_record"] if e else None,
                       first_difference=dict(step=e.get("first_mismatch"), expected=e.get("expected"), got=e.get("got")) if e else None)
        verdict.violation(why, payload)
    for e in idx:
        if e.get("first_mismatch") is not None and e["case"] not in bad:
            drifts.append(dict(origin=origin, case=e["case"], step=e["first_mismatch"], expected=e.get("expected"), got=e.get("got"), stopped=e.get("stopped")))
    return len(idx)


# ------------------------------------------------------------------------------------------------
def design_job(name):
    cfg = name + ".cfg"
    return ("design", cfg, vlib.tlc_mc("MC_Framing.tla", cfg, workers=4, timeout=1500))


def generator_job(d, g, tier, seed):
    """TLC enumerates the behaviours of one generator; the driver replays them on the real code (twice: all
    cases, keeping the traces of those that differ; and a sample with all traces for the observer)."""
    name = write_generator(d, g)
    case_file = os.path.join(d, name + ".cases")
    if os.environ.get("VERIF_FRAMING_REUSE") and os.path.exists(case_file):
        # development hook: skip TLC, replay the cases of the previous run
        res = dict(ok=True, distinct=0, generated=0, left=0, wall_s=0, cases=sum(1 for _ in open(case_file)))
    else:
        res = run_tlc(d, name + ".tla", name + ".cfg", os.path.join(d, name + ".out"), workers=4, timeout=2400, case_file=case_file)
    if not res["ok"]:
        return ("gen", g, name, res, None, None, None, None)
    ncases = res["cases"]
    if not ncases:
        raise vlib.ToolError(f"generator {g['name']} produced no case")
    trace = os.path.join(d, name + ".real.ndjson")
    summ = driver(["replay", "--cases", case_file, "--traces", trace])
    if "hang" in summ:
        h = summ["hang"]
        with open(trace, "w") as f:
            f.write("\n".join(json.dumps(r) for r in h["real"]) + "\n")
        with open(trace + ".idx", "w") as f:
            f.write(json.dumps(dict(case=h["case"], first_record=1, records=len(h["real"]), first_mismatch=len(h["real"]) - 1, stopped="hang")) + "\n")
        summ = dict(cases=h["case"] + 1, events=0, mismatching_cases=1, nontrivial_cases=0)
        return ("gen", g, name, res, case_file, summ, trace, None)
    # cross-check of the fast path: a sample of the cases is judged by the observer whether or not it agrees
    step = max(1, ncases // (150 if tier == "quick" else 1200))
    start = (seed + g["max_calls"]) % step
    sample_file = os.path.join(d, name + ".sample.cases")
    with open(sample_file, "w") as f, open(case_file) as cf:
        for i, line in enumerate(cf):
            if i % step == start:
                f.write(line)
    strace = os.path.join(d, name + ".sample.ndjson")
    s2 = driver(["replay", "--cases", sample_file, "--traces", strace, "--all-traces"])
    return ("gen", g, name, res, case_file, summ, trace, strace if "hang" not in s2 else None)


def model_check_and_replay(tier, seed, verdict, cov, drifts, samples):
    from concurrent.futures import ThreadPoolExecutor
    d = gen_dir()
    sample_traces = []
    with ThreadPoolExecutor(max_workers=3) as pool:
        futs = [pool.submit(generator_job, d, g, tier, seed) for g in generators(tier, seed)]
        if not os.environ.get("VERIF_FRAMING_REUSE"):
            futs += [pool.submit(design_job, name) for name in DESIGN[tier]]
        results = [f.result() for f in futs]
    for r in results:
        if r[0] == "design":
            _, cfg, res = r
            cov["states"] += res["distinct"]
            cov["transitions"] += res["generated"]
            cov["mc"].append(dict(config=cfg, kind="design check (toy sizes, exhaustive)", distinct=res["distinct"], generated=res["generated"],
                                  depth=res["depth"], complete=res["left"] == 0, wall_s=res["wall_s"]))
            log(f"[tlc] {cfg}: {res['distinct']} distinct states, {res['generated']} generated, {res['wall_s']}s")
            if not res["ok"]:
                verdict.violation(f"design check {cfg}: {res['violation']}", dict(kind="tlc-mc", config=cfg, module="MC_Framing.tla", output_tail=res["raw"][-6000:]))
            continue
        _, g, name, res, case_file, summ, trace, strace = r
        cov["states"] += res["distinct"]
        cov["transitions"] += res["generated"]
        if not res["ok"]:
            verdict.violation(f"generator {g['name']}: {res['violation']}", dict(kind="tlc-gen", generator=g, output_tail=res["tail"]))
            continue
        cov["mc"].append(dict(config=name + ".cfg", kind="case generator (real constants, exhaustive within its bounds)", distinct=res["distinct"],
                              generated=res["generated"], complete=res["left"] == 0, wall_s=res["wall_s"], cases=res["cases"],
                              replayed=summ["cases"], differing=summ["mismatching_cases"]))
        log(f"[gen] {g['name']}: {res['distinct']} states, {res['cases']} cases in {res['wall_s']}s; replayed {summ['cases']} on the real code, "
            f"{summ['mismatching_cases']} differ from the prediction")
        cov["cases_replayed"] += summ["cases"]
        cov["events_replayed"] += summ.get("events", 0)
        cov["nontrivial"] += summ.get("nontrivial_cases", 0)
        cov["bytes_fed"] += summ.get("bytes_fed", 0)
        cov["bytes_written"] += summ.get("bytes_written", 0)
        for k in ("frame_sizes", "first_spare", "header_cut_offsets"):
            cov[k] = sorted(set(cov[k]) | set(summ.get(k, [])))
        cov["single_byte_feeds"] += summ.get("single_byte_feeds", 0)
        cov["panics"] += summ.get("panics", 0)
        if len(samples) < 8:
            samples.append(dict(generator=g["name"], case=nth_line(case_file, res["cases"] // 2)))
        if summ["mismatching_cases"]:
            judge(verdict, cov, g["name"], trace, lambda no, case_file=case_file: nth_line(case_file, no), drifts)
        if strace:
            sample_traces.append((g["name"], strace))
    return sample_traces


def merge_traces(parts, out):
    """Concatenates traces (each with its .idx) into one file, so that one TLC run judges them all."""
    n = 0
    with open(out, "w") as f, open(out + ".idx", "w") as fi:
        for (origin, path) in parts:
            k = 0
            for line in open(path):
                if line.strip():
                    f.write(line)
                    k += 1
            for e in read_idx(path):
                e["first_record"] += n
                e["origin"] = origin
                e["first_mismatch"] = None      # differences were handled where they arose
                fi.write(json.dumps(e) + "\n")
            n += k
    return n


def random_behaviours(tier, seed, verdict, cov, drifts, samples, sample_traces):
    """Seeded open-loop behaviours on the real code; every one of them, and the sampled TLC cases, are judged by
    the observer in one TLC run."""
    d = run_dir("random")
    count = 400 if tier == "quick" else 6000
    trace = os.path.join(d, f"random-{seed}.ndjson")
    args = ["random", "--seed", seed, "--count", count, "--max-frame", 204800, "--traces", trace]
    summ = driver(args)
    if "hang" in summ:
        h = summ["hang"]
        verdict.violation("the code under test did not return", dict(kind="random", driver_args=[str(a) for a in args], case=dict(ev=h["real"][:-1]), real_trace=h["real"]))
        return
    merged = os.path.join(d, f"merged-{seed}.ndjson")
    merge_traces([(f"random seed {seed}", trace)] + sample_traces, merged)
    recs = None

    def case_no(no_unused):
        return None
    viol, nrec = observe(merged)
    cov["records_validated"] += nrec
    idx = read_idx(merged)
    if viol:
        recs = vlib.read_ndjson(merged)
    for (rec, why) in viol:
        e = case_of_record(idx, rec)
        real = recs[e["first_record"] - 1:e["first_record"] - 1 + e["records"]] if e else []
        verdict.violation(why, dict(kind="case", origin=e.get("origin") if e else "?", case=dict(ev=real), real_trace=real,
                                    violated_at_event=rec - e["first_record"] if e else None))
    nrand = sum(1 for e in idx if e.get("origin", "").startswith("random"))
    cov["random_cases"] += nrand
    cov["traces_validated"] += len(idx)
    cov["nontrivial"] += summ.get("nontrivial_cases", 0)
    cov["bytes_fed"] += summ.get("bytes_fed", 0)
    cov["bytes_written"] += summ.get("bytes_written", 0)
    cov["random_frame_sizes"] = len(summ.get("frame_sizes", []))
    cov["panics"] += summ.get("panics", 0)
    log(f"[random] {nrand} seeded open-loop behaviours on the real code ({summ.get('events', 0)} events, {summ.get('bytes_fed', 0)} bytes fed, "
        f"{len(summ.get('frame_sizes', []))} distinct frame sizes); observer judged {len(idx)} behaviours / {nrec} records (random + sampled TLC cases)")
    rand = [e for e in idx if e.get("origin", "").startswith("random")]
    if rand:
        all_recs = recs if recs is not None else vlib.read_ndjson(merged)
        e = rand[len(rand) // 3]
        samples.append(dict(generator="random", case=dict(ev=all_recs[e["first_record"] - 1:e["first_record"] - 1 + e["records"]])))


def selftest(seed, verdict, cov, drifts):
    """The binding binds: (1) the observer accepts a hand-written correct trace and rejects it once one value is
    corrupted (pure specification, independent of the code under test); (2) one corrupted prediction makes the
    comparison with the real code fail.  If the real code disagrees with the hand-written cases themselves, that is
    data for the observer (VIOLATION or DRIFT), not a tool error."""
    d = run_dir("selftest")
    ok = {}
    case = {"ev": [{"t": "reset", "m": "pk", "in": [5, 22], "out": []}, {"t": "ext", "n": 4}, {"t": "nxt", "f": 0}, {"t": "spw", "n": 2}, {"t": "nxt", "f": 1},
                   {"t": "nxt", "f": 0}, {"t": "ext", "n": 21}, {"t": "nxt", "f": 2}, {"t": "nxt", "f": 0}]}
    tok = {"ev": [{"t": "reset", "m": "tokio", "in": [6], "out": [7]},
                  {"t": "recv", "s": [3, -1], "rd": 3, "ev": ["pend"], "x": 0, "r": "pend", "f": 0, "e": ""},
                  {"t": "rdy", "s": [], "fs": [], "wn": 0, "wm": 1, "ev": [], "x": 0, "r": "ok", "e": ""},
                  {"t": "sta", "m": 1, "r": "ok"},
                  {"t": "fls", "s": [3, 0], "fs": [], "wn": 3, "wm": 1, "ev": ["w0"], "x": 0, "r": "err", "e": "wz"}]}
    # (1) observer on hand-written traces
    recs = case["ev"] + tok["ev"]
    t1 = os.path.join(d, "handwritten.ndjson")
    with open(t1, "w") as f:
        f.write("\n".join(json.dumps(r) for r in recs) + "\n")
    v, _ = observe(t1)
    ok["observer_accepts_correct_trace"] = v == []
    recs = json.loads(json.dumps(recs))
    recs[8] = {"t": "nxt", "f": 2}                      # the second frame comes out twice
    recs[-1] = dict(recs[-1], r="ok", ev=[], e="")      # the flush returns Ok with 4 of 7 bytes unwritten
    t2 = os.path.join(d, "corrupt.ndjson")
    with open(t2, "w") as f:
        f.write("\n".join(json.dumps(r) for r in recs) + "\n")
    v, _ = observe(t2)
    ok["observer_rejects_corrupted_trace"] = sorted(i for (i, _) in v) == [9, len(recs)]
    # (2) comparison with the real code
    good = os.path.join(d, "good.cases")
    with open(good, "w") as f:
        f.write(json.dumps(case) + "\n" + json.dumps(tok) + "\n")
    gtrace = os.path.join(d, "good.ndjson")
    s = driver(["replay", "--cases", good, "--traces", gtrace])
    if "hang" in s or s.get("mismatching_cases"):
        ok["corrupted_prediction_detected"] = "skipped: the code under test disagrees with the hand-written cases"
        if "hang" not in s:
            judge(verdict, cov, "hand-written", gtrace, lambda no: [case, tok][no] if 0 <= no < 2 else None, drifts)
    else:
        bad = json.loads(json.dumps(case))
        bad["ev"][7]["f"] = 1
        bad2 = json.loads(json.dumps(tok))
        bad2["ev"][4]["wn"] = 4
        badf = os.path.join(d, "bad.cases")
        with open(badf, "w") as f:
            f.write(json.dumps(bad) + "\n" + json.dumps(bad2) + "\n")
        s = driver(["replay", "--cases", badf, "--traces", os.path.join(d, "bad.ndjson")])
        idx = read_idx(os.path.join(d, "bad.ndjson"))
        ok["corrupted_prediction_detected"] = s.get("mismatching_cases") == 2 and [e["first_mismatch"] for e in idx] == [7, 4]
    cov["selftest"] = ok
    if not all(ok.values()):
        raise vlib.ToolError(f"self test of the C14 binding failed: {ok}")
    log(f"[selftest] {ok}")


def new_cov():
    return dict(states=0, transitions=0, mc=[], cases_replayed=0, events_replayed=0, nontrivial=0, bytes_fed=0, bytes_written=0,
                frame_sizes=[], first_spare=[], header_cut_offsets=[], single_byte_feeds=0, panics=0, records_validated=0,
                traces_validated=0, random_cases=0)


def run(prop, tier, seed):
    t0 = time.time()
    verdict = vlib.Verdict(prop)
    cov = new_cov()
    drifts = []
    samples = []
    build()
    selftest(seed, verdict, cov, drifts)
    sample_traces = model_check_and_replay(tier, seed, verdict, cov, drifts, samples)
    random_behaviours(tier, seed, verdict, cov, drifts, samples, sample_traces)
    finish(prop, tier, seed, verdict, cov, drifts, samples, t0)
    cleanup()
    return verdict


def finish(prop, tier, seed, verdict, cov, drifts, samples, t0):
    for dr in drifts[:20]:
        log(f"DRIFT property={prop} {dr['origin']} case {dr['case']} step {dr['step']}: predicted {json.dumps(dr['expected'])} real {json.dumps(dr['got'])}"
            + (f" (stopped: {dr['stopped']})" if dr.get("stopped") else ""))
    if len(drifts) > 20:
        log(f"DRIFT property={prop} ... {len(drifts) - 20} more")
    if cov["first_spare"] and cov["first_spare"] != [REAL["MinReserve"]]:
        log(f"DRIFT property={prop} first spare slice of a fresh packetizer is {cov['first_spare']}, the model says {REAL['MinReserve']}")
    coverage = dict(
        states=cov["states"], transitions=cov["transitions"], mc=cov["mc"],
        traces_validated_against_impl=cov["cases_replayed"] + cov["random_cases"],
        evaluations=cov["cases_replayed"] + cov["random_cases"],
        distinct_nontrivial=cov["nontrivial"],
        rule=("one evaluation = one complete behaviour (TLC-enumerated case or seeded random behaviour) executed event by event on the real "
              "Packetizer / TokioTransport / Buffered; TLC-enumerated cases are distinct by construction (duplicates removed before replay); "
              "non-trivial = at least two input items (chunks fed, I/O script items)"),
        samples=samples[:8],
        cases_replayed=cov["cases_replayed"], events_replayed=cov["events_replayed"], random_behaviours=cov["random_cases"],
        records_validated_by_observer=cov["records_validated"], behaviours_validated_by_observer=cov["traces_validated"],
        bytes_fed=cov["bytes_fed"], bytes_received_by_mock_writer=cov["bytes_written"], frame_sizes_replayed=cov["frame_sizes"],
        header_cut_offsets=cov["header_cut_offsets"], single_byte_feeds=cov["single_byte_feeds"], first_spare=cov["first_spare"],
        drift=len(drifts), drift_samples=drifts[:5], panics=cov["panics"], selftest=cov.get("selftest"),
    )
    vlib.write_evidence(prop, tier, seed, "model_checking", coverage, time.time() - t0, verdict.violations,
                        assumptions=["usage contract of Packetizer::spare_capacity_mut (DESIGN 9.3): only called after next_message returned None",
                                     "frames are serialized messages: length prefix = frame length >= 5",
                                     "the scripted I/O object stands for any AsyncRead + AsyncWrite; real sockets are out of scope",
                                     "capacity growth of BytesMut is modelled as 'at least what was asked for'"])


def replay(prop, path, seed):
    verdict = vlib.Verdict(prop)
    payload = json.load(open(path))
    build()
    kind = payload.get("kind")
    if kind == "tlc-mc":
        res = vlib.tlc_mc(payload["module"], payload["config"], workers=8, timeout=1500)
        if not res["ok"]:
            verdict.violation(f"design check {payload['config']}: {res['violation']}", dict(payload, output_tail=res["raw"][-6000:]))
        return verdict
    if kind == "tlc-gen":
        d = gen_dir()
        name = write_generator(d, payload["generator"])
        res = run_tlc(d, name + ".tla", name + ".cfg", os.path.join(d, name + ".out"), workers=8, timeout=2400)
        if not res["ok"]:
            verdict.violation(f"generator {payload['generator']['name']}: {res['violation']}", dict(payload, output_tail=res["tail"]))
        cleanup()
        return verdict
    case = payload.get("case")
    if not case:
        raise vlib.ToolError("replay file without a case")
    d = run_dir("replay")
    cf = os.path.join(d, "case.cases")
    with open(cf, "w") as f:
        f.write(json.dumps(case) + "\n")
    trace = os.path.join(d, "case.ndjson")
    summ = driver(["replay", "--cases", cf, "--traces", trace, "--all-traces"])
    if "hang" in summ:
        with open(trace, "w") as f:
            f.write("\n".join(json.dumps(r) for r in summ["hang"]["real"]) + "\n")
        with open(trace + ".idx", "w") as f:
            f.write(json.dumps(dict(case=0, first_record=1, records=len(summ["hang"]["real"]), first_mismatch=None)) + "\n")
    cov = new_cov()
    judge(verdict, cov, "replay of " + os.path.basename(path), trace, lambda no: case, [])
    log(f"[replay] {summ.get('events', 0)} events re-executed on the real code, {verdict.violations} violation(s)")
    cleanup()
    return verdict
