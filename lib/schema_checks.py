"""C18 - the formatter preserves the schema and is idempotent.
C20 - type ids are structural: equal iff the wire-relevant layout is equal.

Engine (DESIGN 4.9 / 6 C18, C20), specification /verif/spec/SchemaModel.tla:

C18  1. TLC checks SchemaModel_MC18 exhaustively over the enumerated (schema, layout) pairs - per corpus
        schema: one populated prelude position at a time (every position x every comment / doc / inline doc /
        attribute class the grammar admits there), one populated whitespace gap at a time, uniform layouts,
        seeded-random combinations - the theorems Inv_Layout (the layout is admissible; stripping it gives the
        lexical tokens), Inv_Norm (the model's ideal formatter preserves Ast, keeps the schema well formed and
        is idempotent), Inv_Inj (same Ast <=> same tokens of the normal form), and writes every pair as
        (text, expected AST).
     2. `schema-fmt run` runs the REAL Parser / Formatter on every pair and on every *.aldrin file of /repo:
        R2 no panic, R3 the formatted text parses, R4 same AST as the input, R5 same AST as the specification
        says the input denotes, R6 same multiset of errors and warnings (spans aside), R7 format(t1) == t1.
     3. binding sanity: corrupted expected ASTs / swapped texts must be noticed.

C20  1. TLC checks SchemaModel_MC20 exhaustively over presentations of type universes (recursive, mutually
        recursive, generics over built-ins, generic custom types = Rust tuples of arity 1..4 over built-ins and
        definitions, services, two schemas, the bookmarks_v2 types of the repo's tests):
        Inv_WF (every presentation is a well-formed universe of well-formed type expressions),
        Inv_Algo (the worklist of compute_from_dyn collects exactly the reachable set whatever the orders),
        Inv_Perm (CanonId invariant under every permutation / doc / impl choice), Inv_Edit (CanonId changes
        under a single semantic edit iff the edited definition is the root or transitively referenced), and
        writes every presentation with its CanonId.
        Tuples (SchemaModel!Tup): the lexical id of the TYPE is generic over the element ids, its LAYOUT is
        the struct std::TupleN { required field<i> @ i }, so all tuples of one arity share the schema and name
        of their layout.  The universes "tuples" / "tuplenest" hold a root with two different tuples of one
        arity (both declaration orders through pmem / rord / combo), a definition reachable only through one
        of two same-arity tuples (every edit of it must change the root's id), tuples in tuples and below
        option / vec / map, in a service, recursion through a tuple; the seeded-random universes draw tuples
        too; fields of tuple type have the extra edit sites element type / arity / element order.
     2. `schema-ids run` builds the ir::LayoutIr values through the public builders, computes the REAL
        TypeId::compute_from_dyn, the Introspection record and its serialization round trip, and decides
        equal CanonId <=> equal TypeId against the base of every case and pairwise across the corpus;
        re-derives the pinned ids of core/src/introspection/test.  With impl = "real" the built-in generics
        AND the tuples are the real Introspectable impls of aldrin-core (core/src/impls/tuple.rs) over slot
        types; otherwise a tuple is hand-built IR as the specification describes it - the two must agree.
     3. binding sanity: corrupted CanonIds / a corrupted presentation must be noticed.
     4. derive-macro types whose ids are partly IMPLICIT (SchemaDerive.tla, SchemaDerive_MC.tla).  The rule of the macros
        (macros/src/derive/{enum_data,struct_data,introspectable}.rs): the explicit `#[aldrin(id = N)]` if given, otherwise the
        id of the previous item + 1 (first item: 0) - the same for enum variants, fields of structs with named fields and fields
        of tuple structs.  TLC enumerates the id patterns (every sequence of length 0..MaxLen over Ids + "no id", seeded-random
        longer ones, and for each the same assignment with all ids written out as the code generator writes them; patterns that
        assign an id twice are left out - the macros do not reject them, but they denote no wire layout), checks Inv_Rule
        (recursive rule = closed form, fixed point), Inv_WFD, Inv_Explicit (writing the ids out / named vs tuple struct: same
        CanonId), Inv_Classes (equal CanonId <=> same layout kind and same assignment) and writes every (kind, pattern) with
        its expected ids, the definition it denotes and its CanonId.
        From exactly those vectors this module writes a crate under /verif/.work/c20-derive (never committed) with one real
        `#[derive(Tag, PrimaryTag, RefType, Serialize, Deserialize, Introspectable)]` type per (kind, pattern) - the attribute
        `#[aldrin(id = N)]` only where the pattern has an explicit id -, cargo/rustc compile it against /repo's working tree on
        every run, and harness/crates/schema-driver/src/derive_rt.rs observes for every type (a) the ids on the wire
        (serialize by value and by reference, read back as a dynamic aldrin_core::Value), (b) the ids in the layout of
        Introspection::new::<T>(), (c) TypeId::compute::<T>(), (d) the TypeId of hand-built IR of the specification's
        definition, and decides:
          D1 no panic; D2 (a) = (b): the layout behind the type id is the wire layout; D3 (c) = (d) with the ids used on the
          wire; D4 across the corpus equal CanonId <=> equal TypeId.
        Wire ids that are not the specification's assignment while layout and wire agree (a consistently different numbering
        rule), by-value / by-reference disagreement and failures of the derived Deserialize are DRIFT (not C20's statement).
        Binding sanity: falsified expected assignments must be noticed (as DRIFT and as D4 class disagreement).
        `bin/check C20 --replay <file>` of such a finding regenerates a crate with the recorded pattern(s) only, compiles it
        against the current tree and judges it as in a run.
"""
import glob
import json
import os
import re
import shutil
import subprocess
import sys
import time

import vlib
from vlib import log

TIERS = {
    "C18": {"quick": dict(cfg="SchemaModel_MC18.cfg", tlc_timeout=900, workers=4),
            "thorough": dict(cfg="SchemaModel_MC18_thorough.cfg", tlc_timeout=1700, workers=6)},
    "C20": {"quick": dict(cfg="SchemaModel_MC20.cfg", tlc_timeout=600, workers=4),
            "thorough": dict(cfg="SchemaModel_MC20_thorough.cfg", tlc_timeout=1500, workers=6)},
}
MODULE = {"C18": "SchemaModel_MC18", "C20": "SchemaModel_MC20"}
THEOREMS = {"C18": ["Inv_Layout", "Inv_Norm", "Inv_Inj"], "C20": ["Inv_WF", "Inv_Algo", "Inv_Perm", "Inv_Edit"]}
DRIVER = {"C18": "schema-fmt", "C20": "schema-ids"}


def build():
    # the workspace is shared ("members = crates/*"): a sibling crate that is being created can make the
    # manifest unloadable for a moment - retry before giving up
    for attempt in range(4):
        try:
            vlib.build_harness(["schema-driver"])
            return
        except vlib.ToolError:
            if attempt == 3:
                raise
            time.sleep(20)


def model_check(prop, tier, seed, vectors):
    cfg = TIERS[prop][tier]
    res = vlib.tlc_mc(MODULE[prop], cfg["cfg"], workers=cfg["workers"], timeout=cfg["tlc_timeout"],
                      extra_env=dict(VECTORS=vectors, SEED=str(seed)), heap="8g")
    if not res["ok"]:
        print(res["raw"][-5000:])
        raise vlib.ToolError(f"the specification fails its own theorems ({cfg['cfg']}): {res['violation']}")
    m = re.search(r'"VECTORS-WRITTEN",\s*(\d+)', res["out"])
    if m is None or not os.path.exists(vectors):
        raise vlib.ToolError("TLC did not write the vectors")
    log(f"[tlc] {MODULE[prop]}/{cfg['cfg']}: {res['distinct']} states, {res['generated']} generated, depth {res['depth']}, "
        f"{m.group(1)} cases emitted, {res['wall_s']}s")
    return res, int(m.group(1))


def report(prop, verdict, s, seed, tier):
    """Driver findings -> VIOLATION / DRIFT lines (exact counts; one replay file per distinct reason)."""
    first = {}
    for v in s.get("violations", []):
        first.setdefault(v["why"], v["case"])
    for why, n in s.get("violations_by_why", {}).items():
        payload = first.get(why, {})
        payload = payload if "case" in payload else dict(case=payload)
        for _ in range(n):
            verdict.violation(why, dict(payload, seed=seed, tier=tier))
    firstd = {}
    for d in s.get("drifts", []):
        firstd.setdefault(d["why"], d["case"])
    for why, n in s.get("drifts_by_why", {}).items():
        log(f"DRIFT property={prop} {why} ({n}x) first case: {json.dumps(firstd.get(why, {}))[:500]}")
    return s.get("drift_count", 0)


def repo_schema_files():
    files = []
    for root, dirs, names in os.walk("/repo"):
        dirs[:] = [d for d in dirs if d not in ("target", ".git")]
        files += [os.path.join(root, n) for n in names if n.endswith(".aldrin")]
    return sorted(files)


# ------------------------------------------------------------------------------------------------
# C18
def selftest_c18(wd, vectors):
    """The binding must bind: corrupted expected ASTs and swapped texts must be noticed."""
    own, by_name = [], {}
    with open(vectors) as f:
        for line in f:
            v = json.loads(line)
            if "ast" in v and v["kind"] == "pre1" and v["ast"]["defs"]:
                by_name.setdefault(v["name"], []).append(v)
                if len(own) < 6:
                    own.append(v)
            if len(own) >= 6 and any(len(x) >= 40 for x in by_name.values()):
                break
    if len(own) < 6:
        raise vlib.ToolError("selftest: no suitable cases")
    # (a) the driver corrupts the expected AST of the first 6 cases
    p = os.path.join(wd, "selftest-a.ndjson")
    with open(p, "w") as f:
        f.write("\n".join(json.dumps(v) for v in own) + "\n")
    s = vlib.run_driver("schema-fmt", ["run", "--vectors", p, "--corrupt", 6])
    r5 = sum(n for why, n in s["violations_by_why"].items() if why.startswith("R5"))
    if r5 < 6:
        raise vlib.ToolError(f"selftest: corrupted expected ASTs not noticed ({s['violations_by_why']})")
    # (b) two cases of one base schema with different ASTs exchange their texts
    pair = None
    for cases in by_name.values():
        for a in cases:
            for b in cases:
                if a["ast"] != b["ast"]:
                    pair = (a, b)
                    break
            if pair:
                break
        if pair:
            break
    if pair is None:
        raise vlib.ToolError("selftest: no pair of cases with different ASTs")
    a, b = (json.loads(json.dumps(x)) for x in pair)
    a["text"], b["text"] = b["text"], a["text"]
    p = os.path.join(wd, "selftest-b.ndjson")
    with open(p, "w") as f:
        f.write(json.dumps(a) + "\n" + json.dumps(b) + "\n")
    s2 = vlib.run_driver("schema-fmt", ["run", "--vectors", p])
    r5b = sum(n for why, n in s2["violations_by_why"].items() if why.startswith("R5"))
    if r5b < 2:
        raise vlib.ToolError(f"selftest: swapped texts not noticed ({s2['violations_by_why']})")
    log(f"[selftest] 6 corrupted expected ASTs -> {r5} x R5, 2 swapped texts -> {r5b} x R5: the binding binds")
    return dict(corrupted_asts_noticed=r5, swapped_texts_noticed=r5b)


def run_c18(prop, tier, seed):
    t0 = time.time()
    verdict = vlib.Verdict(prop)
    build()
    wd = vlib.workdir(f"c18-{os.getpid()}")
    vectors = os.path.join(wd, "vectors.ndjson")
    mc, n_cases = model_check(prop, tier, seed, vectors)

    files = repo_schema_files()
    flist = os.path.join(wd, "repo-files.txt")
    with open(flist, "w") as f:
        f.write("\n".join(files) + "\n")
    t1 = time.time()
    s = vlib.run_driver("schema-fmt", ["run", "--vectors", vectors, "--repo-files", flist], timeout=1500)
    log(f"[driver] {s['cases']} model cases {s.get('by_kind', {})} + {s.get('repo_files', 0)} repository schemas "
        f"({s.get('repo_skipped_syntax_errors', 0)} with syntax errors skipped) through the real parser / formatter: "
        f"{s.get('nontrivial', 0)} inputs not in formatted form, {s.get('cases_with_diagnostics', 0)} with diagnostics "
        f"({len(s.get('diagnostic_kinds', []))} kinds), rejected by the real grammar {s.get('model_rejected', 0)}, {time.time() - t1:.1f}s")
    if "hang" not in s and s["cases"] != n_cases:
        raise vlib.ToolError(f"driver read {s['cases']} cases, TLC wrote {n_cases}")
    drift = report(prop, verdict, s, seed, tier)

    try:
        st = selftest_c18(wd, vectors)
    except (vlib.ToolError, KeyError, IndexError) as e:
        # the self test presupposes a conforming implementation
        if verdict.violations == 0 and drift == 0:
            raise vlib.ToolError(f"selftest failed: {e!r}")
        st = dict(inconclusive=repr(e))
        log(f"NOTE selftest inconclusive on a non-conforming tree: {e!r}")

    if verdict.violations == 0 and drift == 0:
        shutil.rmtree(wd, ignore_errors=True)
    coverage = dict(
        states=mc["distinct"], transitions=mc["generated"], depth=mc["depth"], tlc_config=TIERS[prop][tier]["cfg"],
        theorems=THEOREMS[prop], cases_enumerated=n_cases, cases_by_kind=s.get("by_kind", {}),
        traces_validated_against_impl=s["cases"], repo_schemas=s.get("repo_files", 0),
        repo_schemas_skipped_syntax_errors=s.get("repo_skipped_syntax_errors", 0),
        model_texts_rejected_by_real_grammar=s.get("model_rejected", 0),
        cases_with_diagnostics=s.get("cases_with_diagnostics", 0), diagnostic_kinds=s.get("diagnostic_kinds", []),
        distinct_formatted_outputs=s.get("distinct_formatted", 0), drift=drift,
        evaluations=s["cases"] + s.get("repo_files", 0), distinct_nontrivial=s.get("nontrivial", 0),
        rule="distinct input texts (model cases and repository schemas) that parse and are not already in formatted form "
             "(format(text) != text), i.e. on which the formatter had to change something",
        samples=s.get("samples", []), selftest=st)
    vlib.write_evidence(prop, tier, seed, "model_checking", coverage, time.time() - t0, verdict.violations, assumptions=[
        "the schema / layout space is a bounded corpus enumerated from the model (9 base schemas; one populated prelude position "
        "or whitespace gap at a time, uniform layouts, seeded-random combinations), not every valid schema",
        "for C18 TLC is chiefly a generator with a known AST: the in-model theorems are about the specification's own Render / Ast / "
        "ideal formatter; preservation (R3-R6) and idempotence (R7) of the real formatter are metamorphic oracles evaluated by the "
        "harness, R5 compares with the specification's AST",
        "comment and doc texts are compared as value_inner() defines them; differences in whitespace only are DRIFT",
        "diagnostics are compared as multisets of their Debug rendering with spans and the raw spelling of quoted comment lines removed",
        "identifiers avoid names that start with a built-in type keyword; no non-ASCII text in the model corpus (repository schemas are taken as they are)",
    ])
    log(f"[{prop}] {tier} seed={seed}: violations={verdict.violations} drift={drift} wall={time.time() - t0:.1f}s")
    return verdict


# ------------------------------------------------------------------------------------------------
# C20
def pinned_ids():
    """The ids pinned by core/src/introspection/test.rs for the bookmarks_v2 types (generated-code shaped impls)."""
    try:
        src = open("/repo/core/src/introspection/test.rs").read()
    except OSError:
        return {}
    pins = {}
    for m in re.finditer(r'compute::<bookmarks_v2::(\w+)>\(\)\s*;\s*assert_eq!\(\s*type_id\.0\s*,\s*uuid!\("([0-9a-fA-F-]+)"\)', src):
        pins[f"bookmarks_v2/{m.group(1)}"] = m.group(2)
    return pins


def selftest_c20(wd, vectors):
    s = vlib.run_driver("schema-ids", ["run", "--vectors", vectors, "--corrupt", 3])
    a = s["violation_count"]
    if a < 1:
        raise vlib.ToolError("selftest: corrupted CanonIds not noticed")
    # a presentation whose required flag is flipped while its CanonId is left alone
    lines = [json.loads(l) for l in open(vectors)]
    hit = None
    for v in lines:
        if v["op"] == "base":
            for d in v["P"]["defs"]:
                if d["k"] == "struct" and d["mem"] and d["schema"] == v["root"]["schema"] and d["name"] == v["root"]["name"]:
                    d["mem"][0]["req"] = not d["mem"][0]["req"]
                    hit = v["id"]
                    break
        if hit:
            break
    if hit is None:
        raise vlib.ToolError("selftest: no struct root")
    p = os.path.join(wd, "selftest.ndjson")
    with open(p, "w") as f:
        f.write("\n".join(json.dumps(v) for v in lines) + "\n")
    s2 = vlib.run_driver("schema-ids", ["run", "--vectors", p])
    b = s2["violation_count"]
    if b < 1:
        raise vlib.ToolError("selftest: a corrupted presentation was not noticed")
    log(f"[selftest] 3 corrupted CanonIds -> {a} violation(s), one flipped `required` in {hit} -> {b} violation(s): the binding binds")
    return dict(corrupted_canon_ids_noticed=a, corrupted_presentation_noticed=b)


# ------------------------------------------------------------------------------------------------
# C20, derive-macro types with partly implicit ids (SchemaDerive.tla / SchemaDerive_MC.tla)
DERIVE_TIERS = {"quick": dict(cfg="SchemaDerive_MC.cfg", tlc_timeout=600, workers=4, build_timeout=1500),
                "thorough": dict(cfg="SchemaDerive_MC_thorough.cfg", tlc_timeout=1500, workers=6, build_timeout=2400)}
DERIVE_THEOREMS = ["Inv_Rule", "Inv_WFD", "Inv_Explicit", "Inv_Classes"]
DERIVE_RUST_TYPES = {"u8": "u8", "u32": "u32", "bool": "bool", "string": "String"}

DERIVE_CARGO_TOML = """# generated by /verif/lib/schema_checks.py (C20, derive corpus) -- never committed
[package]
name = "@NAME@"
version = "0.0.0"
edition = "2021"

[workspace]

[[bin]]
name = "@NAME@"
path = "src/main.rs"

[dependencies]
schema-driver = { path = "/verif/harness/crates/schema-driver" }

[dependencies.aldrin-core]
path = "/repo/core"
features = ["derive", "introspection"]

# the dependencies are built as in /verif/harness (shared target directory); the corpus itself is not optimised
[profile.dev]
opt-level = 0
debug = false
debug-assertions = true
overflow-checks = true
incremental = false

[profile.dev.package."*"]
opt-level = 2
"""

DERIVE_MAIN_RS = """// generated by /verif/lib/schema_checks.py (C20, derive corpus) -- never committed
#![allow(dead_code)]
mod corpus;

fn main() {
    schema_driver::derive_rt::main(&corpus::entries());
}
"""


def derive_model_check(tier, seed, vectors):
    cfg = DERIVE_TIERS[tier]
    res = vlib.tlc_mc("SchemaDerive_MC", cfg["cfg"], workers=cfg["workers"], timeout=cfg["tlc_timeout"],
                      extra_env=dict(DVECTORS=vectors, SEED=str(seed)), heap="4g")
    if not res["ok"]:
        print(res["raw"][-5000:])
        raise vlib.ToolError(f"the specification fails its own theorems ({cfg['cfg']}): {res['violation']}")
    m = re.search(r'"VECTORS-WRITTEN",\s*(\d+),\s*(\d+),\s*(\d+),\s*(\d+)', res["out"])
    if m is None or not os.path.exists(vectors):
        raise vlib.ToolError("TLC did not write the derive vectors")
    n, classes, patterns, discriminating = (int(x) for x in m.groups())
    log(f"[tlc] SchemaDerive_MC/{cfg['cfg']}: {res['distinct']} states, {patterns} id patterns ({discriminating} on which the derive rule and "
        f"numbering by position differ) x 3 kinds = {n} derived types in {classes} CanonId classes, {res['wall_s']}s")
    return res, dict(cases=n, classes=classes, patterns=patterns, discriminating_patterns=discriminating)


def derive_type_source(n, v):
    """The Rust source of one derived type: a pure transcription of the pattern - `#[aldrin(id = N)]` exactly where the
    pattern has an explicit id; names, types and `optional` as the specification's definition says."""
    kind, pat, d = v["kind"], v["pat"], v["def"]
    mem = d["mem"]
    if len(pat) != len(mem):
        raise vlib.ToolError(f"{v['id']}: pattern and definition disagree")

    def attr(j, optional=False):
        parts = ([f"id = {pat[j]}"] if pat[j] >= 0 else []) + (["optional"] if optional else [])
        return f"#[aldrin({', '.join(parts)})] " if parts else ""

    def rust_ty(t):
        if t["k"] not in DERIVE_RUST_TYPES:
            raise vlib.ToolError(f"{v['id']}: member type {t['k']} is not supported by the derive corpus")
        return DERIVE_RUST_TYPES[t["k"]]

    def literal(t, j):
        return {"u8": f"{11 + j}", "u32": f"{11 + j}"}[t["k"]]

    name = d["name"]
    out = [f"pub mod t{n:04} {{",
           "    use aldrin_core::{Deserialize, Introspectable, PrimaryTag, RefType, Serialize, Tag};",
           "",
           f"    // {v['id']}: expected ids {v['ids']}",
           "    #[derive(Clone, PartialEq, Tag, PrimaryTag, RefType, Serialize, Deserialize, Introspectable)]",
           f"    #[aldrin(schema = \"{d['schema']}\", ref_type)]"]
    if kind == "enum":
        if d["k"] != "enum":
            raise vlib.ToolError(f"{v['id']}: not an enum")
        out.append(f"    pub enum {name} {{")
        values = []
        for j, m in enumerate(mem):
            if m["ty"]:
                out.append(f"        {attr(j)}{m['name']}({rust_ty(m['ty'][0])}),")
                values.append(f"{name}::{m['name']}({literal(m['ty'][0], j)})")
            else:
                out.append(f"        {attr(j)}{m['name']},")
                values.append(f"{name}::{m['name']}")
        out.append("    }")
        out.append("")
        out.append(f"    pub fn values() -> Vec<{name}> {{")
        out.append(f"        vec![{', '.join(values)}]")
        out.append("    }")
        entry = f"Entry {{ id: {json.dumps(v['id'])}, observe: |ids| observe_enum::<t{n:04}::{name}>(t{n:04}::values(), ids) }},"
    elif kind in ("struct", "tstruct"):
        if d["k"] != "struct":
            raise vlib.ToolError(f"{v['id']}: not a struct")
        named = kind == "struct"
        out.append(f"    pub struct {name} {{" if named else f"    pub struct {name}(")
        values = []
        for j, m in enumerate(mem):
            ty = rust_ty(m["ty"]) if m["req"] else f"Option<{rust_ty(m['ty'])}>"
            if named:
                out.append(f"        {attr(j, not m['req'])}pub {m['name']}: {ty},")
            else:
                if m["name"] != f"field{j}":
                    raise vlib.ToolError(f"{v['id']}: a tuple struct's fields are called field<index>")
                out.append(f"        {attr(j, not m['req'])}pub {ty},")
            lit = literal(m["ty"], j) if m["req"] else f"Some({literal(m['ty'], j)})"
            values.append(f"{m['name']}: {lit}" if named else lit)
        out.append("    }" if named else "    );")
        out.append("")
        out.append(f"    pub fn value() -> {name} {{")
        out.append(f"        {name} {{ {', '.join(values)} }}" if named else f"        {name}({', '.join(values)})")
        out.append("    }")
        entry = f"Entry {{ id: {json.dumps(v['id'])}, observe: |ids| observe_struct::<t{n:04}::{name}>(t{n:04}::value(), {len(mem)}, ids) }},"
    else:
        raise vlib.ToolError(f"{v['id']}: unknown kind {kind}")
    out.append("}")
    return "\n".join(out), entry


def write_if_changed(path, text):
    try:
        if open(path).read() == text:
            return False
    except OSError:
        pass
    os.makedirs(os.path.dirname(path), exist_ok=True)
    with open(path, "w") as f:
        f.write(text)
    return True


def derive_generate(vecs, crate_dir, pkg):
    mods, entries = [], []
    for n, v in enumerate(vecs):
        src, entry = derive_type_source(n, v)
        mods.append(src)
        entries.append("        " + entry)
    corpus = ("// generated by /verif/lib/schema_checks.py from the patterns TLC printed (SchemaDerive_MC.tla) -- never committed\n"
              "use schema_driver::derive_rt::{observe_enum, observe_struct, Entry};\n\n" + "\n\n".join(mods)
              + "\n\npub fn entries() -> Vec<Entry> {\n    vec![\n" + "\n".join(entries) + "\n    ]\n}\n")
    changed = write_if_changed(os.path.join(crate_dir, "Cargo.toml"), DERIVE_CARGO_TOML.replace("@NAME@", pkg))
    changed |= write_if_changed(os.path.join(crate_dir, "src", "main.rs"), DERIVE_MAIN_RS)
    changed |= write_if_changed(os.path.join(crate_dir, "src", "corpus.rs"), corpus)
    lock = os.path.join(crate_dir, "Cargo.lock")
    if not os.path.exists(lock):
        shutil.copy(os.path.join(vlib.HARNESS, "Cargo.lock"), lock)
    return changed


def derive_build(crate_dir, pkg, timeout):
    """cargo build of the generated crate in the harness's target directory (path deps on /repo => its working tree)."""
    env = dict(os.environ, CARGO_NET_OFFLINE="true", CARGO_TERM_COLOR="never", CARGO_TARGET_DIR=os.path.join(vlib.HARNESS, "target"))
    t0 = time.time()
    try:
        p = subprocess.run(["cargo", "build", "--offline"], cwd=crate_dir, env=env, stdout=subprocess.PIPE, stderr=subprocess.STDOUT,
                           text=True, timeout=timeout)
    except subprocess.TimeoutExpired:
        raise vlib.ToolError("cargo build of the derive corpus crate timed out")
    if p.returncode != 0:
        errs = [l for l in p.stdout.splitlines() if l.startswith("error")]
        sys.stdout.write(p.stdout[-5000:] + "\n")
        raise vlib.ToolError(f"the derive corpus crate does not build ({len(errs)} error line(s)): rustc rejecting derived code is not "
                             "a statement about type ids")
    return round(time.time() - t0, 1)


def derive_run(pkg, vectors, extra=()):
    """Runs the corpus binary; a crash of the process is data about the derived code (-> D1)."""
    p = subprocess.run([os.path.join(vlib.TARGET_BIN, pkg), "run", "--vectors", vectors] + [str(a) for a in extra],
                       stdout=subprocess.PIPE, stderr=subprocess.PIPE, text=True, timeout=1500)
    lines = [l for l in p.stdout.strip().splitlines() if l.strip()]
    try:
        summ = json.loads(lines[-1])
    except Exception:
        summ = None
    if summ is not None and "tool_error" in summ:
        raise vlib.ToolError("derive corpus: " + str(summ["tool_error"])[:400])
    if p.returncode != 0 or summ is None:
        return None, dict(returncode=p.returncode, stderr_tail=p.stderr[-1500:])
    return summ, None


def derive_pipeline(verdict, vecs, wd, pkg, crate_dir, tier, seed, build_timeout):
    """vectors -> generated crate -> rustc -> observations -> decisions.  Returns (summary, drift count, build seconds)."""
    vectors = os.path.join(wd, "derive-vectors.ndjson")
    with open(vectors, "w") as f:
        f.write("\n".join(json.dumps(v) for v in vecs) + "\n")
    changed = derive_generate(vecs, crate_dir, pkg)
    build_s = derive_build(crate_dir, pkg, build_timeout)
    t1 = time.time()
    s, crash = derive_run(pkg, vectors)
    if crash is not None:
        verdict.violation("D1 the process running the derived types died (abort / stack overflow / fault)",
                          dict(case=dict(derive=True, cases=vecs[:40], crash=crash), seed=seed, tier=tier))
        return None, 0, build_s
    log(f"[derive] {s['cases']} derived types {s['by_kind']} ({s['items']} variants / fields) compiled by rustc against /repo "
        f"({'source changed, ' if changed else 'source unchanged, '}cargo {build_s}s) and observed: wire ids = layout ids = expected ids on "
        f"{s['agreeing']}, {s['discriminating']} types on which numbering by position would differ, {s['classes']} CanonId classes, "
        f"{s['distinct_type_ids']} distinct real ids, {s['checks']} comparisons, {time.time() - t1:.1f}s")
    if s["cases"] != len(vecs):
        raise vlib.ToolError(f"derive corpus read {s['cases']} cases of {len(vecs)}")
    drift = report("C20", verdict, s, seed, tier)
    return s, drift, build_s


def selftest_derive(pkg, wd, n_cases):
    """A falsified expected assignment (and with it the expected description) must be noticed."""
    vectors = os.path.join(wd, "derive-vectors.ndjson")
    s, crash = derive_run(pkg, vectors, ["--corrupt", 3])
    if crash is not None or s is None:
        raise vlib.ToolError("selftest: the derive corpus died")
    a = sum(n for why, n in s["drifts_by_why"].items() if "not the specification's assignment" in why)
    b = sum(n for why, n in s["violations_by_why"].items() if why.startswith("D4"))
    if s["corrupted"] != 3 or a < 3 or b < 1:
        raise vlib.ToolError(f"selftest: corrupted expected id assignments not noticed ({s['drifts_by_why']}, {s['violations_by_why']})")
    log(f"[selftest] 3 falsified expected id assignments -> {a} x 'wire ids are not the specification's assignment', {b} x D4 "
        "(class disagreement): the binding binds")
    return dict(corrupted_assignments_noticed=a, corrupted_classes_noticed=b)


def run_derive(verdict, tier, seed, wd):
    """The whole derive leg of C20.  Returns (coverage dict, drift count, TLC result)."""
    cfg = DERIVE_TIERS[tier]
    dv = os.path.join(wd, "derive-tlc.ndjson")
    mc, counts = derive_model_check(tier, seed, dv)
    vecs = [json.loads(l) for l in open(dv) if l.strip()]
    if len(vecs) != counts["cases"]:
        raise vlib.ToolError(f"TLC wrote {len(vecs)} derive vectors, announced {counts['cases']}")
    pkg = f"c20-derive-corpus-{tier}-s{abs(int(seed))}"
    crate_dir = os.path.join(vlib.workdir("c20-derive"), pkg)
    s, drift, build_s = derive_pipeline(verdict, vecs, wd, pkg, crate_dir, tier, seed, cfg["build_timeout"])
    cov = dict(derive_tlc_config=cfg["cfg"], derive_theorems=DERIVE_THEOREMS, derive_states=mc["distinct"], derive_transitions=mc["generated"],
               derive_id_patterns=counts["patterns"], derive_patterns_discriminating_rule_from_position=counts["discriminating_patterns"],
               derive_types_enumerated=counts["cases"], derive_build_s=build_s)
    if s is None:
        return cov, drift, mc, dict(inconclusive="the corpus process died")
    cov.update(derive_types_compiled=s["cases"], derive_types_by_kind=s["by_kind"], derive_items=s["items"], derive_checks=s["checks"],
               derive_types_agreeing=s["agreeing"], derive_types_discriminating=s["discriminating"], derive_canon_id_classes=s["classes"],
               derive_distinct_real_type_ids=s["distinct_type_ids"], derive_samples=s.get("samples", []))
    try:
        st = selftest_derive(pkg, wd, len(vecs))
    except (vlib.ToolError, KeyError, IndexError) as e:
        if verdict.violations == 0 and drift == 0:
            raise vlib.ToolError(f"selftest failed: {e!r}")
        st = dict(inconclusive=repr(e))
        log(f"NOTE derive selftest inconclusive on a non-conforming tree: {e!r}")
    return cov, drift, mc, st


def run_c20(prop, tier, seed):
    t0 = time.time()
    verdict = vlib.Verdict(prop)
    build()
    wd = vlib.workdir(f"c20-{os.getpid()}")
    vectors = os.path.join(wd, "vectors.ndjson")
    mc, n_cases = model_check(prop, tier, seed, vectors)

    pins = pinned_ids()
    ppath = os.path.join(wd, "pinned.json")
    json.dump(pins, open(ppath, "w"))
    t1 = time.time()
    s = vlib.run_driver("schema-ids", ["run", "--vectors", vectors, "--pinned", ppath], timeout=1500)
    log(f"[driver] {s['cases']} presentations {s['by_op']} ({s.get('tuple_cases', 0)} with tuples, {s.get('real_tuple_cases', 0)} of them through "
        f"the real tuple impls) on the real introspection code: {s['classes']} CanonId classes, "
        f"{s['distinct_type_ids']} distinct real ids, {s['roundtrips_ok']} record round trips, {s['layout_references_checked']} layout "
        f"references resolved, pinned ids re-derived {s['pinned_ok']}/{s['pinned_checked']}, {time.time() - t1:.1f}s")
    if s["cases"] != n_cases:
        raise vlib.ToolError(f"driver read {s['cases']} cases, TLC wrote {n_cases}")
    drift = report(prop, verdict, s, seed, tier)

    try:
        st = selftest_c20(wd, vectors)
    except (vlib.ToolError, KeyError, IndexError) as e:
        if verdict.violations == 0 and drift == 0:
            raise vlib.ToolError(f"selftest failed: {e!r}")
        st = dict(inconclusive=repr(e))
        log(f"NOTE selftest inconclusive on a non-conforming tree: {e!r}")

    # derive-macro types with partly implicit ids
    dcov, ddrift, dmc, dst = run_derive(verdict, tier, seed, wd)
    drift += ddrift
    st = dict(st, derive=dst)
    d_types = dcov.get("derive_types_compiled", 0)

    if verdict.violations == 0 and drift == 0:
        shutil.rmtree(wd, ignore_errors=True)
    coverage = dict(
        states=mc["distinct"] + dmc["distinct"], transitions=mc["generated"] + dmc["generated"], depth=mc["depth"],
        tlc_config=TIERS[prop][tier]["cfg"], tlc_states_by_config={TIERS[prop][tier]["cfg"]: mc["distinct"], DERIVE_TIERS[tier]["cfg"]: dmc["distinct"]},
        theorems=THEOREMS[prop] + DERIVE_THEOREMS, cases_enumerated=n_cases, cases_by_op=s["by_op"],
        traces_validated_against_impl=s["cases"] + d_types, canon_id_classes=s["classes"], distinct_real_type_ids=s["distinct_type_ids"],
        record_roundtrips=s["roundtrips_ok"], layout_references_resolved=s["layout_references_checked"],
        pinned_ids_checked=s["pinned_checked"], pinned_ids_rederived=s["pinned_ok"], drift=drift,
        presentations_with_tuples=s.get("tuple_cases", 0), presentations_with_real_tuple_impls=s.get("real_tuple_cases", 0),
        max_tuple_types_in_one_universe=s.get("max_tuple_types", 0),
        evaluations=s["cases"] + d_types, distinct_nontrivial=s["classes"] + dcov.get("derive_canon_id_classes", 0),
        rule="distinct CanonId values (wire-relevant description + set of transitively referenced descriptions) among the "
             "presentations and the derived types whose real TypeId was computed (the derived types live in a schema of their own)",
        samples=s.get("samples", []), selftest=st, **dcov)
    vlib.write_evidence(prop, tier, seed, "model_checking", coverage, time.time() - t0, verdict.violations, assumptions=[
        "the layout space is a bounded corpus enumerated from the model (11 fixed universes incl. recursive, mutually recursive, generics "
        "over built-ins, tuples (generic custom types) of arity 1..4 over built-ins and definitions, nested tuples, services, two schemas "
        "and the bookmarks_v2 types of the repository's tests, plus seeded-random universes; every definition as root; "
        "permutations of declaration / insertion / reference order, doc edits, every single semantic edit site)",
        "tuples are the only generic custom types modelled (the only ones aldrin-core implements); arities 5..12 are the same macro",
        "add_references hands out exactly the types the layout mentions (as generated code does); hand-written impls that omit "
        "references (core/src/introspection/test.rs basic_enum_type_id) are outside the model",
        "hash collisions are ignored",
        "ids of the universes are computed on IR built through the public builders (and through the real generic impls of aldrin-core for "
        "built-ins and tuples)",
        "derive-macro types: enums, structs with named fields and tuple structs of 0..MaxLen items whose ids are written at every subset "
        "of positions (ids from a small set; plus seeded-random longer patterns and, for every pattern, the same assignment with all ids "
        "written out as the code generator writes them); members are unit / u8 variants and required / optional u8 fields; patterns that "
        "assign an id twice are outside the corpus (the macros accept them, but such a type has no well-defined wire layout); fallback "
        "items, newtype structs (no ids) and the output of the real code generator are not compiled by this check (C16 compiles generated code)",
        "a derive that numbers consistently (wire and layout agree) but not by the documented rule is DRIFT, as are failures of the derived "
        "Deserialize: C20 is about the type id following the wire layout",
        "the service uuid and version are part of the hashed layout but not of the statement's list: a disagreement there is DRIFT",
    ])
    log(f"[{prop}] {tier} seed={seed}: violations={verdict.violations} drift={drift} wall={time.time() - t0:.1f}s")
    return verdict


# ------------------------------------------------------------------------------------------------
def run(prop, tier, seed):
    if prop == "C18":
        return run_c18(prop, tier, seed)
    if prop == "C20":
        return run_c20(prop, tier, seed)
    raise vlib.ToolError(f"schema_checks does not serve {prop}")


def replay_derive(prop, path, data, seed):
    """A derived-type finding: the recorded pattern(s) are turned into a (tiny) corpus crate again, compiled against the current
    tree and judged as in a run."""
    verdict = vlib.Verdict(prop)
    if "cases" in data["case"]:     # a crash of the whole corpus process: the first recorded types
        vecs = data["case"]["cases"]
    else:
        vecs = [data["case"]] + ([data["other"]] if isinstance(data.get("other"), dict) and data["other"].get("derive") else [])
    vecs = [{k: v[k] for k in ("id", "derive", "kind", "pat", "ids", "def", "canon") if k in v} for v in vecs]
    for v in vecs:
        v.setdefault("positional", None)
    build()
    wd = vlib.workdir(f"c20-replay-{os.getpid()}")
    pkg = "c20-derive-corpus-replay"
    s, drift, build_s = derive_pipeline(verdict, vecs, wd, pkg, os.path.join(vlib.workdir("c20-derive"), pkg), "replay", seed, 1500)
    log(f"[replay] {data.get('why', '')}: {[v['id'] for v in vecs]} compiled against the current tree -> "
        f"{s['violation_count'] if s else 'crash'} violation(s), {drift} drift(s)")
    shutil.rmtree(wd, ignore_errors=True)
    return verdict


def replay(prop, path, seed):
    verdict = vlib.Verdict(prop)
    data = json.load(open(path))
    if "case" not in data:
        raise vlib.ToolError("replay file without a case")
    if prop == "C20" and isinstance(data["case"], dict) and data["case"].get("derive"):
        return replay_derive(prop, path, data, seed)
    build()
    s = vlib.run_driver(DRIVER[prop], ["replay", "--file", path])
    log(f"[replay] {data.get('why', '')}: re-run on the current tree -> {s['violation_count']} violation(s)")
    for v in s.get("violations", []):
        payload = v["case"] if "case" in v["case"] else dict(case=v["case"])
        verdict.violation(v["why"], dict(payload, replay_of=path))
    return verdict
