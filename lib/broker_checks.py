"""Checks of the broker-level properties C02 C03 C04 C05 C09 C10 C11 C12.

Each check = (a) exhaustive TLC run of Broker.tla composed with the observer of Obs.tla on small
constants (design check), (b) traces recorded from the real broker (hook on) under seeded random
drivers, validated by TLC against the observer (decides VIOLATION) and against the
implementation-shaped specification (conformance, DRIFT only).
"""
import json
import os
import time

import vlib
from vlib import log

CALL_KINDS = {"CallFunction", "CallFunction2", "CallFunctionReply", "AbortFunctionCall"}
REG_KINDS = {"CreateObject", "CreateObjectReply", "DestroyObject", "DestroyObjectReply", "CreateService", "CreateService2",
             "CreateServiceReply", "DestroyService", "DestroyServiceReply", "QueryServiceVersion", "QueryServiceVersionReply",
             "QueryServiceInfo", "QueryServiceInfoReply"}
EVENT_KINDS = {"SubscribeEvent", "SubscribeEventReply", "UnsubscribeEvent", "EmitEvent", "SubscribeService",
               "SubscribeServiceReply", "UnsubscribeService", "SubscribeAllEvents", "SubscribeAllEventsReply",
               "UnsubscribeAllEvents", "UnsubscribeAllEventsReply", "ServiceDestroyed"}
CHAN_KINDS = {"CreateChannel", "CreateChannelReply", "CloseChannelEnd", "CloseChannelEndReply", "ClaimChannelEnd",
              "ClaimChannelEndReply", "ChannelEndClaimed", "ChannelEndClosed", "SendItem", "ItemReceived", "AddChannelCapacity"}
LST_KINDS = {"CreateBusListener", "CreateBusListenerReply", "DestroyBusListener", "DestroyBusListenerReply",
             "AddBusListenerFilter", "RemoveBusListenerFilter", "ClearBusListenerFilters", "StartBusListener",
             "StartBusListenerReply", "StopBusListener", "StopBusListenerReply", "EmitBusEvent", "BusListenerCurrentFinished"}
ALL_KINDS = CALL_KINDS | REG_KINDS | EVENT_KINDS | CHAN_KINDS | LST_KINDS

# per property: fuzz profiles (profile, tame?, fault percent), alphabet for the non-triviality rule,
# exhaustive configurations of Broker.tla (added when the module exists)
PROPS = {
    "C02": dict(profiles=[("calls", False, 4), ("calls", True, 8), ("mixed", False, 4)], alphabet=CALL_KINDS, mc=["MC_Calls", "MC_CallsP", "MC_CallsP2"]),
    "C03": dict(profiles=[("registry", False, 4), ("registry", True, 8), ("mixed", False, 4)], alphabet=REG_KINDS, mc=["MC_Registry"]),
    "C04": dict(profiles=[("events", False, 4), ("events", True, 8), ("mixed", False, 4)], alphabet=EVENT_KINDS, mc=["MC_Events", "MC_Events_sub", "MC_Events_suball"]),
    "C05": dict(profiles=[("channels", False, 4), ("channels", True, 8), ("mixed", False, 4)], alphabet=CHAN_KINDS, mc=["MC_Channels", "MC_ChannelsE1", "MC_ChannelsE5", "MC_ChannelsEM"]),
    "C09": dict(profiles=[("mixed", True, 14), ("channels", True, 14), ("calls", True, 14), ("intro", False, 10), ("mixed", False, 10)], alphabet=ALL_KINDS, mc=["MC_Lifecycle"]),
    "C10": dict(profiles=[("listeners", False, 4), ("listeners", True, 8), ("mixed", False, 4)], alphabet=LST_KINDS, mc=["MC_Listeners", "MC_ListenersF"]),
    "C11": dict(profiles=[("abuse", False, 5), ("mixed", False, 6), ("calls", False, 5), ("intro", False, 5), ("channels", False, 5)], alphabet=ALL_KINDS, mc=["MC_Abuse", "MC_Intro"]),
    "C12": dict(profiles=[("mixed", True, 3), ("calls", True, 3), ("events", True, 3)], alphabet=ALL_KINDS, mc=["MC_Versions_14_20", "MC_Versions_20_14", "MC_Versions_15_19", "MC_Versions_17_18"]),
}

# real-client traffic (bus-programs) whose broker trace is judged as well
CLIENT_MIX = {"C02": "calls", "C03": "chaos,discovery", "C04": "events,calls", "C05": "channels,chaos", "C09": "all",
              "C10": "chaos,discovery", "C11": "chaos,channels", "C12": None}

TIERS = {
    "quick": dict(runs=40, length=160, seeds=1, mc_workers=8, mc_timeout=900),
    "thorough": dict(runs=300, length=260, seeds=3, mc_workers=16, mc_timeout=3300),
}


def judge(prop, recs, res, kind, args, label, verdict):
    """Turns the observer's findings on one trace into violations of `prop` or notes about other properties."""
    for (idx, p, why) in res["violations"]:
        a, b = vlib.run_of_record(recs, idx)
        payload = dict(kind=kind, driver_args=[str(x) for x in args], record_index=idx,
                       run_first_record=a + 1, trace=recs[a:b], violated_at=recs[idx - 1])
        # C11: "other connections are affected only in the ways the protocol defines" is the conjunction of
        # the other observers on arbitrary traffic, whenever the affected party is not the sender itself
        c11 = prop == "C11" and (why.startswith("panic") or "(to another connection)" in why)
        if prop in p.split("+") or c11:
            verdict.violation(why if prop in p.split("+") else f"{why} [clause of {p}]", payload, site=json.dumps(recs[idx - 1].get("m", {}))[:200])
        else:
            verdict.note(f"violation of {p} observed while checking {prop}: {why} ({label}, record {idx})")


def fuzz_and_validate(prop, tier, seed, verdict, cov):
    cfg = TIERS[tier]
    spec = PROPS[prop]
    wd = vlib.workdir(f"{prop}-{tier}")
    sigs = set()
    samples = []
    for si in range(cfg["seeds"]):
        for (profile, tame, fault) in spec["profiles"]:
            s = seed * 1000 + si * 17 + (1 if tame else 0)
            trace = os.path.join(wd, f"fuzz-{profile}-{'tame' if tame else 'wild'}-{s}.ndjson")
            args = ["--seed", s, "--runs", cfg["runs"], "--len", cfg["length"], "--profile", profile,
                    "--fault-pct", fault, "--out", trace]
            if tame:
                args.append("--tame")
            summ = vlib.run_driver("fuzz-broker", args)
            res = vlib.tlc_trace("Trace_Obs.tla", "Trace_Obs.cfg", trace)
            recs = vlib.read_ndjson(trace)
            cov["records"] += len(recs)
            cov["runs"] += cfg["runs"]
            cov["messages_sent"] += summ.get("sent", 0)
            if not res["consumed"]:
                raise vlib.ToolError(f"trace {trace} was not consumed by the observer (stopped at {res['consumed_upto']})")
            # distinct non-trivial runs, projected on the property's alphabet
            start = 0
            for i, r in enumerate(recs + [{"t": "reset"}]):
                if r.get("t") == "reset" and i > start:
                    sig = vlib.nontrivial_signature(recs[start:i], spec["alphabet"])
                    if len(sig) >= 2:
                        if sig not in sigs and len(samples) < 3:
                            samples.append(dict(driver="fuzz-broker", profile=profile, seed=s, projected=list(sig)[:40]))
                        sigs.add(sig)
                    start = i
            judge(prop, recs, res, "fuzz-broker", args, f"{profile}, seed {s}", verdict)
            # conformance level: the same trace against the implementation-shaped specification
            conf = vlib.tlc_trace("Trace_Broker.tla", "Trace_Broker.cfg", trace)
            for (idx, why) in conf["drifts"]:
                cov["drift"] += 1
                log(f"DRIFT property={prop} the broker deviates from Broker.tla: {why} ({profile}, seed {s}, record {idx})")
            cov["traces"] += 1
    cov["distinct_nontrivial"] = len(sigs)
    cov["samples"] = samples


# specification -> implementation: behaviours enumerated by TLC from MC_Replay.tla, replayed on the real broker
REPLAY = {"C02": ["Calls", "CallsP", "CallsP2"], "C03": ["Registry"], "C04": ["Events", "Events_sub", "Events_suball"], "C05": ["Channels", "ChannelsE1", "ChannelsE5", "ChannelsEM"], "C09": ["Lifecycle", "Versions"],
          "C10": ["Listeners", "ListenersF"], "C11": ["Abuse", "CallsP", "Intro", "Channels"], "C12": ["Versions", "CallsP_old"]}
# the quick tier replays a seed-dependent sample of the configurations that start from a scripted deeper state (all of them in the thorough tier)
QUICK_CAP = {"ChannelsE1": 450, "ChannelsE5": 450, "ChannelsEM": 450, "Events_sub": 500, "Events_suball": 500}
REPLAY_TIERS = {
    "quick": dict(exhaustive_cap=1500, sim=(250, 150), shards=4, workers=8, timeout=900),
    "thorough": dict(exhaustive_cap=24000, sim=(3000, 200), shards=12, workers=12, timeout=3000),
}


def _exhaustive_behaviours(name, wd, rt):
    """The exhaustive enumeration depends on the specification only (not on /repo): it is cached under .work,
    keyed by the text of the modules and the configuration."""
    import hashlib
    h = hashlib.sha256()
    for fn in ("U32.tla", "Broker.tla", "Obs.tla", "MC_Broker.tla", "MC_Replay.tla", f"R_{name}.cfg"):
        h.update(open(os.path.join(vlib.SPEC, fn), "rb").read())
    cache = os.path.join(vlib.workdir("cache"), f"behaviours-R_{name}-{h.hexdigest()[:16]}.json")
    if os.path.exists(cache):
        try:
            return dict(json.load(open(cache)), cached=True)
        except Exception:
            pass
    ex = vlib.tlc_behaviours("MC_Replay.tla", f"R_{name}.cfg", os.path.join(wd, "tlc-exhaustive.out"), workers=rt["workers"], timeout=rt["timeout"])
    os.remove(os.path.join(wd, "tlc-exhaustive.out"))
    tmp = cache + f".{os.getpid()}.tmp"
    json.dump(ex, open(tmp, "w"))
    os.replace(tmp, cache)
    return ex


def spec_replay(prop, tier, seed, verdict, cov):
    """TLC enumerates the behaviours of the bounded environment of MC_Replay.tla (exhaustively for the small
    configuration, by simulation for the deeper one); each is replayed on the real broker; the recorded traces
    are judged by the observers (VIOLATION) and by Broker.tla (DRIFT)."""
    from concurrent.futures import ThreadPoolExecutor
    names = REPLAY[prop]
    name = names[0]
    rt = REPLAY_TIERS[tier]
    wd = vlib.workdir(f"{prop}-{tier}-replay")
    sim = vlib.tlc_behaviours("MC_Replay.tla", f"RS_{name}.cfg", os.path.join(wd, "tlc-simulate.out"), simulate=rt["sim"], seed=seed,
                              timeout=rt["timeout"])
    chosen = []
    exhaustive = []
    for nm in names:
        ex = _exhaustive_behaviours(nm, wd, rt)
        all_ex = ex["behaviours"]
        cap = QUICK_CAP.get(nm, rt["exhaustive_cap"]) if tier == "quick" else rt["exhaustive_cap"]
        stride = max(1, (len(all_ex) + cap - 1) // cap)
        part = all_ex[(seed - 1) % stride::stride]
        chosen += part
        exhaustive.append(dict(config=f"R_{nm}.cfg", behaviours=len(all_ex), states=ex["states"], complete=ex["complete"], wall_s=ex["wall_s"],
                               cached=bool(ex.get("cached")), replayed=len(part), stride=stride))
    chosen += sim["behaviours"]
    bfile = os.path.join(wd, "behaviours.ndjson")
    with open(bfile, "w") as f:
        f.write("\n".join(chosen) + "\n")
    trace = os.path.join(wd, "replay.ndjson")
    args = ["--in", bfile, "--out", trace, "--seed", seed]
    summ = vlib.run_driver("replay-broker", args)
    recs = vlib.read_ndjson(trace)
    shards = vlib.split_runs(trace, rt["shards"], wd, "replay")

    def one(sh):
        p, off = sh
        return off, vlib.tlc_trace("Trace_Obs.tla", "Trace_Obs.cfg", p), vlib.tlc_trace("Trace_Broker.tla", "Trace_Broker.cfg", p)

    with ThreadPoolExecutor(max_workers=rt["shards"]) as pool:
        results = list(pool.map(one, shards))
    drifts = 0
    for off, res, conf in results:
        if not res["consumed"]:
            raise vlib.ToolError(f"replay trace shard at {off} was not consumed by the observer")
        res = dict(res, violations=[(idx + off, p, why) for (idx, p, why) in res["violations"]])
        # the behaviour that produced a violating run goes into the replay file
        for (idx, p, why) in res["violations"]:
            a, _ = vlib.run_of_record(recs, idx)
            run_no = recs[a].get("run") if recs[a].get("t") == "reset" else None
            if run_no is not None and run_no < len(chosen):
                recs[idx - 1] = dict(recs[idx - 1], behaviour=json.loads(chosen[run_no]))
        judge(prop, recs, res, "spec-replay", args, "behaviour of MC_Replay.tla", verdict)
        for (idx, why) in conf["drifts"]:
            drifts += 1
            if drifts <= 5:
                log(f"DRIFT property={prop} the broker deviates from Broker.tla: {why} (replayed behaviour, record {idx + off})")
    cov["drift"] += drifts
    cov["replay"] = dict(
        exhaustive=exhaustive,
        simulated=dict(config=f"RS_{name}.cfg", behaviours=len(sim["behaviours"]), states=sim["states"], wall_s=sim["wall_s"]),
        behaviours_replayed=summ.get("behaviours", 0), inputs=summ.get("inputs", 0), records=len(recs),
        model_cookies_unbound=summ.get("unbound", 0), real_cookies_surplus=summ.get("surplus", 0),
        stuck=summ.get("stuck", 0), panics=summ.get("panics", 0), drifts=drifts)
    cov["records"] += len(recs)
    if summ.get("unbound", 0) or summ.get("surplus", 0):
        log(f"DRIFT property={prop} replay: {summ.get('unbound', 0)} cookie(s) the model issued but the broker did not, "
            f"{summ.get('surplus', 0)} the other way round")
    if tier == "quick" or not os.environ.get("VERIF_KEEP_WORK"):
        for p, _ in shards:
            os.remove(p)


def real_clients(prop, tier, seed, verdict, cov):
    """Broker traces produced by real clients (bus-programs) judged by the same observer."""
    mix = CLIENT_MIX.get(prop)
    if not mix:
        return
    runs = 40 if tier == "quick" else 600
    wd = vlib.workdir(f"{prop}-{tier}")
    cpath = os.path.join(wd, "rc-client.ndjson")
    bpath = os.path.join(wd, "rc-broker.ndjson")
    args = ["--seed", seed * 1000 + 55, "--runs", runs, "--mix", mix, "--out-client", cpath, "--out-broker", bpath]
    vlib.run_driver("bus-programs", args, timeout=3000)
    res = vlib.tlc_trace("Trace_Obs.tla", "Trace_Obs.cfg", bpath)
    if not res["consumed"]:
        raise vlib.ToolError(f"trace {bpath} was not consumed by the observer")
    cov["real_client_runs"] = runs
    cov["real_client_records"] = res["states"] - 1
    recs = None
    for (idx, p, why) in res["violations"]:
        recs = recs or vlib.read_ndjson(bpath)
        a, b = vlib.run_of_record(recs, idx)
        if prop in p.split("+") or (prop == "C11" and why.startswith("panic")):
            verdict.violation(why, dict(kind="bus-programs-broker", driver_args=[str(x) for x in args], record_index=idx,
                                        trace=recs[a:b], violated_at=recs[idx - 1]))
        else:
            verdict.note(f"violation of {p} observed while checking {prop} (real clients): {why} (record {idx})")
    conf = vlib.tlc_trace("Trace_Broker.tla", "Trace_Broker.cfg", bpath)
    for (idx, why) in conf["drifts"]:
        cov["drift"] += 1
        log(f"DRIFT property={prop} the broker deviates from Broker.tla: {why} (real clients, record {idx})")
    # the client-level clauses of the property (items / events as the applications see them)
    cres = vlib.tlc_trace("Trace_Client.tla", "Trace_Client.cfg", cpath)
    crecs = None
    for (idx, p, why) in cres["violations"]:
        crecs = crecs or vlib.read_ndjson(cpath)
        a, b = vlib.run_of_record(crecs, idx)
        if prop in p.split("+"):
            verdict.violation(why, dict(kind="bus-programs", driver_args=[str(x) for x in args], record_index=idx,
                                        trace=[r for r in crecs[a:b] if r.get("t") != "tap"][:400], violated_at=crecs[idx - 1]))
        else:
            verdict.note(f"client-level violation of {p} observed while checking {prop}: {why} (record {idx})")


def model_check(prop, tier, seed, verdict, cov):
    cfg = TIERS[tier]
    names = list(PROPS[prop]["mc"])
    if tier == "thorough" and prop == "C02":
        names.append("MC_SerialWrap")       # the serial counter wraps and skips a long-pending call
    for name in names:
        cfgfile = f"{name}.cfg" if tier == "quick" else (f"{name}_thorough.cfg" if os.path.exists(os.path.join(vlib.SPEC, f"{name}_thorough.cfg")) else f"{name}.cfg")
        module = "MC_Broker.tla"
        if not os.path.exists(os.path.join(vlib.SPEC, module)) or not os.path.exists(os.path.join(vlib.SPEC, cfgfile)):
            cov.setdefault("mc_missing", []).append(name)
            continue
        res = vlib.tlc_mc(module, cfgfile, workers=cfg["mc_workers"], timeout=cfg["mc_timeout"])
        cov["states"] += res["distinct"]
        cov["transitions"] += res["generated"]
        cov.setdefault("mc", []).append(dict(config=cfgfile, distinct=res["distinct"], generated=res["generated"],
                                             depth=res["depth"], wall_s=res["wall_s"], complete=res["left"] == 0))
        if not res["ok"]:
            tail = res["raw"][-6000:]
            verdict.violation(f"design check {cfgfile}: {res['violation']}", dict(kind="tlc-mc", config=cfgfile, module=module, output_tail=tail))


def client_versions(prop, tier, seed, verdict, cov):
    """C12 at client level: real clients negotiated to 1.14 .. 1.20 (handshake-rewriting transport)
    exchange calls, replies, events and items; payload epochs and values are judged by Obs_Client,
    the broker side of the same runs by Obs."""
    runs = 60 if tier == "quick" else 800
    wd = vlib.workdir(f"{prop}-{tier}")
    cpath = os.path.join(wd, "versions-client.ndjson")
    bpath = os.path.join(wd, "versions-broker.ndjson")
    args = ["--seed", seed * 1000 + 77, "--runs", runs, "--mix", "versions", "--out-client", cpath, "--out-broker", bpath]
    vlib.run_driver("bus-programs", args, timeout=3000)
    res = vlib.tlc_trace("Trace_Client.tla", "Trace_Client.cfg", cpath)
    recs = vlib.read_ndjson(cpath)
    cov["client_version_runs"] = runs
    cov["client_version_payloads"] = sum(1 for r in recs if r.get("t") == "tap" and r.get("dir") == "rx" and r["m"].get("val", 0) != 0 and r.get("ver", 20) < 20)
    for (idx, p, why) in res["violations"]:
        a, b = vlib.run_of_record(recs, idx)
        if prop in p.split("+"):
            verdict.violation(why, dict(kind="bus-programs", driver_args=[str(x) for x in args], record_index=idx,
                                        trace=[r for r in recs[a:b] if r.get("t") != "tap"][:300], violated_at=recs[idx - 1]))
        else:
            verdict.note(f"violation of {p} observed while checking {prop} (client versions): {why} (record {idx})")
    bres = vlib.tlc_trace("Trace_Obs.tla", "Trace_Obs.cfg", bpath)
    brecs = None
    for (idx, p, why) in bres["violations"]:
        if prop in p.split("+"):
            brecs = brecs or vlib.read_ndjson(bpath)
            a, b = vlib.run_of_record(brecs, idx)
            verdict.violation(why, dict(kind="bus-programs-broker", driver_args=[str(x) for x in args], record_index=idx, trace=brecs[a:b]))
        else:
            verdict.note(f"broker-side violation of {p} observed while checking {prop} (client versions): {why} (record {idx})")


def handshake(prop, tier, seed, verdict, cov):
    """C12, first sentence: the handshake table (spec/Handshake.tla), checked exhaustively by TLC and
    replayed row by row on the real Acceptor and the real ClientBuilder."""
    res = vlib.tlc_mc("Handshake.tla", "MC_Handshake.cfg", workers=2, timeout=300)
    cov["states"] += res["distinct"]
    cov["transitions"] += res["generated"]
    cov.setdefault("mc", []).append(dict(config="MC_Handshake.cfg", distinct=res["distinct"], generated=res["generated"],
                                         depth=res["depth"], wall_s=res["wall_s"], complete=True))
    if not res["ok"]:
        verdict.violation("the handshake table does not have its defining properties", dict(kind="tlc-mc", module="Handshake.tla", config="MC_Handshake.cfg"))
    wd = vlib.workdir(f"{prop}-{tier}")
    path = os.path.join(wd, "handshake.ndjson")
    summ = vlib.run_driver("handshake", [path, seed])
    tr = vlib.tlc_trace("Trace_Handshake.tla", "Trace_Handshake.cfg", path)
    if not tr["consumed"]:
        raise vlib.ToolError("handshake records were not consumed")
    recs = vlib.read_ndjson(path)
    cov["handshake_rows"] = len(recs)
    for f in summ.get("flagged", []):
        verdict.violation("panic or hang during the handshake", dict(kind="handshake", row=f))
    for (idx, p, why) in tr["violations"]:
        verdict.violation(why, dict(kind="handshake", row=recs[idx - 1]))


def run(prop, tier, seed):
    t0 = time.time()
    verdict = vlib.Verdict(prop)
    cov = dict(records=0, runs=0, traces=0, messages_sent=0, states=0, transitions=0, drift=0)
    vlib.build_harness(["broker-drivers", "bus-driver"])
    model_check(prop, tier, seed, verdict, cov)
    fuzz_and_validate(prop, tier, seed, verdict, cov)
    spec_replay(prop, tier, seed, verdict, cov)
    real_clients(prop, tier, seed, verdict, cov)
    if prop in ("C02", "C04"):
        import client_checks
        client_checks.api_model(prop, tier, seed, verdict, cov)
    if prop == "C05":
        import client_checks
        client_checks.api_model(prop, tier, seed, verdict, cov, family="chan")
    if prop == "C10":
        import client_checks
        client_checks.api_model(prop, tier, seed, verdict, cov, family="lst")
    if prop == "C12":
        handshake(prop, tier, seed, verdict, cov)
        client_versions(prop, tier, seed, verdict, cov)
    have_mc = cov["states"] > 0
    coverage = dict(
        evaluations=cov["runs"],
        distinct_nontrivial=cov["distinct_nontrivial"],
        rule=("one evaluation = one seeded fuzz-broker run against the real broker (hook on), validated record by record by "
              "TLC against Obs.tla; distinct = distinct sequences of inputs/outputs projected on the property's own message "
              "kinds; non-trivial = at least two such messages"),
        samples=cov["samples"] or [dict(note="no non-trivial run")],
        traces_validated_against_impl=cov["runs"],
        records_validated=cov["records"],
        messages_sent=cov["messages_sent"],
        conformance_drifts=cov["drift"],
        real_client_runs=cov.get("real_client_runs", 0), real_client_broker_records=cov.get("real_client_records", 0),
        handshake_rows_replayed=cov.get("handshake_rows", 0),
        client_version_runs=cov.get("client_version_runs", 0),
        client_version_payloads_to_old_clients=cov.get("client_version_payloads", 0),
        known_findings_reobserved=verdict.known,
        other_property_notes=verdict.notes[:10],
        spec_to_impl_replay=cov.get("replay", {}),
        api_level_replay=cov.get("api_replay", {}),
        channel_api_replay=cov.get("chan_api_replay", {}),
        listener_api_replay=cov.get("listener_api_replay", {}),
    )
    if have_mc:
        coverage.update(states=cov["states"], transitions=cov["transitions"], mc=cov.get("mc", []))
    if cov.get("mc_missing"):
        coverage["mc_missing"] = cov["mc_missing"]
    level = "model_checking" if have_mc else "exploration"
    vlib.write_evidence(prop, tier, seed, level, coverage, time.time() - t0, verdict.violations,
                        assumptions=["the hook records are faithful (output is logged inside ConnectionState::send, input at the single dequeue site)",
                                     "HashMap iteration order inside the broker is not controlled by the seed; observers do not depend on it"])
    return verdict


def replay(prop, path, seed):
    """Re-judges the recorded trace with the current observer and re-runs the recorded driver
    invocation against the current tree."""
    verdict = vlib.Verdict(prop)
    data = json.load(open(path))
    vlib.build_harness()
    wd = vlib.workdir(f"replay-{prop}")
    if data.get("kind") == "fuzz-broker":
        rec = os.path.join(wd, "recorded.ndjson")
        with open(rec, "w") as f:
            for r in data["trace"]:
                f.write(json.dumps(r) + "\n")
        res = vlib.tlc_trace("Trace_Obs.tla", "Trace_Obs.cfg", rec)
        log(f"recorded trace: {len(data['trace'])} records, observer verdicts now: {res['violations']}")
        args = list(data["driver_args"])
        out = os.path.join(wd, "rerun.ndjson")
        args[args.index("--out") + 1] = out
        vlib.run_driver("fuzz-broker", args)
        res2 = vlib.tlc_trace("Trace_Obs.tla", "Trace_Obs.cfg", out)
        recs = vlib.read_ndjson(out)
        hits = [(i, p, w) for (i, p, w) in res2["violations"] if prop in p.split("+") or (prop == "C11" and w.startswith("panic"))]
        log(f"re-run of the recorded driver invocation on the current tree: {len(hits)} violation(s) of {prop}")
        for (idx, p, why) in hits:
            a, b = vlib.run_of_record(recs, idx)
            verdict.violation(why, dict(kind="fuzz-broker", driver_args=args, record_index=idx, run_first_record=a + 1,
                                        trace=recs[a:b], violated_at=recs[idx - 1]))
    elif data.get("kind") in ("bus-programs-broker", "bus-programs"):
        args = list(data["driver_args"])
        cpath = os.path.join(wd, "client.ndjson")
        bpath = os.path.join(wd, "broker.ndjson")
        args[args.index("--out-client") + 1] = cpath
        args[args.index("--out-broker") + 1] = bpath
        vlib.run_driver("bus-programs", args, timeout=3000)
        for (spec, cfgf, path) in (("Trace_Obs.tla", "Trace_Obs.cfg", bpath), ("Trace_Client.tla", "Trace_Client.cfg", cpath)):
            res = vlib.tlc_trace(spec, cfgf, path)
            recs = vlib.read_ndjson(path)
            for (idx, p, why) in res["violations"]:
                if prop in p.split("+"):
                    a, b = vlib.run_of_record(recs, idx)
                    verdict.violation(why, dict(kind=data["kind"], driver_args=args, record_index=idx, trace=recs[a:b][:400]))
        log(f"re-run of the recorded driver invocation on the current tree: {verdict.violations} violation(s) of {prop}")
    elif data.get("kind") == "spec-replay":
        # the behaviour of MC_Replay.tla that produced the violating run is stored with the violating record
        beh = data.get("violated_at", {}).get("behaviour")
        if beh is None:
            raise vlib.ToolError("the replay file carries no behaviour")
        bfile = os.path.join(wd, "behaviour.ndjson")
        with open(bfile, "w") as f:
            f.write(json.dumps(beh) + "\n")
        out = os.path.join(wd, "rerun.ndjson")
        vlib.run_driver("replay-broker", ["--in", bfile, "--out", out, "--seed", seed])
        res2 = vlib.tlc_trace("Trace_Obs.tla", "Trace_Obs.cfg", out)
        recs = vlib.read_ndjson(out)
        judge(prop, recs, res2, "spec-replay", ["--in", bfile, "--out", out, "--seed", seed], "stored behaviour", verdict)
        log(f"re-run of the stored behaviour on the current tree: {verdict.violations} violation(s) of {prop}")
    elif data.get("kind") in ("api-replay", "chan-replay", "listener-replay"):
        import client_checks
        return client_checks.replay(prop, path, seed)
    elif data.get("kind") == "handshake":
        path = os.path.join(wd, "handshake.ndjson")
        vlib.run_driver("handshake", [path, seed])
        tr = vlib.tlc_trace("Trace_Handshake.tla", "Trace_Handshake.cfg", path)
        recs = vlib.read_ndjson(path)
        for (idx, p, why) in tr["violations"]:
            verdict.violation(why, dict(kind="handshake", row=recs[idx - 1]))
    elif data.get("kind") == "tlc-mc":
        res = vlib.tlc_mc(data["module"], data["config"], workers=8, timeout=3300)
        if not res["ok"]:
            verdict.violation(f"design check {data['config']}: {res['violation']}", dict(kind="tlc-mc", config=data["config"], module=data["module"], output_tail=res["raw"][-6000:]))
    else:
        raise vlib.ToolError("unknown replay kind")
    return verdict
