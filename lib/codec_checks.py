"""Checks for the value codec: C01 (round trip and nesting limit), C07 (decoding untrusted bytes is
total; skipping agrees with decoding), C13 (epoch conversion).

Technique (fixed family): the executable TLA+ reference /verif/spec/ValueCodec.tla.
  * TLC checks the reference's theorems exhaustively over a bounded VALUE domain (MC_ValueCodec) and
    over all SHORT BYTE STRINGS over a reduced alphabet (MC_ValueCodecBytes);
  * spec -> impl: every value TLC enumerates is printed as a vector (value, encodings in both epochs
    and mixed, conversion results) and replayed on the real code by `codec-vectors`, the
    specification's value / bytes being the oracle;
  * impl -> spec: `codec-verdicts` records what the real walkers (decode, skip, len, split-off,
    opaque capture, kind, convert) do on mutated / random / exhaustive short inputs, one record per
    input, and TLC (Trace_ValueCodec) judges every record against the reference: the agreement
    clauses of the property statement decide VIOLATION, differences from the reference that the
    statement does not forbid are DRIFT.

A failing theorem of the reference is a tool error (the oracle is broken), never a VIOLATION."""
import json
import os
import re
import shutil
import subprocess
import sys
import time

import vlib
from vlib import log

PROPS = ("C01", "C07", "C13")

TIERS = {
    "quick": dict(tier_env="quick", workers=8, bytes_len=4, alpha="24", mutants=8000, random=1000, short_len=3,
                  valid_max=3000, shards=4, mutants_c13=4000, short_len_c13=2, timeout=1200),
    "thorough": dict(tier_env="thorough", workers=12, bytes_len=5, alpha="24", mutants=60000, random=6000, short_len=4,
                     valid_max=30000, shards=10, mutants_c13=30000, short_len_c13=3, timeout=3000),
}

ALLOC_BOUND = "512*len + 16384 bytes"

ASSUMPTIONS = {
    "C01": [
        "observed-only: memory safety (no out-of-bounds read in unsafe blocks) is observed on the explored inputs, not decided",
        "observed-only: integers are covered by boundary classes (byte tuples with <= 2 significant bytes from the varint/zig-zag "
        "boundary set, plus min/max/all-ones per width), not the full 2^64 range",
        "the reference is right: it is byte-exact with the real encoder on every vector where the order is determined "
        "(conformance, counted as drift otherwise) and TLC checks its own round trip, skip and conversion theorems",
        "maps/sets/structs have at most 4 entries in the enumerated domain (plus one 252-element vec); strings/bytes up to 256 bytes",
    ],
    "C07": [
        "observed-only: memory safety and the absence of out-of-bounds reads are observed (no crash, no panic) on the explored inputs",
        "observed-only: the allocation bound (" + ALLOC_BOUND + " peak per walker, counting global allocator) is measured on the "
        "explored inputs, it is not a theorem",
        "inputs are shorter than 64 KiB; the empty byte string is excluded (SerializedValue::empty() documents that it panics)",
        "'UTF-8 error' is identified by the reference decoder (the real error code InvalidSerialization does not distinguish it)",
    ],
    "C13": [
        "observed-only: no panic / crash on the explored ill-formed inputs",
        "mixed encodings are generated per nesting level (epoch by depth parity), not per node",
        "'well-formed' is decided by the reference's structural walk (UTF-8 aside), 'contains no 1.20 encoding' by the "
        "reference's walk of the REAL converter's output plus the real kind()",
    ],
}


def _bin(name):
    return os.path.join(os.environ.get("CODEC_DRIVER_BIN", vlib.TARGET_BIN), name)


_workdirs = []


def _workdir(prop, tier, seed):
    """Per-run scratch directory (several seeds / tiers may run side by side); removed at the end of the run
    unless CODEC_KEEP_WORK is set. Replay files are self-contained, nothing in here is needed afterwards."""
    d = vlib.workdir(f"codec-{prop}-{tier}-s{seed}-{os.getpid()}")
    _workdirs.append(d)
    return d


def _cleanup():
    if os.environ.get("CODEC_KEEP_WORK"):
        return
    while _workdirs:
        shutil.rmtree(_workdirs.pop(), ignore_errors=True)


_built = False


def build():
    """cargo build of this check's crate only (path dependency on /repo/core => its working tree)."""
    global _built
    if _built or os.environ.get("CODEC_DRIVER_BIN"):
        return
    lock = os.path.join(vlib.HARNESS, "Cargo.lock")
    if not os.path.exists(lock):
        shutil.copy("/repo/Cargo.lock", lock)
    t0 = time.time()
    env = dict(os.environ, CARGO_NET_OFFLINE="true", CARGO_TERM_COLOR="never")
    p = subprocess.run(["cargo", "build", "--offline", "-p", "codec-driver"], cwd=vlib.HARNESS, env=env,
                       stdout=subprocess.PIPE, stderr=subprocess.STDOUT, text=True)
    if p.returncode != 0:
        sys.stdout.write(p.stdout[-6000:])
        raise vlib.ToolError("build of codec-driver failed")
    log(f"[build] codec-driver built in {time.time() - t0:.1f}s")
    _built = True


# ------------------------------------------------------------------------------------------------
# TLC plumbing (several TLC processes side by side; output to files because vectors are large)
class Tlc:
    def __init__(self, module, cfg, env, workers, wd, tag, trace=False, heap="6g"):
        self.module, self.cfg, self.tag = module, cfg, tag
        self.meta = os.path.join(wd, f"meta-{tag}-{os.getpid()}-{time.time_ns()}")
        self.out = os.path.join(wd, f"tlc-{tag}.out")
        e = dict(os.environ)
        opts = f"-Xss1g -Xmx{heap}"
        if trace:
            opts += " -Dtlc2.tool.queue.IStateQueue=StateDeque"
        e["JAVA_TOOL_OPTIONS"] = opts
        e.update(env)
        self.t0 = time.time()
        self.f = open(self.out, "w")
        self.p = subprocess.Popen(["tlc", "-workers", str(workers), "-metadir", self.meta, "-cleanup", "-noGenerateSpecTE",
                                   "-config", cfg, module], cwd=vlib.SPEC, env=e, stdout=self.f, stderr=subprocess.STDOUT)

    def wait(self, timeout):
        try:
            self.p.wait(timeout=max(1, timeout - (time.time() - self.t0)))
        except subprocess.TimeoutExpired:
            self.p.kill()
            self.p.wait()
            raise vlib.ToolError(f"TLC timed out on {self.module} ({self.tag})")
        finally:
            self.f.close()
            shutil.rmtree(self.meta, ignore_errors=True)
        self.wall = round(time.time() - self.t0, 1)
        tail = _tail(self.out, 200000)
        gen = re.search(r"(\d+) states generated, (\d+) distinct states found, (\d+) states left on queue", tail)
        if gen is None:
            sys.stdout.write(_strip_vectors(tail)[-4000:])
            raise vlib.ToolError(f"TLC failed on {self.module} ({self.tag})")
        self.generated, self.distinct, self.left = int(gen.group(1)), int(gen.group(2)), int(gen.group(3))
        self.errors = "Error:" in tail
        self.tail = tail
        return self


def _tail(path, n):
    with open(path, "rb") as f:
        f.seek(0, 2)
        size = f.tell()
        f.seek(max(0, size - n))
        return f.read().decode("utf-8", "replace")


def _strip_vectors(text):
    return "\n".join(l for l in text.splitlines() if not l.startswith('"{'))


def mc_must_hold(t, what):
    """A model-checking run of the reference: any error (a theorem of the reference fails, evaluation error,
    incomplete search) means the oracle is unusable."""
    if t.errors or t.left != 0:
        sys.stdout.write(_strip_vectors(t.tail)[-5000:])
        raise vlib.ToolError(f"the reference specification fails its own theorems or did not finish: {what}")
    return dict(config=os.path.basename(t.cfg), module=t.module, what=what, distinct=t.distinct, generated=t.generated, wall_s=t.wall, complete=True)


ALPHABETS = {
    "24": "{0, 1, 2, 3, 13, 14, 17, 18, 19, 27, 29, 39, 40, 41, 43, 44, 45, 53, 55, 65, 66, 195, 252, 255}",
    "16": "{0, 1, 2, 5, 13, 17, 18, 27, 29, 39, 40, 43, 44, 53, 65, 252}",
}


def start_mc_values(cfg, seed, wd, emit=True, workers=None):
    """The parameters are CONSTANTS of the model: the .cfg is written per run (same text as spec/MC_ValueCodec.cfg)."""
    path = os.path.join(wd, "MC_ValueCodec.cfg")
    with open(path, "w") as f:
        f.write("SPECIFICATION Spec\nCONSTANTS\n  Thorough = %s\n  Seed0 = %d\n  Emit = %s\n  Part = \"all\"\n"
                "INVARIANT Theorems\nCHECK_DEADLOCK FALSE\n"
                % ("TRUE" if cfg["tier_env"] == "thorough" else "FALSE", abs(int(seed)) % 1000000, "TRUE" if emit else "FALSE"))
    return Tlc("MC_ValueCodec.tla", path, {}, workers or cfg["workers"], wd, "values")


def start_mc_bytes(cfg, wd, workers=None):
    path = os.path.join(wd, "MC_ValueCodecBytes.cfg")
    with open(path, "w") as f:
        f.write("SPECIFICATION Spec\nCONSTANTS\n  MaxLen = %d\n  Alphabet = %s\nINVARIANT Theorems\nCHECK_DEADLOCK FALSE\n"
                % (cfg["bytes_len"], ALPHABETS[cfg["alpha"]]))
    return Tlc("MC_ValueCodecBytes.tla", path, {}, workers or cfg["workers"], wd, "bytes")


def extract_vectors(tlc_out, path):
    """The JSON lines TLC printed (PrintT(ToJson(..)) prints a TLA+ string literal)."""
    n = 0
    seen = set()
    with open(tlc_out, encoding="utf-8", errors="replace") as f, open(path, "w") as out:
        for line in f:
            if not line.startswith('"{'):
                continue
            s = json.loads(line)
            if s.startswith('{"id":') or '"id":' in s[:400]:
                m = re.search(r'"id":(\d+)', s)
                if m:
                    if m.group(1) in seen:
                        continue
                    seen.add(m.group(1))
                    n += 1
            out.write(s + "\n")
    if n == 0:
        raise vlib.ToolError("TLC emitted no vectors")
    return n


def run_driver(binary, args, wd, progress=None, timeout=3000):
    """Runs a driver. Returns (summary | None, crash_info | None): a death of the process (abort on an
    allocation failure, stack overflow, SIGSEGV) is data about the code under test."""
    p = subprocess.run([_bin(binary)] + [str(a) for a in args], stdout=subprocess.PIPE, stderr=subprocess.PIPE, text=True, timeout=timeout)
    if p.returncode != 0:
        info = dict(returncode=p.returncode, stderr_tail=p.stderr[-1500:])
        if progress and os.path.exists(progress):
            try:
                info["last_input"] = json.load(open(progress))
            except Exception:
                pass
        return None, info
    lines = [l for l in p.stdout.strip().splitlines() if l.strip()]
    try:
        return json.loads(lines[-1]), None
    except Exception:
        raise vlib.ToolError(f"driver {binary}: no JSON summary")


FIND = re.compile(r'<<\s*"(VIOLATION-AT|DRIFT-AT)",\s*(\d+),\s*"([^"]*)",\s*"((?:[^"\\]|\\.)*)"\s*>>')


def validate_records(path, prop, cfg, wd, tag, shards=None):
    """TLC trace validation of an ndjson record file, sharded over several TLC processes.
    Returns dict(records, states, violations=[(global index, why)], drifts=[(index, what)])."""
    lines = [l for l in open(path) if l.strip()]
    n = len(lines)
    if n == 0:
        return dict(records=0, states=0, violations=[], drifts=[], wall_s=0.0)
    k = max(1, min(shards or cfg["shards"], (n + 499) // 500))
    per = (n + k - 1) // k
    jobs = []
    t0 = time.time()
    for i in range(k):
        part = lines[i * per:(i + 1) * per]
        if not part:
            continue
        sp = os.path.join(wd, f"{tag}-shard{i}.ndjson")
        with open(sp, "w") as f:
            f.writelines(part)
        jobs.append((i * per, len(part), Tlc("Trace_ValueCodec.tla", "Trace_ValueCodec.cfg", dict(TRACE=sp, PROP=prop), 1, wd,
                                              f"{tag}-{i}", trace=True, heap="3g")))
    viol, drift, states = [], [], 0
    for off, cnt, t in jobs:
        t.wait(cfg["timeout"])
        text = open(t.out, encoding="utf-8", errors="replace").read()
        flat = re.sub(r"\s*\n\s*", " ", text)
        if "TRACE-NOT-CONSUMED" in flat or ("Error:" in text):
            sys.stdout.write(text[-4000:])
            raise vlib.ToolError(f"TLC could not evaluate the records of {tag} (shard at offset {off})")
        if t.distinct != cnt + 1:
            raise vlib.ToolError(f"TLC consumed {t.distinct - 1} of {cnt} records ({tag})")
        states += t.distinct
        for m in FIND.finditer(flat):
            (viol if m.group(1) == "VIOLATION-AT" else drift).append((off + int(m.group(2)), m.group(4)))
    return dict(records=n, states=states, violations=viol, drifts=drift, wall_s=round(time.time() - t0, 1), lines=lines)


def report_drifts(prop, items, limit=8):
    """items: list of (where, text)."""
    for where, text in items[:limit]:
        log(f"DRIFT property={prop} {where}: {text}")
    if len(items) > limit:
        log(f"DRIFT property={prop} ... {len(items) - limit} more")


def vector_by_id(vectors_path, vid):
    head = None
    for l in open(vectors_path):
        if '"epochs"' in l[:20]:
            head = l
        if re.search(r'"id":%d[,}]' % vid, l[:600]):
            return head, l
    return head, None


# ------------------------------------------------------------------------------------------------
def run_vectors(prop, mode, vectors, wd, verdict, cov):
    rec = os.path.join(wd, f"records-{mode}.ndjson")
    summ, crash = run_driver("codec-vectors", ["--mode", mode, "--vectors", vectors, "--records", rec], wd)
    if crash:
        verdict.violation("the process running the real codec on the vectors died (abort / stack exhaustion)",
                          dict(kind="driver-crash", driver="codec-vectors", mode=mode, info=crash))
        return None, rec
    for v in summ["violation_list"]:
        head, line = vector_by_id(vectors, v["id"]) if v["id"] >= 0 else (None, None)
        verdict.violation(f"{v['what']}", dict(kind="vector", mode=mode, detail=v["detail"], vector_id=v["id"],
                                               header=json.loads(head) if head else None, vector=json.loads(line) if line else None))
    # the count is exact even when the list is capped
    extra = summ["violations"] - len(summ["violation_list"])
    verdict.violations += max(0, extra)
    report_drifts(prop, [(f"vector {d['id']} {d['what']}", d["detail"][:300]) for d in summ["drift_list"]])
    cov["vector_checks"] = summ["checks"]
    cov["vectors"] = summ["vectors"]
    cov["drifts"] += summ["drifts"]
    return summ, rec


def selftest_vectors(mode, vectors, wd):
    """Binding sanity: one expected value of one vector is corrupted; the replay must object."""
    vid = None
    for l in open(vectors):
        m = re.search(r'"id":(\d+)', l[:300])
        if m and '"ok":true' in l[:300] and '"k":"Vec"' in l:
            vid = int(m.group(1))
            break
    if vid is None:
        return dict(ran=False)
    summ, crash = run_driver("codec-vectors", ["--mode", mode, "--vectors", vectors, "--records", os.path.join(wd, "selftest.ndjson"),
                                               "--corrupt", vid], wd)
    bad = 0 if summ is None else summ["violations"] + summ["drifts"]
    if bad == 0:
        raise vlib.ToolError("self test failed: a corrupted expected encoding was not noticed by codec-vectors")
    return dict(ran=True, corrupted_vector=vid, findings_on_corrupted_oracle=bad)


def selftest_records(prop, line, mutate, wd, cfg, expect="VIOLATION"):
    """Binding sanity: one recorded real verdict is corrupted; TLC must object."""
    r = json.loads(line)
    mutate(r)
    p = os.path.join(wd, "selftest-record.ndjson")
    with open(p, "w") as f:
        f.write(json.dumps(r) + "\n")
    res = validate_records(p, prop, cfg, wd, "selftest", shards=1)
    found = res["violations"] if expect == "VIOLATION" else res["drifts"]
    if not found:
        raise vlib.ToolError("self test failed: a corrupted record was accepted by Trace_ValueCodec")
    return dict(ran=True, findings_on_corrupted_record=[w for _, w in found][:3])


def run_c01(tier, seed, verdict):
    cfg = TIERS[tier]
    wd = _workdir("C01", tier, seed)
    cov = dict(drifts=0, mc=[])
    t = start_mc_values(cfg, seed, wd).wait(cfg["timeout"])
    cov["mc"].append(mc_must_hold(t, "round trip / skip length / nesting limit / conversion theorems, one state per value"))
    vectors = os.path.join(wd, "vectors.ndjson")
    nvec = extract_vectors(t.out, vectors)
    log(f"[C01] TLC: {t.distinct} states ({nvec} values, every theorem on each) in {t.wall}s")
    summ, rec = run_vectors("C01", "c01", vectors, wd, verdict, cov)
    val = dict(records=0, states=0, drifts=[], violations=[], wall_s=0)
    if summ:
        log(f"[C01] replayed {summ['vectors']} vectors on the real codec: {summ['checks']} checks, {summ['violations']} violation(s), {summ['drifts']} drift(s)")
        val = validate_records(rec, "C01", cfg, wd, "enc")
        cov["drifts"] += len(val["drifts"])
        report_drifts("C01", [(f"real encoder output, record {i}", w) for i, w in val["drifts"]])
        log(f"[C01] TLC validated {val['records']} real encoder outputs against the reference decoder in {val['wall_s']}s")
    st = selftest_vectors("c01", vectors, wd)
    coverage = dict(
        states=sum(m["distinct"] for m in cov["mc"]), transitions=sum(m["generated"] for m in cov["mc"]), trace_states=val["states"],
        mc=cov["mc"], traces_validated_against_impl=val["records"],
        evaluations=summ["vectors"] if summ else 0, vector_checks=summ["checks"] if summ else 0,
        distinct_nontrivial=summ["container_vectors"] if summ else 0,
        rule="one evaluation = one TLC-enumerated value replayed on the real serializer, the public legacy/current/mixed container API "
             "and the real decoder (reference bytes in, value out); values are distinct by construction (TLC set); non-trivial = the "
             "value contains at least one container (Some/Vec/Bytes/Map/Set/Struct/Enum)",
        samples=(summ["samples"] if summ and summ["samples"] else [dict(note="no sample")]),
        too_deep_vectors=summ["too_deep_vectors"] if summ else 0, deep_chains_100000=summ["deep_chains"] if summ else None,
        conformance_drifts=cov["drifts"], selftest=st, known_findings_reobserved=verdict.known)
    return coverage


def gen_verdicts(cfg, seed, vectors, wd, mutants, short_len, verdict, prop):
    out = os.path.join(wd, "verdicts.ndjson")
    prog = os.path.join(wd, "progress.json")
    if os.path.exists(prog):
        os.remove(prog)
    args = ["--vectors", vectors, "--seed", seed, "--mutants", mutants, "--random", cfg["random"], "--short-len", short_len,
            "--valid-max", cfg["valid_max"], "--out", out, "--progress", prog]
    summ, crash = run_driver("codec-verdicts", args, wd, progress=prog)
    if crash:
        last = crash.get("last_input", {})
        verdict.violation("the process died (abort on allocation failure, stack overflow or fault) while the real codec processed an input",
                          dict(kind="verdict-input", input=last.get("in"), src=last.get("src"), info=crash))
    return summ, out


def judge_records(prop, val, verdict, what):
    by_index = {}
    for idx, why in val["violations"]:
        by_index.setdefault(idx, []).append(why)
    for idx in sorted(by_index):
        r = json.loads(val["lines"][idx - 1])
        for why in by_index[idx]:
            verdict.violation(why, dict(kind="verdict-input" if r.get("t") == "verdict" else "record", input=r.get("in"), record=r, what=what))
    report_drifts(prop, [(f"{what} record {i}", w) for i, w in val["drifts"]])


def run_c07(tier, seed, verdict):
    cfg = TIERS[tier]
    wd = _workdir("C07", tier, seed)
    cov = dict(drifts=0, mc=[])
    half = max(2, cfg["workers"] // 2)
    tb = start_mc_bytes(cfg, wd, workers=cfg["workers"] - half + 2)
    tv = start_mc_values(cfg, seed, wd, workers=half)
    tv.wait(cfg["timeout"])
    cov["mc"].append(mc_must_hold(tv, "value domain (source of the valid encodings that are mutated)"))
    vectors = os.path.join(wd, "vectors.ndjson")
    extract_vectors(tv.out, vectors)
    build()
    summ, recs = gen_verdicts(cfg, seed, vectors, wd, cfg["mutants"], cfg["short_len"], verdict, "C07")
    tb.wait(cfg["timeout"])
    cov["mc"].append(mc_must_hold(tb, f"decode/skip/kind/convert agreement theorems on every byte string of length <= {cfg['bytes_len']} "
                                      f"over {cfg['alpha']} symbols, one state per string"))
    log(f"[C07] TLC: {tb.distinct} byte strings, {tv.distinct} value states")
    val = dict(records=0, states=0, drifts=[], violations=[], wall_s=0)
    st = dict(ran=False)
    if summ:
        log(f"[C07] recorded the real walkers on {summ['records']} inputs ({summ['by_source']}); max peak allocation / input length = "
            f"{summ['max_alloc_ratio']['ratio']:.1f} (bound {ALLOC_BOUND})")
        val = validate_records(recs, "C07", cfg, wd, "verdicts")
        judge_records("C07", val, verdict, "codec-verdicts")
        cov["drifts"] += len(val["drifts"])
        log(f"[C07] TLC judged {val['records']} records in {val['wall_s']}s: {len(val['violations'])} violation finding(s), {len(val['drifts'])} drift(s)")
        line = next((l for l in val["lines"] if '"skip":{"n":' in l and '"r":"ok"},"split"' in l and '"dec":{"n":-1' not in l), val["lines"][0])

        def mut(r):
            r["skip"] = dict(r="ok", n=len(r["in"]) + 1)
        st = selftest_records("C07", line, mut, wd, cfg)
    coverage = dict(
        states=sum(m["distinct"] for m in cov["mc"]), transitions=sum(m["generated"] for m in cov["mc"]), trace_states=val["states"],
        mc=cov["mc"], traces_validated_against_impl=val["records"],
        evaluations=summ["records"] if summ else 0, distinct_nontrivial=summ["nontrivial"] if summ else 0,
        rule="one evaluation = one distinct input byte string on which every real walker (decode, skip, len, split-off, opaque "
             "deserialization, kind, convert, unknown-field/variant capture) was run and recorded, then judged by TLC against the "
             "reference; inputs are de-duplicated; non-trivial = at least 2 bytes and not an unmodified valid encoding",
        samples=(summ["samples"] if summ and summ["samples"] else [dict(note="no sample")]),
        inputs_by_source=summ["by_source"] if summ else {}, max_alloc_ratio=summ["max_alloc_ratio"] if summ else None,
        alloc_bound=ALLOC_BOUND, conformance_drifts=cov["drifts"], selftest=st, known_findings_reobserved=verdict.known)
    return coverage


def run_c13(tier, seed, verdict):
    cfg = TIERS[tier]
    wd = _workdir("C13", tier, seed)
    cov = dict(drifts=0, mc=[])
    half = max(2, cfg["workers"] // 2)
    tb = start_mc_bytes(cfg, wd, workers=cfg["workers"] - half + 2)
    tv = start_mc_values(cfg, seed, wd, workers=half)
    tv.wait(cfg["timeout"])
    cov["mc"].append(mc_must_hold(tv, "Conv(x,V1) = legacy encoding, no 1.20 kind, same value, idempotent; Conv(x,V2) = x; version table; "
                                      "all encodings (current, legacy, mixed, non-canonical) of every value"))
    vectors = os.path.join(wd, "vectors.ndjson")
    extract_vectors(tv.out, vectors)
    build()
    summ, rec = run_vectors("C13", "c13", vectors, wd, verdict, cov)
    vsumm, vrecs = gen_verdicts(cfg, seed, vectors, wd, cfg["mutants_c13"], cfg["short_len_c13"], verdict, "C13")
    tb.wait(cfg["timeout"])
    cov["mc"].append(mc_must_hold(tb, f"convertible <=> well-formed, result well-formed / same value / no 1.20 kind / idempotent on every byte "
                                      f"string of length <= {cfg['bytes_len']} over {cfg['alpha']} symbols"))
    log(f"[C13] TLC: {tv.distinct} value states, {tb.distinct} byte strings")
    val = dict(records=0, states=0, drifts=[], violations=[], wall_s=0)
    val2 = dict(records=0, states=0, drifts=[], violations=[], wall_s=0)
    st = dict(ran=False)
    if summ:
        log(f"[C13] replayed {summ['vectors']} vectors x all (from,to) version pairs: {summ['checks']} checks, {summ['violations']} violation(s), "
            f"{summ['drifts']} drift(s); {summ['conv_records']} distinct conversions recorded")
        val = validate_records(rec, "C13", cfg, wd, "conv")
        judge_records("C13", val, verdict, "codec-vectors conversion")
        cov["drifts"] += len(val["drifts"])
        line = next((l for l in val["lines"] if '"out":[17,0]' in l or '"out":[39,0]' in l), None)
        if line:
            def mut(r):
                r["out"][0] += 26       # the counted kind becomes its 1.20 twin again
            st = selftest_records("C13", line, mut, wd, cfg)
    if vsumm:
        val2 = validate_records(vrecs, "C13", cfg, wd, "verdicts")
        judge_records("C13", val2, verdict, "codec-verdicts")
        cov["drifts"] += len(val2["drifts"])
        log(f"[C13] TLC judged {val['records']} conversions of vectors and {val2['records']} conversions of mutated / random inputs "
            f"in {val['wall_s'] + val2['wall_s']:.1f}s")
    stv = selftest_vectors("c13", vectors, wd)
    coverage = dict(
        states=sum(m["distinct"] for m in cov["mc"]), transitions=sum(m["generated"] for m in cov["mc"]),
        trace_states=val["states"] + val2["states"],
        mc=cov["mc"], traces_validated_against_impl=val["records"] + val2["records"],
        evaluations=(summ["conv_records"] if summ else 0) + (vsumm["records"] if vsumm else 0),
        version_pair_checks=summ["checks"] if summ else 0,
        distinct_nontrivial=summ["conv_changed"] if summ else 0,
        rule="one evaluation = one distinct (input bytes, converted bytes) pair produced by the real converter (vectors: every encoding "
             "of every TLC value under all 14x13 (from,to) pairs; plus mutated / random inputs), judged by the driver against the "
             "vector's value and by TLC against the reference; non-trivial = the conversion changed the bytes",
        samples=(summ["samples"] if summ and summ["samples"] else [dict(note="no sample")]),
        illformed_inputs=vsumm["records"] if vsumm else 0, conformance_drifts=cov["drifts"], selftest=dict(records=st, vectors=stv),
        known_findings_reobserved=verdict.known)
    return coverage


def run(prop, tier, seed):
    if prop not in PROPS:
        raise vlib.ToolError(f"codec_checks does not serve {prop}")
    t0 = time.time()
    verdict = vlib.Verdict(prop)
    build()
    try:
        coverage = dict(C01=run_c01, C07=run_c07, C13=run_c13)[prop](tier, seed, verdict)
    finally:
        _cleanup()
    vlib.write_evidence(prop, tier, seed, "model_checking", coverage, time.time() - t0, verdict.violations, assumptions=ASSUMPTIONS[prop])
    log(f"[{prop}] {tier} seed={seed}: {verdict.violations} violation(s), {coverage.get('conformance_drifts', 0)} drift(s), "
        f"{time.time() - t0:.0f}s")
    return verdict


def replay(prop, path, seed):
    """Re-runs one recorded violation against the current tree."""
    verdict = vlib.Verdict(prop)
    data = json.load(open(path))
    build()
    wd = _workdir(prop, "replay", seed)
    cfg = TIERS["quick"]
    kind = data.get("kind")
    try:
        return _replay(prop, data, kind, wd, cfg, verdict)
    finally:
        _cleanup()


def _replay(prop, data, kind, wd, cfg, verdict):
    if kind == "vector" and data.get("vector"):
        vp = os.path.join(wd, "vector.ndjson")
        with open(vp, "w") as f:
            if data.get("header"):
                f.write(json.dumps(data["header"]) + "\n")
            f.write(json.dumps(data["vector"]) + "\n")
        cov = dict(drifts=0)
        run_vectors(prop, data.get("mode", "c01"), vp, wd, verdict, cov)
    elif kind in ("verdict-input", "driver-crash") and data.get("input"):
        out = os.path.join(wd, "replay.ndjson")
        summ, crash = run_driver("codec-verdicts", ["--vectors", "/dev/null", "--input", json.dumps(data["input"]), "--out", out], wd)
        if crash:
            verdict.violation("the process died while the real codec processed the input", dict(kind="verdict-input", input=data["input"], info=crash))
        else:
            val = validate_records(out, prop if prop in ("C07", "C13") else "C07", cfg, wd, "replay", shards=1)
            judge_records(prop, val, verdict, "replay")
    elif kind == "record" and data.get("record"):
        p = os.path.join(wd, "replay-record.ndjson")
        with open(p, "w") as f:
            f.write(json.dumps(data["record"]) + "\n")
        log("note: a 'conv'/'enc' record is re-judged as recorded (re-run the check to regenerate it from the current tree)")
        val = validate_records(p, prop, cfg, wd, "replay", shards=1)
        judge_records(prop, val, verdict, "replay")
    else:
        raise vlib.ToolError("unknown replay kind")
    return verdict
