"""Shared plumbing of /verif/bin/check: building the harness against /repo's working tree,
running drivers, running TLC (exhaustive and trace validation), known findings, replay files,
evidence files.

Exit-code contract (DESIGN 1.2): 0 held / 1 VIOLATION line printed / 2 tool error.
"""
import json
import os
import re
import shutil
import subprocess
import sys
import time

VERIF = os.path.dirname(os.path.dirname(os.path.abspath(__file__)))
SPEC = os.path.join(VERIF, "spec")
HARNESS = os.path.join(VERIF, "harness")
WORK = os.path.join(VERIF, ".work")
REPLAYS = os.path.join(VERIF, "replays")
# (VERIF_EVIDENCE_DIR: exploratory runs with other seeds write their evidence elsewhere)
EVIDENCE = os.environ.get("VERIF_EVIDENCE_DIR") or os.path.join(VERIF, "evidence")
TARGET_BIN = os.path.join(HARNESS, "target", "debug")


class ToolError(Exception):
    pass


def log(msg):
    print(msg, flush=True)


def workdir(name):
    d = os.path.join(WORK, name)
    os.makedirs(d, exist_ok=True)
    return d


def seed_from_env(default=1):
    try:
        return int(os.environ.get("VERIF_SEED", default))
    except ValueError:
        return default


# ------------------------------------------------------------------------------------------------
# building
_built = False


def build_harness(packages=None):
    """cargo build of the harness workspace (path deps on /repo => rebuilt from its working tree)."""
    global _built
    if _built:
        return
    lock = os.path.join(HARNESS, "Cargo.lock")
    if not os.path.exists(lock):
        shutil.copy("/repo/Cargo.lock", lock)
    # make sure cargo notices every edit and every revert of /repo's working tree: touch the files that
    # are modified now or were modified at the previous build (cargo's freshness test is mtime based)
    try:
        st = subprocess.run(["git", "-C", "/repo", "status", "--porcelain"], stdout=subprocess.PIPE, text=True).stdout
        cur = sorted({l[3:].strip() for l in st.splitlines() if l.strip()})
        stamp = os.path.join(workdir("stamps"), "repo-modified.json")
        prev = json.load(open(stamp)) if os.path.exists(stamp) else []
        for rel in set(cur) | set(prev):
            f = os.path.join("/repo", rel)
            if os.path.isfile(f):
                os.utime(f)
        json.dump(cur, open(stamp, "w"))
    except Exception:
        pass
    t0 = time.time()
    cmd = ["cargo", "build", "--offline"]
    for pkg in (packages or ["broker-drivers"]):
        cmd += ["-p", pkg]
    env = dict(os.environ, CARGO_NET_OFFLINE="true", CARGO_TERM_COLOR="never")
    p = subprocess.run(cmd, cwd=HARNESS, env=env, stdout=subprocess.PIPE, stderr=subprocess.STDOUT, text=True)
    if p.returncode != 0:
        sys.stdout.write(p.stdout[-6000:])
        raise ToolError("harness build failed")
    log(f"[build] harness built in {time.time() - t0:.1f}s")
    _built = True


def run_driver(binary, args, timeout=1800):
    """Runs a harness binary; its last stdout line is a JSON summary."""
    path = os.path.join(TARGET_BIN, binary)
    p = subprocess.run([path] + [str(a) for a in args], stdout=subprocess.PIPE, stderr=subprocess.PIPE, text=True, timeout=timeout)
    if p.returncode != 0:
        sys.stdout.write(p.stdout[-3000:])
        sys.stdout.write(p.stderr[-3000:])
        raise ToolError(f"driver {binary} exited with {p.returncode}")
    lines = [l for l in p.stdout.strip().splitlines() if l.strip()]
    try:
        return json.loads(lines[-1])
    except Exception:
        raise ToolError(f"driver {binary}: no JSON summary")


# ------------------------------------------------------------------------------------------------
# TLC
def _tlc_env(extra_env=None, trace=False):
    env = dict(os.environ)
    opts = "-Xss1g"
    if trace:
        opts += " -Dtlc2.tool.queue.IStateQueue=StateDeque"
    env["JAVA_TOOL_OPTIONS"] = opts
    if extra_env:
        env.update(extra_env)
    return env


def tlc_trace(module, cfg, trace_path, timeout=1800, extra_env=None):
    """Trace validation: returns dict(consumed, records, violations=[(index, prop, why)], states)."""
    meta = workdir("tlc-" + str(os.getpid()) + "-" + str(time.time_ns()))
    env = _tlc_env(dict(TRACE=trace_path, **(extra_env or {})), trace=True)
    cmd = ["tlc", "-workers", "1", "-metadir", meta, "-cleanup", "-noGenerateSpecTE", "-config", cfg, module]
    try:
        p = subprocess.run(cmd, cwd=SPEC, env=env, stdout=subprocess.PIPE, stderr=subprocess.STDOUT, text=True, timeout=timeout)
    except subprocess.TimeoutExpired:
        raise ToolError(f"TLC timed out on {trace_path}")
    finally:
        shutil.rmtree(meta, ignore_errors=True)
    out = p.stdout
    viol = []
    # <<"VIOLATION-AT", 12, "C02", "why">> possibly wrapped over several lines
    flat = re.sub(r"\s*\n\s*", " ", out)
    for m in re.finditer(r'<<\s*"VIOLATION-AT",\s*(\d+),\s*"([^"]*)",\s*"((?:[^"\\]|\\.)*)"\s*>>', flat):
        viol.append((int(m.group(1)), m.group(2), m.group(3)))
    drifts = [(int(m.group(1)), m.group(2)) for m in
              re.finditer(r'<<\s*"DRIFT-AT",\s*(\d+),\s*"((?:[^"\\]|\\.)*)"\s*>>', flat)]
    notc = re.search(r'"TRACE-NOT-CONSUMED",\s*(\d+),\s*(\d+)', flat)
    gen = re.search(r"(\d+) states generated, (\d+) distinct states found", out)
    if gen is None or ("Error:" in out and notc is None and "Postcondition" not in out):
        sys.stdout.write(out[-4000:])
        raise ToolError(f"TLC failed on {module}")
    if "Error:" in out and notc is None:
        sys.stdout.write(out[-4000:])
        raise ToolError(f"TLC error on {module}")
    return dict(consumed=notc is None, consumed_upto=int(notc.group(1)) if notc else None,
                violations=viol, drifts=drifts, states=int(gen.group(2)), raw=out if notc else "")


def split_runs(path, shards, wd, tag):
    """Splits a trace at reset records into `shards` files of whole runs; returns [(path, first_index)]."""
    lines = open(path).read().splitlines()
    starts = [i for i, l in enumerate(lines) if '"t":"reset"' in l]
    if not starts:
        return []
    per = max(1, (len(starts) + shards - 1) // shards)
    out = []
    for k in range(0, len(starts), per):
        a = starts[k]
        b = starts[k + per] if k + per < len(starts) else len(lines)
        p = os.path.join(wd, f"{tag}-shard{k // per}.ndjson")
        with open(p, "w") as f:
            f.write("\n".join(lines[a:b]) + "\n")
        out.append((p, a))
    return out


def tlc_trace_sharded(module, cfg, trace_path, shards=8, min_lines=60000, timeout=3000):
    """tlc_trace on a large trace: split at reset records into `shards` files validated side by side; indices in the
    result are those of the whole file."""
    with open(trace_path) as f:
        n = sum(1 for _ in f)
    if n < min_lines or shards <= 1:
        return tlc_trace(module, cfg, trace_path, timeout=timeout)
    from concurrent.futures import ThreadPoolExecutor
    wd = workdir("shards-" + str(os.getpid()) + "-" + str(time.time_ns()))
    parts = split_runs(trace_path, shards, wd, "part")
    try:
        with ThreadPoolExecutor(max_workers=shards) as pool:
            results = list(pool.map(lambda sh: (sh[1], tlc_trace(module, cfg, sh[0], timeout=timeout)), parts))
    finally:
        shutil.rmtree(wd, ignore_errors=True)
    out = dict(consumed=True, consumed_upto=None, violations=[], drifts=[], states=1, raw="")
    for off, r in results:
        if not r["consumed"]:
            out["consumed"] = False
            out["consumed_upto"] = (r["consumed_upto"] or 0) + off
        out["violations"] += [(i + off, p, w) for (i, p, w) in r["violations"]]
        out["drifts"] += [(i + off, w) for (i, w) in r["drifts"]]
        out["states"] += r["states"] - 1
    return out


def tlc_behaviours(module, cfg, out_path, workers=8, timeout=1800, simulate=None, seed=1, heap="8g"):
    """Runs TLC on a configuration whose invariant prints <<"REPLAY", json>> lines (exhaustively, or with
    simulate=(num, depth) by random simulation) and returns the printed behaviours (JSON text of action
    lists) without duplicates and without behaviours that are a strict prefix of another one."""
    meta = workdir("tlcb-" + str(os.getpid()) + "-" + str(time.time_ns()))
    env = _tlc_env(None)
    env["JAVA_TOOL_OPTIONS"] += f" -Xmx{heap}"
    cmd = ["tlc", "-metadir", meta, "-cleanup", "-noGenerateSpecTE", "-config", cfg]
    if simulate:
        cmd += ["-workers", "1", "-simulate", f"num={simulate[0]}", "-depth", str(simulate[1]), "-seed", str(seed)]
    else:
        cmd += ["-workers", str(workers)]
    cmd.append(module)
    t0 = time.time()
    try:
        with open(out_path, "w") as fo:
            p = subprocess.run(cmd, cwd=SPEC, env=env, stdout=fo, stderr=subprocess.STDOUT, text=True, timeout=timeout)
    except subprocess.TimeoutExpired:
        raise ToolError(f"TLC timed out on {module}/{cfg}")
    finally:
        shutil.rmtree(meta, ignore_errors=True)
    acts = set()
    tail = []
    states = 0
    complete = False
    with open(out_path) as fi:
        for l in fi:
            if l.startswith('<<"REPLAY", "'):
                body = l.rstrip("\n")[len('<<"REPLAY", "'):-len('">>')].replace('\\"', '"')
                acts.add(tuple(json.dumps(a, sort_keys=True) for a in json.loads(body)))
            else:
                tail.append(l)
                tail = tail[-60:]
                m = re.search(r"(\d+) states generated, (\d+) distinct states found, (\d+) states left on queue", l)
                if m:
                    states, complete = int(m.group(2)), int(m.group(3)) == 0
                m = re.search(r"The number of states generated: (\d+)", l)
                if m:
                    states, complete = int(m.group(1)), False
    text = "".join(tail)
    if "Error:" in text or states == 0:
        sys.stdout.write(text[-4000:])
        raise ToolError(f"TLC failed on {module}/{cfg}")
    ordered = sorted(acts)
    keep = [a for k, a in enumerate(ordered) if not (k + 1 < len(ordered) and ordered[k + 1][:len(a)] == a)]
    return dict(behaviours=["[" + ",".join(a) + "]" for a in keep], printed=len(acts), states=states, complete=complete,
                wall_s=round(time.time() - t0, 1))


def tlc_mc(module, cfg, workers=8, timeout=3600, extra_args=None, extra_env=None, heap="8g"):
    """Exhaustive model checking. Returns dict(ok, states, distinct, depth, violation, coverage)."""
    meta = workdir("tlcmc-" + str(os.getpid()) + "-" + str(time.time_ns()))
    env = _tlc_env(extra_env)
    env["JAVA_TOOL_OPTIONS"] += f" -Xmx{heap}"
    cmd = ["tlc", "-workers", str(workers), "-metadir", meta, "-cleanup", "-noGenerateSpecTE", "-config", cfg] + (extra_args or []) + [module]
    t0 = time.time()
    try:
        p = subprocess.run(cmd, cwd=SPEC, env=env, stdout=subprocess.PIPE, stderr=subprocess.STDOUT, text=True, timeout=timeout)
    except subprocess.TimeoutExpired:
        shutil.rmtree(meta, ignore_errors=True)
        raise ToolError(f"TLC timed out on {module}/{cfg}")
    shutil.rmtree(meta, ignore_errors=True)
    out = p.stdout
    gen = re.search(r"(\d+) states generated, (\d+) distinct states found, (\d+) states left on queue", out)
    depth = re.search(r"depth of the complete state graph search is (\d+)", out)
    violated = re.search(r"Error: Invariant (\S+) is violated", out) or re.search(r"Error: (Action property|Temporal propert)[^\n]*", out)
    if gen is None:
        sys.stdout.write(out[-5000:])
        raise ToolError(f"TLC failed on {module}/{cfg}")
    other_error = ("Error:" in out) and not violated
    if other_error:
        sys.stdout.write(out[-5000:])
        raise ToolError(f"TLC error on {module}/{cfg}")
    return dict(ok=violated is None, generated=int(gen.group(1)), distinct=int(gen.group(2)), left=int(gen.group(3)),
                depth=int(depth.group(1)) if depth else None, violation=violated.group(0) if violated else None,
                wall_s=round(time.time() - t0, 1), raw=out if violated else "", out=out)


# ------------------------------------------------------------------------------------------------
# known findings
def load_known():
    p = os.path.join(VERIF, "known-findings.json")
    try:
        return [f for f in json.load(open(p))["findings"] if f.get("status") == "known"]
    except Exception:
        return []


def match_known(prop, why, site=""):
    """A known finding matches by property and by a signature regex on 'why' / site."""
    for f in load_known():
        if f.get("property") != prop:
            continue
        sig = f.get("signature", "")
        if sig and (re.search(sig, why) or (site and re.search(sig, site))):
            return f
    return None


# ------------------------------------------------------------------------------------------------
# replay files and verdict lines
def write_replay(prop, payload):
    os.makedirs(REPLAYS, exist_ok=True)
    n = 0
    while True:
        path = os.path.join(REPLAYS, f"{prop}-{int(time.time())}-{os.getpid()}-{n}.json")
        if not os.path.exists(path):
            break
        n += 1
    json.dump(payload, open(path, "w"), indent=1)
    return path


class Verdict:
    def __init__(self, prop):
        self.prop = prop
        self.violations = 0
        self.known = 0
        self.notes = []

    def violation(self, why, payload, site=""):
        k = match_known(self.prop, why, site)
        if k is not None:
            self.known += 1
            self.known_ids = getattr(self, "known_ids", set())
            if k.get("id") not in self.known_ids:      # one line per listed finding
                self.known_ids.add(k.get("id"))
                log(f"KNOWN-FINDING: property={self.prop} {k.get('id', '')} {why}")
            return
        # one replay file per distinct reason, at most 8 per run (the count is still exact)
        self.reasons = getattr(self, "reasons", {})
        self.reasons[why] = self.reasons.get(why, 0) + 1
        if self.reasons[why] > 1 or len(self.reasons) > 8:
            self.violations += 1
            return
        payload = dict(payload, property=self.prop, why=why)
        path = write_replay(self.prop, payload)
        self.violations += 1
        log(f"VIOLATION property={self.prop} replay={path}")
        log(f"  reason: {why}")

    def note(self, text):
        self.notes.append(text)
        log(f"NOTE {text}")


def write_evidence(prop, tier, seed, level, coverage, wall_s, violations, assumptions=None):
    os.makedirs(EVIDENCE, exist_ok=True)
    ev = dict(property_id=prop, tier=tier, seed=seed, level=level, coverage=coverage,
              wall_s=round(wall_s, 1), violations=violations, assumptions=assumptions or [])
    json.dump(ev, open(os.path.join(EVIDENCE, f"{prop}.json"), "w"), indent=1)


def read_ndjson(path):
    return [json.loads(l) for l in open(path) if l.strip()]


def run_of_record(records, idx):
    """records: list of dicts; idx 1-based. Returns (start, end) 0-based slice of the run containing idx."""
    i = idx - 1
    s = i
    while s > 0 and records[s].get("t") != "reset":
        s -= 1
    e = i + 1
    while e < len(records) and records[e].get("t") != "reset":
        e += 1
    return s, e


def nontrivial_signature(run_records, alphabet):
    """Signature of a run projected on the property's own alphabet (kinds of inputs and outputs)."""
    sig = []
    for r in run_records:
        if r.get("t") == "msg" and r["m"]["k"] in alphabet:
            sig.append("i:" + r["m"]["k"])
        for o in r.get("out", []):
            k = o["m"]["k"]
            if k in alphabet:
                sig.append("o:" + k + (":" + o["m"]["res"] if "res" in o["m"] else ""))
    return tuple(sig)
