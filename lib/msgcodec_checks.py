"""C08 - message codec round-trip and strict parsing of all message kinds.

Engine (DESIGN 4.8 / 6 C08):

1. TLC checks spec/MessageCodec_MC.tla exhaustively over the enumerated message domain (every kind x
   every alternative of every embedded enum x varint classes x payloads): WF, DecMsg(EncMsg(m)) = m,
   length prefix = frame length, strictness under single-cell mutations, leniency on wide varints;
   and writes the domain as vectors (message + EncMsg bytes + cell map).
2. `msg-vectors run` builds the REAL aldrin_core Message for every vector and decides the property
   on the real code (V1..V9, see the driver's header), mutates the real frames (aimed with the cell
   map, exhaustive per byte, seeded random) and records the real parser's verdicts.
   Conformance: byte equality of the real encoder with EncMsg -> DRIFT.
3. TLC validates the recorded verdicts against DecMsg (spec/MessageCodec_Trace.tla).  A real
   acceptance of a frame with a wrong prefix / unknown kind is a VIOLATION; every other disagreement
   with the reference (the 63-row layout table is hand-transcribed) is DRIFT.
4. Binding sanity (both tiers): one expected encoding / one expected message / recorded verdicts are
   corrupted and the comparisons must fail.
"""
import glob
import json
import os
import re
import subprocess
import time

import vlib
from vlib import log

PROP = "C08"
MSG_SRC = "/repo/core/src/message"

TIERS = {
    # p_*: sampling of frames into the verdict file (all frames are judged on the real code)
    "quick": dict(cfg="MessageCodec_MC.cfg", randoms=20, random_frames=200_000, p_acc=0.06, p_rej=0.012, p_aimed=0.5,
                  chunk=250, tlc_timeout=600),
    "thorough": dict(cfg="MessageCodec_MC_thorough.cfg", randoms=300, random_frames=6_000_000, p_acc=0.35, p_rej=0.04,
                     p_aimed=1.0, chunk=400, tlc_timeout=1500),
}


def build_driver():
    t0 = time.time()
    env = dict(os.environ, CARGO_NET_OFFLINE="true", CARGO_TERM_COLOR="never")
    lock = os.path.join(vlib.HARNESS, "Cargo.lock")
    if not os.path.exists(lock):
        import shutil
        shutil.copy("/repo/Cargo.lock", lock)
    # the workspace is shared ("members = crates/*"): a sibling crate that is being created makes the
    # manifest unloadable for a moment - retry before giving up
    for attempt in range(4):
        p = subprocess.run(["cargo", "build", "--offline", "-p", "msgcodec-driver"], cwd=vlib.HARNESS, env=env,
                           stdout=subprocess.PIPE, stderr=subprocess.STDOUT, text=True)
        if p.returncode == 0 or "manifest" not in p.stdout or attempt == 3:
            break
        time.sleep(20)
    if p.returncode != 0:
        print(p.stdout[-6000:])
        raise vlib.ToolError("msgcodec-driver build failed")
    log(f"[build] msgcodec-driver built in {time.time() - t0:.1f}s")


def golden_frames():
    """The byte vectors of the `#[cfg(test)] mod test` of core/src/message/*.rs (`let serialized = [..];`)."""
    frames = []
    for f in sorted(glob.glob(os.path.join(MSG_SRC, "*.rs"))):
        if os.path.basename(f) in ("packetizer.rs", "test.rs"):
            continue
        try:
            src = open(f).read()
        except OSError:
            continue
        i = src.find("#[cfg(test)]")
        if i < 0:
            continue
        for m in re.finditer(r"let\s+serialized\s*=\s*\[([^\]]*)\]\s*;", src[i:]):
            body = re.sub(r"//[^\n]*", "", m.group(1))
            try:
                b = [int(x.strip().replace("_", "").removesuffix("u8"), 0) for x in body.split(",") if x.strip()]
            except ValueError:
                continue
            if b and all(0 <= x < 256 for x in b) and b not in frames:
                frames.append(b)
    return frames


def model_check(cfg, vectors, timeout):
    res = vlib.tlc_mc("MessageCodec_MC", cfg, workers=4, timeout=timeout, extra_env=dict(VECTORS=vectors), heap="8g")
    if not res["ok"]:
        print(res["raw"][-5000:])
        raise vlib.ToolError(f"the reference itself fails its theorems ({cfg}): {res['violation']}")
    m = re.search(r'"VECTORS-WRITTEN",\s*(\d+)', res["out"])
    if vectors and (m is None or not os.path.exists(vectors)):
        raise vlib.ToolError("TLC did not write the vectors")
    return res, int(m.group(1)) if m else 0


def run_driver(args, timeout=3000):
    return vlib.run_driver("msg-vectors", args, timeout=timeout)


def count_items(line):
    """Number of frames in one batch record (without parsing the whole line)."""
    try:
        body = line.split('"ok":[', 1)[1].split("]", 1)[0]
        return body.count(",") + 1 if body.strip() else 0
    except IndexError:
        return len(json.loads(line)["ok"])


def validate_verdicts(path, chunk, verdict, wd, tag, timeout):
    """Splits the verdict file into chunks of `chunk` batches, runs the trace spec on each.
    Returns (records, batches, drift_lines)."""
    records = batches = 0
    drifts = []
    part = []
    n_part = 0

    def flush():
        nonlocal part, n_part, records, batches
        if not part:
            return
        p = os.path.join(wd, f"{tag}-part{n_part}.ndjson")
        with open(p, "w") as f:
            f.write("\n".join(part) + "\n")
        res = vlib.tlc_trace("MessageCodec_Trace", "MessageCodec_Trace.cfg", p, timeout=timeout)
        if not res["consumed"]:
            raise vlib.ToolError(f"TLC did not consume the verdict file {p} (stopped at {res['consumed_upto']})")
        recs = None
        for (idx, prop, why) in res["violations"]:
            if recs is None:
                recs = [json.loads(l) for l in part]
            item = int(why.rsplit("#", 1)[1]) - 1
            rec = recs[idx - 1]
            case = dict(kind="frame", frame=rec["fr"][item], tag=rec["tg"][item])
            if prop == PROP:
                verdict.violation(why.rsplit(" #", 1)[0], dict(case=case, source="trace validation against DecMsg"))
            else:
                drifts.append((why.rsplit(" #", 1)[0], case, rec["ok"][item]))
        batches += len(part)
        records += sum(count_items(l) for l in part)
        os.remove(p)
        part = []
        n_part += 1

    with open(path) as f:
        for line in f:
            line = line.strip()
            if not line:
                continue
            part.append(line)
            if len(part) >= chunk:
                flush()
    flush()
    return records, batches, drifts


def selftest(wd, vectors, seed):
    """The binding must bind: corrupt expected values and see the comparisons fail."""
    lines = []
    with open(vectors) as f:
        for l in f:
            v = json.loads(l)
            if v["cells"] and any(c[2] == 0 for c in v["cells"]) and any(c[2] == 1 for c in v["cells"]) and v["k"] in (3, 7, 11):
                lines.append(v)
            if len(lines) >= 3:
                break
    if len(lines) < 3:
        raise vlib.ToolError("selftest: no suitable vectors")
    # (a) one byte inside a uuid of the expected encoding
    a = json.loads(json.dumps(lines[0]))
    uu = [c for c in a["cells"] if c[2] == 1][0]
    a["enc"][uu[0] + 3] ^= 0x40
    # (b) the expected message: serial cell changed, expected encoding left alone
    b = json.loads(json.dumps(lines[1]))
    i = [j for j, c in enumerate(b["cells"]) if c[2] == 0][0]
    b["fs"][i][0] = (b["fs"][i][0] + 1) % 200
    p = os.path.join(wd, "selftest-vectors.ndjson")
    with open(p, "w") as f:
        f.write(json.dumps(a) + "\n" + json.dumps(b) + "\n" + json.dumps(lines[2]) + "\n")
    out = os.path.join(wd, "selftest-verdicts.ndjson")
    s = run_driver(["run", "--vectors", p, "--seed", seed, "--verdicts", out, "--p-acc", 1, "--p-rej", 1, "--random-per-vector", 5,
                    "--random-frames", 0, "--batch", 1000000])
    if s["byte_agreement"] > 1 or s["drift_count"] < 2:
        raise vlib.ToolError(f"selftest: corrupted expected encodings not noticed (agreement {s['byte_agreement']}, drifts {s['drift_count']})")
    whys = " ".join(s["violations_by_why"].keys())
    if "V9" not in whys:
        raise vlib.ToolError("selftest: a corrupted expected message was not noticed (no V9)")
    # (c) recorded verdicts: corrupt one re-serialisation, claim a wrong-prefix frame and a frame cut by one byte accepted
    recs = vlib.read_ndjson(out)
    r = recs[0]
    pick = lambda tag, ok: next(j for j, t in enumerate(r["tg"]) if t == tag and r["ok"][j] == ok)
    i_ok, i_rej, i_rej2 = pick("valid", 1), pick("prefix", 0), pick("remove", 0)
    r["rs"][i_ok][-1] ^= 1
    r["ok"][i_rej] = 1
    r["ok"][i_rej2] = 1
    bad = os.path.join(wd, "selftest-bad.ndjson")
    with open(bad, "w") as f:
        for x in recs:
            f.write(json.dumps(x) + "\n")
    res = vlib.tlc_trace("MessageCodec_Trace", "MessageCodec_Trace.cfg", bad, timeout=300)
    got = {(p, int(w.rsplit("#", 1)[1])) for (_, p, w) in res["violations"]}
    want = {(PROP, i_rej + 1), (PROP + ".drift", i_ok + 1), (PROP + ".drift", i_rej2 + 1)}
    if not want <= got:
        raise vlib.ToolError(f"selftest: corrupted verdict records not noticed as expected: {res['violations']}")
    log("[selftest] corrupted expected encoding -> DRIFT, corrupted expected message -> V9, corrupted verdicts -> 1 violation + 2 drifts: the binding binds")
    return dict(corrupted_vectors_noticed=2, corrupted_verdicts_noticed=3)


def run(prop, tier, seed):
    t0 = time.time()
    verdict = vlib.Verdict(prop)
    cfgd = TIERS[tier]
    build_driver()
    wd = vlib.workdir(f"c08-{os.getpid()}")
    vectors = os.path.join(wd, "vectors.ndjson")

    # 1. the reference: exhaustive check + vector emission
    mc, n_vectors = model_check(cfgd["cfg"], vectors, cfgd["tlc_timeout"])
    log(f"[tlc] MessageCodec_MC/{cfgd['cfg']}: {mc['distinct']} states, {mc['generated']} generated, depth {mc['depth']}, "
        f"{n_vectors} vectors emitted, {mc['wall_s']}s")

    # 2. replay on the real code
    golden = golden_frames()
    gpath = os.path.join(wd, "golden.json")
    json.dump(golden, open(gpath, "w"))
    verdicts = os.path.join(wd, "verdicts.ndjson")
    args = ["run", "--vectors", vectors, "--seed", seed, "--verdicts", verdicts, "--p-acc", cfgd["p_acc"], "--p-rej", cfgd["p_rej"],
            "--p-aimed", cfgd["p_aimed"], "--random-per-vector", cfgd["randoms"], "--random-frames", cfgd["random_frames"],
            "--extra-frames", gpath]
    t1 = time.time()
    s = run_driver(args)
    log(f"[driver] {s['vectors']} vectors on the real code: byte agreement {s['byte_agreement']}/{s['vectors']}, round trip ok {s['roundtrip_ok']}, "
        f"{s['frames']} frames judged ({s['accepted_frames']} accepted), {s['golden']} golden vectors of the repo tests "
        f"({s['golden_reserialise_identical']} re-serialise identically), panics {s['panics']}, {time.time() - t1:.1f}s")
    if s["vectors"] != n_vectors:
        raise vlib.ToolError(f"driver read {s['vectors']} vectors, TLC wrote {n_vectors}")
    first_case = {}
    for v in s["violations"]:
        first_case.setdefault(v["why"], v["case"])
    for why, n in s["violations_by_why"].items():
        for _ in range(n):   # exact count; Verdict writes one replay file per distinct reason
            verdict.violation(why, dict(case=first_case.get(why, {}), seed=seed, tier=tier))
    drift_count = s["drift_count"]
    for d in s["drifts"]:
        log(f"DRIFT property={prop} {d['why']} ({s['drifts_by_why'].get(d['why'], 1)}x) first case: {json.dumps(d['case'])[:400]}")

    # 3. the real verdicts against DecMsg
    t2 = time.time()
    records, batches, drifts = validate_verdicts(verdicts, cfgd["chunk"], verdict, wd, "verdicts", cfgd["tlc_timeout"])
    log(f"[tlc] MessageCodec_Trace: {records} verdict records in {batches} batches validated against DecMsg, "
        f"{len(drifts)} disagreement(s), {time.time() - t2:.1f}s")
    if records != s["verdict_records"]:
        raise vlib.ToolError(f"verdict records: driver wrote {s['verdict_records']}, TLC saw {records}")
    # Opt-in (VERIF_C08_STRICT=1): "every field is well-formed" judged against the layout table as a
    # property-level clause, but only when the table has just been corroborated by byte agreement with
    # the real encoder on every enumerated message.  Off by default: the table is hand-transcribed.
    strict = os.environ.get("VERIF_C08_STRICT") == "1" and s["byte_agreement"] == s["vectors"]
    seen = {}
    for (why, case, ok) in drifts:
        if strict and why.startswith("real accepts, reference rejects"):
            verdict.violation("real parser accepted a frame with a malformed field (layout table): " + why.split(": ", 1)[1],
                              dict(case=case, source="trace validation against DecMsg"))
            continue
        seen[why] = seen.get(why, 0) + 1
        if seen[why] <= 3:
            log(f"DRIFT property={prop} {why}: tag={case['tag']} real_accepted={ok} frame={case['frame'][:80]}")
    drift_count += len(drifts)

    # 4. binding sanity
    try:
        st = selftest(wd, vectors, seed)
    except (vlib.ToolError, StopIteration, IndexError, KeyError) as e:
        # the self test presupposes a conforming implementation; on a tree that already violates the
        # property it is inconclusive and must not turn the verdict into a tool error
        if verdict.violations == 0 and drift_count == 0:
            raise vlib.ToolError(f"selftest failed: {e!r}")
        st = dict(inconclusive=repr(e))
        log(f"NOTE selftest inconclusive on a non-conforming tree: {e!r}")

    try:
        os.remove(verdicts)
        if verdict.violations == 0 and drift_count == 0:
            import shutil
            shutil.rmtree(wd, ignore_errors=True)
    except OSError:
        pass
    coverage = dict(
        states=mc["distinct"], transitions=mc["generated"], depth=mc["depth"], tlc_config=cfgd["cfg"],
        theorems=["Inv_WF", "Inv_RoundTrip", "Inv_Prefix", "Inv_Strict", "Inv_Lenient"],
        vectors_enumerated=n_vectors, vectors_replayed=s["vectors"], kinds_covered=s["kinds"],
        encoder_byte_agreement=s["byte_agreement"], roundtrip_ok=s["roundtrip_ok"],
        golden_vectors_of_repo_tests=s["golden"], golden_reserialise_identical=s["golden_reserialise_identical"],
        frames_judged_on_real_parser=s["frames"], frames_accepted=s["accepted_frames"], frames_by_tag=s["frames_by_tag"],
        accepted_by_tag=s["accepted_by_tag"], panics=s["panics"],
        traces_validated_against_impl=records, verdict_batches=batches, drift=drift_count,
        evaluations=s["vectors"] + s["frames"], distinct_nontrivial=s["distinct_signatures"],
        rule="distinct (kind, chosen alternative of every embedded enum, encoded width of every varint, payload length class) among the vectors replayed on the real code",
        samples=s["samples"], selftest=st)
    vlib.write_evidence(prop, tier, seed, "model_checking", coverage, time.time() - t0, verdict.violations,
                        assumptions=["payloads are opaque byte blobs (value well-formedness is C01/C07)",
                                     "frames shorter than 65536 bytes in the reference",
                                     "'every field well-formed' beyond prefix/kind/trailing clauses is judged against the hand-transcribed 63-row layout table and reported as DRIFT; the table agrees byte-for-byte with the real encoder on every enumerated message"])
    log(f"[C08] {tier} seed={seed}: violations={verdict.violations} drift={drift_count} wall={time.time() - t0:.1f}s")
    return verdict


def replay(prop, path, seed):
    verdict = vlib.Verdict(prop)
    data = json.load(open(path))
    if "case" not in data:
        raise vlib.ToolError("replay file without a case")
    build_driver()
    s = run_driver(["replay", "--file", path])
    log(f"[replay] {data.get('why', '')}: re-run on the current tree -> {s['violation_count']} violation(s)")
    for v in s["violations"]:
        verdict.violation(v["why"], dict(case=v["case"], replay_of=path))
    if s["violation_count"] == 0 and data.get("source", "").startswith("trace validation"):
        # a verdict-level finding: re-validate the real verdict of that one frame with TLC
        wd = vlib.workdir(f"c08-replay-{os.getpid()}")
        out = os.path.join(wd, "v.ndjson")
        one = os.path.join(wd, "one.json")
        json.dump(dict(case=data["case"]), open(one, "w"))
        subprocess.run([os.path.join(vlib.TARGET_BIN, "msg-vectors"), "replay", "--file", one, "--verdicts", out, "--p-rej", "1"],
                       stdout=subprocess.DEVNULL, check=False)
        if os.path.exists(out) and os.path.getsize(out) > 0:
            res = vlib.tlc_trace("MessageCodec_Trace", "MessageCodec_Trace.cfg", out, timeout=300)
            for (idx, p, why) in res["violations"]:
                strict = os.environ.get("VERIF_C08_STRICT") == "1" and why.startswith("real accepts, reference rejects")
                if p == prop or strict:
                    verdict.violation(why.rsplit(" #", 1)[0], dict(case=data["case"], replay_of=path))
    return verdict
