SPECIFICATION Spec
CONSTANTS
  B = 4
  Conns = {0, 1, 2}
  Versions = {20}
  ObjUuids = {101, 102}
  SvcUuids = {201}
  Events = {0}
  Fns = {0}
  CSerials = {0}
  Payloads = {1}
  TypeIds = {301}
  Caps <- CapsOne
  MaxCookie = 4
  InqBound = 1
  Kinds = {"CreateObject", "DestroyObject", "CreateService", "CreateService2", "DestroyService", "QueryServiceVersion", "QueryServiceInfo", "Sync"}
  Faults = {"ends", "dropped", "sdc", "sdb", "sdi"}
  WrongKinds = {}
  MsgBudget = 3
  InitSerial = 0
  Senders = {0, 1, 2}
  PoolKinds = {"live", "dead", "never"}
  ScriptSel = "none"
  V0 = 20
  V1 = 20

VIEW view
INVARIANTS ObserverOk NoPanicSite BoundaryConsistent FlagsOk StoppedClean
CHECK_DEADLOCK FALSE
