------------------------------ MODULE Handshake ------------------------------
(* C12, first sentence: "A handshake succeeds exactly for protocol 1.14 via the legacy connect
   message and for 1.x with x >= 14 via the new one, and the negotiated version is the minimum of
   the client's and 1.20; otherwise the client is told the version is incompatible."

   The table is a pure function; TLC checks its defining properties over the enumerated domain
   (MC_Handshake.cfg) and validates, record by record, the outcomes observed on the real
   `Acceptor` (broker side) and the real `ClientBuilder` (client side) against it
   (Trace_Handshake.cfg).  u32 values arrive as the signed 32-bit integer with the same bit
   pattern, so a negative number stands for a value >= 2^31. *)
EXTENDS Naturals, Integers, Sequences, TLC, Json, IOUtils

MinMinor == 14
MaxMinor == 20
Huge(n) == n < 0
Geq(n, k) == Huge(n) \/ n >= k
Min2(a, b) == IF Huge(a) THEN b ELSE IF a < b THEN a ELSE b

\* broker side: what the acceptor answers to Connect{version} / Connect2{major, minor}
Accept(connect2, major, minor) ==
  IF connect2
    THEN IF major = 1 /\ Geq(minor, MinMinor) THEN [res |-> "ok", ver |-> Min2(minor, MaxMinor)]
                                              ELSE [res |-> "incompatible", ver |-> 0]
    ELSE IF minor = MinMinor THEN [res |-> "ok", ver |-> MinMinor] ELSE [res |-> "incompatible", ver |-> 0]

\* client side: what ClientBuilder::connect makes of ConnectReply2{result}
ClientDecision(result, minor) ==
  CASE result = "ok" -> IF ~Huge(minor) /\ minor <= MaxMinor THEN [res |-> "ok", ver |-> minor] ELSE [res |-> "incompatible", ver |-> 0]
    [] result = "rejected" -> [res |-> "rejected", ver |-> 0]
    [] OTHER -> [res |-> "incompatible", ver |-> 0]

\* ---- exhaustive check of the table's defining properties -------------------------------------
Majors == {0, 1, 2, -1}
Minors == 0..30 \cup {-1, -2147483647}
VARIABLE row
TableInit == row \in [connect2 : BOOLEAN, major : Majors, minor : Minors]
TableNext == UNCHANGED row
TableSpec == TableInit /\ [][TableNext]_row
TableOk ==
  LET a == Accept(row.connect2, row.major, row.minor) IN
  /\ (a.res = "ok") = (IF row.connect2 THEN row.major = 1 /\ Geq(row.minor, 14) ELSE row.minor = 14)
  /\ a.res = "ok" => (a.ver >= 14 /\ a.ver <= 20 /\ (Huge(row.minor) \/ a.ver <= row.minor)
                      /\ (a.ver = 20 \/ a.ver = row.minor))
  /\ a.res # "ok" => a.res = "incompatible"
=============================================================================
