----------------------------- MODULE MC_Framing -----------------------------
(* Constant values for the configurations of Framing.tla.  MC_Framing_*.cfg: exhaustive design
   checks on toy sizes.  The case generators (real constants, Emit = TRUE) are written by
   lib/framing_checks.py into the work directory of a run as MC_FramingGen_<name>.tla/.cfg;
   MC_Framing_GenExample.cfg is one of them kept here to be run by hand:
     tlc -config MC_Framing_GenExample.cfg MC_Framing.tla | grep '^"CASE'  *)
EXTENDS Framing

SeqsUpTo(S, lo, hi) == UNION {[1 .. k -> S] : k \in lo .. hi}

\* toy sizes: MinReserve 4, MaxReserve 6, Boundary 8.  12 = 2 * MinReserve + 4 crosses the clamp.
ToyIn3 == SeqsUpTo({5, 6, 7}, 1, 3) \cup SeqsUpTo({5, 12}, 1, 2)
ToyIn2 == SeqsUpTo({5, 6}, 1, 2) \cup {<<12>>, <<5, 12>>}
ToyIn2b == SeqsUpTo({5, 6}, 0, 2) \cup {<<9, 5>>}
ToyOut2 == SeqsUpTo({5, 7}, 0, 2) \cup {<<9, 5>>}
ToyOut3 == SeqsUpTo({5, 7, 9}, 0, 3)
\* thorough tier
ToyIn4 == SeqsUpTo({5, 6, 7}, 1, 4) \cup SeqsUpTo({5, 12}, 1, 3)
MixIn2 == {<<5, 6>>, <<6, 12>>}
MixOut2 == {<<7, 5>>, <<9, 5, 5>>}
GenExIn == {<<5, 6>>, <<8193, 22>>}
None == {<< >>}
MixIn == {<<5, 6>>}
MixOut == {<<7, 5>>}
Msgs3 == SeqsUpTo({6}, 0, 3)       \* Buffered never looks at sizes (6: Sync, distinct serials)
=============================================================================
