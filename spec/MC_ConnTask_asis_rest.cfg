SPECIFICATION Spec
CONSTANTS
  InqBound = 1
  MaxClientMsgs = 2
  MaxBrokerMsgs = 2
  TreatClosedInqAsShutdown = FALSE
INVARIANTS TypeOK BrokerLearns NoGhostForward AtMostOneShutdownToClient
PROPERTY RunReturns
CHECK_DEADLOCK FALSE
