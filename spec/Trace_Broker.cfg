SPECIFICATION Spec
CONSTANT B = 65536
POSTCONDITION Accepted
CHECK_DEADLOCK FALSE
