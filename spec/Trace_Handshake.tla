-------------------------- MODULE Trace_Handshake --------------------------
(* Validates recorded handshake outcomes of the real Acceptor / ClientBuilder against Handshake.tla. *)
EXTENDS Handshake

Rec == ndJsonDeserialize(IOEnv.TRACE)
VARIABLE l
Init == l = 1 /\ row = [connect2 |-> FALSE, major |-> 0, minor |-> 0]
Judge(r) ==
  IF r.side = "broker"
    THEN LET a == Accept(r.connect2, r.major, r.minor) IN
         IF a.res # r.res THEN "the acceptor answered " \o r.res \o " where the handshake rule says " \o a.res
         ELSE IF a.res = "ok" /\ a.ver # r.ver THEN "the negotiated version is not the minimum of the client's and 1.20"
         ELSE IF a.res = "ok" /\ r.registered # a.ver THEN "the connection was registered with another version than the negotiated one"
         ELSE ""
    ELSE LET d == ClientDecision(r.result, r.minor) IN
         IF d.res # r.res THEN "the client builder decided " \o r.res \o " where the rule says " \o d.res
         ELSE IF d.res = "ok" /\ d.ver # r.ver THEN "the client runs with another version than the negotiated one"
         ELSE ""
Next == /\ l <= Len(Rec)
        /\ LET w == Judge(Rec[l]) IN (w # "") => PrintT(<<"VIOLATION-AT", l, "C12", w>>)
        /\ l' = l + 1
        /\ UNCHANGED row
Spec == Init /\ [][Next]_<<l, row>>
Accepted == \/ TLCGet("stats").diameter - 1 = Len(Rec)
            \/ Print(<<"TRACE-NOT-CONSUMED", TLCGet("stats").diameter - 1, Len(Rec)>>, FALSE)
=============================================================================
