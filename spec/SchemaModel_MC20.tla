--------------------------- MODULE SchemaModel_MC20 ---------------------------
(* C20: enumeration of presentations of type universes, exhaustive check of the in-model theorems
   about CanonId, and emission of every presentation with its CanonId (env VECTORS = ndjson file).

   Per universe and per root (every definition of the universe is a root once):
     base   - the universe as written
     pdefs  - permutations of the declaration order
     pmem   - permutations of the insertion order of the members / functions / events of a definition
     rord   - the order in which add_references hands out references: reversed, duplicated, rotated
     docs   - documentation attached everywhere / to every other item
     impl   - built-in generics and tuples served by the real impls of aldrin-core instead of hand-built IR
     combo  - the permutations, reference order and docs at once
     rcombo - combo served by the real impls
              => predicted EQUAL CanonId
     edit   - every single semantic edit site of every definition (schema name, type name, member /
              function / event id or name, required, a referenced type, fallback presence or name,
              service uuid / version); redit: the same edits served by the real impls
              => predicted DIFFERENT CanonId iff the edited definition is the root or transitively
                 referenced by it, EQUAL otherwise (the id depends on nothing else)
   With Deep = TRUE the edits are additionally applied on top of the combo presentation.

   Generic custom types (Rust tuples, arities 1 .. 4 over built-ins and definitions; SchemaModel!Tup) occur in
   the universes "tuples" (a root with two different tuples of one arity - pmem / rord / combo give both
   orders; Leaf reachable only through one of two same-arity tuples, in both field orders - the edits of Leaf
   must change the ids of H1 / H2 / T3), "tuplenest" (tuples in tuples, below option / vec / map, in a
   service, recursion through a tuple) and in the pool of the seeded-random universes.  Fields of tuple type
   have the additional edit sites m.telem / m.tarity / m.tswap. *)
EXTENDS SchemaModel, Json, IOUtils

CONSTANTS Deep,   \* TRUE: the edits are also applied below the combo presentation
          NRandU  \* number of seeded-random universes (env SEED)

Seed == IF "SEED" \in DOMAIN IOEnv /\ IOEnv.SEED # "" THEN atoi(IOEnv.SEED) ELSE 1

Str == Lf("string")
U8 == Lf("u8")
U32 == Lf("u32")
U64 == Lf("u64")

BM == "bookmarks_v2"
UBookmarks == Universe(<<
  TService(BM, "Bookmarks", "35660342-8ecb-4101-903a-d1ba49d66f29", "2", <<
      TFn("get", "1", <<>>, <<Un("vec", Ext(BM, "Bookmark"))>>, <<>>),
      TFn("get_v2", "4", <<Ext(BM, "BookmarksGetV2Args")>>, <<Un("vec", Ext(BM, "Bookmark"))>>, <<Ext(BM, "Error")>>),
      TFn("add", "2", <<Ext(BM, "Bookmark")>>, <<>>, <<Ext(BM, "Error")>>),
      TFn("remove", "3", <<Str>>, <<>>, <<Ext(BM, "Error")>>),
      TFn("remove_v2", "5", <<Ext(BM, "BookmarksRemoveV2Args")>>, <<>>, <<Ext(BM, "Error")>>),
      TFn("get_groups", "6", <<>>, <<Un("vec", Un("option", Str))>>, <<>>) >>,
    <<TEv("added", "1", <<Ext(BM, "Bookmark")>>), TEv("added_v2", "3", <<Ext(BM, "Bookmark")>>),
      TEv("removed", "2", <<Ext(BM, "Bookmark")>>), TEv("removed_v2", "4", <<Ext(BM, "Bookmark")>>)>>,
    <<"unknown_function">>, <<"unknown_event">>),
  TStruct(BM, "BookmarksGetV2Args", <<Field("group", "1", FALSE, Str)>>, <<"unknown_fields">>),
  TStruct(BM, "BookmarksRemoveV2Args", <<Field("name", "1", TRUE, Str), Field("group", "2", FALSE, Str)>>, <<"unknown_fields">>),
  TStruct(BM, "Bookmark", <<Field("name", "1", TRUE, Str), Field("url", "2", TRUE, Str), Field("group", "3", FALSE, Str)>>,
          <<"unknown_fields">>),
  TEnum(BM, "Error", <<Var("InvalidName", "1", <<>>), Var("DuplicateName", "2", <<>>), Var("InvalidUrl", "3", <<>>),
                       Var("UnknownFields", "4", <<>>), Var("InvalidGroup", "5", <<>>)>>, <<"Unknown">>) >>)

UTest == Universe(<< TEnum("test", "Foo", <<Var("Var1", "0", <<U8>>), Var("Var2", "1", <<>>)>>, <<>>) >>)

USimple == Universe(<<
  TStruct("s1", "A", <<Field("a", "1", TRUE, U8), Field("b", "2", FALSE, Un("option", Str)), Field("c", "3", FALSE, Un("vec", U8))>>, <<"rest">>),
  TStruct("s1", "Empty", <<>>, <<>>),
  TEnum("s1", "EmptyE", <<>>, <<>>) >>)

UNested == Universe(<<
  TStruct("s2", "A", <<Field("b", "1", TRUE, Ext("s2", "B")), Field("m", "2", FALSE, MapT(Str, Ext("s2", "B"))),
                       Field("e", "3", FALSE, Un("option", Ext("s2", "E")))>>, <<>>),
  TStruct("s2", "B", <<Field("x", "1", FALSE, Lf("u32"))>>, <<"more">>),
  TEnum("s2", "E", <<Var("V1", "1", <<>>), Var("V2", "2", <<Ext("s2", "B")>>), Var("V3", "3", <<Un("vec", Ext("s2", "B"))>>)>>, <<"Unknown">>),
  TStruct("s2", "Z", <<Field("z", "1", FALSE, U8)>>, <<>>) >>)

URec == Universe(<<
  TStruct("s3", "L", <<Field("v", "1", TRUE, U8), Field("next", "2", FALSE, Un("option", Un("box", Ext("s3", "L"))))>>, <<>>) >>)

UMutual == Universe(<<
  TStruct("s4", "P", <<Field("q", "1", FALSE, Un("option", Un("box", Ext("s4", "Q")))), Field("n", "2", TRUE, Str)>>, <<>>),
  TStruct("s4", "Q", <<Field("p", "1", FALSE, Un("vec", Ext("s4", "P"))), Field("k", "2", FALSE, Ext("s4", "N"))>>, <<"fb">>),
  TNewtype("s4", "N", MapT(Lf("u32"), Ext("s4", "P"))),
  TEnum("s4", "Z", <<Var("Only", "1", <<Lf("i8")>>)>>, <<>>) >>)

UService == Universe(<<
  TService("s5", "S", "e0af57f3-5537-48c6-b04d-e9011803609c", "3", <<
      TFn("f", "1", <<Ext("s5", "A")>>, <<Ext("s5", "B")>>, <<Ext("s5", "E")>>),
      TFn("g", "2", <<>>, <<>>, <<>>),
      TFn("h", "3", <<>>, <<Un("vec", Ext("s5", "A"))>>, <<>>) >>,
    <<TEv("e", "1", <<Ext("s5", "A")>>), TEv("n", "2", <<>>)>>, <<"unknown_function">>, <<"unknown_event">>),
  TStruct("s5", "A", <<Field("x", "1", FALSE, U8)>>, <<>>),
  TStruct("s5", "B", <<Field("y", "1", FALSE, Un("option", Ext("s5", "A")))>>, <<>>),
  TEnum("s5", "E", <<Var("Bad", "1", <<>>), Var("Worse", "2", <<Str>>)>>, <<>>),
  TService("s5", "Bare", "44fe418f-fbbc-42a7-8573-3e48eb5cb53e", "1", <<>>, <<>>, <<>>, <<>>) >>)

UGeneric == Universe(<<
  TStruct("s6", "G", <<
    Field("a", "1", FALSE, ResT(U8, Str)), Field("b", "2", FALSE, ArrL(U8, "4")), Field("c", "3", FALSE, Un("set", Lf("uuid"))),
    Field("d", "4", FALSE, MapT(U8, Un("vec", Un("option", Lf("i64"))))), Field("e", "5", FALSE, Un("sender", U8)),
    Field("f", "6", FALSE, Un("receiver", Str)), Field("g", "7", FALSE, Lf("bytes")), Field("h", "8", FALSE, Lf("value")),
    Field("i", "9", FALSE, Lf("lifetime")), Field("j", "10", FALSE, Lf("unit")), Field("k", "11", FALSE, Lf("object_id")),
    Field("l", "12", FALSE, Lf("service_id")), Field("m", "13", FALSE, ArrL(ArrL(Lf("f32"), "2"), "3")),
    Field("n", "14", TRUE, Un("box", Lf("bool"))), Field("o", "15", FALSE, Lf("f64")), Field("p", "16", FALSE, Lf("u16")),
    Field("q", "17", FALSE, Lf("i16")), Field("r", "18", FALSE, Lf("i32")), Field("s", "19", FALSE, Lf("u64")) >>, <<>>),
  TNewtype("s6", "W", Un("vec", Un("vec", MapT(Str, ResT(Lf("unit"), Ext("s6", "G")))))) >>)

\* two definitions with the same name in different schemas, both referenced by one type
UTwoSchemas == Universe(<<
  TStruct("x", "A", <<Field("b", "1", FALSE, Ext("y", "A")), Field("c", "2", FALSE, Ext("x", "B")), Field("d", "3", FALSE, Ext("y", "B"))>>, <<>>),
  TStruct("y", "A", <<Field("v", "1", FALSE, U8)>>, <<>>),
  TStruct("x", "B", <<Field("w", "1", FALSE, U8)>>, <<>>),
  TStruct("y", "B", <<Field("w", "1", FALSE, U8)>>, <<>>) >>)

(* generic custom types: tuples.  Pair: two different tuples of arity 2 below one root.  H1, H2: Leaf is reachable
   only through one of two tuples of arity 2, which is the first resp. the second field.  T3: the same with
   arity 3, in an enum.  One: arities 1 and 4, a tuple over a tuple-free definition twice. *)
UTuples == Universe(<<
  TStruct("s7", "Pair", <<Field("a", "1", TRUE, Tup(<<U32, Str>>)), Field("b", "2", TRUE, Tup(<<U32, U64>>))>>, <<>>),
  TStruct("s7", "H1", <<Field("a", "1", TRUE, Tup(<<U32, Ext("s7", "Leaf")>>)), Field("b", "2", TRUE, Tup(<<U32, Str>>))>>, <<>>),
  TStruct("s7", "H2", <<Field("a", "1", TRUE, Tup(<<U32, Str>>)), Field("b", "2", FALSE, Tup(<<U32, Ext("s7", "Leaf")>>))>>, <<"more">>),
  TStruct("s7", "Leaf", <<Field("x", "1", TRUE, U32)>>, <<>>),
  TEnum("s7", "T3", <<Var("A", "1", <<Tup(<<U8, Str, Ext("s7", "Leaf")>>)>>), Var("B", "2", <<Tup(<<U8, Str, Lf("bool")>>)>>),
                      Var("C", "3", <<Tup(<<Str, U8>>)>>), Var("D", "4", <<Tup(<<U8, Str>>)>>)>>, <<>>),
  TStruct("s7", "One", <<Field("a", "1", FALSE, Tup(<<Ext("s7", "Leaf")>>)), Field("b", "2", FALSE, Tup(<<U8, U8, Ext("s7", "Leaf"), Ext("s7", "Leaf")>>)),
                         Field("c", "3", FALSE, Tup(<<Str>>))>>, <<>>) >>)

\* tuples in tuples and below built-in generics, in a service, recursion through a tuple; Leaf2 is reachable from N
\* only through the inner tuple of an inner tuple
UTupNest == Universe(<<
  TStruct("s8", "N", <<Field("t", "1", TRUE, Tup(<<Tup(<<U8, Str>>), Tup(<<U8, Ext("s8", "Leaf")>>), U32>>)),
                       Field("o", "2", FALSE, Un("option", Tup(<<Str, Tup(<<Str, Ext("s8", "Leaf2")>>)>>)))>>, <<>>),
  TNewtype("s8", "W", Un("vec", Tup(<<Ext("s8", "N"), Un("option", Un("box", Ext("s8", "W")))>>))),
  TStruct("s8", "Leaf", <<Field("x", "1", FALSE, U8)>>, <<>>),
  TEnum("s8", "Leaf2", <<Var("V", "1", <<>>), Var("W", "2", <<Tup(<<U8, U8>>)>>)>>, <<"Other">>),
  TService("s8", "Svc", "6f1d0a3c-53c1-4c3c-9f44-0d0f5a6f7c11", "1", <<
      TFn("f", "1", <<Tup(<<U8, U8>>)>>, <<Tup(<<U8, Ext("s8", "Leaf")>>)>>, <<Tup(<<Str, Ext("s8", "Leaf2")>>)>>),
      TFn("g", "2", <<MapT(Str, Tup(<<Ext("s8", "Leaf"), Ext("s8", "Leaf")>>))>>, <<>>, <<>>) >>,
    <<TEv("e", "1", <<Tup(<<Str, Str, Ext("s8", "W")>>)>>)>>, <<>>, <<>>) >>)

(* seeded-random universes: 3..5 definitions (structs and enums) whose member types are drawn from a pool
   of built-ins, generics over built-ins, (possibly recursive) references to the other definitions and tuples
   of arity 2 and 3 over those *)
RandSchema(k) == "r" \o ToString(k)
RandDefName(i) == "R" \o ToString(i)
RandType(k, n, salt) ==
  LET r == Rnd3(Seed, 97 * k + 5, salt)
      d == Ext(RandSchema(k), RandDefName(((r \div 22) % n) + 1))
      c == r % 22 IN
  CASE c = 0 -> U8 [] c = 1 -> Str [] c = 2 -> Lf("bool") [] c = 3 -> Lf("i64") [] c = 4 -> Lf("uuid")
    [] c = 5 -> Un("option", Str) [] c = 6 -> Un("vec", U8) [] c = 7 -> MapT(Str, Lf("u32"))
    [] c = 8 -> d [] c = 9 -> Un("option", Un("box", d)) [] c = 10 -> Un("vec", d) [] c = 11 -> MapT(Str, d)
    [] c = 12 -> ResT(d, Str) [] c = 13 -> Un("option", d) [] c = 14 -> ArrL(d, "2") [] c = 15 -> Un("set", Lf("i32"))
    [] c = 16 -> Tup(<<U8, d>>) [] c = 17 -> Tup(<<Str, d>>) [] c = 18 -> Tup(<<U8, Str>>) [] c = 19 -> Tup(<<d, Lf("bool"), Str>>)
    [] c = 20 -> Tup(<<U8, Un("vec", d)>>) [] OTHER -> Un("option", Tup(<<Str, d>>))
RandDef(k, n, i) ==
  LET r == Rnd3(Seed, 31 * k + 1, i)
      m == (r % 3) + 1
      fb == IF (r \div 3) % 2 = 0 THEN <<>> ELSE <<"other">> IN
  IF (r \div 6) % 4 = 0
  THEN TEnum(RandSchema(k), RandDefName(i),
             [j \in 1 .. m |-> Var("V" \o ToString(j), ToString(j), IF Rnd3(Seed, k, 10 * i + j) % 3 = 0 THEN <<>> ELSE <<RandType(k, n, 10 * i + j)>>)], fb)
  ELSE TStruct(RandSchema(k), RandDefName(i),
               [j \in 1 .. m |-> Field("f" \o ToString(j), ToString(j), Rnd3(Seed, k + 1, 10 * i + j) % 2 = 0, RandType(k, n, 10 * i + j))], fb)
RandUniverse(k) == LET n == 3 + (Rnd3(Seed, k, 0) % 3) IN Universe([i \in 1 .. n |-> RandDef(k, n, i)])

Universes == <<[name |-> "bookmarks_v2", P |-> UBookmarks], [name |-> "test", P |-> UTest], [name |-> "simple", P |-> USimple],
               [name |-> "nested", P |-> UNested], [name |-> "rec", P |-> URec], [name |-> "mutual", P |-> UMutual],
               [name |-> "service", P |-> UService], [name |-> "generic", P |-> UGeneric], [name |-> "twoschemas", P |-> UTwoSchemas],
               [name |-> "tuples", P |-> UTuples], [name |-> "tuplenest", P |-> UTupNest]>>
             \o [k \in 1 .. NRandU |-> [name |-> "random" \o ToString(k), P |-> RandUniverse(k)]]
NU == Len(Universes)

\* the tuple arities the driver binds to the real impls of aldrin-core
RECURSIVE BoundArities(_)
BoundArities(t) ==
  CASE t.k \in Unary \/ t.k = "array" -> BoundArities(t.a)
    [] t.k \in {"map", "result"} -> BoundArities(t.a) /\ BoundArities(t.b)
    [] t.k = "tuple" -> Len(t.es) \in 1 .. 4 /\ \A i \in 1 .. Len(t.es) : BoundArities(t.es[i])
    [] OTHER -> TRUE
ASSUME \A u \in 1 .. NU : LET P == Universes[u].P IN
         /\ WFUniverse(P)
         /\ WFRefs(P)
         /\ \A d \in SeqRange(P.defs) : \A t \in SeqRange(DefRefs(d)) : BoundArities(t)
         \* every reference resolves inside the universe
         /\ \A d \in SeqRange(P.defs) : \A t \in ReachPlus(P, RefOf(d)) : t.k = "ext" => IsDefRef(P, t)

-----------------------------------------------------------------------------
Which(d) == CASE d.k \in {"struct", "enum"} -> {"mem"} [] d.k = "service" -> {"fns", "evs"} [] OTHER -> {}
MemLen(d, w) == CASE w = "mem" -> Len(d.mem) [] w = "fns" -> Len(d.fns) [] w = "evs" -> Len(d.evs)
RevPerm(n) == [i \in 1 .. n |-> n + 1 - i]
Id(n) == [i \in 1 .. n |-> i]

Combo(P) ==
  LET n == Len(P.defs)
      P1 == PermDefs(P, RevPerm(n))
      revm(d) == CASE d.k \in {"struct", "enum"} -> [d EXCEPT !.mem = Reverse(@)]
                   [] d.k = "service" -> [d EXCEPT !.fns = Reverse(@), !.evs = Reverse(@)]
                   [] OTHER -> d
  IN  [P1 EXCEPT !.defs = [i \in 1 .. n |-> revm(P1.defs[i])], !.rord = "rev", !.docs = "all"]

Case(u, r, op, x) == [u |-> u, r |-> r, op |-> op, x |-> x]

Cases(u) ==
  LET P == Universes[u].P
      n == Len(P.defs) IN
  UNION {
    {Case(u, r, "base", <<>>)}
    \cup {Case(u, r, "pdefs", perm) : perm \in SomePerms(n) \ {Id(n)}}
    \cup UNION {{Case(u, r, "pmem", <<r, w, perm>>) : perm \in SomePerms(MemLen(P.defs[r], w)) \ {Id(MemLen(P.defs[r], w))}}
                : w \in Which(P.defs[r])}
    \cup UNION {{Case(u, r, "pmem", <<i, w, RevPerm(MemLen(P.defs[i], w))>>) : w \in {w \in Which(P.defs[i]) : MemLen(P.defs[i], w) >= 2}}
                : i \in (1 .. n) \ {r}}
    \cup {Case(u, r, "rord", <<o>>) : o \in {"rev", "dup", "rot"}}
    \cup {Case(u, r, "docs", <<o>>) : o \in {"all", "alt"}}
    \cup {Case(u, r, "impl", <<"real">>), Case(u, r, "combo", <<>>), Case(u, r, "rcombo", <<>>)}
    \cup UNION {{Case(u, r, op, e) : e \in EditSites(P, i), op \in {"edit", "redit"}} : i \in 1 .. n}
    \cup (IF Deep THEN UNION {{Case(u, r, "cedit", e) : e \in EditSites(P, i)} : i \in 1 .. n} ELSE {})
    : r \in 1 .. n }

\* the presentation and root a case denotes; for cedit the edit site refers to the definitions as
\* numbered in the base, the edit is applied first and the combo on top
PresOf(c) ==
  LET P == Universes[c.u].P
      root == RefOf(P.defs[c.r]) IN
  CASE c.op = "base"  -> [P |-> P, root |-> root]
    [] c.op = "pdefs" -> [P |-> PermDefs(P, c.x), root |-> root]
    [] c.op = "pmem"  -> [P |-> PermMembers(P, c.x[1], c.x[3], c.x[2]), root |-> root]
    [] c.op = "rord"  -> [P |-> [P EXCEPT !.rord = c.x[1]], root |-> root]
    [] c.op = "docs"  -> [P |-> [P EXCEPT !.docs = c.x[1]], root |-> root]
    [] c.op = "impl"  -> [P |-> [P EXCEPT !.impl = c.x[1]], root |-> root]
    [] c.op = "combo" -> [P |-> Combo(P), root |-> root]
    [] c.op = "rcombo" -> [P |-> [Combo(P) EXCEPT !.impl = "real"], root |-> root]
    [] c.op = "edit"  -> [P |-> ApplyEdit(P, c.x), root |-> RootAfter(P, root, c.x)]
    [] c.op = "redit" -> [P |-> [ApplyEdit(P, c.x) EXCEPT !.impl = "real"], root |-> RootAfter(P, root, c.x)]
    [] c.op = "cedit" -> [P |-> Combo(ApplyEdit(P, c.x)), root |-> RootAfter(P, root, c.x)]

BaseOf(c) == Case(c.u, c.r, "base", <<>>)
IsPerm(c) == c.op \in {"pdefs", "pmem", "rord", "docs", "impl", "combo", "rcombo"}
IsEdit(c) == c.op \in {"edit", "redit", "cedit"}

AllCases == UNION {Cases(u) : u \in 1 .. NU}

-----------------------------------------------------------------------------
VARIABLE cs
\* a trivial initial state: all evaluation happens in the worker threads (TLC's main thread has a small stack)
Start == Case(0, 0, "start", <<>>)
Init == cs = Start
Next == \/ /\ cs = Start
           /\ cs' \in {Case(u, 1, "base", <<>>) : u \in 1 .. NU}
        \/ /\ cs.op = "base" /\ cs.r = 1
           /\ cs' \in Cases(cs.u) \ {cs}
Spec == Init /\ [][Next]_cs

Inv_WF == cs # Start => WFUniverse(PresOf(cs).P) /\ WFRefs(PresOf(cs).P)

\* the worklist of compute_from_dyn collects exactly the set of layouts reachable in >= 1 steps,
\* whatever the declaration order and the order in which references are handed out
Inv_Algo == cs # Start => LET pr == PresOf(cs) IN AlgoId(pr.P, pr.root) = CanonId(pr.P, pr.root)

\* CanonId is invariant under every permutation / documentation / implementation choice
Inv_Perm == IsPerm(cs) => LET pr == PresOf(cs)
                              b == PresOf(BaseOf(cs)) IN CanonId(pr.P, pr.root) = CanonId(b.P, b.root)

\* CanonId is sensitive to every single semantic edit of the root or of a transitively referenced
\* definition, and to nothing else
Inv_Edit == IsEdit(cs) => LET pr == PresOf(cs)
                              b == PresOf(BaseOf(cs))
                              same == CanonId(pr.P, pr.root) = CanonId(b.P, b.root)
                          IN  same <=> ~Relevant(b.P, b.root, cs.x.def)

-----------------------------------------------------------------------------
CaseId(c) == Universes[c.u].name \o "/" \o ToString(c.r) \o "/" \o c.op \o "/" \o ToString(c.x)

Vector(c) ==
  LET pr == PresOf(c)
      b == PresOf(BaseOf(c)) IN
  [id |-> CaseId(c), u |-> Universes[c.u].name, op |-> c.op, root |-> [schema |-> pr.root.schema, name |-> pr.root.name],
   P |-> pr.P, canon |-> CanonId(pr.P, pr.root), base |-> CaseId(BaseOf(c)),
   expect |-> IF IsEdit(c) /\ Relevant(b.P, b.root, c.x.def) THEN "ne" ELSE "eq",
   what |-> IF IsEdit(c) THEN c.x.what ELSE "",
   listed |-> IF IsEdit(c) THEN ListedAspect(c.x.what) ELSE TRUE]

Emit == IF TLCGet("stats").distinct > 0 /\ "VECTORS" \in DOMAIN IOEnv /\ IOEnv.VECTORS # ""
        THEN LET s == SetToSeq(AllCases)
                 v == [i \in 1 .. Len(s) |-> Vector(s[i])]
             IN  /\ ndJsonSerialize(IOEnv.VECTORS, v)
                 /\ PrintT(<<"VECTORS-WRITTEN", Len(s), Cardinality({v[i].canon : i \in 1 .. Len(s)})>>)
        ELSE TRUE
=============================================================================
