---------------------------- MODULE SchemaTypes_MC ----------------------------
(* C16: TLC enumerates the corpus of SchemaTypes (one state per definition, one state per vector of a
   definition), checks the in-model theorems on each and prints the corpus as JSON lines:
     {"kind":"type", ...}   one per definition (what typegen-gen prints as .aldrin text)
     {"kind":"vec", ...}    one per vector: the value, the chain of types it is passed through and, per hop,
                            the predicted verdict and re-encoding.
   env: TYPEGEN_TIER = quick | thorough, TYPEGEN_SEED = integer, TYPEGEN_EMIT = 1 to print. *)
EXTENDS SchemaTypes, Json, IOUtils

Tier == IOEnv.TYPEGEN_TIER
Seed == atoi(IOEnv.TYPEGEN_SEED) % 1000
Emit == IOEnv.TYPEGEN_EMIT = "1"
Thorough == Tier = "thorough"

\* the corpus is built once (TLC does not cache definitions that depend on IOEnv)
ASSUME TLCSet(1, Corpus(Seed, Thorough))
C == TLCGet(1)
NT == Len(C)
Names == {C[i].def.name : i \in 1..NT}
ASSUME TLCSet(2, [n \in Names |-> C[CHOOSE i \in 1..NT : C[i].def.name = n].def])
Defs == TLCGet(2)

RECURSIVE ExportV(_)
ExportV(v) ==
  CASE v.k = "Some" -> [k |-> "Some", v |-> ExportV(v.v)]
    [] v.k = "Enum" -> [k |-> "Enum", id |-> v.id, v |-> ExportV(v.v)]
    [] v.k = "Vec" -> [k |-> "Vec", e |-> [i \in 1..Len(v.e) |-> ExportV(v.e[i])]]
    [] v.k = "Map" -> LET s == SetToSeq(DOMAIN v.m) IN [k |-> "Map", kk |-> v.kk, m |-> [i \in 1..Len(s) |-> <<s[i], ExportV(v.m[s[i]])>>]]
    [] v.k = "Struct" -> LET s == SetToSeq(DOMAIN v.f) IN [k |-> "Struct", f |-> [i \in 1..Len(s) |-> <<s[i], ExportV(v.f[s[i]])>>]]
    [] v.k = "Set" -> [k |-> "Set", kk |-> v.kk, s |-> SetToSeq(v.s)]
    [] OTHER -> v

\* field / payload / target types of a definition (coverage of FT is reported by the check)
TypesOf(d) == CASE d.d = "struct" -> {d.fields[j].ty : j \in 1..Len(d.fields)}
                [] d.d = "enum" -> {d.vars[j].ty : j \in 1..Len(d.vars)}
                [] d.d = "newtype" -> {d.ty}

CheckDef(i) ==
  LET e == C[i] IN
  /\ WellFormed(e.def)
  /\ Cardinality({j \in 1..NT : C[j].def.name = e.def.name}) = 1
  /\ \A t \in TypesOf(e.def) : t = TUnit \/ \E n \in 1..NFT : FT[n] = t
  /\ Emit => PrintT(ToJson([kind |-> "type", idx |-> i, name |-> e.def.name, home |-> e.home, def |-> e.def, nitems |-> Len(e.items)]))

CheckItem(i, j) ==
  LET e == C[i]  it == e.items[j]  d == e.def  hops == Hops(Defs, it.chain, 1, it.v)
      \* per accepted hop: the input of the hop (the previous prediction) and with it the verbose end of the acceptable range
      ins == [h \in 1..Len(hops) |-> IF h = 1 THEN it.v ELSE hops[h - 1].out]
      alt == [h \in 1..Len(hops) |-> IF hops[h].ok THEN NormMaxDef(ins[h], Defs[it.chain[h]]) ELSE VNone] IN
  /\ CASE IsConformingClass(it.cls) -> ThmConforming(it.v, d) /\ Len(hops) = 2 /\ hops[2] = hops[1]
       [] it.cls = "new_via_old" ->
            IF e.pair.kind = "field_added" THEN ThmFieldAdded(it.v, e.pair.old, e.pair.new, e.pair.newid)
            ELSE ThmVariantAdded(it.v, e.pair.old, e.pair.new, e.pair.newid)
       [] it.cls = "old_via_new" ->
            LET r == TransDef(it.v, e.pair.new) IN
            /\ ConformsDef(it.v, e.pair.old)
            /\ r.ok <=> ConformsDef(it.v, e.pair.new)
            /\ IF e.pair.kind = "field_added" /\ FieldOf(e.pair.new, e.pair.newid).req THEN ~r.ok     \* a required field was added
               ELSE r.ok /\ r.out = NormDef(it.v, e.pair.new)
       [] OTHER -> ThmMutation(it.v, d) /\ Len(hops) = 1 /\ ~hops[1].ok
  /\ Emit => PrintT(ToJson([kind |-> "vec", id |-> i * 1000 + j, ty |-> i, cls |-> it.cls, chain |-> it.chain, v |-> ExportV(it.v),
                            hops |-> [h \in 1..Len(hops) |-> [ok |-> hops[h].ok, out |-> ExportV(hops[h].out), alt |-> ExportV(alt[h])]]]))

\* every type expression of the list FT (in every run, whatever slice of it the corpus uses): its samples are
\* instances with the predicted re-encoding, its structural non-instances are rejected, and on the whole value
\* pool "is an instance" coincides with "is accepted by the generated code"
CheckFT(n) ==
  LET t == FT[n] IN
  /\ TypeOk(t) /\ Nesting(t) <= 2
  /\ ThmType(t, Samples(t), Pool \o Deep(t))
  /\ \A i \in 1..Len(Deep(t)) : ~Conforms(Deep(t)[i], t)
  /\ \A i \in 1..Len(KindWrongs(t)) : ~Trans(KindWrongs(t)[i], t).ok

VARIABLES a, b
Init == a = 0 /\ b = 0
Next == \/ a = 0 /\ a' \in 1..NT /\ b' = 0
        \/ a > 0 /\ b = 0 /\ a' = a /\ b' \in 1..Len(C[a].items)
        \/ a = 0 /\ a' = -1 /\ b' \in 1..NFT
Spec == Init /\ [][Next]_<<a, b>>
Theorems == /\ a > 0 => IF b = 0 THEN CheckDef(a) ELSE CheckItem(a, b)
            /\ a = -1 => CheckFT(b)

\* sanity of the corpus as a whole
ASSUME \A i \in 1..NT : Len(C[i].items) > 0
ASSUME Emit => PrintT(ToJson([kind |-> "header", seed |-> Seed, tier |-> Tier, ntypes |-> NT, nft |-> NFT,
                              ft |-> FT, libextern |-> SetToSeq(LibExtern)]))
=============================================================================
