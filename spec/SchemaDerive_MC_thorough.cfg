SPECIFICATION Spec
CONSTANTS
  Ids = {0, 1, 2, 5, 6}
  MaxLen = 4
  NRand = 60
INVARIANTS
  Inv_Rule
  Inv_WFD
  Inv_Explicit
  Inv_Classes
POSTCONDITION Emit
CHECK_DEADLOCK FALSE
