SPECIFICATION Spec
CONSTANTS
  ObjU = {1, 2}
  SvcU = {1}
  Lst = {1, 2}
  Filters <- MCFilters
  MaxOps = 3
  MaxCookie = 4
  PrefixSel = "two"
INVARIANTS Emit
CHECK_DEADLOCK FALSE
