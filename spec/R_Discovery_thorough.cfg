SPECIFICATION Spec
CONSTANTS
  ObjU = {1, 2}
  SvcU = {1, 2}
  Keys <- MCKeys
  EntryOf <- MCEntryOf
  MaxCookie = 7
  MaxOps = 6
  Lifetimes = TRUE
INVARIANTS Emit
CHECK_DEADLOCK FALSE
