------------------------- MODULE Trace_ListenerApi -------------------------
(* Validates the log of `listener-replay` (env TRACE) against ListenerApi.tla: every step must be
   the specification's operation, every listener must have received exactly the specification's
   events (as a set, without duplicates) and report is_finished() as specified.  Findings are
   printed as <<"VIOLATION-AT", index, "C10", why>>; the rest of that run is skipped. *)
EXTENDS ListenerApi, Json, IOUtils
Rec == ndJsonDeserialize(IOEnv.TRACE)
TFilters == {[ft |-> "obj", o |-> 0, s |-> 0], [ft |-> "obj", o |-> 1, s |-> 0],
             [ft |-> "svc", o |-> 0, s |-> 0], [ft |-> "svc", o |-> 1, s |-> 0], [ft |-> "svc", o |-> 0, s |-> 1]}
VARIABLES l, b, ok
vars == <<l, b, ok>>
Range(q) == {q[i] : i \in 1..Len(q)}
ObsOf(r, x) == CHOOSE e \in Range(r.obs) : e.l = x
LoggedEvents(r, x) == {[be |-> e.be, o |-> e.o, oc |-> e.oc, s |-> e.s, sc |-> e.sc] : e \in Range(ObsOf(r, x).events)}
No(w, b2) == [ok |-> FALSE, b |-> b2, why |-> w]
Judge(r) ==
  LET op == [op |-> r.op, o |-> r.o, s |-> r.s, c |-> r.c, l |-> r.l, f |-> r.f, scope |-> r.scope] IN
  IF ~Enabled(b, op) THEN No("DRIFT the specification does not allow this operation here: " \o r.op, b)
  ELSE LET b2 == Do(b, op) IN
       IF (r.res = "ok") # (b2.res = "ok") THEN No("the operation " \o r.op \o " returned " \o r.res \o " where the specification says " \o b2.res, b2)
       ELSE IF \E x \in Lst : LoggedEvents(r, x) # b2.obs.events[x]
         THEN LET x == CHOOSE x \in Lst : LoggedEvents(r, x) # b2.obs.events[x] IN
              No("listener " \o ToString(x) \o " received " \o ToString(LoggedEvents(r, x)) \o " instead of " \o ToString(b2.obs.events[x])
                 \o " (a listener is told exactly the events one of its filters matches)", b2)
       ELSE IF \E x \in Lst : Len(ObsOf(r, x).events) # Cardinality(b2.obs.events[x])
         THEN No("a listener received an event twice", b2)
       ELSE IF \E x \in Lst : ObsOf(r, x).finished # b2.obs.finished[x]
         THEN No("is_finished() of listener " \o ToString(CHOOSE x \in Lst : ObsOf(r, x).finished # b2.obs.finished[x]) \o " is wrong", b2)
       ELSE [ok |-> TRUE, b |-> b2, why |-> ""]
Init == l = 1 /\ b = LInit /\ ok = TRUE
Next ==
  /\ l <= Len(Rec)
  /\ LET r == Rec[l] IN
     CASE r.t = "reset" -> b' = LInit /\ ok' = TRUE
       [] r.t = "step" /\ ok ->
            LET j == Judge(r) IN
            /\ b' = j.b /\ ok' = j.ok
            /\ ~j.ok => IF SubSeq(j.why, 1, 5) = "DRIFT" THEN PrintT(<<"DRIFT-AT", l, j.why>>) ELSE PrintT(<<"VIOLATION-AT", l, "C10", j.why>>)
       [] r.t = "panic" /\ ok -> UNCHANGED b /\ ok' = FALSE /\ PrintT(<<"VIOLATION-AT", l, "C10", "a task panicked: " \o r.msg>>)
       [] r.t = "incomplete" /\ ok -> UNCHANGED b /\ ok' = FALSE
                                      /\ PrintT(<<"VIOLATION-AT", l, "C10", "the scripted operations did not complete (an awaited operation hangs or a client stopped)">>)
       [] OTHER -> UNCHANGED <<b, ok>>
  /\ l' = l + 1
Spec == Init /\ [][Next]_vars
Accepted == \/ TLCGet("stats").diameter - 1 = Len(Rec)
            \/ Print(<<"TRACE-NOT-CONSUMED", TLCGet("stats").diameter - 1, Len(Rec)>>, FALSE)
=============================================================================
