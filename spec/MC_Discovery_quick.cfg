SPECIFICATION Spec
CONSTANTS
  ObjU = {1, 2}
  SvcU = {1, 2}
  Keys <- MCKeys
  EntryOf <- MCEntryOf
  MaxCookie = 5
  MaxOps = 100
  Lifetimes = FALSE
VIEW view
INVARIANTS InvView InvNoPanic InvEvents
CHECK_DEADLOCK FALSE
