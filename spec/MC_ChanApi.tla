---------------------------- MODULE MC_ChanApi ----------------------------
(* Design check of ChanApi.tla and generator of the behaviours for chan-replay. *)
EXTENDS ChanApi, Json
CONSTANTS Caps, MaxOps, Probe      \* Probe: the sender also polls receiver_closed()
VARIABLES c, hist
vars == <<c, hist>>
Op(op, n, creator) == [op |-> op, n |-> n, creator |-> creator]
Ops == {Op("open", n, cr) : n \in Caps, cr \in {"sender", "receiver"}}
       \cup {Op(x, 0, "") : x \in {"send", "recv", "closeS", "closeR"} \cup (IF Probe THEN {"probe"} ELSE {})}
Init == c = CInit /\ hist = <<>>
Next == \E op \in Ops : /\ Enabled(c, op) /\ Len(hist) < MaxOps
                        /\ c' = Do(c, op) /\ hist' = Append(hist, op)
Spec == Init /\ [][Next]_vars
InvCredit == Inv_Credit(c)
InvNoStarvation == Inv_NoStarvation(c)
Emit == Len(hist) = MaxOps => PrintT(<<"REPLAY", ToJson(hist)>>)
=============================================================================
