---------------------------- MODULE MessageCodec ----------------------------
(* Executable reference of aldrin's message frame format (core/src/message.rs, message/*.rs,
   message/serializer.rs, message/deserializer.rs, buf_ext.rs, bus_listener.rs, channel_end.rs).

   frame   ::= len:u32le  kind:u8  [ valueLen:u32le  value ]  field*
   len     =   total number of bytes of the frame (including the 4 bytes of len itself)
   value   :   opaque, valueLen >= 1; only for the 14 value-carrying kinds
   field*  :   per kind, from ONE table Layout (63 rows, index = kind number + 1)

   Field types:  vi  varint u32 (buf_ext.rs: first byte > 251 means k = first - 251 bytes follow,
                     little endian; the encoder uses the shortest form)
                 uu  16 opaque bytes
                 en  one discriminant byte d < number of alternatives, followed by the fields of
                     alternative d (only vi/uu occur in such tails); alternatives listed in `nov`
                     are the ones for which a value-carrying kind carries *no* value: the encoder
                     writes the one-byte value <<0>> (SerializedValue::serialize(())) and the
                     decoder discards whatever value it finds.

   An abstract message is  [k |-> kind number, val |-> value bytes (<<>> if none),
                            fs |-> flat sequence of cells]
   where a cell is a byte tuple: <<d>> for a discriminant, the 4 little-endian bytes of a u32 for a
   vi, 16 bytes for a uu; the cells of the chosen alternative follow their discriminant inline.
   Numbers are byte tuples so that the full u32 range is exact in TLC's 32-bit integers.
   Assumption of this module: frames are shorter than 65536 bytes (value lengths with a non-zero
   third or fourth byte are treated as "longer than the frame"). *)
EXTENDS Naturals, Sequences, FiniteSets

Byte == 0 .. 255

-----------------------------------------------------------------------------
(* field descriptors *)
VI == [t |-> "vi", alts |-> <<>>, nov |-> {}]
UU == [t |-> "uu", alts |-> <<>>, nov |-> {}]
EN(alts)       == [t |-> "en", alts |-> alts, nov |-> {}]
ENV(alts, nov) == [t |-> "en", alts |-> alts, nov |-> nov]
E2 == EN(<< <<>>, <<>> >>)                   \* plain two-valued enum (ChannelEnd, *Result)
E3 == EN(<< <<>>, <<>>, <<>> >>)             \* plain three-valued enum
OPTVI == EN(<< <<>>, <<VI>> >>)              \* OptionKind None = 0 / Some = 1 + varint (optional serial)
OPTUU == EN(<< <<>>, <<UU>> >>)              \* optional bus listener cookie
ENDCAP == EN(<< <<>>, <<VI>> >>)             \* ChannelEndWithCapacity: Sender = 0 / Receiver = 1 + capacity
FILTER == EN(<< <<>>, <<UU>>, <<>>, <<UU>>, <<UU>>, <<UU, UU>> >>)   \* BusListenerFilterKind 0..5
BUSEV  == EN(<< <<UU, UU>>, <<UU, UU>>, <<UU, UU, UU, UU>>, <<UU, UU, UU, UU>> >>)   \* BusEventKind 0..3

Row(name, v, fs) == [name |-> name, v |-> v, fs |-> fs]

(* The table.  Row i describes MessageKind i-1 (core/src/message/kind.rs); `v` = has_value(). *)
Layout == <<
  Row("Connect",                   TRUE,  <<VI>>),                                                  \*  0
  Row("ConnectReply",              TRUE,  <<ENV(<< <<>>, <<VI>>, <<>> >>, {1})>>),                   \*  1
  Row("Shutdown",                  FALSE, <<>>),                                                    \*  2
  Row("CreateObject",              FALSE, <<VI, UU>>),                                              \*  3
  Row("CreateObjectReply",         FALSE, <<VI, EN(<< <<UU>>, <<>> >>)>>),                          \*  4
  Row("DestroyObject",             FALSE, <<VI, UU>>),                                              \*  5
  Row("DestroyObjectReply",        FALSE, <<VI, E3>>),                                              \*  6
  Row("CreateService",             FALSE, <<VI, UU, UU, VI>>),                                      \*  7
  Row("CreateServiceReply",        FALSE, <<VI, EN(<< <<UU>>, <<>>, <<>>, <<>> >>)>>),              \*  8
  Row("DestroyService",            FALSE, <<VI, UU>>),                                              \*  9
  Row("DestroyServiceReply",       FALSE, <<VI, E3>>),                                              \* 10
  Row("CallFunction",              TRUE,  <<VI, UU, VI>>),                                          \* 11
  Row("CallFunctionReply",         TRUE,  <<VI, ENV(<< <<>>, <<>>, <<>>, <<>>, <<>>, <<>> >>, {2, 3, 4, 5})>>),  \* 12
  Row("SubscribeEvent",            FALSE, <<OPTVI, UU, VI>>),                                       \* 13
  Row("SubscribeEventReply",       FALSE, <<VI, E2>>),                                              \* 14
  Row("UnsubscribeEvent",          FALSE, <<UU, VI>>),                                              \* 15
  Row("EmitEvent",                 TRUE,  <<UU, VI>>),                                              \* 16
  Row("QueryServiceVersion",       FALSE, <<VI, UU>>),                                              \* 17
  Row("QueryServiceVersionReply",  FALSE, <<VI, EN(<< <<VI>>, <<>> >>)>>),                          \* 18
  Row("CreateChannel",             FALSE, <<VI, ENDCAP>>),                                          \* 19
  Row("CreateChannelReply",        FALSE, <<VI, UU>>),                                              \* 20
  Row("CloseChannelEnd",           FALSE, <<VI, UU, E2>>),                                          \* 21
  Row("CloseChannelEndReply",      FALSE, <<VI, E3>>),                                              \* 22
  Row("ChannelEndClosed",          FALSE, <<UU, E2>>),                                              \* 23
  Row("ClaimChannelEnd",           FALSE, <<VI, UU, ENDCAP>>),                                      \* 24
  Row("ClaimChannelEndReply",      FALSE, <<VI, EN(<< <<VI>>, <<>>, <<>>, <<>> >>)>>),              \* 25
  Row("ChannelEndClaimed",         FALSE, <<UU, ENDCAP>>),                                          \* 26
  Row("SendItem",                  TRUE,  <<UU>>),                                                  \* 27
  Row("ItemReceived",              TRUE,  <<UU>>),                                                  \* 28
  Row("AddChannelCapacity",        FALSE, <<UU, VI>>),                                              \* 29
  Row("Sync",                      FALSE, <<VI>>),                                                  \* 30
  Row("SyncReply",                 FALSE, <<VI>>),                                                  \* 31
  Row("ServiceDestroyed",          FALSE, <<UU>>),                                                  \* 32
  Row("CreateBusListener",         FALSE, <<VI>>),                                                  \* 33
  Row("CreateBusListenerReply",    FALSE, <<VI, UU>>),                                              \* 34
  Row("DestroyBusListener",        FALSE, <<VI, UU>>),                                              \* 35
  Row("DestroyBusListenerReply",   FALSE, <<VI, E2>>),                                              \* 36
  Row("AddBusListenerFilter",      FALSE, <<UU, FILTER>>),                                          \* 37
  Row("RemoveBusListenerFilter",   FALSE, <<UU, FILTER>>),                                          \* 38
  Row("ClearBusListenerFilters",   FALSE, <<UU>>),                                                  \* 39
  Row("StartBusListener",          FALSE, <<VI, UU, E3>>),                                          \* 40
  Row("StartBusListenerReply",     FALSE, <<VI, E3>>),                                              \* 41
  Row("StopBusListener",           FALSE, <<VI, UU>>),                                              \* 42
  Row("StopBusListenerReply",      FALSE, <<VI, E3>>),                                              \* 43
  Row("EmitBusEvent",              FALSE, <<OPTUU, BUSEV>>),                                        \* 44
  Row("BusListenerCurrentFinished", FALSE, <<UU>>),                                                 \* 45
  Row("Connect2",                  TRUE,  <<VI, VI>>),                                              \* 46
  Row("ConnectReply2",             TRUE,  <<EN(<< <<VI>>, <<>>, <<>> >>)>>),                        \* 47
  Row("AbortFunctionCall",         FALSE, <<VI>>),                                                  \* 48
  Row("RegisterIntrospection",     TRUE,  <<>>),                                                    \* 49
  Row("QueryIntrospection",        FALSE, <<VI, UU>>),                                              \* 50
  Row("QueryIntrospectionReply",   TRUE,  <<VI, ENV(<< <<>>, <<>> >>, {1})>>),                      \* 51
  Row("CreateService2",            TRUE,  <<VI, UU, UU>>),                                          \* 52
  Row("QueryServiceInfo",          FALSE, <<VI, UU>>),                                              \* 53
  Row("QueryServiceInfoReply",     TRUE,  <<VI, ENV(<< <<>>, <<>> >>, {1})>>),                      \* 54
  Row("SubscribeService",          FALSE, <<VI, UU>>),                                              \* 55
  Row("SubscribeServiceReply",     FALSE, <<VI, E2>>),                                              \* 56
  Row("UnsubscribeService",        FALSE, <<UU>>),                                                  \* 57
  Row("SubscribeAllEvents",        FALSE, <<OPTVI, UU>>),                                           \* 58
  Row("SubscribeAllEventsReply",   FALSE, <<VI, E3>>),                                              \* 59
  Row("UnsubscribeAllEvents",      FALSE, <<OPTVI, UU>>),                                           \* 60
  Row("UnsubscribeAllEventsReply", FALSE, <<VI, E3>>),                                              \* 61
  Row("CallFunction2",             TRUE,  <<VI, UU, VI, OPTVI>>)                                    \* 62
>>

NumKinds == Len(Layout)
Kinds == 0 .. NumKinds - 1
L(k) == Layout[k + 1]

NoMsg == [k |-> 999, val |-> <<>>, fs |-> <<>>]

-----------------------------------------------------------------------------
(* numbers *)
U32LE(n) == <<n % 256, (n \div 256) % 256, (n \div 65536) % 256, (n \div 16777216) % 256>>

\* the varint rule of buf_ext.rs put_varint_le::<4>
EncVi(b) == IF b[4] # 0 THEN <<255, b[1], b[2], b[3], b[4]>>
            ELSE IF b[3] # 0 THEN <<254, b[1], b[2], b[3]>>
            ELSE IF b[2] # 0 THEN <<253, b[1], b[2]>>
            ELSE IF b[1] > 251 THEN <<252, b[1]>>
            ELSE <<b[1]>>

IsBytes(c, n) == /\ DOMAIN c = 1 .. n
                 /\ \A i \in 1 .. n : c[i] \in Byte

-----------------------------------------------------------------------------
(* well-formedness of the cells against a field list; Nov = "the message carries no value" *)
RECURSIVE WFFields(_, _)
WFFields(fields, cells) ==
  IF fields = <<>> THEN cells = <<>>
  ELSE IF cells = <<>> THEN FALSE
  ELSE LET f == Head(fields)
           c == Head(cells) IN
       CASE f.t = "vi" -> IsBytes(c, 4) /\ WFFields(Tail(fields), Tail(cells))
         [] f.t = "uu" -> IsBytes(c, 16) /\ WFFields(Tail(fields), Tail(cells))
         [] f.t = "en" -> /\ IsBytes(c, 1)
                          /\ c[1] < Len(f.alts)
                          /\ WFFields(f.alts[c[1] + 1] \o Tail(fields), Tail(cells))

RECURSIVE NovFields(_, _)
NovFields(fields, cells) ==
  IF fields = <<>> \/ cells = <<>> THEN FALSE
  ELSE LET f == Head(fields)
           c == Head(cells) IN
       IF f.t = "en"
       THEN (c[1] \in f.nov) \/ NovFields(f.alts[c[1] + 1] \o Tail(fields), Tail(cells))
       ELSE NovFields(Tail(fields), Tail(cells))

WF(m) == /\ m.k \in Kinds
         /\ WFFields(L(m.k).fs, m.fs)
         /\ \A i \in DOMAIN m.val : m.val[i] \in Byte
         /\ IF L(m.k).v /\ ~NovFields(L(m.k).fs, m.fs) THEN Len(m.val) >= 1 ELSE m.val = <<>>

-----------------------------------------------------------------------------
(* encoder *)
RECURSIVE EncFields(_, _)
EncFields(fields, cells) ==
  IF fields = <<>> THEN <<>>
  ELSE LET f == Head(fields)
           c == Head(cells) IN
       CASE f.t = "vi" -> EncVi(c) \o EncFields(Tail(fields), Tail(cells))
         [] f.t = "uu" -> c \o EncFields(Tail(fields), Tail(cells))
         [] f.t = "en" -> c \o EncFields(f.alts[c[1] + 1] \o Tail(fields), Tail(cells))

ValuePart(m) == IF L(m.k).v
                THEN LET vb == IF NovFields(L(m.k).fs, m.fs) THEN <<0>> ELSE m.val
                     IN  U32LE(Len(vb)) \o vb
                ELSE <<>>

\* requires WF(m)
EncMsg(m) == LET rest == <<m.k>> \o ValuePart(m) \o EncFields(L(m.k).fs, m.fs)
             IN  U32LE(4 + Len(rest)) \o rest

(* Where the cells ended up in the frame: sequence of <<offset (0-based), length, type, n>> with
   type 0 = vi, 1 = uu, 2 = discriminant (n = number of defined alternatives).  Used by the
   implementation driver to aim structured mutations. *)
RECURSIVE CellMap(_, _, _)
CellMap(fields, cells, off) ==
  IF fields = <<>> THEN <<>>
  ELSE LET f == Head(fields)
           c == Head(cells) IN
       CASE f.t = "vi" -> <<<<off, Len(EncVi(c)), 0, 0>>>> \o CellMap(Tail(fields), Tail(cells), off + Len(EncVi(c)))
         [] f.t = "uu" -> <<<<off, 16, 1, 0>>>> \o CellMap(Tail(fields), Tail(cells), off + 16)
         [] f.t = "en" -> <<<<off, 1, 2, Len(f.alts)>>>> \o CellMap(f.alts[c[1] + 1] \o Tail(fields), Tail(cells), off + 1)

CellsOf(m) == CellMap(L(m.k).fs, m.fs, 5 + Len(ValuePart(m)))

-----------------------------------------------------------------------------
(* strict decoder *)
Rej(why) == [ok |-> FALSE, m |-> NoMsg, why |-> why]
Acc(m)   == [ok |-> TRUE, m |-> m, why |-> ""]

\* s: frame, p: 1-based position of the next unread byte.  Result: [ok, cells, nx, nov]
RECURSIVE DecFields(_, _, _, _, _)
DecFields(s, p, fields, acc, nov) ==
  IF fields = <<>> THEN [ok |-> TRUE, cells |-> acc, nx |-> p, nov |-> nov]
  ELSE LET f == Head(fields)
           bad == [ok |-> FALSE, cells |-> <<>>, nx |-> p, nov |-> FALSE] IN
       IF p > Len(s) THEN bad
       ELSE CASE f.t = "vi" ->
                   LET b == s[p] IN
                   IF b > 251
                   THEN LET n == b - 251 IN
                        IF p + n > Len(s) THEN bad
                        ELSE DecFields(s, p + n + 1, Tail(fields),
                                       Append(acc, [i \in 1 .. 4 |-> IF i <= n THEN s[p + i] ELSE 0]), nov)
                   ELSE DecFields(s, p + 1, Tail(fields), Append(acc, <<b, 0, 0, 0>>), nov)
              [] f.t = "uu" ->
                   IF p + 15 > Len(s) THEN bad
                   ELSE DecFields(s, p + 16, Tail(fields), Append(acc, SubSeq(s, p, p + 15)), nov)
              [] f.t = "en" ->
                   LET d == s[p] IN
                   IF d >= Len(f.alts) THEN bad
                   ELSE DecFields(s, p + 1, f.alts[d + 1] \o Tail(fields), Append(acc, <<d>>), nov \/ d \in f.nov)

DecMsg(s) ==
  IF Len(s) < 5 THEN Rej("eoi")
  ELSE IF SubSeq(s, 1, 4) # U32LE(Len(s)) THEN Rej("prefix")
  ELSE IF s[5] \notin Kinds THEN Rej("kind")
  ELSE LET k == s[5]
           row == L(k) IN
       IF row.v
       THEN IF Len(s) < 10 THEN Rej("eoi-value")
            ELSE LET vl == IF s[8] # 0 \/ s[9] # 0 THEN 70000 ELSE s[6] + 256 * s[7] IN
                 IF vl < 1 THEN Rej("value-empty")
                 ELSE IF vl > Len(s) - 9 THEN Rej("value-eoi")
                 ELSE LET r == DecFields(s, 10 + vl, row.fs, <<>>, FALSE) IN
                      IF ~r.ok THEN Rej("field")
                      ELSE IF r.nx # Len(s) + 1 THEN Rej("trailing")
                      ELSE Acc([k |-> k, val |-> IF r.nov THEN <<>> ELSE SubSeq(s, 10, 9 + vl), fs |-> r.cells])
       ELSE LET r == DecFields(s, 6, row.fs, <<>>, FALSE) IN
            IF ~r.ok THEN Rej("field")
            ELSE IF r.nx # Len(s) + 1 THEN Rej("trailing")
            ELSE Acc([k |-> k, val |-> <<>>, fs |-> r.cells])

-----------------------------------------------------------------------------
(* theorems about one message / one frame (checked by TLC in MessageCodec_MC) *)
RoundTrip(m) == LET r == DecMsg(EncMsg(m)) IN r.ok /\ r.m = m
PrefixOK(m)  == LET F == EncMsg(m) IN SubSeq(F, 1, 4) = U32LE(Len(F))

\* whatever is accepted is a well-formed message whose re-encoding parses back to itself
SelfConsistent(r) == r.ok => /\ WF(r.m)
                             /\ LET r2 == DecMsg(EncMsg(r.m)) IN r2.ok /\ r2.m = r.m
Rejected(s) == ~DecMsg(s).ok
RejOrDifferent(s, m) == LET r == DecMsg(s) IN /\ SelfConsistent(r)
                                              /\ r.ok => r.m # m

SetByte(s, p, b) == [s EXCEPT ![p] = b]
FixPrefix(s) == U32LE(Len(s)) \o SubSeq(s, 5, Len(s))
=============================================================================
