----------------------------- MODULE SchemaDerive -----------------------------
(* C20, derive-macro types whose ids are partly IMPLICIT.

   A hand-written `#[derive(Serialize, Deserialize, Introspectable, ...)]` enum or struct gives every variant /
   field an id: the one written in `#[aldrin(id = N)]`, or - without that attribute - a default.  The rule of the
   unchanged macros (macros/src/derive/enum_data.rs EnumData::new: `default_id = variant_data.id() + 1`,
   struct_data.rs StructData::new: `default_id = field_data.id() + 1`, introspectable.rs gen_enum /
   gen_regular_struct: `next_id = item_options.id() + 1`; documented in macros/src/lib.rs, "Default ids start at 0
   for the first field or variant and then increment by 1 for each subsequent field or variant", with the
   examples Pet { Dog = 0, #[aldrin(id = 5)] Cat = 5, Alpaca = 6 } and Person):

        the explicit id if one is given, otherwise the id of the PREVIOUS item + 1 (first item: 0).

   The same rule is used for the variants of enums, the fields of regular structs with named fields and the fields
   of tuple structs (whose introspection names are field0, field1, ...); newtype structs and fallback fields /
   variants have no id (a fallback is always the last item, so it cannot influence an id either).  Serialize,
   Deserialize and RefType share EnumData / StructData (the ids on the WIRE); Introspectable computes the ids of
   the LAYOUT (hence the type id) on its own - C20 needs the two to agree.

   A pattern is a sequence over Nat \cup {NoId}: what is written at each item.  AssignIds(p) is the rule;
   DeriveDef(kind, p) the definition (SchemaModel!TStruct / TEnum) the derived type denotes, so that the expected
   type-id equivalence classes of derived types are SchemaModel!CanonId's.

   What the macros reject: ids that are not u32 literals, items after a fallback, optional variants, struct-like
   or multi-element variants, type generics.  They do NOT reject duplicate ids (the generated `match` merely has
   an unreachable arm, and the second `.field()` / `.variant()` call of the layout builder replaces the first);
   such a type has no well-defined wire layout (SchemaModel!UniqueIds fails), so duplicate assignments are
   outside the corpus (Admissible). *)
EXTENDS SchemaModel

NoId == -1                       \* no `#[aldrin(id = N)]` at this item
IsPattern(p) == \A i \in 1 .. Len(p) : p[i] = NoId \/ p[i] \in Nat

\* the rule, as the macros compute it: a running default that restarts after every item
RECURSIVE AssignIds(_)
AssignIds(p) ==
  IF p = <<>> THEN <<>>
  ELSE LET n == Len(p)
           a == AssignIds(SubSeq(p, 1, n - 1))
       IN  Append(a, IF p[n] # NoId THEN p[n] ELSE IF n = 1 THEN 0 ELSE a[n - 1] + 1)

\* the rule in closed form: an implicit item continues the count of the last explicit item before it (or of the
\* start of the definition)
LastExplicit(p, i) == LET S == {j \in 1 .. i : p[j] # NoId} IN IF S = {} THEN 0 ELSE CHOOSE j \in S : \A k \in S : k <= j
ClosedIds(p) == [i \in 1 .. Len(p) |-> LET j == LastExplicit(p, i) IN IF j = 0 THEN i - 1 ELSE p[j] + (i - j)]

\* NOT the rule: implicit items numbered by position.  Used only to measure how many patterns of a corpus tell the
\* two apart.
PositionalIds(p) == [i \in 1 .. Len(p) |-> IF p[i] # NoId THEN p[i] ELSE i - 1]

Admissible(p) == LET a == AssignIds(p) IN \A i, j \in 1 .. Len(a) : a[i] = a[j] => i = j

\* a pattern with every id written out (what the code generator emits: codegen/src/rust.rs always writes the id)
AllExplicit(p) == \A i \in 1 .. Len(p) : p[i] # NoId

-----------------------------------------------------------------------------
(* the derived types of the corpus.  Shapes are fixed by position so that the id assignment is the only thing
   that varies: odd items are unit variants / required u8 fields, even items are variants carrying a u8 /
   `#[aldrin(optional)] Option<u8>` fields.  Named structs use the field names field0, field1, ... too, so that
   the named struct and the tuple struct of one pattern are the SAME type (equal CanonId). *)
DeriveSchema == "dv"
DeriveKinds == {"enum", "struct", "tstruct"}

DeriveDef(kind, p) ==
  LET a == AssignIds(p) IN
  IF kind = "enum"
  THEN TEnum(DeriveSchema, "E", [i \in 1 .. Len(p) |-> Var("V" \o ToString(i), ToString(a[i]), IF i % 2 = 0 THEN <<Lf("u8")>> ELSE <<>>)], <<>>)
  ELSE TStruct(DeriveSchema, "S", [i \in 1 .. Len(p) |-> Field("field" \o ToString(i - 1), ToString(a[i]), i % 2 = 1, Lf("u8"))], <<>>)

DeriveUniverse(kind, p) == Universe(<<DeriveDef(kind, p)>>)
DeriveCanon(kind, p) == LET P == DeriveUniverse(kind, p) IN CanonId(P, RefOf(P.defs[1]))

\* the layout kind of a derive kind: named structs and tuple structs are both structs
LayoutKind(kind) == IF kind = "enum" THEN "enum" ELSE "struct"

=============================================================================
