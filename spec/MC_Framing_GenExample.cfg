\* a case generator: real constants, chunks ending at the interesting offsets, at most 3 chunks,
\* every discipline of the two packetizer interfaces; prints one "CASE {json}" line per behaviour
SPECIFICATION Spec
CONSTANTS
  Machine = "pk"
  InSeqs <- GenExIn
  OutSeqs <- None
  Modes = {"ext", "lazy", "spw", "alt", "alt2"}
  MinReserve = 65536
  MaxReserve = 4194304
  Slack = 0
  Boundary = 8192
  ChunkMode = "edge"
  MaxChunks = 3
  Bounded = TRUE
  MaxCalls = 1000
  MaxFaults = 0
  Emit = TRUE
INVARIANTS ObsOk PkInv EmitCases
CHECK_DEADLOCK FALSE
