----------------------------- MODULE MC_Replay -----------------------------
(* Specification -> implementation.  MC_Broker.tla (Broker.tla + environment) with one history
   variable: the sequence of environment inputs, in the order and grouping in which the real
   harness can reproduce them.  TLC enumerates EVERY behaviour of the bounded configuration and
   prints its history; `replay-broker` feeds each history to the real broker (real handshake, real
   messages, cookies translated through the replies), and the recorded trace is then judged by
   Trace_Obs.tla (properties) and Trace_Broker.tla (conformance) like any other trace.

   Shape restriction (the executor of the harness runs the broker until its queue is empty, so an
   environment step cannot fall between two dequeues of one batch):
     fill   the environment appends up to InqBound inputs and may drop connection tasks, while the
            broker is idle;
     drain  the broker handles the whole batch.
   "new" inputs travel alone (the real handshake runs every task).  These behaviours are a subset of
   the behaviours of MC_Broker!Spec; the state-aware generator (live / most recent dead / never
   issued cookies, pending broker serials) is the same. *)
EXTENDS MC_Broker, Json

CONSTANT FaultBudget      \* number of fault inputs (shut, dead, sdc, sdb, sdi) per behaviour

VARIABLE hist
rvars == <<vars, hist>>

LastAct == IF hist = <<>> THEN "none" ELSE hist[Len(hist)].a
Filling == inq = <<>> \/ LastAct \in {"enq", "dead"}
CanEnv == pc = "idle" /\ Filling
IsFault(h) == h.a = "dead" \/ (h.a = "enq" /\ h.ev.t \in {"shut", "sdc", "sdb", "sdi"})
NFaults == Cardinality({i \in 1..Len(hist) : IsFault(hist[i])})
\* "new" travels alone
BatchOk(q) == Len(q) > 1 => \A i \in 1..Len(q) : q[i].t # "new"
Enq == hist' = Append(hist, [a |-> "enq", ev |-> inq'[Len(inq')]])

RInit == Init /\ hist = <<>>

RNext ==
  \/ pc = "idle" /\ inq = <<>> /\ EnvScript /\ Enq
  \/ CanEnv /\ (EnvConnect \/ EnvMsg) /\ BatchOk(inq') /\ Enq
  \/ CanEnv /\ NFaults < FaultBudget /\ (EnvConnEnds \/ EnvHandle) /\ BatchOk(inq') /\ Enq
  \/ CanEnv /\ NFaults < FaultBudget /\ (\A i \in 1..Len(inq) : inq[i].t # "new") /\ EnvTaskDropped
       /\ hist' = Append(hist, [a |-> "dead", c |-> CHOOSE c \in env'.dropped \ env.dropped : TRUE])
  \/ Dequeue /\ hist' = Append(hist, [a |-> "deq", cookie |-> IF nextCookie' # nextCookie THEN nextCookie ELSE 0])
  \/ (Work \/ Idle \/ Stop) /\ UNCHANGED hist

RSpec == RInit /\ [][RNext]_rvars

\* One line per behaviour that has used its message budget (or stopped) and is drained.  Prefixes of
\* longer behaviours are removed by the caller.
Drained == inq = <<>> /\ pc \in {"idle", "stopped"} /\ hist # <<>> /\ LastAct = "deq"
Emit == (Drained /\ ~Scripted /\ (env.sent = MsgBudget \/ pc = "stopped")) => PrintT(<<"REPLAY", ToJson(hist)>>)
=============================================================================
