SPECIFICATION Spec
CONSTANTS
  ObjU = {1, 2}
  SvcU = {1, 2}
  Keys <- MCKeys
  EntryOf <- MCEntryOf
  MaxCookie = 6
  MaxOps = 5
  Lifetimes = TRUE
INVARIANTS Emit
CHECK_DEADLOCK FALSE
