SPECIFICATION Spec
CONSTANTS
  ObjU = {1, 2}
  SvcU = {1}
  Lst = {1, 2}
  Filters <- TFilters
POSTCONDITION Accepted
CHECK_DEADLOCK FALSE
