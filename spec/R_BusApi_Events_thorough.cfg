SPECIFICATION Spec
CONSTANTS
  Users = {1, 2}
  Events = {0, 1}
  OpKinds = {"sub", "unsub", "suball", "unsuball", "emit", "destroy"}
  MaxOps = 5
  MaxQueue = 3
INVARIANTS Emit InvType InvEvents
CHECK_DEADLOCK FALSE
