------------------------------ MODULE ValueCodec ------------------------------
(* Executable reference of aldrin's value wire format (core/src/value_kind.rs, buf_ext.rs and
   the framing rules of the counted "1" and terminated "2" container encodings), written from
   the FORMAT: a kind table, the varint rule, the two container framings, the depth rule.

   Representation
   * a byte is 0..255, a byte string is a sequence of bytes;
   * integers are little-endian byte tuples of their width (1, 2, 4, 8), two's complement for
     the signed kinds -- TLC integers are 32 bit, so 64-bit values, the varint rule and zig-zag
     are defined on the tuples (shift with carry, complement) and are exact;
   * floats, uuids, object/service ids, channel cookies, strings and byte arrays are byte blobs;
     a String value is a blob that is valid UTF-8 (Utf8Ok is an exact validator);
   * maps, structs (sets of <<key, value>> with unique keys) and sets are TLA+ sets, i.e. they
     are compared as sets; map keys are the byte tuple / blob of the key.

   Value ::= [k: "None"] | [k: "Some", v] | [k: "Bool", b] | [k: IntKind, n: tuple]
           | [k: BlobKind, s: blob] | [k: "Vec", e: Seq(Value)]
           | [k: "Map", kk: KeyName, m: SUBSET (Key \X Value)] | [k: "Set", kk: KeyName, s: SUBSET Key]
           | [k: "Struct", f: SUBSET (U32 \X Value)] | [k: "Enum", id: U32, v: Value]

   Depth rule: the top-level value is at depth 1; the payload of Some, of Enum, every element of
   a Vec, every value of a map, every field of a struct is one deeper; set elements, keys and
   bytes do not nest.  A value at depth > 32 is an error ("tooDeep"), raised when that value is
   about to be written / read (before its kind byte is looked at).

   Input strings are assumed shorter than Huge = 2^24 bytes (length fields above that are
   treated as "longer than any input"). *)
EXTENDS Naturals, Sequences, FiniteSets

MaxDepth == 32
Huge == 16777216

SMax(S) == CHOOSE x \in S : \A y \in S : y <= x
Tup(f) == SubSeq(f, 1, Len(f))          \* normal form (a tuple) of a function with domain 1..n

--------------------------------------------------------------------------------
(* Kind table. *)
KeyNames == <<"U8", "I8", "U16", "I16", "U32", "I32", "U64", "I64", "String", "Uuid">>
KeyIdx(nm) == CHOOSE i \in 1..10 : KeyNames[i] = nm
KeyWidth == <<1, 1, 2, 2, 4, 4, 8, 8, 0, 16>>       \* String: length-prefixed
KeySigned == <<FALSE, TRUE, FALSE, TRUE, FALSE, TRUE, FALSE, TRUE, FALSE, FALSE>>

\* c: class, nm: value constructor name, w: width / blob size, ep: encoding epoch of a container,
\* x: key index of maps and sets
KT == [k \in 0..65 |->
        IF k = 0 THEN [c |-> "none"]
   ELSE IF k = 1 THEN [c |-> "some"]
   ELSE IF k = 2 THEN [c |-> "bool"]
   ELSE IF k = 3 THEN [c |-> "raw", nm |-> "U8"]
   ELSE IF k = 4 THEN [c |-> "raw", nm |-> "I8"]
   ELSE IF k = 5 THEN [c |-> "uvar", nm |-> "U16", w |-> 2]
   ELSE IF k = 6 THEN [c |-> "svar", nm |-> "I16", w |-> 2]
   ELSE IF k = 7 THEN [c |-> "uvar", nm |-> "U32", w |-> 4]
   ELSE IF k = 8 THEN [c |-> "svar", nm |-> "I32", w |-> 4]
   ELSE IF k = 9 THEN [c |-> "uvar", nm |-> "U64", w |-> 8]
   ELSE IF k = 10 THEN [c |-> "svar", nm |-> "I64", w |-> 8]
   ELSE IF k = 11 THEN [c |-> "blob", nm |-> "F32", w |-> 4]
   ELSE IF k = 12 THEN [c |-> "blob", nm |-> "F64", w |-> 8]
   ELSE IF k = 13 THEN [c |-> "string"]
   ELSE IF k = 14 THEN [c |-> "blob", nm |-> "Uuid", w |-> 16]
   ELSE IF k = 15 THEN [c |-> "blob", nm |-> "ObjectId", w |-> 32]
   ELSE IF k = 16 THEN [c |-> "blob", nm |-> "ServiceId", w |-> 64]
   ELSE IF k = 17 THEN [c |-> "vec", ep |-> 1]
   ELSE IF k = 18 THEN [c |-> "bytes", ep |-> 1]
   ELSE IF k <= 28 THEN [c |-> "map", ep |-> 1, x |-> k - 18]
   ELSE IF k <= 38 THEN [c |-> "set", ep |-> 1, x |-> k - 28]
   ELSE IF k = 39 THEN [c |-> "struct", ep |-> 1]
   ELSE IF k = 40 THEN [c |-> "enum"]
   ELSE IF k = 41 THEN [c |-> "blob", nm |-> "Sender", w |-> 16]
   ELSE IF k = 42 THEN [c |-> "blob", nm |-> "Receiver", w |-> 16]
   ELSE IF k = 43 THEN [c |-> "vec", ep |-> 2]
   ELSE IF k = 44 THEN [c |-> "bytes", ep |-> 2]
   ELSE IF k <= 54 THEN [c |-> "map", ep |-> 2, x |-> k - 44]
   ELSE IF k <= 64 THEN [c |-> "set", ep |-> 2, x |-> k - 54]
   ELSE [c |-> "struct", ep |-> 2]]

IsV2Kind(k) == k >= 43 /\ k <= 65        \* the container encodings introduced in protocol 1.20

IntKindByte == [nm \in {"U8", "I8", "U16", "I16", "U32", "I32", "U64", "I64"} |->
                 CASE nm = "U8" -> 3 [] nm = "I8" -> 4 [] nm = "U16" -> 5 [] nm = "I16" -> 6
                   [] nm = "U32" -> 7 [] nm = "I32" -> 8 [] nm = "U64" -> 9 [] nm = "I64" -> 10]
BlobKindByte == [nm \in {"F32", "F64", "Uuid", "ObjectId", "ServiceId", "Sender", "Receiver"} |->
                 CASE nm = "F32" -> 11 [] nm = "F64" -> 12 [] nm = "Uuid" -> 14 [] nm = "ObjectId" -> 15
                   [] nm = "ServiceId" -> 16 [] nm = "Sender" -> 41 [] nm = "Receiver" -> 42]

--------------------------------------------------------------------------------
(* Value constructors. *)
VNone == [k |-> "None"]
VSome(v) == [k |-> "Some", v |-> v]
VBool(x) == [k |-> "Bool", b |-> x]
VInt(nm, t) == [k |-> nm, n |-> t]
VBlob(nm, s) == [k |-> nm, s |-> s]
VString(s) == [k |-> "String", s |-> s]
VBytes(s) == [k |-> "Bytes", s |-> s]
VVec(es) == [k |-> "Vec", e |-> es]
VMap(kk, m) == [k |-> "Map", kk |-> kk, m |-> m]
VSet(kk, s) == [k |-> "Set", kk |-> kk, s |-> s]
VStruct(f) == [k |-> "Struct", f |-> f]
VEnum(id, v) == [k |-> "Enum", id |-> id, v |-> v]

RECURSIVE Depth(_)
Depth(v) ==
  LET MaxOf(S) == IF S = {} THEN 1 ELSE 1 + SMax(S) IN
  CASE v.k = "Some" -> 1 + Depth(v.v)
    [] v.k = "Enum" -> 1 + Depth(v.v)
    [] v.k = "Vec" -> MaxOf({Depth(v.e[i]) : i \in 1..Len(v.e)})
    [] v.k = "Map" -> MaxOf({Depth(kv[2]) : kv \in v.m})
    [] v.k = "Struct" -> MaxOf({Depth(kv[2]) : kv \in v.f})
    [] OTHER -> 1

--------------------------------------------------------------------------------
(* Integers as byte tuples: varint and zig-zag. *)
U32Of(n) == <<n % 256, (n \div 256) % 256, (n \div 65536) % 256, (n \div 16777216) % 256>>
Nat32(t) == IF t[3] # 0 \/ t[4] # 0 THEN Huge ELSE t[1] + 256 * t[2]

HiIdx(t) == LET nz == {i \in 1..Len(t) : t[i] # 0} IN IF nz = {} THEN 1 ELSE SMax(nz)

\* An N-byte integer whose only significant byte b0 is <= 255-N is the single byte b0; otherwise
\* a prefix byte 255-N+k announces that the k low-order bytes follow (k minimal).
PutVarint(t) ==
  LET N == Len(t)  h == HiIdx(t) IN
  IF h = 1 THEN (IF t[1] > 255 - N THEN <<256 - N, t[1]>> ELSE <<t[1]>>)
  ELSE <<255 - N + h>> \o SubSeq(t, 1, h)

\* Reading: first byte f > 255-N means k = f+N-255 bytes follow (any k in 1..N, so non-minimal
\* forms are accepted); otherwise f is the value.
GetVarint(b, p, N) ==
  IF p > Len(b) THEN [e |-> "eoi"]
  ELSE LET f == b[p] IN
       IF f > 255 - N
         THEN LET k == f + N - 255 IN
              IF p + k > Len(b) THEN [e |-> "eoi"]
              ELSE [e |-> "ok", t |-> Tup([i \in 1..N |-> IF i <= k THEN b[p + i] ELSE 0]), p |-> p + k + 1]
         ELSE [e |-> "ok", t |-> Tup([i \in 1..N |-> IF i = 1 THEN f ELSE 0]), p |-> p + 1]

SkipVarint(b, p, N) ==
  IF p > Len(b) THEN [e |-> "eoi"]
  ELSE LET f == b[p] IN
       IF f > 255 - N
         THEN (IF p + (f + N - 255) > Len(b) THEN [e |-> "eoi"] ELSE [e |-> "ok", p |-> p + (f + N - 255) + 1])
         ELSE [e |-> "ok", p |-> p + 1]

Shl1(t) == Tup([i \in 1..Len(t) |-> ((t[i] * 2) % 256) + (IF i > 1 THEN t[i - 1] \div 128 ELSE 0)])
Shr1(t) == Tup([i \in 1..Len(t) |-> (t[i] \div 2) + (IF i < Len(t) THEN (t[i + 1] % 2) * 128 ELSE 0)])
Cpl(t) == Tup([i \in 1..Len(t) |-> 255 - t[i]])
ZigZagEnc(t) == IF t[Len(t)] >= 128 THEN Cpl(Shl1(t)) ELSE Shl1(t)     \* (n << 1) ^ (n >> bits-1)
ZigZagDec(z) == IF z[1] % 2 = 1 THEN Cpl(Shr1(z)) ELSE Shr1(z)         \* (z >> 1) ^ -(z & 1)

--------------------------------------------------------------------------------
(* UTF-8 (exactly the well-formed byte sequences of Unicode table 3-7), on b[i .. end-1]. *)
RECURSIVE Utf8Ok(_, _, _)
Utf8Ok(b, i, end) ==
  IF i >= end THEN TRUE
  ELSE LET c == b[i]
           In(j, lo, hi) == j < end /\ b[j] >= lo /\ b[j] <= hi
           Cont(j) == In(j, 128, 191)
       IN IF c < 128 THEN Utf8Ok(b, i + 1, end)
          ELSE IF c >= 194 /\ c <= 223 THEN Cont(i + 1) /\ Utf8Ok(b, i + 2, end)
          ELSE IF c = 224 THEN In(i + 1, 160, 191) /\ Cont(i + 2) /\ Utf8Ok(b, i + 3, end)
          ELSE IF (c >= 225 /\ c <= 236) \/ c = 238 \/ c = 239 THEN Cont(i + 1) /\ Cont(i + 2) /\ Utf8Ok(b, i + 3, end)
          ELSE IF c = 237 THEN In(i + 1, 128, 159) /\ Cont(i + 2) /\ Utf8Ok(b, i + 3, end)
          ELSE IF c = 240 THEN In(i + 1, 144, 191) /\ Cont(i + 2) /\ Cont(i + 3) /\ Utf8Ok(b, i + 4, end)
          ELSE IF c >= 241 /\ c <= 243 THEN Cont(i + 1) /\ Cont(i + 2) /\ Cont(i + 3) /\ Utf8Ok(b, i + 4, end)
          ELSE IF c = 244 THEN In(i + 1, 128, 143) /\ Cont(i + 2) /\ Cont(i + 3) /\ Utf8Ok(b, i + 4, end)
          ELSE FALSE

--------------------------------------------------------------------------------
(* Encoding.  ep = <<epoch used at odd depths, epoch used at even depths>> lets one value be
   written in the current encoding (<<2,2>>), the legacy one (<<1,1>>) or mixed per level.
   Sets are written in the order Pick chooses (any order is a valid encoding). *)
EpAt(ep, d) == ep[2 - (d % 2)]
Pick(S) == CHOOSE x \in S : TRUE
RECURSIVE SeqOfSet(_)
SeqOfSet(S) == IF S = {} THEN <<>> ELSE LET x == Pick(S) IN <<x>> \o SeqOfSet(S \ {x})

EncKey(x, key) ==
  IF x <= 2 \/ x = 10 THEN key
  ELSE IF x = 9 THEN PutVarint(U32Of(Len(key))) \o key
  ELSE IF KeySigned[x] THEN PutVarint(ZigZagEnc(key)) ELSE PutVarint(key)

RECURSIVE EncRaw(_, _, _), EncSeq(_, _, _, _, _), EncEntries(_, _, _, _, _, _), EncKeys(_, _, _, _)
EncRaw(v, ep, d) ==
  LET two == EpAt(ep, d) = 2
      pre == IF two THEN <<1>> ELSE <<>>          \* element marker of terminated containers
      Count(n) == IF two THEN <<>> ELSE PutVarint(U32Of(n))
      end == IF two THEN <<0>> ELSE <<>>
  IN
  CASE v.k = "None" -> <<0>>
    [] v.k = "Some" -> <<1>> \o EncRaw(v.v, ep, d + 1)
    [] v.k = "Bool" -> <<2, IF v.b THEN 1 ELSE 0>>
    [] v.k \in {"U8", "I8"} -> <<IntKindByte[v.k]>> \o v.n
    [] v.k \in {"U16", "U32", "U64"} -> <<IntKindByte[v.k]>> \o PutVarint(v.n)
    [] v.k \in {"I16", "I32", "I64"} -> <<IntKindByte[v.k]>> \o PutVarint(ZigZagEnc(v.n))
    [] v.k \in DOMAIN BlobKindByte -> <<BlobKindByte[v.k]>> \o v.s
    [] v.k = "String" -> <<13>> \o PutVarint(U32Of(Len(v.s))) \o v.s
    [] v.k = "Vec" -> <<IF two THEN 43 ELSE 17>> \o Count(Len(v.e)) \o EncSeq(v.e, 1, ep, d + 1, pre) \o end
    [] v.k = "Bytes" ->
         IF two THEN <<44>> \o (IF v.s = <<>> THEN <<>> ELSE PutVarint(U32Of(Len(v.s))) \o v.s) \o <<0>>
         ELSE <<18>> \o PutVarint(U32Of(Len(v.s))) \o v.s
    [] v.k = "Map" ->
         LET x == KeyIdx(v.kk) IN
         <<(IF two THEN 44 ELSE 18) + x>> \o Count(Cardinality(v.m))
           \o EncEntries(SeqOfSet(v.m), 1, x, ep, d + 1, pre) \o end
    [] v.k = "Set" ->
         LET x == KeyIdx(v.kk) IN
         <<(IF two THEN 54 ELSE 28) + x>> \o Count(Cardinality(v.s)) \o EncKeys(SeqOfSet(v.s), 1, x, pre) \o end
    [] v.k = "Struct" ->
         <<IF two THEN 65 ELSE 39>> \o Count(Cardinality(v.f))
           \o EncEntries(SeqOfSet(v.f), 1, 5, ep, d + 1, pre) \o end       \* field ids are u32 varints
    [] v.k = "Enum" -> <<40>> \o PutVarint(v.id) \o EncRaw(v.v, ep, d + 1)

EncSeq(es, i, ep, d, pre) ==
  IF i > Len(es) THEN <<>> ELSE pre \o EncRaw(es[i], ep, d) \o EncSeq(es, i + 1, ep, d, pre)
EncEntries(kvs, i, x, ep, d, pre) ==
  IF i > Len(kvs) THEN <<>>
  ELSE pre \o EncKey(x, kvs[i][1]) \o EncRaw(kvs[i][2], ep, d) \o EncEntries(kvs, i + 1, x, ep, d, pre)
EncKeys(ks, i, x, pre) ==
  IF i > Len(ks) THEN <<>> ELSE pre \o EncKey(x, ks[i]) \o EncKeys(ks, i + 1, x, pre)

EncWith(v, ep) == IF Depth(v) > MaxDepth THEN [ok |-> FALSE, e |-> "tooDeep"]
                  ELSE [ok |-> TRUE, e |-> "ok", b |-> EncRaw(v, ep, 1)]
Enc2(v) == EncWith(v, <<2, 2>>)          \* current encoding
Enc1(v) == EncWith(v, <<1, 1>>)          \* legacy (counted containers)

--------------------------------------------------------------------------------
(* Decoding.  Results: [e |-> "ok", v, p] (p = index of the next unread byte) or [e |-> class]
   with class in {"eoi", "invalid", "tooDeep", "utf8"}. *)
Rem(b, p) == Len(b) - p + 1             \* bytes available from index p

DecKey(b, p, x) ==
  IF x <= 2 THEN (IF p > Len(b) THEN [e |-> "eoi"] ELSE [e |-> "ok", key |-> <<b[p]>>, p |-> p + 1])
  ELSE IF x = 10 THEN (IF Rem(b, p) < 16 THEN [e |-> "eoi"] ELSE [e |-> "ok", key |-> SubSeq(b, p, p + 15), p |-> p + 16])
  ELSE IF x = 9 THEN
    LET l == GetVarint(b, p, 4) IN
    IF l.e # "ok" THEN l
    ELSE LET n == Nat32(l.t) IN
         IF Rem(b, l.p) < n THEN [e |-> "eoi"]
         ELSE IF ~Utf8Ok(b, l.p, l.p + n) THEN [e |-> "utf8"]
         ELSE [e |-> "ok", key |-> SubSeq(b, l.p, l.p + n - 1), p |-> l.p + n]
  ELSE LET r == GetVarint(b, p, KeyWidth[x]) IN
       IF r.e # "ok" THEN r
       ELSE [e |-> "ok", key |-> IF KeySigned[x] THEN ZigZagDec(r.t) ELSE r.t, p |-> r.p]

Upsert(S, key, val) == {kv \in S : kv[1] # key} \cup {<<key, val>>}     \* a repeated key: the last one wins

RECURSIVE DecAt(_, _, _), DecVecN(_, _, _, _, _), DecVecT(_, _, _, _), DecMapN(_, _, _, _, _, _),
          DecMapT(_, _, _, _, _), DecSetN(_, _, _, _, _), DecSetT(_, _, _, _), DecChunks(_, _, _)
DecAt(b, p, d) ==
  IF d > MaxDepth THEN [e |-> "tooDeep"]
  ELSE IF p > Len(b) THEN [e |-> "eoi"]
  ELSE IF b[p] > 65 THEN [e |-> "invalid"]
  ELSE
  LET t == KT[b[p]]  q == p + 1 IN
  CASE t.c = "none" -> [e |-> "ok", v |-> VNone, p |-> q]
    [] t.c = "some" -> LET r == DecAt(b, q, d + 1) IN
                       IF r.e # "ok" THEN r ELSE [e |-> "ok", v |-> VSome(r.v), p |-> r.p]
    [] t.c = "bool" -> IF q > Len(b) THEN [e |-> "eoi"] ELSE [e |-> "ok", v |-> VBool(b[q] # 0), p |-> q + 1]
    [] t.c = "raw" -> IF q > Len(b) THEN [e |-> "eoi"] ELSE [e |-> "ok", v |-> VInt(t.nm, <<b[q]>>), p |-> q + 1]
    [] t.c = "uvar" -> LET r == GetVarint(b, q, t.w) IN
                       IF r.e # "ok" THEN r ELSE [e |-> "ok", v |-> VInt(t.nm, r.t), p |-> r.p]
    [] t.c = "svar" -> LET r == GetVarint(b, q, t.w) IN
                       IF r.e # "ok" THEN r ELSE [e |-> "ok", v |-> VInt(t.nm, ZigZagDec(r.t)), p |-> r.p]
    [] t.c = "blob" -> IF Rem(b, q) < t.w THEN [e |-> "eoi"]
                       ELSE [e |-> "ok", v |-> VBlob(t.nm, SubSeq(b, q, q + t.w - 1)), p |-> q + t.w]
    [] t.c = "string" ->
         LET l == GetVarint(b, q, 4) IN
         IF l.e # "ok" THEN l
         ELSE LET n == Nat32(l.t) IN
              IF Rem(b, l.p) < n THEN [e |-> "eoi"]
              ELSE IF ~Utf8Ok(b, l.p, l.p + n) THEN [e |-> "utf8"]
              ELSE [e |-> "ok", v |-> VString(SubSeq(b, l.p, l.p + n - 1)), p |-> l.p + n]
    [] t.c = "vec" ->
         IF t.ep = 1 THEN LET l == GetVarint(b, q, 4) IN
                          IF l.e # "ok" THEN l ELSE DecVecN(b, l.p, d + 1, Nat32(l.t), <<>>)
         ELSE DecVecT(b, q, d + 1, <<>>)
    [] t.c = "bytes" ->
         IF t.ep = 1 THEN LET l == GetVarint(b, q, 4) IN
                          IF l.e # "ok" THEN l
                          ELSE LET n == Nat32(l.t) IN
                               IF Rem(b, l.p) < n THEN [e |-> "invalid"]      \* a counted byte array longer than the input
                               ELSE [e |-> "ok", v |-> VBytes(SubSeq(b, l.p, l.p + n - 1)), p |-> l.p + n]
         ELSE DecChunks(b, q, <<>>)
    [] t.c = "map" ->
         IF t.ep = 1 THEN LET l == GetVarint(b, q, 4) IN
                          IF l.e # "ok" THEN l ELSE DecMapN(b, l.p, d + 1, t.x, Nat32(l.t), {})
         ELSE DecMapT(b, q, d + 1, t.x, {})
    [] t.c = "set" ->
         IF t.ep = 1 THEN LET l == GetVarint(b, q, 4) IN
                          IF l.e # "ok" THEN l ELSE DecSetN(b, l.p, t.x, Nat32(l.t), {})
         ELSE DecSetT(b, q, t.x, {})
    [] t.c = "struct" ->
         LET r == IF t.ep = 1 THEN LET l == GetVarint(b, q, 4) IN
                                   IF l.e # "ok" THEN l ELSE DecMapN(b, l.p, d + 1, 5, Nat32(l.t), {})
                  ELSE DecMapT(b, q, d + 1, 5, {}) IN
         IF r.e # "ok" THEN r ELSE [e |-> "ok", v |-> VStruct(r.m), p |-> r.p]
    [] t.c = "enum" ->
         LET i == GetVarint(b, q, 4) IN
         IF i.e # "ok" THEN i
         ELSE LET r == DecAt(b, i.p, d + 1) IN
              IF r.e # "ok" THEN r ELSE [e |-> "ok", v |-> VEnum(i.t, r.v), p |-> r.p]

\* counted: n elements follow
DecVecN(b, p, d, n, acc) ==
  IF n = 0 THEN [e |-> "ok", v |-> VVec(acc), p |-> p]
  ELSE LET r == DecAt(b, p, d) IN
       IF r.e # "ok" THEN r ELSE DecVecN(b, r.p, d, n - 1, Append(acc, r.v))
\* terminated: each element is announced by the byte 1, the byte 0 ends the container
DecVecT(b, p, d, acc) ==
  IF p > Len(b) THEN [e |-> "eoi"]
  ELSE IF b[p] = 0 THEN [e |-> "ok", v |-> VVec(acc), p |-> p + 1]
  ELSE IF b[p] # 1 THEN [e |-> "invalid"]
  ELSE LET r == DecAt(b, p + 1, d) IN
       IF r.e # "ok" THEN r ELSE DecVecT(b, r.p, d, Append(acc, r.v))

\* maps and structs (x = 5): the result carries the entry set in field m
MapResult(x, S, p) == [e |-> "ok", m |-> S, v |-> VMap(KeyNames[x], S), p |-> p]
DecMapN(b, p, d, x, n, acc) ==
  IF n = 0 THEN MapResult(x, acc, p)
  ELSE LET kr == DecKey(b, p, x) IN
       IF kr.e # "ok" THEN kr
       ELSE LET r == DecAt(b, kr.p, d) IN
            IF r.e # "ok" THEN r ELSE DecMapN(b, r.p, d, x, n - 1, Upsert(acc, kr.key, r.v))
DecMapT(b, p, d, x, acc) ==
  IF p > Len(b) THEN [e |-> "eoi"]
  ELSE IF b[p] = 0 THEN MapResult(x, acc, p + 1)
  ELSE IF b[p] # 1 THEN [e |-> "invalid"]
  ELSE LET kr == DecKey(b, p + 1, x) IN
       IF kr.e # "ok" THEN kr
       ELSE LET r == DecAt(b, kr.p, d) IN
            IF r.e # "ok" THEN r ELSE DecMapT(b, r.p, d, x, Upsert(acc, kr.key, r.v))

DecSetN(b, p, x, n, acc) ==
  IF n = 0 THEN [e |-> "ok", v |-> VSet(KeyNames[x], acc), p |-> p]
  ELSE LET kr == DecKey(b, p, x) IN
       IF kr.e # "ok" THEN kr ELSE DecSetN(b, kr.p, x, n - 1, acc \cup {kr.key})
DecSetT(b, p, x, acc) ==
  IF p > Len(b) THEN [e |-> "eoi"]
  ELSE IF b[p] = 0 THEN [e |-> "ok", v |-> VSet(KeyNames[x], acc), p |-> p + 1]
  ELSE IF b[p] # 1 THEN [e |-> "invalid"]
  ELSE LET kr == DecKey(b, p + 1, x) IN
       IF kr.e # "ok" THEN kr ELSE DecSetT(b, kr.p, x, acc \cup {kr.key})

\* terminated byte array: chunks (length, bytes) until a chunk of length 0
DecChunks(b, p, acc) ==
  LET l == GetVarint(b, p, 4) IN
  IF l.e # "ok" THEN l
  ELSE LET n == Nat32(l.t) IN
       IF n = 0 THEN [e |-> "ok", v |-> VBytes(acc), p |-> l.p]
       ELSE IF Rem(b, l.p) < n THEN [e |-> "invalid"]
       ELSE DecChunks(b, l.p + n, acc \o SubSeq(b, l.p, l.p + n - 1))

--------------------------------------------------------------------------------
(* Skipping (measuring) a value: the same grammar, no values built, no UTF-8 validation.
   Results [e |-> "ok", p, v2] -- v2: some value position carries a kind >= 43 -- or [e |-> class]. *)
SkipKey(b, p, x) ==
  IF x <= 2 THEN (IF p > Len(b) THEN [e |-> "eoi"] ELSE [e |-> "ok", p |-> p + 1])
  ELSE IF x = 10 THEN (IF Rem(b, p) < 16 THEN [e |-> "eoi"] ELSE [e |-> "ok", p |-> p + 16])
  ELSE IF x = 9 THEN LET l == GetVarint(b, p, 4) IN
                     IF l.e # "ok" THEN l
                     ELSE IF Rem(b, l.p) < Nat32(l.t) THEN [e |-> "eoi"] ELSE [e |-> "ok", p |-> l.p + Nat32(l.t)]
  ELSE SkipVarint(b, p, KeyWidth[x])

RECURSIVE SkipAt(_, _, _), SkipN(_, _, _, _, _, _), SkipT(_, _, _, _, _), SkipChunks(_, _)
\* what precedes each element's value: nothing (vec), a key (map: x in 1..10), nothing else (set: no value)
\* mode: "vec" | "map" | "set"
SkipAt(b, p, d) ==
  IF d > MaxDepth THEN [e |-> "tooDeep"]
  ELSE IF p > Len(b) THEN [e |-> "eoi"]
  ELSE IF b[p] > 65 THEN [e |-> "invalid"]
  ELSE
  LET k == b[p]  t == KT[k]  q == p + 1
      Fixed(n) == IF Rem(b, q) < n THEN [e |-> "eoi"] ELSE [e |-> "ok", p |-> q + n, v2 |-> FALSE]
      Mark(r) == IF r.e # "ok" THEN r ELSE [e |-> "ok", p |-> r.p, v2 |-> r.v2 \/ IsV2Kind(k)]
      Counted(mode, x) == LET l == GetVarint(b, q, 4) IN
                          IF l.e # "ok" THEN l ELSE SkipN(b, l.p, d + 1, mode, x, Nat32(l.t))
  IN
  CASE t.c = "none" -> Fixed(0)
    [] t.c = "some" -> SkipAt(b, q, d + 1)
    [] t.c \in {"bool", "raw"} -> Fixed(1)
    [] t.c \in {"uvar", "svar"} -> LET r == SkipVarint(b, q, t.w) IN
                                   IF r.e # "ok" THEN r ELSE [e |-> "ok", p |-> r.p, v2 |-> FALSE]
    [] t.c = "blob" -> Fixed(t.w)
    [] t.c \in {"string", "bytes"} /\ k # 44 ->
         LET l == GetVarint(b, q, 4) IN
         IF l.e # "ok" THEN l
         ELSE IF Rem(b, l.p) < Nat32(l.t) THEN [e |-> IF k = 18 THEN "invalid" ELSE "eoi"]
         ELSE [e |-> "ok", p |-> l.p + Nat32(l.t), v2 |-> FALSE]
    [] k = 44 -> Mark(SkipChunks(b, q))
    [] t.c = "vec" -> Mark(IF t.ep = 1 THEN Counted("vec", 0) ELSE SkipT(b, q, d + 1, "vec", 0))
    [] t.c = "map" -> Mark(IF t.ep = 1 THEN Counted("map", t.x) ELSE SkipT(b, q, d + 1, "map", t.x))
    [] t.c = "set" -> Mark(IF t.ep = 1 THEN Counted("set", t.x) ELSE SkipT(b, q, d + 1, "set", t.x))
    [] t.c = "struct" -> Mark(IF t.ep = 1 THEN Counted("map", 5) ELSE SkipT(b, q, d + 1, "map", 5))
    [] t.c = "enum" -> LET i == SkipVarint(b, q, 4) IN IF i.e # "ok" THEN i ELSE SkipAt(b, i.p, d + 1)

SkipElem(b, p, d, mode, x) ==
  IF mode = "vec" THEN SkipAt(b, p, d)
  ELSE LET kr == SkipKey(b, p, x) IN
       IF kr.e # "ok" THEN kr
       ELSE IF mode = "set" THEN [e |-> "ok", p |-> kr.p, v2 |-> FALSE] ELSE SkipAt(b, kr.p, d)
SkipN(b, p, d, mode, x, n) ==
  IF n = 0 THEN [e |-> "ok", p |-> p, v2 |-> FALSE]
  ELSE LET r == SkipElem(b, p, d, mode, x) IN
       IF r.e # "ok" THEN r
       ELSE LET s == SkipN(b, r.p, d, mode, x, n - 1) IN
            IF s.e # "ok" THEN s ELSE [e |-> "ok", p |-> s.p, v2 |-> r.v2 \/ s.v2]
SkipT(b, p, d, mode, x) ==
  IF p > Len(b) THEN [e |-> "eoi"]
  ELSE IF b[p] = 0 THEN [e |-> "ok", p |-> p + 1, v2 |-> FALSE]
  ELSE IF b[p] # 1 THEN [e |-> "invalid"]
  ELSE LET r == SkipElem(b, p + 1, d, mode, x) IN
       IF r.e # "ok" THEN r
       ELSE LET s == SkipT(b, r.p, d, mode, x) IN
            IF s.e # "ok" THEN s ELSE [e |-> "ok", p |-> s.p, v2 |-> r.v2 \/ s.v2]
SkipChunks(b, p) ==
  LET l == GetVarint(b, p, 4) IN
  IF l.e # "ok" THEN l
  ELSE IF Nat32(l.t) = 0 THEN [e |-> "ok", p |-> l.p, v2 |-> FALSE]
  ELSE IF Rem(b, l.p) < Nat32(l.t) THEN [e |-> "eoi"]
  ELSE SkipChunks(b, l.p + Nat32(l.t))

--------------------------------------------------------------------------------
(* Conversion to the legacy epoch: every terminated container becomes the counted container of
   the same key kind with the elements in the same order, recursively; scalars are re-written in
   normal form (bool as 0/1, minimal varints).  Results [e |-> "ok", o (output), p] or [e |-> class]. *)
ConvKey(b, p, x) ==
  IF x <= 2 THEN (IF p > Len(b) THEN [e |-> "eoi"] ELSE [e |-> "ok", o |-> <<b[p]>>, p |-> p + 1])
  ELSE IF x = 10 THEN (IF Rem(b, p) < 16 THEN [e |-> "eoi"] ELSE [e |-> "ok", o |-> SubSeq(b, p, p + 15), p |-> p + 16])
  ELSE IF x = 9 THEN LET l == GetVarint(b, p, 4) IN
                     IF l.e # "ok" THEN l
                     ELSE LET n == Nat32(l.t) IN
                          IF Rem(b, l.p) < n THEN [e |-> "eoi"]
                          ELSE [e |-> "ok", o |-> PutVarint(l.t) \o SubSeq(b, l.p, l.p + n - 1), p |-> l.p + n]
  ELSE LET r == GetVarint(b, p, KeyWidth[x]) IN
       IF r.e # "ok" THEN r ELSE [e |-> "ok", o |-> PutVarint(r.t), p |-> r.p]

RECURSIVE ConvAt(_, _, _), ConvN(_, _, _, _, _, _, _), ConvT(_, _, _, _, _, _, _), ConvChunks(_, _, _)
ConvAt(b, p, d) ==
  IF d > MaxDepth THEN [e |-> "tooDeep"]
  ELSE IF p > Len(b) THEN [e |-> "eoi"]
  ELSE IF b[p] > 65 THEN [e |-> "invalid"]
  ELSE
  LET k == b[p]  t == KT[k]  q == p + 1
      Pre(r) == IF r.e # "ok" THEN r ELSE [e |-> "ok", o |-> <<k>> \o r.o, p |-> r.p]
      Fixed(n) == IF Rem(b, q) < n THEN [e |-> "eoi"] ELSE [e |-> "ok", o |-> SubSeq(b, p, q + n - 1), p |-> q + n]
      k1 == IF k >= 43 THEN k - 26 ELSE k       \* the counted twin of a terminated kind (43..65 -> 17..39)
      Counted(mode, x) == LET l == GetVarint(b, q, 4) IN
                          IF l.e # "ok" THEN l
                          ELSE LET r == ConvN(b, l.p, d + 1, mode, x, Nat32(l.t), <<>>) IN
                               IF r.e # "ok" THEN r ELSE [e |-> "ok", o |-> <<k1>> \o PutVarint(l.t) \o r.o, p |-> r.p]
      Termd(mode, x) == LET r == ConvT(b, q, d + 1, mode, x, 0, <<>>) IN
                        IF r.e # "ok" THEN r ELSE [e |-> "ok", o |-> <<k1>> \o PutVarint(U32Of(r.n)) \o r.o, p |-> r.p]
  IN
  CASE t.c = "none" -> Fixed(0)
    [] t.c = "some" -> Pre(ConvAt(b, q, d + 1))
    [] t.c = "bool" -> IF q > Len(b) THEN [e |-> "eoi"] ELSE [e |-> "ok", o |-> <<2, IF b[q] # 0 THEN 1 ELSE 0>>, p |-> q + 1]
    [] t.c = "raw" -> Fixed(1)
    [] t.c \in {"uvar", "svar"} -> LET r == GetVarint(b, q, t.w) IN
                                   IF r.e # "ok" THEN r ELSE [e |-> "ok", o |-> <<k>> \o PutVarint(r.t), p |-> r.p]
    [] t.c = "blob" -> Fixed(t.w)
    [] t.c \in {"string", "bytes"} /\ k # 44 ->
         LET l == GetVarint(b, q, 4) IN
         IF l.e # "ok" THEN l
         ELSE LET n == Nat32(l.t) IN
              IF Rem(b, l.p) < n THEN [e |-> "eoi"]
              ELSE [e |-> "ok", o |-> <<k>> \o PutVarint(l.t) \o SubSeq(b, l.p, l.p + n - 1), p |-> l.p + n]
    [] k = 44 -> LET r == ConvChunks(b, q, <<>>) IN
                 IF r.e # "ok" THEN r ELSE [e |-> "ok", o |-> <<18>> \o PutVarint(U32Of(Len(r.o))) \o r.o, p |-> r.p]
    [] t.c = "vec" -> IF t.ep = 1 THEN Counted("vec", 0) ELSE Termd("vec", 0)
    [] t.c = "map" -> IF t.ep = 1 THEN Counted("map", t.x) ELSE Termd("map", t.x)
    [] t.c = "set" -> IF t.ep = 1 THEN Counted("set", t.x) ELSE Termd("set", t.x)
    [] t.c = "struct" -> IF t.ep = 1 THEN Counted("map", 5) ELSE Termd("map", 5)
    [] t.c = "enum" -> LET i == GetVarint(b, q, 4) IN
                       IF i.e # "ok" THEN i
                       ELSE LET r == ConvAt(b, i.p, d + 1) IN
                            IF r.e # "ok" THEN r ELSE [e |-> "ok", o |-> <<40>> \o PutVarint(i.t) \o r.o, p |-> r.p]

ConvElem(b, p, d, mode, x) ==
  IF mode = "vec" THEN ConvAt(b, p, d)
  ELSE LET kr == ConvKey(b, p, x) IN
       IF kr.e # "ok" \/ mode = "set" THEN kr
       ELSE LET r == ConvAt(b, kr.p, d) IN
            IF r.e # "ok" THEN r ELSE [e |-> "ok", o |-> kr.o \o r.o, p |-> r.p]
ConvN(b, p, d, mode, x, n, acc) ==
  IF n = 0 THEN [e |-> "ok", o |-> acc, p |-> p]
  ELSE LET r == ConvElem(b, p, d, mode, x) IN
       IF r.e # "ok" THEN r ELSE ConvN(b, r.p, d, mode, x, n - 1, acc \o r.o)
ConvT(b, p, d, mode, x, n, acc) ==
  IF p > Len(b) THEN [e |-> "eoi"]
  ELSE IF b[p] = 0 THEN [e |-> "ok", o |-> acc, n |-> n, p |-> p + 1]
  ELSE IF b[p] # 1 THEN [e |-> "invalid"]
  ELSE LET r == ConvElem(b, p + 1, d, mode, x) IN
       IF r.e # "ok" THEN r ELSE ConvT(b, r.p, d, mode, x, n + 1, acc \o r.o)
ConvChunks(b, p, acc) ==
  LET l == GetVarint(b, p, 4) IN
  IF l.e # "ok" THEN l
  ELSE LET n == Nat32(l.t) IN
       IF n = 0 THEN [e |-> "ok", o |-> acc, p |-> l.p]
       ELSE IF Rem(b, l.p) < n THEN [e |-> "invalid"]
       ELSE ConvChunks(b, l.p + n, acc \o SubSeq(b, l.p, l.p + n - 1))

--------------------------------------------------------------------------------
(* The public operators. depth = depth at which the value at the head of bytes stands (1 = top). *)
Dec(bytes, depth) ==
  LET r == DecAt(bytes, 1, depth) IN
  IF r.e = "ok" THEN [ok |-> TRUE, e |-> "ok", value |-> r.v, n |-> r.p - 1, rest |-> SubSeq(bytes, r.p, Len(bytes))]
  ELSE [ok |-> FALSE, e |-> r.e]
Skip(bytes, depth) ==
  LET r == SkipAt(bytes, 1, depth) IN
  IF r.e = "ok" THEN [ok |-> TRUE, e |-> "ok", n |-> r.p - 1, v2 |-> r.v2] ELSE [ok |-> FALSE, e |-> r.e]
Kind(bytes) == IF bytes = <<>> THEN [ok |-> FALSE, e |-> "eoi"]
               ELSE IF bytes[1] > 65 THEN [ok |-> FALSE, e |-> "invalid"] ELSE [ok |-> TRUE, e |-> "ok", k |-> bytes[1]]

\* whole-buffer variants (what SerializedValueSlice::deserialize_as / convert do): nothing may be left over
DecAll(bytes) == LET r == Dec(bytes, 1) IN
                 IF r.ok /\ r.n < Len(bytes) THEN [ok |-> FALSE, e |-> "trailing", n |-> r.n] ELSE r

\* protocol versions <<major, minor>>: 1.14..1.19 are the legacy epoch 1, 1.20 is epoch 2, anything else is invalid (0)
EpochOf(ver) == IF ver[1] = 1 /\ ver[2] >= 14 /\ ver[2] <= 19 THEN 1
                ELSE IF ver[1] = 1 /\ ver[2] = 20 THEN 2 ELSE 0

\* Conv(bytes, toEpoch): bytes in the current epoch (or mixed) re-written for a peer of epoch toEpoch
ConvWalk(bytes) ==
  LET r == ConvAt(bytes, 1, 1) IN
  IF r.e # "ok" THEN [ok |-> FALSE, e |-> r.e]
  ELSE IF r.p <= Len(bytes) THEN [ok |-> FALSE, e |-> "trailing"]
  ELSE [ok |-> TRUE, e |-> "ok", b |-> r.o]
ConvFT(bytes, fromEpoch, toEpoch) ==
  IF toEpoch < fromEpoch THEN ConvWalk(bytes) ELSE [ok |-> TRUE, e |-> "ok", b |-> bytes]
Conv(bytes, toEpoch) == ConvFT(bytes, 2, toEpoch)
\* with versions; from = NoVersion (the empty tuple) means "the newest"
NoVersion == <<>>
ConvVer(bytes, from, to) ==
  LET f == IF from = NoVersion THEN 2 ELSE EpochOf(from)  t == EpochOf(to) IN
  IF f = 0 \/ t = 0 THEN [ok |-> FALSE, e |-> "invalidVersion"] ELSE ConvFT(bytes, f, t)
=============================================================================
