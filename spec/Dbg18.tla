---- MODULE Dbg18 ----
EXTENDS SchemaModel_MC18
DS == {d \in Descs(3) : ValidDesc(d) /\ d.kind = "pre1"}
Post == TLCGet("stats").distinct >= 0 => PrintT(<<Cardinality(DS), Cardinality({ WFDeco(Bases[3].B, DecoOf(d)) : d \in DS})>>)
DInit == st = Desc(1, "base", 1, 0)
DNext == st.b = 99 /\ st' = st
====
