---- MODULE Dbg18 ----
EXTENDS SchemaModel_MC18
Post == TLCGet("stats").distinct >= 0 => PrintT(<<1>>)
DInit == st = Desc(1, "base", 1, 0)
DNext == st.b = 99 /\ st' = st
====
