-------------------------- MODULE MC_ValueCodecBytes --------------------------
(* Exhaustive check of the reference's theorems over all SHORT BYTE STRINGS over a reduced
   alphabet of interesting bytes (kinds of every class, the container markers 0/1, varint
   prefixes, a UTF-8 lead and continuation byte).  Every state is one string.
 *)
EXTENDS ValueCodec, TLC, IOUtils

\* MaxLen: 4 quick / 5 thorough; Alphabet: the reduced alphabet (set in the .cfg)
CONSTANTS MaxLen, Alphabet

VARIABLE s
Init == s = <<>>
Next == Len(s) < MaxLen /\ \E x \in Alphabet : s' = Append(s, x)
Spec == Init /\ [][Next]_s

Theorems ==
  LET d == Dec(s, 1)  k == Skip(s, 1)  c == ConvAt(s, 1, 1)  kd == Kind(s) IN
  /\ d.ok => (k.ok /\ k.n = d.n)                                   \* decodable => skippable, same length
  /\ k.ok => ((d.ok /\ d.n = k.n) \/ d.e = "utf8")                 \* skippable => decodable, UTF-8 aside
  /\ (s # <<>>) => (kd.ok <=> s[1] <= 65) /\ (kd.ok => kd.k = s[1])
  /\ (s = <<>>) => (~kd.ok /\ ~d.ok /\ ~k.ok)
  /\ (d.ok \/ k.ok) => kd.ok
  /\ (c.e = "ok") <=> k.ok                                         \* convertible <=> well-formed (UTF-8 aside)
  /\ c.e = "ok" =>
       LET ko == Skip(c.o, 1)  do == Dec(c.o, 1)  co == ConvAt(c.o, 1, 1) IN
       /\ c.p - 1 = k.n                                             \* consumes exactly the value
       /\ ko.ok /\ ko.n = Len(c.o) /\ ~ko.v2                        \* result well-formed, no 1.20 kind
       /\ d.ok => (do.ok /\ do.value = d.value /\ do.n = Len(c.o))  \* same meaning
       /\ (~d.ok) => do.e = "utf8"
       /\ co.e = "ok" /\ co.o = c.o                                 \* converting twice = once
  /\ d.ok =>                                                        \* what decodes can be re-encoded, both epochs
       /\ Depth(d.value) <= MaxDepth
       /\ LET x2 == Enc2(d.value).b  x1 == Enc1(d.value).b IN
            /\ Dec(x2, 1).value = d.value /\ Dec(x2, 1).n = Len(x2)
            /\ Dec(x1, 1).value = d.value /\ Dec(x1, 1).n = Len(x1)
            /\ Skip(x2, 1).n = Len(x2) /\ Skip(x1, 1).n = Len(x1) /\ ~Skip(x1, 1).v2
=============================================================================
