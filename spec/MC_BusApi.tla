----------------------------- MODULE MC_BusApi -----------------------------
(* Design check of BusApi.tla and generator of the behaviours that api-replay performs through the
   real client API (R_BusApi_*.cfg: with the history, one line per behaviour of length MaxOps). *)
EXTENDS BusApi, Json

CONSTANTS OpKinds,    \* enabled operations
          MaxOps,     \* length of a behaviour
          MaxQueue    \* bound of the owner's call queue

VARIABLES b, hist, chk
vars == <<b, hist, chk>>
view == <<b, chk>>

Op(op, c, ev, how) == [op |-> op, c |-> c, ev |-> ev, how |-> how]
Ops == {Op(x, c, ev, "") : x \in {"sub", "unsub"} \cap OpKinds, c \in Users, ev \in Events}
       \cup {Op(x, c, 0, "") : x \in {"suball", "unsuball", "call", "abort"} \cap OpKinds, c \in Users}
       \cup {Op("emit", 0, ev, "") : ev \in (IF "emit" \in OpKinds THEN Events ELSE {})}
       \cup {Op("serve", 0, 0, h) : h \in (IF "serve" \in OpKinds THEN Hows ELSE {})}
       \cup {Op("destroy", 0, 0, "") : x \in {"destroy"} \cap OpKinds}

Init == b = BInit /\ hist = <<>> /\ chk = TRUE
Next == \E op \in Ops :
          /\ Enabled(b, op)
          /\ op.op = "call" => Len(b.queue) < MaxQueue
          /\ Len(hist) < MaxOps
          /\ b' = Do(b, op)
          /\ hist' = Append(hist, op)
          /\ chk' = NoStrayEvent(b, op, b')
Spec == Init /\ [][Next]_vars

InvType == TypeOk(b)
InvEvents == chk
Emit == Len(hist) = MaxOps => PrintT(<<"REPLAY", ToJson(hist)>>)
=============================================================================
