SPECIFICATION Spec
CONSTANTS
  NRand = 10
  WsCount = 3
  PreLayouts = 1
  NRandS = 6
INVARIANTS
  Inv_Layout
  Inv_Norm
  Inv_Inj
POSTCONDITION Emit
CHECK_DEADLOCK FALSE
