SPECIFICATION Spec
CONSTANTS
  NRand = 12
  WsCount = 3
  PreLayouts = 1
INVARIANTS
  Inv_Layout
  Inv_Norm
  Inv_Inj
POSTCONDITION Emit
CHECK_DEADLOCK FALSE
