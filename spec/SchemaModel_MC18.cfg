SPECIFICATION Spec
CONSTANTS
  NRand = 10
  WsCount = 2
  PreLayouts = 1
  FullStyles = FALSE
  NRandS = 6
INVARIANTS
  Inv_Layout
  Inv_Norm
  Inv_Inj
POSTCONDITION Emit
CHECK_DEADLOCK FALSE
