----------------------------- MODULE Obs_Client -----------------------------
(* Property observer over the client-level event log of the bus drivers (real aldrin::Client
   instances, real broker, deterministic executor): transport taps, API operations (start/return),
   facts stated by the application roles, task and run outcomes.

   C06  no client stops on an unexpected message, nothing panics, every role finishes once the
        system is quiescent (the programs are closed: every wait has an enabling action), a call
        returns the value computed for that very call, and after all clients shut down cleanly the
        broker asked to stop when idle stops;
   C05  (client level) a consumer sees the producer's items exactly once and in order;
   C04  (client level) a subscriber sees only events that were emitted, in order, each once, and
        only of the id it subscribed to;
   C15  after a termination cause every client run returns (ok for clean causes, an error
        otherwise) and no operation is left pending at quiescence (fault-sweep driver).          *)
EXTENDS Naturals, Integers, Sequences, FiniteSets

Put(f, k, v) == [x \in DOMAIN f \cup {k} |-> IF x = k THEN v ELSE f[x]]
Del(f, K) == [x \in DOMAIN f \ K |-> f[x]]
EmptyFn == [x \in {} |-> 0]

CInit ==
  [ ok |-> TRUE, prop |-> "", why |-> "",
    served |-> EmptyFn,      \* call token -> [n, how]
    emitted |-> {},          \* <<server, event id, k>>: the server announced it would emit k
    sentAt |-> EmptyFn,      \* k -> time the EmitEvent carrying k left the owner's client
    subAt |-> EmptyFn,       \* subscriber task -> time its subscription was acknowledged
    wantAll |-> {},          \* <<owner client, service token>>: the broker asked this owner for all events
    wantEv |-> {},           \* <<owner client, service token, event id>>: the broker asked for this event
    mustSend |-> EmptyFn,    \* k -> <<owner client, service token, event id>>: emitted while asked for, not yet seen leaving
    lastEv |-> EmptyFn,      \* <<task, event id>> -> last k seen
    lastAny |-> EmptyFn,     \* task -> last k seen of any event id
    nextItem |-> EmptyFn,    \* channel cookie -> next item number the consumer must see
    chanOf |-> EmptyFn,      \* producer's channel token -> channel cookie
    sentOk |-> EmptyFn,      \* channel cookie -> number of items the producer handed over successfully
    open |-> {},             \* ids of API operations that have not returned
    faulty |-> {},           \* clients whose transport was made to fail (C15 driver)
    cause |-> "",            \* termination cause injected by the fault-sweep driver ("" = none)
    now |-> 0,               \* record counter (a clock for the interval clauses of C19)
    opStart |-> EmptyFn,     \* API operation id -> time it started
    truth |-> <<>>,          \* C19: the objects the churn role holds: sequence of [u, cookie, svcs]
    dspec |-> <<>>,          \* C19: entry specifications of the discoverers: sequence of [key, obj, svcs]
    dlast |-> EmptyFn,       \* C19: <<task, key, object uuid>> -> TRUE if the last event was "created"
    dying |-> {},            \* C19: cookies whose destruction has begun
    born |-> EmptyFn,        \* C19: cookie -> time the creating call started
    died |-> EmptyFn,        \* C19: cookie -> time the destroying call returned
    foundEarly |-> {},       \* C19: cookies found before the creating call had returned
    quiescent |-> FALSE ]

Bad(S, p, w) == IF S.ok THEN [S EXCEPT !.ok = FALSE, !.prop = p, !.why = w] ELSE S

StartsWith(s, p) == Len(s) >= Len(p) /\ SubSeq(s, 1, Len(p)) = p
Contains(s, p) == \E i \in 1..(Len(s) - Len(p) + 1) : SubSeq(s, i, i + Len(p) - 1) = p
\* A panic is charged to the property whose code raised it: the discoverer and lifetime modules
\* belong to C19, everything else to C06.
PanicProp(m) == IF Contains(m, "src/discoverer") \/ Contains(m, "src/lifetime") THEN "C19" ELSE "C06"

\* C04 (client level, completeness): between the first event a subscriber received (or the
\* acknowledgement of its subscription) and the event `upto`, every matching event that actually
\* left the owner's client must have been received.  `upto` = 0 means "up to the end".
LastOf(S, task) == IF task \in DOMAIN S.lastAny THEN S.lastAny[task] ELSE 0
Lost(S, task, srv, all, sub, upto) ==
  \* (not judged in runs with an injected termination cause: a dying client loses what it had queued)
  S.cause = "" /\ S.faulty = {} /\ \E e \in S.emitted :
     /\ e[1] = srv /\ (all \/ e[2] = sub)
     /\ e[3] \in DOMAIN S.sentAt
     /\ e[3] > LastOf(S, task)
     /\ (upto = 0 \/ e[3] < upto)
     /\ (LastOf(S, task) > 0 \/ (task \in DOMAIN S.subAt /\ S.sentAt[e[3]] > S.subAt[task]))

SeqToSet(q) == {q[i] : i \in 1..Len(q)}

OnApi(S, r) ==
  IF r.ph = "start" THEN [S EXCEPT !.open = @ \cup {r.id}, !.opStart = Put(@, r.id, S.now)]
  ELSE
    LET S1 == [S EXCEPT !.open = @ \ {r.id}]
        started == IF r.id \in DOMAIN S.opStart THEN S.opStart[r.id] ELSE 0 IN
    CASE r.op = "call" /\ r.res \in {"ok", "errval"} ->
           \* C06: the value computed for that very call
           IF r.d.rt # r.d.t THEN Bad(S1, "C06", "a call returned the reply of another call")
           ELSE IF r.d.t \notin DOMAIN S1.served THEN Bad(S1, "C06", "a call returned a value although no callee served it")
           ELSE IF S1.served[r.d.t].n # r.d.n THEN Bad(S1, "C06", "a call returned a value the callee did not compute for it")
           ELSE IF (r.res = "ok") # (S1.served[r.d.t].how <= 4) THEN Bad(S1, "C06", "ok/err outcome of a call does not match what the callee replied")
           ELSE S1
      [] r.op = "next_item" /\ r.res = "ok" ->
           \* C05: exactly once, in order
           LET k == r.d.cookie
               want == IF k \in DOMAIN S1.nextItem THEN S1.nextItem[k] ELSE 1 IN
           IF r.d.k # want THEN Bad(S1, "C05", "a channel item was lost, duplicated or reordered")
           ELSE [S1 EXCEPT !.nextItem = Put(@, k, want + 1)]
      [] r.op = "send_item" /\ r.res = "ok" /\ "chan" \in DOMAIN r.d /\ r.d.chan \in DOMAIN S1.chanOf ->
           LET k == S1.chanOf[r.d.chan] IN
           [S1 EXCEPT !.sentOk = Put(@, k, (IF k \in DOMAIN S1.sentOk THEN S1.sentOk[k] ELSE 0) + 1)]
      [] r.op = "next_item" /\ r.res = "end" ->
           \* C05 (client level, completeness): the stream ended because the sender went away; every
           \* item it handed over successfully must have arrived before
           LET k == r.d.cookie
               got == IF k \in DOMAIN S1.nextItem THEN S1.nextItem[k] - 1 ELSE 0
               sent == IF k \in DOMAIN S1.sentOk THEN S1.sentOk[k] ELSE 0 IN
           IF got < sent /\ S1.cause = "" /\ S1.faulty = {} THEN Bad(S1, "C05", "items the sender handed over successfully never reached the receiver")
           ELSE S1
      [] r.op = "events" /\ r.d.seen < r.d.want ->
           \* the stream ended (service destroyed): everything sent before must have arrived
           IF Lost(S1, r.task, r.d.srv, r.d.all, r.d.sub, 0) THEN Bad(S1, "C04", "an event emitted while the subscription was active was not delivered before the stream ended")
           ELSE S1
      [] r.op = "create_object" /\ r.res = "ok" /\ "cookie" \in DOMAIN r.d ->
           [S1 EXCEPT !.born = Put(@, r.d.cookie, started), !.foundEarly = @ \ {r.d.cookie}]
      [] r.op = "destroy_object" /\ "cookie" \in DOMAIN r.d -> [S1 EXCEPT !.died = Put(@, r.d.cookie, S.now)]
      [] r.op = "lifetime_ended" ->
           \* C19: a lifetime never resolves while its scope is alive
           IF r.d.cookie \notin S1.dying THEN Bad(S1, "C19", "a lifetime resolved although its scope had not begun to end")
           ELSE S1
      [] r.op \in {"wait_for_object", "find_object"} /\ r.res = "ok" ->
           \* C19: the object returned existed at some point during the wait
           \* (the creating call may return after the object became visible to others)
           IF r.d.cookie \notin DOMAIN S1.born THEN [S1 EXCEPT !.foundEarly = @ \cup {r.d.cookie}]
           ELSE IF S1.born[r.d.cookie] > S.now THEN Bad(S1, "C19", "an object was found before it was created")
           ELSE IF r.d.cookie \in DOMAIN S1.died /\ S1.died[r.d.cookie] < started
             THEN Bad(S1, "C19", "an object was found that had been destroyed before the search began")
           ELSE S1
      [] OTHER -> S1

\* C19: the discoverer's final view against the truth
ViewCheck(S, r) ==
  LET specOf(key) == S.dspec[CHOOSE i \in 1..Len(S.dspec) : S.dspec[i].key = key]
      expected(key) == {<<o.u, o.cookie>> : o \in {o \in SeqToSet(S.truth) :
                           /\ (specOf(key).obj = 0 \/ specOf(key).obj = o.u)
                           /\ SeqToSet(specOf(key).svcs) \subseteq SeqToSet(o.svcs)}}
      actual(e) == {<<x.u, x.cookie>> : x \in SeqToSet(e.objs)}
      wrong == {i \in 1..Len(r.d.entries) : actual(r.d.entries[i]) # expected(r.d.entries[i].key)}
      \* the event stream ends in the state the view shows
      incons == {i \in 1..Len(r.d.entries) : \E k \in DOMAIN S.dlast :
                   k[1] = r.task /\ k[2] = r.d.entries[i].key /\
                   S.dlast[k] # (\E x \in SeqToSet(r.d.entries[i].objs) : x.u = k[3])}
  IN IF wrong # {} THEN Bad(S, "C19", "a discoverer entry does not report exactly the matching objects that exist")
     ELSE IF incons # {} THEN Bad(S, "C19", "the discoverer's events do not lead to the state it reports")
     ELSE S

OnFact(S, r) ==
  CASE r.what = "producer" -> [S EXCEPT !.chanOf = Put(@, r.d.chan, r.d.cookie)]
    [] r.what = "served" -> [S EXCEPT !.served = Put(@, r.d.t, [n |-> r.d.n, how |-> r.d.how])]
    [] r.what = "emit" ->
         \* C04 (owner side): an event emitted while the broker has asked this owner for it (and keeps
         \* asking) must leave the owner's client
         LET S1 == [S EXCEPT !.emitted = @ \cup {<<r.d.srv, r.d.ev, r.d.k>>}] IN
         IF "svcTok" \in DOMAIN r.d /\ (<<r.d.cl, r.d.svcTok>> \in S.wantAll \/ <<r.d.cl, r.d.svcTok, r.d.ev>> \in S.wantEv)
           THEN [S1 EXCEPT !.mustSend = Put(@, r.d.k, <<r.d.cl, r.d.svcTok, r.d.ev>>)]
           ELSE S1
    [] r.what = "event" ->
         LET key == <<r.task, r.d.ev>>
             last == IF key \in DOMAIN S.lastEv THEN S.lastEv[key] ELSE 0 IN
         IF <<r.d.srv, r.d.ev, r.d.k>> \notin S.emitted THEN Bad(S, "C04", "a subscriber received an event that was not emitted")
         ELSE IF ~r.d.all /\ r.d.ev # r.d.sub THEN Bad(S, "C04", "a subscriber received an event id it did not subscribe to")
         ELSE IF r.d.k <= last THEN Bad(S, "C04", "a subscriber received an event twice or out of order")
         ELSE IF Lost(S, r.task, r.d.srv, r.d.all, r.d.sub, r.d.k) THEN Bad(S, "C04", "an event emitted while the subscription was active was not delivered to the subscriber")
         ELSE [S EXCEPT !.lastEv = Put(@, key, r.d.k), !.lastAny = Put(@, r.task, r.d.k)]
    [] r.what = "subscribed" -> [S EXCEPT !.subAt = Put(@, r.task, S.now)]
    [] r.what = "truth" -> [S EXCEPT !.truth = r.d.objs]
    [] r.what = "dentries" -> [S EXCEPT !.dspec = r.d.entries]
    [] r.what = "destroying" -> [S EXCEPT !.dying = @ \cup {r.d.cookie}]
    [] r.what = "devent" ->
         \* C19: created / destroyed alternate per entry and object, starting with created
         LET key == <<r.task, r.d.key, r.d.u>>
             last == IF key \in DOMAIN S.dlast THEN S.dlast[key] ELSE FALSE
             specs == {i \in 1..Len(S.dspec) : S.dspec[i].key = r.d.key} IN
         IF specs = {} THEN Bad(S, "C19", "the discoverer emitted an event for an entry key that was never added")
         ELSE IF \E i \in specs : S.dspec[i].obj # 0 /\ S.dspec[i].obj # r.d.u
           THEN Bad(S, "C19", "an entry for one specific object reported an event about a different object")
         ELSE IF r.d.created = last THEN Bad(S, "C19", "the discoverer emitted two created or two destroyed events in a row for one object")
         ELSE [S EXCEPT !.dlast = Put(@, key, r.d.created)]
    [] r.what = "dview" -> ViewCheck(S, r)
    \* C12: a well-formed payload sent between peers of any two supported versions arrives meaning the same
    \* value (echo roles: containers of every shape, small and large keys, nested; both directions)
    [] r.what = "echo" ->
         IF ~r.d.ok /\ S.cause = "" /\ S.faulty = {}
           THEN Bad(S, "C12", "a well-formed payload did not cross the version boundary unchanged: " \o r.d.why)
           ELSE S
    [] OTHER -> S

CStep(S0, r) ==
  IF r.t = "reset" THEN CInit
  ELSE IF ~S0.ok THEN S0
  ELSE LET S == [S0 EXCEPT !.now = @ + 1] IN
       CASE r.t = "api" -> OnApi(S, r)
    [] r.t = "fact" -> OnFact(S, r)
    [] r.t = "tap" ->
         \* C12: a payload delivered to a client is in the encoding epoch of its negotiated version
         IF r.dir = "rx" /\ ~r.epochOk THEN Bad(S, "C12", "a payload with encodings newer than the recipient's version was delivered: " \o r.m.k)
         ELSE IF r.dir = "tx" /\ r.m.k = "EmitEvent" /\ r.pv >= 0 THEN [S EXCEPT !.sentAt = Put(@, r.pv, S.now), !.mustSend = Del(@, {r.pv})]
         \* what the broker asks the owner of a service to produce (requests without a serial)
         ELSE IF r.dir = "rx" /\ r.m.k = "SubscribeAllEvents" /\ ~r.m.has THEN [S EXCEPT !.wantAll = @ \cup {<<r.cl, r.m.svc>>}]
         ELSE IF r.dir = "rx" /\ r.m.k = "SubscribeEvent" /\ ~r.m.has THEN [S EXCEPT !.wantEv = @ \cup {<<r.cl, r.m.svc, r.m.ev>>}]
         \* a withdrawn request cancels the obligation for what has not left yet
         ELSE IF r.dir = "rx" /\ r.m.k = "UnsubscribeAllEvents" /\ ~r.m.has THEN
                [S EXCEPT !.wantAll = @ \ {<<r.cl, r.m.svc>>},
                          !.mustSend = Del(@, {k \in DOMAIN @ : @[k][1] = r.cl /\ @[k][2] = r.m.svc /\ <<r.cl, r.m.svc, @[k][3]>> \notin S.wantEv})]
         ELSE IF r.dir = "rx" /\ r.m.k = "UnsubscribeEvent" THEN
                [S EXCEPT !.wantEv = @ \ {<<r.cl, r.m.svc, r.m.ev>>},
                          !.mustSend = Del(@, {k \in DOMAIN @ : @[k] = <<r.cl, r.m.svc, r.m.ev>> /\ <<r.cl, r.m.svc>> \notin S.wantAll})]
         ELSE S
    \* the driver's watchdog: one poll of code under test did not return (the executor cannot
    \* interrupt it), so whatever was stopping never finishes
    [] r.t = "hang" -> Bad(S, IF S.cause # "" THEN "C15" ELSE "C06",
                           "a task never returned from one poll (busy loop): its run future cannot return and every other task starves")
    [] r.t = "fault" -> [S EXCEPT !.faulty = @ \cup {r.cl}]
    [] r.t = "cause" -> [S EXCEPT !.cause = r.cause]
    [] r.t = "quiescent" ->
         IF r.panics # <<>> THEN Bad(S, PanicProp(r.panics[1]), "a task panicked: " \o r.panics[1])
         \* after an injected fault or a termination cause a hanging operation is C15's subject
         \* (pending operations resolve, the broker cleans the lost connection up); otherwise C06's
         ELSE IF r.unfinished THEN Bad(S, IF S.cause # "" THEN "C15" ELSE "C06",
                "the system is quiescent but an application task is still waiting (lost wake-up or deadlock)")
         ELSE IF S.cause = "" /\ S.faulty = {} /\ DOMAIN S.mustSend # {} THEN
                Bad(S, "C04", "an event emitted while the broker was asking the owner for it never left the owner's client")
         ELSE [S EXCEPT !.quiescent = TRUE]
    [] r.t = "task" ->
         IF r.st = "panic" THEN Bad(S, PanicProp(r.msg), "an application task panicked: " \o r.msg)
         ELSE IF r.st = "running" THEN Bad(S, "C06", "an application task never finished")
         ELSE S
    [] r.t = "run" ->
         IF StartsWith(r.res, "unexpected") THEN Bad(S, "C06", "a client stopped on an unexpected message: " \o r.res)
         ELSE IF StartsWith(r.client, "panic") THEN Bad(S, "C06", "a client task panicked: " \o r.client)
         ELSE IF StartsWith(r.conn, "panic") THEN Bad(S, "C06", "a connection task panicked: " \o r.conn)
         \* (the drivers end every client by one of the clean causes of C15 -- shutdown requested, last handle
         \* dropped, broker shutdown -- so a run future that is still pending at the end is C15's subject too)
         ELSE IF r.client = "running" THEN Bad(S, IF r.cl \in S.faulty THEN "C15" ELSE "C15+C06", "a client's run future did not return")
         ELSE IF r.conn = "running" THEN Bad(S, IF r.cl \in S.faulty THEN "C15" ELSE "C06", "a connection task did not return")
         ELSE IF r.cl \notin S.faulty /\ r.res # "ok" THEN
                \* (a client that itself asked to stop and is answered with a broken transport: the two sides
                \* disagree on the shutdown handshake, which is C06's subject as much as C15's)
                Bad(S, IF S.cause \in {"shutdown", "lasthandle"} THEN "C15+C06" ELSE IF S.cause # "" THEN "C15" ELSE "C06",
                    "a client that was shut down cleanly returned " \o r.res \o " (its connection task: " \o r.connRes \o ")")
         ELSE IF r.cl \in S.faulty /\ r.res = "ok" /\ r.strict THEN Bad(S, "C15", "a client whose transport failed returned ok")
         ELSE S
    [] r.t = "end" ->
         IF r.stuck THEN Bad(S, "C06", "the system did not become quiescent within the step bound")
         ELSE IF StartsWith(r.broker, "panic") THEN Bad(S, "C06", "the broker panicked: " \o r.broker)
         \* a connection task that was dropped and never addressed again stays registered by design
         \* (DESIGN 2.5), so the idle shutdown cannot complete in that case
         ELSE IF r.broker # "done" /\ S.cause # "dropconn" THEN
                Bad(S, IF S.cause # "" THEN "C15" ELSE "C06",
                    "the broker asked to stop when idle did not stop after all clients were gone (a connection is still registered)")
         ELSE IF S.open # {} THEN Bad(S, "C15", "an operation was still pending at the end")
         ELSE IF S.foundEarly # {} THEN Bad(S, "C19", "an object was found that nobody created")
         ELSE S
    [] OTHER -> S
=============================================================================
