\* exhaustive: every chunking, both interfaces in any interleaving, next_message at any time
SPECIFICATION Spec
CONSTANTS
  Machine = "pk"
  InSeqs <- ToyIn4
  OutSeqs <- None
  Modes = {"free"}
  MinReserve = 4
  MaxReserve = 6
  Slack = 2
  Boundary = 8
  ChunkMode = "all"
  MaxChunks = 0
  Bounded = FALSE
  MaxCalls = 0
  MaxFaults = 0
  Emit = FALSE
INVARIANTS ObsOk PkInv
CHECK_DEADLOCK FALSE
