-------------------------- MODULE MessageCodec_MC --------------------------
(* Exhaustive check of the theorems of MessageCodec over the enumerated message domain, and
   emission of the domain as test vectors for the implementation (env VECTORS = output file,
   ndjson: one message per line with its reference encoding and cell map).

   Domain(k): for kind k, every alternative of every embedded enum x every combination of the
   varint classes ViClasses for the varint fields x payloads P1, P2 (value-carrying kinds);
   plus, with all varints equal to one class ("diagonal"): the large payload, and the all-zero /
   all-0xff uuid flavours.  Uuid cells are otherwise distinct per cell position so that swapped
   fields are visible. *)
EXTENDS MessageCodec, TLC, Json, IOUtils, SequencesExt

CONSTANTS
  KindMutAll,      \* TRUE: the kind byte is mutated to every other value 0..255; FALSE: a sample
  ByteMut          \* TRUE: additionally every byte from the kind on is mutated (+1, xor 0x80)

ViClasses == {
  <<0, 0, 0, 0>>, <<1, 0, 0, 0>>, <<250, 0, 0, 0>>, <<251, 0, 0, 0>>, <<252, 0, 0, 0>>,
  <<255, 0, 0, 0>>, <<0, 1, 0, 0>>, <<255, 255, 0, 0>>, <<0, 0, 1, 0>>, <<255, 255, 255, 0>>,
  <<0, 0, 0, 1>>, <<4, 3, 2, 1>>, <<255, 255, 255, 255>> }

P1   == <<7>>
P2   == <<200, 9>>
PBig == [i \in 1 .. 300 |-> (i * 7 + 3) % 256]

UuidAt(i) == [j \in 1 .. 16 |-> (16 * i + j) % 256]
UuidPlaceholder == [j \in 1 .. 16 |-> 0]

\* all cell sequences for a field list, varints drawn from vis
RECURSIVE Gen(_, _)
Gen(fields, vis) ==
  IF fields = <<>> THEN {<<>>}
  ELSE LET f == Head(fields) IN
       CASE f.t = "vi" -> {<<c>> \o r : c \in vis, r \in Gen(Tail(fields), vis)}
         [] f.t = "uu" -> {<<UuidPlaceholder>> \o r : r \in Gen(Tail(fields), vis)}
         [] f.t = "en" -> UNION {{<<<<d>>>> \o r : r \in Gen(f.alts[d + 1] \o Tail(fields), vis)}
                                 : d \in 0 .. Len(f.alts) - 1}

Flavour(fs, fl) == [i \in 1 .. Len(fs) |->
                      IF Len(fs[i]) = 16
                      THEN CASE fl = "distinct" -> UuidAt(i)
                             [] fl = "zero"     -> [j \in 1 .. 16 |-> 0]
                             [] fl = "ff"       -> [j \in 1 .. 16 |-> 255]
                      ELSE fs[i]]

Mk(k, val, fs) == [k |-> k, val |-> IF L(k).v /\ ~NovFields(L(k).fs, fs) THEN val ELSE <<>>, fs |-> fs]

GenDiag(fields) == UNION {Gen(fields, {c}) : c \in ViClasses}

Domain(k) ==
  LET row == L(k)
      full == Gen(row.fs, ViClasses)
      diag == GenDiag(row.fs)
      small == IF row.v THEN {P1, P2} ELSE {<<>>} IN
        {Mk(k, v, Flavour(fs, "distinct")) : v \in small, fs \in full}
  \cup  {Mk(k, IF row.v THEN PBig ELSE <<>>, Flavour(fs, "distinct")) : fs \in diag}
  \cup  {Mk(k, IF row.v THEN P1 ELSE <<>>, Flavour(fs, fl)) : fs \in diag, fl \in {"zero", "ff"}}

-----------------------------------------------------------------------------
(* strictness: single-cell mutations of the frame of m *)
OtherKinds(k) == IF KindMutAll THEN Kinds \ {k}
                 ELSE {(k + 1) % NumKinds, (k + 7) % NumKinds, (k + 31) % NumKinds, (k + 62) % NumKinds} \ {k}
UnknownKinds == IF KindMutAll THEN NumKinds .. 255 ELSE {NumKinds, NumKinds + 1, 127, 128, 255}

Strict(m) ==
  LET F == EncMsg(m)
      n == Len(F)
      cm == CellsOf(m)
      discs == {i \in DOMAIN cm : cm[i][3] = 2} IN
  \* the length prefix
  /\ \A p \in 1 .. 4 : \A d \in {1, 255, 128} : Rejected(SetByte(F, p, (F[p] + d) % 256))
  \* the kind
  /\ \A k2 \in UnknownKinds : Rejected(SetByte(F, 5, k2))
  /\ \A k2 \in OtherKinds(m.k) : RejOrDifferent(SetByte(F, 5, k2), m)
  \* discriminants: into the undefined range, and to another defined alternative
  /\ \A i \in discs : LET p == cm[i][1] + 1
                          na == cm[i][4] IN
        /\ \A d \in {na, na + 1, 128, 255} : Rejected(SetByte(F, p, d))
        /\ \A d \in (0 .. na - 1) \ {F[p]} : RejOrDifferent(SetByte(F, p, d), m)
  \* append a cell / remove a cell, with and without adjusting the prefix
  /\ \A b \in {0, 1, 255} : Rejected(F \o <<b>>) /\ Rejected(FixPrefix(F \o <<b>>))
  /\ Rejected(SubSeq(F, 1, n - 1))
  /\ Rejected(FixPrefix(SubSeq(F, 1, n - 1)))
  \* the value length (value-carrying kinds): empty, one less, one more
  /\ L(m.k).v =>
       /\ Rejected([F EXCEPT ![6] = 0, ![7] = 0])
       \* the value cut out altogether (valueLen = 0, prefix adjusted): a value is never empty
       /\ Rejected(FixPrefix(SubSeq(F, 1, 5) \o <<0, 0, 0, 0>> \o SubSeq(F, 6 + Len(ValuePart(m)), n)))
       /\ RejOrDifferent(SetByte(F, 6, (F[6] + 1) % 256), m)
       /\ RejOrDifferent(SetByte(F, 6, (F[6] + 255) % 256), m)
  \* any single byte from the kind on: accepted only as a self-consistent message
  /\ ByteMut => \A p \in 5 .. n : /\ SelfConsistent(DecMsg(SetByte(F, p, (F[p] + 1) % 256)))
                                  /\ SelfConsistent(DecMsg(SetByte(F, p, (F[p] + 128) % 256)))

(* Non-canonical varints: re-encode one varint cell of m in every wider form; the frame still
   decodes to m.  Forms: 252+b (1 byte) .. 255 (4 bytes). *)
WideForms(c) == LET minw == IF c[4] # 0 THEN 4 ELSE IF c[3] # 0 THEN 3 ELSE IF c[2] # 0 THEN 2 ELSE 1
                IN {<<251 + w>> \o SubSeq(c, 1, w) : w \in minw .. 4}

RECURSIVE EncFieldsWide(_, _, _, _)
\* like EncFields, but the cell number `which` (a vi) is written in form `form`
EncFieldsWide(fields, cells, which, form) ==
  IF fields = <<>> THEN <<>>
  ELSE LET f == Head(fields)
           c == Head(cells) IN
       CASE f.t = "vi" -> (IF which = 1 THEN form ELSE EncVi(c)) \o EncFieldsWide(Tail(fields), Tail(cells), which - 1, form)
         [] f.t = "uu" -> c \o EncFieldsWide(Tail(fields), Tail(cells), which - 1, form)
         [] f.t = "en" -> c \o EncFieldsWide(f.alts[c[1] + 1] \o Tail(fields), Tail(cells), which - 1, form)

Lenient(m) ==
  \A i \in DOMAIN m.fs : Len(m.fs[i]) = 4 =>
     \A form \in WideForms(m.fs[i]) :
        LET rest == <<m.k>> \o ValuePart(m) \o EncFieldsWide(L(m.k).fs, m.fs, i, form)
            r == DecMsg(U32LE(4 + Len(rest)) \o rest)
        IN r.ok /\ r.m = m

-----------------------------------------------------------------------------
VARIABLES kind, msg
vars == <<kind, msg>>

Init == kind \in Kinds /\ msg = NoMsg
Next == /\ msg = NoMsg
        /\ msg' \in Domain(kind)
        /\ kind' = kind
Spec == Init /\ [][Next]_vars

Inv_WF        == msg # NoMsg => WF(msg)
Inv_RoundTrip == msg # NoMsg => RoundTrip(msg)
Inv_Prefix    == msg # NoMsg => PrefixOK(msg)
Inv_Strict    == msg # NoMsg => Strict(msg)
Inv_Lenient   == msg # NoMsg => Lenient(msg)

\* the table itself: 63 rows, value-carrying kinds exactly those of kind.rs has_value()
ASSUME NumKinds = 63
ASSUME {k \in Kinds : L(k).v} = {0, 1, 11, 12, 16, 27, 28, 46, 47, 49, 51, 52, 54, 62}

-----------------------------------------------------------------------------
(* vector emission (postcondition, after the exhaustive check succeeded) *)
Vector(m) == [k |-> m.k, name |-> L(m.k).name, val |-> m.val, fs |-> m.fs, enc |-> EncMsg(m), cells |-> CellsOf(m)]
Emit == IF TLCGet("stats").distinct > 0 /\ "VECTORS" \in DOMAIN IOEnv /\ IOEnv.VECTORS # ""
        THEN LET s == SetToSeq(UNION {Domain(k) : k \in Kinds})
                 v == [i \in 1 .. Len(s) |-> Vector(s[i])]
             IN  /\ ndJsonSerialize(IOEnv.VECTORS, v)
                 /\ PrintT(<<"VECTORS-WRITTEN", Len(s)>>)
        ELSE TRUE
=============================================================================
