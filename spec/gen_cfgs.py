#!/usr/bin/env python3
"""Generates the MC_*.cfg files of MC_Broker.tla (quick and _thorough variants).  The constants are
the bounds of the exhaustive design check; they are tuned to the time budgets of bin/check."""
import os

HERE = os.path.dirname(os.path.abspath(__file__))

REG = ["CreateObject", "DestroyObject", "CreateService", "CreateService2", "DestroyService", "QueryServiceVersion", "QueryServiceInfo", "Sync"]
CALLS = ["CallFunction", "CallFunction2", "CallFunctionReply", "AbortFunctionCall", "DestroyService", "DestroyObject"]
EVENTS = ["SubscribeEvent", "UnsubscribeEvent", "EmitEvent", "SubscribeService", "UnsubscribeService", "SubscribeAllEvents",
          "UnsubscribeAllEvents", "DestroyService"]
CHANS = ["CreateChannel", "CloseChannelEnd", "ClaimChannelEnd", "SendItem", "AddChannelCapacity"]
LSTS = ["CreateObject", "DestroyObject", "CreateService", "AddBusListenerFilter", "RemoveBusListenerFilter",
        "ClearBusListenerFilters", "StartBusListener", "StopBusListener", "DestroyBusListener"]
GATED = ["AbortFunctionCall", "CreateService2", "QueryServiceInfo", "SubscribeService", "UnsubscribeService",
         "SubscribeAllEvents", "UnsubscribeAllEvents", "CallFunction2", "CallFunction", "CallFunctionReply", "EmitEvent", "SubscribeEvent"]
ALL = sorted(set(REG + CALLS + EVENTS + CHANS + LSTS + ["CreateBusListener"]))
WRONG = ["CreateObjectReply", "ItemReceived", "Connect", "EmitBusEvent", "ServiceDestroyed"]
ALLF = ["ends", "dropped", "sdc", "sdb", "sdi"]


def s(xs):
    return "{" + ", ".join(f'"{x}"' if isinstance(x, str) else str(x) for x in xs) + "}"


def cfg(name, kinds, faults, script="none", conns=(0, 1), versions=(20,), maxcookie=3, budget=3, caps="CapsOne",
        v0=20, v1=20, cserials=(0,), events=(0,), wrong=(), inq=1, objuuids=(101, 102), initserial=0, wrap=False,
        replay=None, senders=None, pool=("live", "dead", "never"), payloads=(1,), svcuuids=(201,)):
    """replay = fault budget: the configuration is for MC_Replay.tla (history variable, behaviours printed)."""
    text = f"""SPECIFICATION {"Spec" if replay is None else "RSpec"}
CONSTANTS
  B = 4
  Conns = {s(conns)}
  Versions = {s(versions)}
  ObjUuids = {s(objuuids)}
  SvcUuids = {s(svcuuids)}
  Events = {s(events)}
  Fns = {{0}}
  CSerials = {s(cserials)}
  Payloads = {s(payloads)}
  TypeIds = {{301}}
  Caps <- {caps}
  MaxCookie = {maxcookie}
  InqBound = {inq}
  Kinds = {s(kinds)}
  Faults = {s(faults)}
  WrongKinds = {s(wrong)}
  MsgBudget = {budget}
  InitSerial = {initserial}
  Senders = {s(senders if senders is not None else conns)}
  PoolKinds = {s(pool)}
  ScriptSel = "{script}"
  V0 = {v0}
  V1 = {v1}
{"SerialWrap <- SW3" if wrap else ""}
{"VIEW view" if replay is None else f"  FaultBudget = {replay}"}
INVARIANTS {"ObserverOk NoPanicSite BoundaryConsistent FlagsOk StoppedClean" if replay is None else "Emit"}
CHECK_DEADLOCK FALSE
"""
    open(os.path.join(HERE, name + ".cfg"), "w").write(text)


# quick configurations (target: <= ~1.5 min at 8 workers)
cfg("MC_Registry", REG, ["ends", "dropped", "sdb", "sdi"], maxcookie=4, budget=4)
cfg("MC_Calls", CALLS, ["ends", "dropped"], script="svc", cserials=(0, 1), budget=3)
cfg("MC_Events", EVENTS, ["ends", "dropped"], script="svc", events=(0, 1), budget=3)
cfg("MC_Channels", CHANS, ["ends", "dropped"], script="chan", maxcookie=2, budget=3, caps="CapsMany")
cfg("MC_Listeners", LSTS, ["ends"], script="lst", budget=3)
cfg("MC_Lifecycle", sorted(set(REG[:5] + ["CallFunction", "SubscribeEvent", "SubscribeAllEvents", "CreateChannel", "ClaimChannelEnd", "CreateBusListener", "StartBusListener"])),
    ALLF, script="svc", budget=2, maxcookie=4)
cfg("MC_Abuse", ALL, [], script="svc", budget=2, maxcookie=4, wrong=WRONG, caps="CapsOne")
for (a, b) in [(14, 20), (20, 14), (15, 19), (17, 18)]:
    cfg(f"MC_Versions_{a}_{b}", GATED, [], script="svc", budget=2, v0=a, v1=b, conns=(0, 1))

# the broker's call serial counter wraps around and skips occupied slots (serials 0..3; at most three calls can be in flight; a long-pending call is skipped when the counter comes round)
cfg("MC_SerialWrap", ["CallFunction", "CallFunctionReply"], [], script="svc", conns=(0, 1, 2), cserials=(0,), budget=8,
    initserial=3, wrap=True)

# thorough configurations (target: <= ~20 min at 16 workers each)
cfg("MC_Registry_thorough", REG, ALLF, conns=(0, 1, 2), versions=(20,), maxcookie=4, budget=3)
cfg("MC_Calls_thorough", CALLS, ["ends", "dropped"], script="svc", conns=(0, 1, 2), cserials=(0, 1), budget=4)
cfg("MC_Events_thorough", EVENTS, ["ends", "dropped"], script="svc", conns=(0, 1, 2), events=(0, 1), budget=4)
cfg("MC_Channels_thorough", CHANS, ["ends", "dropped"], script="chan", maxcookie=2, budget=4, caps="CapsMany")
cfg("MC_Listeners_thorough", LSTS, ["ends", "dropped"], script="lst", budget=4)
cfg("MC_Lifecycle_thorough", sorted(set(REG[:5] + ["CallFunction", "SubscribeEvent", "SubscribeAllEvents", "CreateChannel", "ClaimChannelEnd", "CreateBusListener", "StartBusListener"])),
    ALLF, script="svc", budget=3, maxcookie=4, conns=(0, 1))
cfg("MC_Abuse_thorough", ALL, ["dropped"], script="svc", budget=3, maxcookie=4, wrong=WRONG, caps="CapsOne")


# replay configurations (MC_Replay.tla): every behaviour is printed and replayed on the real broker.
# R_*   exhaustive enumeration (two free messages in batches of up to two, one fault)
# RS_*  deeper behaviours drawn by TLC's simulator from the same state-aware generator
LIFE = sorted(set(REG[:5] + ["CallFunction", "SubscribeEvent", "SubscribeAllEvents", "CreateChannel", "ClaimChannelEnd", "CreateBusListener", "StartBusListener"]))
for (nm, kinds, faults, kw) in [
        ("Registry", REG, ["ends", "dropped", "sdb", "sdi"], dict(maxcookie=4)),
        ("Calls", CALLS, ["ends", "dropped"], dict(script="svc", cserials=(0, 1))),
        ("Events", EVENTS, ["ends", "dropped"], dict(script="svc", events=(0, 1))),
        ("Channels", CHANS, ["ends", "dropped"], dict(script="chan", maxcookie=2, caps="CapsMany")),
        ("Listeners", LSTS, ["ends", "dropped"], dict(script="lst")),
        ("Lifecycle", LIFE, ALLF, dict(script="svc", maxcookie=4)),
        ("Abuse", ALL, ["dropped"], dict(script="svc", maxcookie=4, wrong=WRONG)),
        # payload 9 stands for an ill-formed value (replay-broker sends real garbage): an old recipient's connection
        # task cannot convert it and must end by telling the broker
        ("Versions", GATED, [], dict(script="svc", v0=14, v1=20, versions=(14, 17, 20), payloads=(1, 9))),
]:
    cfg("R_" + nm, kinds, faults, budget=2, inq=2, replay=1, **kw)
    kw3 = dict(kw)
    if "conns" not in kw3:
        kw3["conns"] = (0, 1, 2)
    kw3["maxcookie"] = max(kw3.get("maxcookie", 3), 5)
    cfg("RS_" + nm, kinds, faults, budget=7, inq=3, replay=2, **kw3)

# listener life cycle from a listener that already has an any-object filter while an object exists: every
# sequence of three filter / start / stop requests of the owner (live cookies only)
LSTF = ["AddBusListenerFilter", "RemoveBusListenerFilter", "ClearBusListenerFilters", "StartBusListener", "StopBusListener"]
cfg("R_ListenersF", LSTF, [], script="lstf", budget=3, inq=1, replay=0, senders=(0,), pool=("live",), objuuids=(101,))
cfg("MC_ListenersF", LSTF + ["CreateObject", "DestroyObject"], ["ends"], script="lstf", budget=4, senders=(0, 1), pool=("live",), objuuids=(101,), maxcookie=4)

# calls from a state with one call already pending: abort / reuse of the caller's serial / late and foreign replies
CALLSP = ["CallFunction", "CallFunctionReply", "AbortFunctionCall"]
cfg("R_CallsP", CALLSP, [], script="pend", budget=3, inq=1, replay=0, pool=("live",), cserials=(0,), objuuids=(101,))
cfg("MC_CallsP", CALLSP + ["DestroyService"], ["ends", "dropped"], script="pend", budget=4, pool=("live", "never"), cserials=(0,), objuuids=(101,))
cfg("R_CallsP_old", CALLSP, [], script="pend", budget=3, inq=1, replay=0, pool=("live",), cserials=(0,), objuuids=(101,), v0=14, v1=20)

# introspection: registrations, queries, solicited / unsolicited / declining replies, connections ending
INTRO = ["RegisterIntrospection", "QueryIntrospection", "QueryIntrospectionReply"]
cfg("MC_Intro", INTRO, ["ends", "dropped"], conns=(0, 1, 2), budget=4, cserials=(0,))
cfg("MC_Intro_thorough", INTRO, ["ends", "dropped", "sdc"], conns=(0, 1, 2), budget=5, cserials=(0, 1))
cfg("R_Intro", INTRO, ["ends", "dropped"], conns=(0, 1, 2), budget=3, inq=1, replay=1, cserials=(0,))

# a call is pending on one of two services of the same owner: the service goes away, a new call, a late answer
CALLS2 = ["CallFunction", "CallFunctionReply", "DestroyService"]
cfg("R_CallsP2", CALLS2, [], script="pend2", budget=3, inq=1, replay=0, pool=("live", "dead"), cserials=(1,), objuuids=(101,), svcuuids=(201, 202), maxcookie=3)
cfg("MC_CallsP2", CALLS2 + ["AbortFunctionCall"], ["ends"], script="pend2", budget=4, pool=("live", "dead"), cserials=(1,), objuuids=(101,), svcuuids=(201, 202), maxcookie=3)

# an established channel (receiver claimed with capacity 1, 5 = just above the low-water mark, the maximum): every sequence of
# three (design check: three, thorough six, with faults) send / grant / close requests by either end; grants include the overflowing one
CHE = ["SendItem", "AddChannelCapacity", "CloseChannelEnd"]
for (sc, tag) in [("est1", "1"), ("est5", "5"), ("estM", "M")]:
    cfg(f"R_ChannelsE{tag}", CHE, [], script=sc, budget=3, inq=1, replay=0, pool=("live",), caps="CapsMany", maxcookie=2)
    cfg(f"MC_ChannelsE{tag}", CHE + ["ClaimChannelEnd"], ["ends", "dropped"], script=sc, budget=3, pool=("live",), caps="CapsMany", maxcookie=2)
    cfg(f"MC_ChannelsE{tag}_thorough", CHE + ["ClaimChannelEnd"], ["ends", "dropped"], script=sc, budget=6, pool=("live",), caps="CapsMany", maxcookie=2)

# events from a state in which connection 1 is already subscribed (to event 0 / to all events): the owner's 1 -> 0 and
# 0 -> 1 notifications when individual and subscribe-all subscriptions overlap, emission to a subscriber of both kinds
EVS = ["SubscribeEvent", "UnsubscribeEvent", "EmitEvent", "SubscribeAllEvents", "UnsubscribeAllEvents"]
for sc in ("sub", "suball"):
    cfg(f"R_Events_{sc}", EVS, [], script=sc, budget=3, inq=1, replay=0, pool=("live",), events=(0, 1))
    cfg(f"MC_Events_{sc}", EVS + ["DestroyService"], ["ends", "dropped"], script=sc, budget=3, pool=("live",), events=(0, 1))
    cfg(f"MC_Events_{sc}_thorough", EVS + ["DestroyService"], ["ends", "dropped"], script=sc, budget=5, conns=(0, 1, 2), pool=("live",), events=(0, 1))
