----------------------------- MODULE SchemaModel -----------------------------
(* Abstract aldrin schemas over the type grammar of /repo/parser/grammar.pest, and two things
   defined on them:

   (a) C18 - Lex / Render / Ast / Normalize.
       A schema S is a pair (B, deco): B the definitions (names, ids, types, order), deco a function
       from *prelude positions* (paths, see Paths) to the sequence of comment / doc / inline-doc /
       attribute items written there.  Lex(B, deco) is the sequence of lexical tokens that denotes
       S; Render(toks, ws) interleaves it with one whitespace string per *gap* (every gap between
       two lexical tokens is a position where the grammar admits whitespace: all composite rules
       of grammar.pest are non-atomic; the nine `kw ~ &ws` keywords make their gap mandatory).
       Ast(B, deco) is the normal form the real parser's AST must equal: names, ids, types,
       attributes, comments (inner text), docs, definition order; imports stably sorted by name;
       the interleaving of comments/docs/attributes inside one prelude, trailing commas, the
       short/full form of a function body and the order of the two service fallbacks are NOT part
       of it (the real AST does not record them).  Normalize is the model's ideal formatter.

   (b) C20 - CanonId(P, root): the wire-relevant description of a type together with the SET of
       the same for everything transitively referenced - what TypeId::compute_from_dyn hashes
       (core/src/introspection/type_id.rs, struct Compute) - and AlgoId, a transcription of the
       worklist loop of compute_from_dyn whose result must not depend on the order in which
       references are visited.  Type expressions are the built-ins, references to definitions and
       GENERIC CUSTOM TYPES - Rust tuples (core/src/impls/tuple.rs), whose lexical id is generic
       over the element ids while all tuples of one arity share the schema and name of their layout
       (struct std::TupleN).

   Model-checking modules: SchemaModel_MC18.tla, SchemaModel_MC20.tla; SchemaDerive.tla (EXTENDS this module) adds
   the id-assignment rule of the derive macros for items without `#[aldrin(id = N)]`, SchemaDerive_MC.tla checks it
   and enumerates derived types with their CanonId. *)
EXTENDS Integers, Sequences, FiniteSets, TLC, SequencesExt

-----------------------------------------------------------------------------
(* type grammar (grammar.pest: type_name) *)
Leaves == {"bool", "u8", "i8", "u16", "i16", "u32", "i32", "u64", "i64", "f32", "f64", "string",
           "uuid", "object_id", "service_id", "value", "bytes", "lifetime", "unit"}
Unary  == {"option", "box", "vec", "set", "sender", "receiver"}

Lf(k)      == [k |-> k]
Un(k, a)   == [k |-> k, a |-> a]
MapT(a, b) == [k |-> "map", a |-> a, b |-> b]
ResT(a, b) == [k |-> "result", a |-> a, b |-> b]
Ref(n)     == [k |-> "ref", name |-> n]
Ext(s, n)  == [k |-> "ext", schema |-> s, name |-> n]
ArrL(a, n) == [k |-> "array", a |-> a, len |-> [lit |-> n]]
ArrR(a, r) == [k |-> "array", a |-> a, len |-> [ref |-> r]]

RECURSIVE WFType(_)
WFType(t) ==
  CASE t.k \in Leaves -> DOMAIN t = {"k"}
    [] t.k \in Unary  -> DOMAIN t = {"k", "a"} /\ WFType(t.a)
    [] t.k \in {"map", "result"} -> DOMAIN t = {"k", "a", "b"} /\ WFType(t.a) /\ WFType(t.b)
    [] t.k = "array"  -> /\ DOMAIN t = {"k", "a", "len"} /\ WFType(t.a)
                         /\ \/ DOMAIN t.len = {"lit"}
                            \/ DOMAIN t.len = {"ref"} /\ t.len.ref.k \in {"ref", "ext"}
    [] t.k = "ref"    -> DOMAIN t = {"k", "name"}
    [] t.k = "ext"    -> DOMAIN t = {"k", "schema", "name"}
    [] OTHER -> FALSE

-----------------------------------------------------------------------------
(* lexical tokens: s the text, m = TRUE iff the gap after the token must hold whitespace *)
Tk(s) == <<[s |-> s, m |-> FALSE]>>
Kw(s) == <<[s |-> s, m |-> TRUE]>>

RefToks(r) == IF r.k = "ref" THEN Tk(r.name) ELSE Tk(r.schema) \o Tk("::") \o Tk(r.name)

RECURSIVE TypeToks(_)
TypeToks(t) ==
  CASE t.k \in Unary    -> Tk(t.k) \o Tk("<") \o TypeToks(t.a) \o Tk(">")
    [] t.k = "map"      -> Tk("map") \o Tk("<") \o TypeToks(t.a) \o Tk("->") \o TypeToks(t.b) \o Tk(">")
    [] t.k = "result"   -> Tk("result") \o Tk("<") \o TypeToks(t.a) \o Tk(",") \o TypeToks(t.b) \o Tk(">")
    [] t.k = "array"    -> Tk("[") \o TypeToks(t.a) \o Tk(";")
                           \o (IF "lit" \in DOMAIN t.len THEN Tk(t.len.lit) ELSE RefToks(t.len.ref)) \o Tk("]")
    [] t.k \in {"ref", "ext"} -> RefToks(t)
    [] OTHER            -> Tk(t.k)

-----------------------------------------------------------------------------
(* prelude items.  v is the inner text as Comment::value_inner / DocString::value_inner define it
   (prefix removed, one leading blank removed, trailing whitespace removed); s the raw line. *)
Com(s, v)  == [t |-> "com",  s |-> s, v |-> v]
Doc(s, v)  == [t |-> "doc",  s |-> s, v |-> v]
IDoc(s, v) == [t |-> "idoc", s |-> s, v |-> v]
Attr(n, o, tc)  == [t |-> "attr",  name |-> n, opts |-> o, tc |-> tc]
IAttr(n, o, tc) == [t |-> "iattr", name |-> n, opts |-> o, tc |-> tc]

CommaSep(xs) == FlattenSeq([i \in 1 .. Len(xs) |-> IF i = 1 THEN Tk(xs[i]) ELSE Tk(",") \o Tk(xs[i])])

AttrToks(a, inl) ==
  Tk("#") \o (IF inl THEN Tk("!") ELSE <<>>) \o Tk("[") \o Tk(a.name)
  \o (IF a.opts = <<>> THEN <<>>
      ELSE Tk("(") \o CommaSep(a.opts) \o (IF a.tc THEN Tk(",") ELSE <<>>) \o Tk(")"))
  \o Tk("]")

ItemToks(it) == CASE it.t = "attr"  -> AttrToks(it, FALSE)
                  [] it.t = "iattr" -> AttrToks(it, TRUE)
                  [] OTHER          -> Tk(it.s)

PreToks(items) == FlattenSeq([i \in 1 .. Len(items) |-> ItemToks(items[i])])

D(deco, p) == IF p \in DOMAIN deco THEN deco[p] ELSE <<>>

Texts(items, ts) == LET s == SelectSeq(items, LAMBDA it : it.t \in ts) IN [i \in 1 .. Len(s) |-> s[i].v]
Attrs(items)     == LET s == SelectSeq(items, LAMBDA it : it.t \in {"attr", "iattr"})
                    IN  [i \in 1 .. Len(s) |-> [name |-> s[i].name, opts |-> s[i].opts]]
Coms(items) == Texts(items, {"com"})
Docs(items) == Texts(items, {"doc", "idoc"})

-----------------------------------------------------------------------------
(* definitions.  Constructors of the base part B.  Options are sequences of length <= 1.
   Paths:  <<0>> schema prelude, <<0, i>> import i, <<d>> definition d, <<d, i>> member / item i,
   <<d, 99>> struct / enum fallback, <<d, 97>> uuid, <<d, 98>> version, <<d, 95>> fn fallback,
   <<d, 96>> event fallback, <<d, i, k>> part k (1 args / 2 ok / 3 err; 1 = the type of an event),
   <<d, i, k, 0>> inline prelude, <<d, i, k, j>> inline member j, <<d, i, k, 99>> inline fallback. *)
Field(name, id, req, ty) == [name |-> name, id |-> id, req |-> req, ty |-> ty]
Var(name, id, ty)        == [name |-> name, id |-> id, ty |-> ty]          \* ty: <<>> or <<T>>
Struct(name, mem, fb)    == [k |-> "struct", name |-> name, mem |-> mem, fb |-> fb]
Enum(name, mem, fb)      == [k |-> "enum", name |-> name, mem |-> mem, fb |-> fb]
Newtype(name, ty)        == [k |-> "newtype", name |-> name, ty |-> ty]
Const(name, vt, v)       == [k |-> "const", name |-> name, vt |-> vt, v |-> v]
TyI(ty)                  == [k |-> "type", ty |-> ty]
IStruct(mem, fb)         == [k |-> "istruct", mem |-> mem, fb |-> fb]
IEnum(mem, fb)           == [k |-> "ienum", mem |-> mem, fb |-> fb]
Fn(name, id, args, ok, err, full) ==
  [k |-> "fn", name |-> name, id |-> id, args |-> args, ok |-> ok, err |-> err, full |-> full]
Ev(name, id, ty)         == [k |-> "event", name |-> name, id |-> id, ty |-> ty]
Service(name, uuid, ver, items, fnfb, evfb, evfirst) ==
  [k |-> "service", name |-> name, uuid |-> uuid, ver |-> ver, items |-> items, fnfb |-> fnfb,
   evfb |-> evfb, evfirst |-> evfirst]
\* imports: sequence of indices into ImportNames (so that "sorted by name" is computable)
ImportNames == <<"alpha", "beta", "gamma", "other">>
Schema(name, imports, defs) == [name |-> name, imports |-> imports, defs |-> defs]

\* a short-form function has at most an ok part
WFFn(f) == f.full \/ (f.args = <<>> /\ f.err = <<>>)

(* --- Lex --- *)
MemToks(m, isStruct, deco, p) ==
  PreToks(D(deco, p))
  \o (IF isStruct
      THEN (IF m.req THEN Kw("required") ELSE <<>>) \o Tk(m.name) \o Tk("@") \o Tk(m.id) \o Tk("=") \o TypeToks(m.ty)
      ELSE Tk(m.name) \o Tk("@") \o Tk(m.id) \o (IF m.ty = <<>> THEN <<>> ELSE Tk("=") \o TypeToks(m.ty[1])))
  \o Tk(";")

BodyToks(mem, fb, isStruct, deco, p) ==
  FlattenSeq([i \in 1 .. Len(mem) |-> MemToks(mem[i], isStruct, deco, p \o <<i>>)])
  \o (IF fb = <<>> THEN <<>>
      ELSE PreToks(D(deco, p \o <<99>>)) \o Tk(fb[1]) \o Tk("=") \o Tk("fallback") \o Tk(";"))

ToiToks(toi, deco, p) ==
  IF toi.k = "type" THEN TypeToks(toi.ty) \o Tk(";")
  ELSE Kw(IF toi.k = "istruct" THEN "struct" ELSE "enum") \o Tk("{")
       \o PreToks(D(deco, p \o <<0>>)) \o BodyToks(toi.mem, toi.fb, toi.k = "istruct", deco, p) \o Tk("}")

PartToks(kw, part, deco, p) ==
  IF part = <<>> THEN <<>> ELSE PreToks(D(deco, p)) \o Tk(kw) \o Tk("=") \o ToiToks(part[1], deco, p)

ItemDefToks(it, deco, p) ==
  PreToks(D(deco, p))
  \o (IF it.k = "fn"
      THEN Kw("fn") \o Tk(it.name) \o Tk("@") \o Tk(it.id)
           \o (IF it.full
               THEN Tk("{") \o PartToks("args", it.args, deco, p \o <<1>>) \o PartToks("ok", it.ok, deco, p \o <<2>>)
                    \o PartToks("err", it.err, deco, p \o <<3>>) \o Tk("}")
               ELSE IF it.ok = <<>> THEN Tk(";") ELSE Tk("=") \o ToiToks(it.ok[1], deco, p \o <<2>>))
      ELSE Kw("event") \o Tk(it.name) \o Tk("@") \o Tk(it.id)
           \o (IF it.ty = <<>> THEN Tk(";") ELSE Tk("=") \o ToiToks(it.ty[1], deco, p \o <<1>>)))

SvcFbToks(kw, fb, deco, p) ==
  IF fb = <<>> THEN <<>> ELSE PreToks(D(deco, p)) \o Kw(kw) \o Tk(fb[1]) \o Tk("=") \o Tk("fallback") \o Tk(";")

DefToks(d, deco, p) ==
  PreToks(D(deco, p))
  \o CASE d.k \in {"struct", "enum"} ->
            Kw(d.k) \o Tk(d.name) \o Tk("{") \o BodyToks(d.mem, d.fb, d.k = "struct", deco, p) \o Tk("}")
       [] d.k = "newtype" -> Kw("newtype") \o Tk(d.name) \o Tk("=") \o TypeToks(d.ty) \o Tk(";")
       [] d.k = "const"   -> Kw("const") \o Tk(d.name) \o Tk("=") \o Tk(d.vt) \o Tk("(") \o Tk(d.v) \o Tk(")") \o Tk(";")
       [] d.k = "service" ->
            Kw("service") \o Tk(d.name) \o Tk("{")
            \o PreToks(D(deco, p \o <<97>>)) \o Tk("uuid") \o Tk("=") \o Tk(d.uuid) \o Tk(";")
            \o PreToks(D(deco, p \o <<98>>)) \o Tk("version") \o Tk("=") \o Tk(d.ver) \o Tk(";")
            \o FlattenSeq([i \in 1 .. Len(d.items) |-> ItemDefToks(d.items[i], deco, p \o <<i>>)])
            \o (IF d.evfirst
                THEN SvcFbToks("event", d.evfb, deco, p \o <<96>>) \o SvcFbToks("fn", d.fnfb, deco, p \o <<95>>)
                ELSE SvcFbToks("fn", d.fnfb, deco, p \o <<95>>) \o SvcFbToks("event", d.evfb, deco, p \o <<96>>))
            \o Tk("}")

Lex(B, deco) ==
  PreToks(D(deco, <<0>>))
  \o FlattenSeq([i \in 1 .. Len(B.imports) |->
                   PreToks(D(deco, <<0, i>>)) \o Kw("import") \o Tk(ImportNames[B.imports[i]]) \o Tk(";")])
  \o FlattenSeq([d \in 1 .. Len(B.defs) |-> DefToks(B.defs[d], deco, <<d>>)])

(* --- the prelude positions of B, in source order, with the item classes the grammar admits:
       "ci" comments and inline docs (the last item must be an inline doc), "c" comments,
       "cd" comments and docs, "cda" comments, docs and attributes, "ia" inline docs and attributes *)
Pos(p, a) == <<[p |-> p, a |-> a]>>

BodyPaths(mem, fb, p) ==
  FlattenSeq([i \in 1 .. Len(mem) |-> Pos(p \o <<i>>, "cd")]) \o (IF fb = <<>> THEN <<>> ELSE Pos(p \o <<99>>, "cd"))

ToiPaths(toi, p) == IF toi.k = "type" THEN <<>> ELSE Pos(p \o <<0>>, "ia") \o BodyPaths(toi.mem, toi.fb, p)

PartPaths(part, p) == IF part = <<>> THEN <<>> ELSE Pos(p, "c") \o ToiPaths(part[1], p)

ItemPaths(it, p) ==
  Pos(p, "cd")
  \o (IF it.k = "fn"
      THEN IF it.full THEN PartPaths(it.args, p \o <<1>>) \o PartPaths(it.ok, p \o <<2>>) \o PartPaths(it.err, p \o <<3>>)
           ELSE IF it.ok = <<>> THEN <<>> ELSE ToiPaths(it.ok[1], p \o <<2>>)
      ELSE IF it.ty = <<>> THEN <<>> ELSE ToiPaths(it.ty[1], p \o <<1>>))

DefPaths(d, p) ==
  CASE d.k \in {"struct", "enum"} -> Pos(p, "cda") \o BodyPaths(d.mem, d.fb, p)
    [] d.k = "newtype" -> Pos(p, "cda")
    [] d.k = "const"   -> Pos(p, "cd")
    [] d.k = "service" ->
         Pos(p, "cd") \o Pos(p \o <<97>>, "c") \o Pos(p \o <<98>>, "c")
         \o FlattenSeq([i \in 1 .. Len(d.items) |-> ItemPaths(d.items[i], p \o <<i>>)])
         \o (IF d.fnfb = <<>> THEN <<>> ELSE Pos(p \o <<95>>, "cd"))
         \o (IF d.evfb = <<>> THEN <<>> ELSE Pos(p \o <<96>>, "cd"))

Paths(B) ==
  Pos(<<0>>, "ci")
  \o FlattenSeq([i \in 1 .. Len(B.imports) |-> Pos(<<0, i>>, "c")])
  \o FlattenSeq([d \in 1 .. Len(B.defs) |-> DefPaths(B.defs[d], <<d>>)])

Allowed(a) == CASE a = "ci"  -> {"com", "idoc"}
                [] a = "c"   -> {"com"}
                [] a = "cd"  -> {"com", "doc"}
                [] a = "cda" -> {"com", "doc", "attr"}
                [] a = "ia"  -> {"idoc", "iattr"}

\* deco is a well-formed decoration of B
WFDeco(B, deco) ==
  LET ps == Paths(B) IN
  /\ \A p \in DOMAIN deco : deco[p] # <<>> => \E i \in 1 .. Len(ps) : ps[i].p = p
  /\ \A i \in 1 .. Len(ps) :
       LET its == D(deco, ps[i].p) IN
       /\ \A j \in 1 .. Len(its) : its[j].t \in Allowed(ps[i].a)
       /\ (ps[i].a = "ci" /\ its # <<>>) => its[Len(its)].t = "idoc"

(* --- Ast --- *)
MemAst(m, isStruct, deco, p) ==
  IF isStruct
  THEN [name |-> m.name, id |-> m.id, req |-> m.req, ty |-> m.ty, comment |-> Coms(D(deco, p)), doc |-> Docs(D(deco, p))]
  ELSE [name |-> m.name, id |-> m.id, ty |-> m.ty, comment |-> Coms(D(deco, p)), doc |-> Docs(D(deco, p))]

FbAst(fb, deco, p) ==
  IF fb = <<>> THEN <<>> ELSE <<[name |-> fb[1], comment |-> Coms(D(deco, p)), doc |-> Docs(D(deco, p))]>>

MemsAst(mem, isStruct, deco, p) == [i \in 1 .. Len(mem) |-> MemAst(mem[i], isStruct, deco, p \o <<i>>)]

ToiAst(toi, deco, p) ==
  IF toi.k = "type" THEN [k |-> "type", ty |-> toi.ty]
  ELSE [k |-> toi.k, doc |-> Docs(D(deco, p \o <<0>>)), attrs |-> Attrs(D(deco, p \o <<0>>)),
        mem |-> MemsAst(toi.mem, toi.k = "istruct", deco, p), fb |-> FbAst(toi.fb, deco, p \o <<99>>)]

PartAst(part, deco, p) ==
  IF part = <<>> THEN <<>> ELSE <<[comment |-> Coms(D(deco, p)), ty |-> ToiAst(part[1], deco, p)]>>

ItemAst(it, deco, p) ==
  IF it.k = "fn"
  THEN [k |-> "fn", name |-> it.name, id |-> it.id, comment |-> Coms(D(deco, p)), doc |-> Docs(D(deco, p)),
        args |-> PartAst(it.args, deco, p \o <<1>>), ok |-> PartAst(it.ok, deco, p \o <<2>>),
        err |-> PartAst(it.err, deco, p \o <<3>>)]
  ELSE [k |-> "event", name |-> it.name, id |-> it.id, comment |-> Coms(D(deco, p)), doc |-> Docs(D(deco, p)),
        ty |-> IF it.ty = <<>> THEN <<>> ELSE <<ToiAst(it.ty[1], deco, p \o <<1>>)>>]

DefAst(d, deco, p) ==
  LET c == Coms(D(deco, p))
      o == Docs(D(deco, p))
      a == Attrs(D(deco, p)) IN
  CASE d.k \in {"struct", "enum"} ->
         [k |-> d.k, name |-> d.name, comment |-> c, doc |-> o, attrs |-> a,
          mem |-> MemsAst(d.mem, d.k = "struct", deco, p), fb |-> FbAst(d.fb, deco, p \o <<99>>)]
    [] d.k = "newtype" -> [k |-> "newtype", name |-> d.name, comment |-> c, doc |-> o, attrs |-> a, ty |-> d.ty]
    [] d.k = "const"   -> [k |-> "const", name |-> d.name, comment |-> c, doc |-> o, vt |-> d.vt, v |-> d.v]
    [] d.k = "service" ->
         [k |-> "service", name |-> d.name, comment |-> c, doc |-> o, uuid |-> d.uuid, ver |-> d.ver,
          ucomment |-> Coms(D(deco, p \o <<97>>)), vcomment |-> Coms(D(deco, p \o <<98>>)),
          items |-> [i \in 1 .. Len(d.items) |-> ItemAst(d.items[i], deco, p \o <<i>>)],
          fnfb |-> FbAst(d.fnfb, deco, p \o <<95>>), evfb |-> FbAst(d.evfb, deco, p \o <<96>>)]

\* the import positions, stably sorted by name (the index into ImportNames is the rank of the name)
SortedImports(B) ==
  FlattenSeq([r \in 1 .. Len(ImportNames) |->
                SelectSeq([i \in 1 .. Len(B.imports) |-> i], LAMBDA i : B.imports[i] = r)])

Ast(B, deco) ==
  LET si == SortedImports(B) IN
  [comment |-> Coms(D(deco, <<0>>)), doc |-> Docs(D(deco, <<0>>)),
   imports |-> [j \in 1 .. Len(si) |-> [name |-> ImportNames[B.imports[si[j]]], comment |-> Coms(D(deco, <<0, si[j]>>))]],
   defs |-> [d \in 1 .. Len(B.defs) |-> DefAst(B.defs[d], deco, <<d>>)]]

-----------------------------------------------------------------------------
(* Render: one whitespace string per gap 0 .. Len(toks); the text is the concatenation *)
WsStrings == {"", " ", "  ", "\t", "\n", "\n\n", "\r\n", " \n    ", "\n\t"}

Compact(toks) == [g \in 0 .. Len(toks) |-> IF g >= 1 /\ toks[g].m THEN " " ELSE ""]
Uniform(toks, w) == [g \in 0 .. Len(toks) |-> w]

WFLayout(toks, ws) ==
  /\ DOMAIN ws = 0 .. Len(toks)
  /\ \A g \in DOMAIN ws : ws[g] \in WsStrings /\ ((g >= 1 /\ toks[g].m) => ws[g] # "")

\* ws[0], tok 1, ws[1], tok 2, ... tok n, ws[n]   (written without recursion: renderings are long)
Render(toks, ws) == [k \in 1 .. 2 * Len(toks) + 1 |-> IF k % 2 = 1 THEN ws[(k - 1) \div 2] ELSE toks[k \div 2].s]

\* stripping the layout (whitespace) entries of a rendering gives back the lexical tokens
StripWs(r) == [i \in 1 .. (Len(r) - 1) \div 2 |-> r[2 * i]]
TokStrings(toks) == [i \in 1 .. Len(toks) |-> toks[i].s]

-----------------------------------------------------------------------------
(* Normalize: the model's ideal formatter on (B, deco).  Comments first, then docs, then
   attributes, canonical spelling of the lines, no trailing comma; imports sorted; the short
   function form whenever it is possible; function fallback before event fallback. *)
CanonLine(prefix, v) == IF v = "" THEN prefix \o "\n" ELSE prefix \o " " \o v \o "\n"

CanonItem(it) ==
  CASE it.t = "com"  -> Com(CanonLine("//", it.v), it.v)
    [] it.t = "doc"  -> Doc(CanonLine("///", it.v), it.v)
    [] it.t = "idoc" -> IDoc(CanonLine("//!", it.v), it.v)
    [] OTHER         -> [it EXCEPT !.tc = FALSE]

NormItems(items) ==
  LET pick(ts) == SelectSeq(items, LAMBDA it : it.t \in ts)
      s == pick({"com"}) \o pick({"doc", "idoc"}) \o pick({"attr", "iattr"})
  IN  [i \in 1 .. Len(s) |-> CanonItem(s[i])]

NormItem(it, deco, p) ==
  IF it.k = "fn" THEN [it EXCEPT !.full = it.args # <<>> \/ it.err # <<>> \/ D(deco, p \o <<2>>) # <<>>] ELSE it

NormDef(d, deco, p) ==
  IF d.k = "service"
  THEN [d EXCEPT !.evfirst = FALSE, !.items = [i \in 1 .. Len(d.items) |-> NormItem(d.items[i], deco, p \o <<i>>)]]
  ELSE d

NormB(B, deco) ==
  LET si == SortedImports(B) IN
  [B EXCEPT !.imports = [j \in 1 .. Len(si) |-> B.imports[si[j]]],
            !.defs = [d \in 1 .. Len(B.defs) |-> NormDef(B.defs[d], deco, <<d>>)]]

NormDeco(B, deco) ==
  LET si == SortedImports(B)
      newpath(p) == IF Len(p) = 2 /\ p[1] = 0 THEN <<0, CHOOSE j \in 1 .. Len(si) : si[j] = p[2]>> ELSE p
      old(q) == IF Len(q) = 2 /\ q[1] = 0 THEN <<0, si[q[2]]>> ELSE q
  IN  [q \in {newpath(p) : p \in DOMAIN deco} |-> NormItems(deco[old(q)])]

-----------------------------------------------------------------------------
(* deterministic pseudo-random numbers (TLC integers are 32 bit): a small LCG used as a hash *)
Mix(h, x) == ((h * 75) + (x % 65537) + 74) % 65537
Rnd3(a, b, c) == Mix(Mix(Mix(Mix(a % 65537, b), c), a + 3 * b + 7 * c), 12345)

-----------------------------------------------------------------------------
(* (b) C20.  A presentation P of a universe of types: defs (a SEQUENCE - declaration order; members
   in insertion order), rord the order in which add_references hands out references, docs which
   documentation strings are attached.  References between definitions are Ext(schema, name)
   (the lexical id of a custom type is a function of exactly that pair); the lexical id of a
   built-in type expression and of a generic custom type (tuple) is a function of the expression,
   so a type expression stands for its own lexical id in the model. *)
TStruct(s, n, mem, fb)  == [k |-> "struct", schema |-> s, name |-> n, mem |-> mem, fb |-> fb]
TEnum(s, n, mem, fb)    == [k |-> "enum", schema |-> s, name |-> n, mem |-> mem, fb |-> fb]
TNewtype(s, n, ty)      == [k |-> "newtype", schema |-> s, name |-> n, ty |-> ty]
TFn(name, id, args, ok, err) == [name |-> name, id |-> id, args |-> args, ok |-> ok, err |-> err]
TEv(name, id, ty)       == [name |-> name, id |-> id, ty |-> ty]
TService(s, n, uuid, ver, fns, evs, fnfb, evfb) ==
  [k |-> "service", schema |-> s, name |-> n, uuid |-> uuid, ver |-> ver, fns |-> fns, evs |-> evs,
   fnfb |-> fnfb, evfb |-> evfb]

(* Generic custom types: Rust tuples (core/src/impls/tuple.rs, impl_tuple!).  The TYPE (A, B) has the
   lexical id custom_generic("std", "Tuple2", [lexical id of A, lexical id of B]) - in the model the
   expression Tup(<<A, B>>) itself, like every type expression - and references A, B in this order.  Its
   LAYOUT is the struct std::Tuple2 with the required fields field0 @ 0 = A, field1 @ 1 = B, no fallback:
   the layouts of all tuples of one arity share schema and name, i.e. the lexical id that the layout alone
   would give (LayoutIr::lexical_id, custom("std", "Tuple2")) does NOT identify the type; only the whole
   layout (with the element ids in its fields) does. *)
Tup(es) == [k |-> "tuple", es |-> es]
TupleArities == 1 .. 12
TupleDef(t) ==
  TStruct("std", "Tuple" \o ToString(Len(t.es)),
          [i \in 1 .. Len(t.es) |-> Field("field" \o ToString(i - 1), ToString(i - 1), TRUE, t.es[i])], <<>>)

\* the type expressions of introspection: the grammar's (references resolved to Ext) and tuples
RECURSIVE WFTypeI(_)
WFTypeI(t) ==
  CASE t.k \in Leaves -> DOMAIN t = {"k"}
    [] t.k \in Unary  -> DOMAIN t = {"k", "a"} /\ WFTypeI(t.a)
    [] t.k \in {"map", "result"} -> DOMAIN t = {"k", "a", "b"} /\ WFTypeI(t.a) /\ WFTypeI(t.b)
    [] t.k = "array"  -> DOMAIN t = {"k", "a", "len"} /\ WFTypeI(t.a) /\ DOMAIN t.len = {"lit"}
    [] t.k = "ext"    -> DOMAIN t = {"k", "schema", "name"}
    [] t.k = "tuple"  -> /\ DOMAIN t = {"k", "es"} /\ Len(t.es) \in TupleArities
                         /\ \A i \in 1 .. Len(t.es) : WFTypeI(t.es[i])
    [] OTHER -> FALSE
Universe(defs) == [defs |-> defs, rord |-> "fwd", docs |-> "none", impl |-> "slots"]

SeqRange(s) == {s[i] : i \in 1 .. Len(s)}
IsDefRef(P, t) == t.k = "ext" /\ \E d \in SeqRange(P.defs) : d.schema = t.schema /\ d.name = t.name
Lookup(P, t) == CHOOSE d \in SeqRange(P.defs) : d.schema = t.schema /\ d.name = t.name
RefOf(d) == Ext(d.schema, d.name)

UniqueIds(s) == \A i, j \in 1 .. Len(s) : s[i].id = s[j].id => i = j
WFUniverse(P) ==
  /\ \A i, j \in 1 .. Len(P.defs) : (P.defs[i].schema = P.defs[j].schema /\ P.defs[i].name = P.defs[j].name) => i = j
  /\ \A d \in SeqRange(P.defs) : CASE d.k \in {"struct", "enum"} -> UniqueIds(d.mem)
                                  [] d.k = "service" -> UniqueIds(d.fns) /\ UniqueIds(d.evs)
                                  [] OTHER -> TRUE

\* id-keyed maps: the order of insertion is gone
ById(s, f(_)) == [i \in {s[j].id : j \in 1 .. Len(s)} |-> f(CHOOSE m \in SeqRange(s) : m.id = i)]

DefLayout(d) ==
  CASE d.k = "struct" ->
         [kind |-> "struct", schema |-> d.schema, name |-> d.name, fb |-> d.fb,
          mem |-> ById(d.mem, LAMBDA m : [name |-> m.name, req |-> m.req, ty |-> m.ty])]
    [] d.k = "enum" ->
         [kind |-> "enum", schema |-> d.schema, name |-> d.name, fb |-> d.fb,
          mem |-> ById(d.mem, LAMBDA m : [name |-> m.name, ty |-> m.ty])]
    [] d.k = "newtype" -> [kind |-> "newtype", schema |-> d.schema, name |-> d.name, ty |-> d.ty]
    [] d.k = "service" ->
         [kind |-> "service", schema |-> d.schema, name |-> d.name, uuid |-> d.uuid, ver |-> d.ver,
          fns |-> ById(d.fns, LAMBDA f : [name |-> f.name, args |-> f.args, ok |-> f.ok, err |-> f.err]),
          evs |-> ById(d.evs, LAMBDA e : [name |-> e.name, ty |-> e.ty]),
          fnfb |-> d.fnfb, evfb |-> d.evfb]

\* the layout of a node (a type expression); built-ins carry the lexical ids of their arguments, a tuple
\* is the struct std::TupleN whose fields carry the lexical ids of the elements
Layout(P, t) == IF IsDefRef(P, t) THEN DefLayout(Lookup(P, t))
                ELSE IF t.k = "tuple" THEN DefLayout(TupleDef(t))
                ELSE [kind |-> "builtin", ty |-> t]

DefRefs(d) ==
  CASE d.k = "struct"  -> [i \in 1 .. Len(d.mem) |-> d.mem[i].ty]
    [] d.k = "enum"    -> FlattenSeq([i \in 1 .. Len(d.mem) |-> d.mem[i].ty])
    [] d.k = "newtype" -> <<d.ty>>
    [] d.k = "service" -> FlattenSeq([i \in 1 .. Len(d.fns) |-> d.fns[i].args \o d.fns[i].ok \o d.fns[i].err])
                          \o FlattenSeq([i \in 1 .. Len(d.evs) |-> d.evs[i].ty])

\* direct references of a node in declaration order
Refs(P, t) ==
  CASE IsDefRef(P, t)              -> DefRefs(Lookup(P, t))
    [] t.k \in Unary \/ t.k = "array" -> <<t.a>>
    [] t.k \in {"map", "result"}   -> <<t.a, t.b>>
    [] t.k = "tuple"               -> t.es
    [] OTHER                       -> <<>>

\* every type a definition mentions is a well-formed introspection type expression
WFRefs(P) == \A d \in SeqRange(P.defs) : \A t \in SeqRange(DefRefs(d)) : WFTypeI(t)

Ordered(rord, s) ==
  CASE rord = "rev" -> Reverse(s)
    [] rord = "dup" -> s \o s
    [] rord = "rot" -> IF s = <<>> THEN s ELSE Tail(s) \o <<Head(s)>>
    [] OTHER        -> s
RefSeq(P, t) == Ordered(P.rord, Refs(P, t))

RECURSIVE Closure(_, _, _)
Closure(P, frontier, acc) ==
  IF frontier = {} THEN acc
  ELSE LET new == UNION {SeqRange(Refs(P, t)) : t \in frontier} \ acc IN Closure(P, new, acc \cup new)
\* everything reachable in one or more reference steps
ReachPlus(P, root) == LET r0 == SeqRange(Refs(P, root)) IN Closure(P, r0, r0)

CanonId(P, root) == [layout |-> Layout(P, root), refd |-> {Layout(P, t) : t \in ReachPlus(P, root)}]

(* the loop of TypeId::compute_from_dyn: a stack of pending references, popped from the end; a
   layout that was already inserted is not expanded again *)
RECURSIVE Walk(_, _, _)
Walk(P, stack, seen) ==
  IF stack = <<>> THEN seen
  ELSE LET t == stack[Len(stack)]
           rest == SubSeq(stack, 1, Len(stack) - 1)
           l == Layout(P, t) IN
       IF l \in seen THEN Walk(P, rest, seen) ELSE Walk(P, rest \o RefSeq(P, t), seen \cup {l})
AlgoId(P, root) == [layout |-> Layout(P, root), refd |-> Walk(P, RefSeq(P, root), {})]

(* --- presentations of the same universe: permutations --- *)
PermSeq(s, perm) == [i \in 1 .. Len(s) |-> s[perm[i]]]
Perms(n) == {f \in [1 .. n -> 1 .. n] : \A i, j \in 1 .. n : f[i] = f[j] => i = j}
Rotations(n) == {[i \in 1 .. n |-> ((i + r - 1) % n) + 1] : r \in 0 .. n - 1} \cup {[i \in 1 .. n |-> n + 1 - i]}
SomePerms(n) == IF n <= 3 THEN Perms(n) ELSE Rotations(n)

PermDefs(P, perm) == [P EXCEPT !.defs = PermSeq(P.defs, perm)]
PermMembers(P, i, perm, which) ==
  LET d == P.defs[i] IN
  [P EXCEPT !.defs[i] = CASE which = "mem" -> [d EXCEPT !.mem = PermSeq(d.mem, perm)]
                          [] which = "fns" -> [d EXCEPT !.fns = PermSeq(d.fns, perm)]
                          [] which = "evs" -> [d EXCEPT !.evs = PermSeq(d.evs, perm)]]

(* --- single semantic edits --- *)
RECURSIVE RenameT(_, _, _)
RenameT(t, old, new) ==
  CASE t.k = "ext" -> IF t = old THEN new ELSE t
    [] t.k \in Unary -> [t EXCEPT !.a = RenameT(t.a, old, new)]
    [] t.k = "array" -> [t EXCEPT !.a = RenameT(t.a, old, new)]
    [] t.k \in {"map", "result"} -> [t EXCEPT !.a = RenameT(t.a, old, new), !.b = RenameT(t.b, old, new)]
    [] t.k = "tuple" -> [t EXCEPT !.es = [i \in 1 .. Len(t.es) |-> RenameT(t.es[i], old, new)]]
    [] OTHER -> t
RenOpt(o, old, new) == [i \in 1 .. Len(o) |-> RenameT(o[i], old, new)]

RenameInDef(d, old, new) ==
  CASE d.k = "struct"  -> [d EXCEPT !.mem = [i \in 1 .. Len(d.mem) |-> [d.mem[i] EXCEPT !.ty = RenameT(@, old, new)]]]
    [] d.k = "enum"    -> [d EXCEPT !.mem = [i \in 1 .. Len(d.mem) |-> [d.mem[i] EXCEPT !.ty = RenOpt(@, old, new)]]]
    [] d.k = "newtype" -> [d EXCEPT !.ty = RenameT(@, old, new)]
    [] d.k = "service" ->
         [d EXCEPT !.fns = [i \in 1 .. Len(d.fns) |-> [d.fns[i] EXCEPT !.args = RenOpt(@, old, new), !.ok = RenOpt(@, old, new),
                                                                         !.err = RenOpt(@, old, new)]],
                   !.evs = [i \in 1 .. Len(d.evs) |-> [d.evs[i] EXCEPT !.ty = RenOpt(@, old, new)]]]

\* a definition is renamed together with every reference to it (it stays the same type, under a new lexical id)
Rename(P, i, s2, n2) ==
  LET old == RefOf(P.defs[i])
      new == Ext(s2, n2) IN
  [P EXCEPT !.defs = [j \in 1 .. Len(P.defs) |->
                        LET d == RenameInDef(P.defs[j], old, new) IN
                        IF j = i THEN [d EXCEPT !.schema = s2, !.name = n2] ELSE d]]

OtherType(t) == IF t = Lf("u8") THEN Lf("u16") ELSE Lf("u8")
ToggleFb(fb) == IF fb = <<>> THEN <<"fallback_x">> ELSE <<>>
ChangeOpt(o) == IF o = <<>> THEN <<Lf("u8")>> ELSE <<OtherType(o[1])>>

\* the edit sites of definition i: records [def, what, j]
EditSites(P, i) ==
  LET d == P.defs[i]
      E(what, j) == [def |-> i, what |-> what, j |-> j] IN
  {E("schema", 0), E("name", 0)}
  \cup CASE d.k = "struct" ->
              {E("fb.toggle", 0)} \cup (IF d.fb = <<>> THEN {} ELSE {E("fb.name", 0)})
              \cup {E(w, j) : w \in {"m.id", "m.name", "m.req", "m.ty", "m.wrap"}, j \in 1 .. Len(d.mem)}
              \* a field of tuple type: another element type, another arity, the elements in another order
              \cup {E(w, j) : w \in {"m.telem", "m.tarity"}, j \in {j \in 1 .. Len(d.mem) : d.mem[j].ty.k = "tuple"}}
              \cup {E("m.tswap", j) : j \in {j \in 1 .. Len(d.mem) : d.mem[j].ty.k = "tuple" /\ Reverse(d.mem[j].ty.es) # d.mem[j].ty.es}}
         [] d.k = "enum" ->
              {E("fb.toggle", 0)} \cup (IF d.fb = <<>> THEN {} ELSE {E("fb.name", 0)})
              \cup {E(w, j) : w \in {"m.id", "m.name", "v.ty"}, j \in 1 .. Len(d.mem)}
              \cup {E("v.drop", j) : j \in {j \in 1 .. Len(d.mem) : d.mem[j].ty # <<>>}}
         [] d.k = "newtype" -> {E("n.ty", 0), E("n.wrap", 0)}
         [] d.k = "service" ->
              {E("uuid", 0), E("ver", 0), E("fnfb.toggle", 0), E("evfb.toggle", 0)}
              \cup (IF d.fnfb = <<>> THEN {} ELSE {E("fnfb.name", 0)})
              \cup (IF d.evfb = <<>> THEN {} ELSE {E("evfb.name", 0)})
              \cup {E(w, j) : w \in {"f.id", "f.name", "f.args", "f.ok", "f.err"}, j \in 1 .. Len(d.fns)}
              \cup {E(w, j) : w \in {"e.id", "e.name", "e.ty"}, j \in 1 .. Len(d.evs)}

\* aspects the statement of C20 lists (the service uuid and version are part of the layout but not listed)
ListedAspect(what) == what \notin {"uuid", "ver"}

ApplyEdit(P, e) ==
  LET i == e.def
      d == P.defs[i]
      j == e.j
      w == e.what IN
  CASE w = "schema" -> Rename(P, i, d.schema \o "_x", d.name)
    [] w = "name"   -> Rename(P, i, d.schema, d.name \o "X")
    [] w = "fb.toggle" -> [P EXCEPT !.defs[i].fb = ToggleFb(@)]
    [] w = "fb.name"   -> [P EXCEPT !.defs[i].fb = <<@[1] \o "_x">>]
    [] w = "m.id"   -> [P EXCEPT !.defs[i].mem[j].id = "77"]
    [] w = "m.name" -> [P EXCEPT !.defs[i].mem[j].name = @ \o "_x"]
    [] w = "m.req"  -> [P EXCEPT !.defs[i].mem[j].req = ~@]
    [] w = "m.ty"   -> [P EXCEPT !.defs[i].mem[j].ty = OtherType(@)]
    [] w = "m.wrap" -> [P EXCEPT !.defs[i].mem[j].ty = Un("vec", @)]
    [] w = "m.telem"  -> LET es == d.mem[j].ty.es IN
                         [P EXCEPT !.defs[i].mem[j].ty.es = [n \in 1 .. Len(es) |-> IF n = Len(es) THEN OtherType(es[n]) ELSE es[n]]]
    [] w = "m.tarity" -> [P EXCEPT !.defs[i].mem[j].ty.es = IF Len(@) <= 2 THEN Append(@, Lf("u8")) ELSE SubSeq(@, 1, Len(@) - 1)]
    [] w = "m.tswap"  -> [P EXCEPT !.defs[i].mem[j].ty.es = Reverse(@)]
    [] w = "v.ty"   -> [P EXCEPT !.defs[i].mem[j].ty = ChangeOpt(@)]
    [] w = "v.drop" -> [P EXCEPT !.defs[i].mem[j].ty = <<>>]
    [] w = "n.ty"   -> [P EXCEPT !.defs[i].ty = OtherType(@)]
    [] w = "n.wrap" -> [P EXCEPT !.defs[i].ty = Un("option", @)]
    [] w = "uuid"   -> [P EXCEPT !.defs[i].uuid = "00000000-0000-4000-8000-0000000000ff"]
    [] w = "ver"    -> [P EXCEPT !.defs[i].ver = "9"]
    [] w = "fnfb.toggle" -> [P EXCEPT !.defs[i].fnfb = ToggleFb(@)]
    [] w = "evfb.toggle" -> [P EXCEPT !.defs[i].evfb = ToggleFb(@)]
    [] w = "fnfb.name" -> [P EXCEPT !.defs[i].fnfb = <<@[1] \o "_x">>]
    [] w = "evfb.name" -> [P EXCEPT !.defs[i].evfb = <<@[1] \o "_x">>]
    [] w = "f.id"   -> [P EXCEPT !.defs[i].fns[j].id = "77"]
    [] w = "f.name" -> [P EXCEPT !.defs[i].fns[j].name = @ \o "_x"]
    [] w = "f.args" -> [P EXCEPT !.defs[i].fns[j].args = ChangeOpt(@)]
    [] w = "f.ok"   -> [P EXCEPT !.defs[i].fns[j].ok = ChangeOpt(@)]
    [] w = "f.err"  -> [P EXCEPT !.defs[i].fns[j].err = ChangeOpt(@)]
    [] w = "e.id"   -> [P EXCEPT !.defs[i].evs[j].id = "77"]
    [] w = "e.name" -> [P EXCEPT !.defs[i].evs[j].name = @ \o "_x"]
    [] w = "e.ty"   -> [P EXCEPT !.defs[i].evs[j].ty = ChangeOpt(@)]

\* the root after an edit (a rename of the root moves it)
RootAfter(P, root, e) ==
  IF e.what \in {"schema", "name"} /\ RefOf(P.defs[e.def]) = root
  THEN IF e.what = "schema" THEN Ext(root.schema \o "_x", root.name) ELSE Ext(root.schema, root.name \o "X")
  ELSE root

\* definition i is the root or reachable from it
Relevant(P, root, i) == RefOf(P.defs[i]) = root \/ RefOf(P.defs[i]) \in ReachPlus(P, root)

=============================================================================
