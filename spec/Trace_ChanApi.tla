--------------------------- MODULE Trace_ChanApi ---------------------------
(* Validates the log of `chan-replay` (env TRACE) against ChanApi.tla: every step must be the
   specification's operation with the specification's result and item value.  Findings are
   printed as <<"VIOLATION-AT", index, "C05", why>>; the rest of that run is skipped. *)
EXTENDS ChanApi, Json, IOUtils
Rec == ndJsonDeserialize(IOEnv.TRACE)
VARIABLES l, c, ok
vars == <<l, c, ok>>
Init == l = 1 /\ c = CInit /\ ok = TRUE
Next ==
  /\ l <= Len(Rec)
  /\ LET r == Rec[l] IN
     CASE r.t = "reset" -> c' = CInit /\ ok' = TRUE
       [] r.t = "step" /\ ok ->
            LET op == [op |-> r.op, n |-> r.n, creator |-> r.creator] IN
            IF ~Enabled(c, op) THEN /\ UNCHANGED c /\ ok' = FALSE
                                    /\ PrintT(<<"DRIFT-AT", l, "the specification does not allow this operation here: " \o r.op>>)
            ELSE LET c2 == Do(c, op) IN
                 /\ c' = c2
                 /\ ok' = (r.res = c2.res /\ r.val = c2.val)
                 /\ ~(r.res = c2.res /\ r.val = c2.val) =>
                      PrintT(<<"VIOLATION-AT", l, "C05", "channel operation " \o r.op \o " gave " \o r.res \o " / " \o ToString(r.val)
                                 \o " instead of " \o c2.res \o " / " \o ToString(c2.val)
                                 \o " (items arrive once and in order; a send succeeds exactly while the sender has credit)">>)
       [] r.t = "panic" /\ ok -> UNCHANGED c /\ ok' = FALSE /\ PrintT(<<"VIOLATION-AT", l, "C05", "a task panicked: " \o r.msg>>)
       [] r.t = "incomplete" /\ ok -> UNCHANGED c /\ ok' = FALSE
                                      /\ PrintT(<<"VIOLATION-AT", l, "C05", "the scripted channel operations did not complete (an awaited operation hangs)">>)
       [] OTHER -> UNCHANGED <<c, ok>>
  /\ l' = l + 1
Spec == Init /\ [][Next]_vars
Accepted == \/ TLCGet("stats").diameter - 1 = Len(Rec)
            \/ Print(<<"TRACE-NOT-CONSUMED", TLCGet("stats").diameter - 1, Len(Rec)>>, FALSE)
=============================================================================
