----------------------------- MODULE MC_Broker -----------------------------
(* Design check: Broker.tla driven by an environment that may send any enabled message kind with
   live, dead and never-issued cookies and serials from any connection, end connections in each
   of the four ways at any point (including while their requests are queued), and request both
   broker shutdowns -- composed with the property observers of Obs.tla, which judge every step
   record the model produces exactly as they judge the records of the real broker.

   One module, many configurations (MC_*.cfg): the constants select the enabled kinds and pools. *)
EXTENDS Broker, TLC

CONSTANTS Conns,        \* connection incarnations (each id connects at most once), e.g. 0..2
          Versions,     \* negotiated versions a connection may have, e.g. {14, 20}
          ObjUuids, SvcUuids, Events, Fns, CSerials, Payloads, TypeIds,
          Caps,         \* capacities (U32 pairs) a client may announce
          MaxCookie,    \* cookies 1..MaxCookie can be issued
          InqBound,     \* bound of the broker's input queue
          Kinds,        \* enabled client message kinds
          Faults,       \* subset of {"ends", "dropped", "sdc", "sdb", "sdi"}
          WrongKinds,   \* broker-to-client kinds a client may (wrongly) send
          MsgBudget,    \* number of free client messages per behaviour
          InitSerial,   \* initial value of the broker's call serial counter (wrap-around configurations)
          Senders,      \* connections that send the free messages (all of Conns, or e.g. only the owner of the scripted entity)
          PoolKinds,    \* which cookies the generator uses: subset of {"live", "dead", "never"}
          ScriptSel,    \* name of the deterministic prefix of inputs ("none", "svc", "chan", "lst", "lstf", "pend", "pend2", "est1" / "est5" / "estM", "sub" / "suball")
          V0, V1        \* versions of the scripted connections 0 and 1

O == INSTANCE Obs

\* constant values the configuration files cannot write down themselves (tuples)
SW3 == 3                                                    \* serials 0..3, then wrap (cfg: SerialWrap <- SW3)
CapsOne == {<<0, 1>>}                                       \* capacity 1
CapsMany == {<<0, 1>>, <<1, 0>>, <<1, 1>>, <<3, 3>>}        \* 1, 4 (low-water mark), 5, 15 (= "u32::MAX" for B = 4)

VARIABLES bk,          \* the broker (record of Broker.tla)
          inq,         \* the broker's input queue (recv)
          pc,          \* "idle" (between events) | "working" (deferred work left) | "stopped"
          rec,         \* the step record of the last broker micro-step (not part of the VIEW)
          nextCookie,  \* next fresh cookie
          ctype,       \* cookie -> "obj" | "svc" | "chan" | "lst"   (history, for the generator)
          env,         \* [started, ended, dropped : SUBSET Conns, sent : Nat]
          obs          \* the observer state
vars == <<bk, inq, pc, rec, nextCookie, ctype, env, obs>>
view == <<bk, inq, pc, nextCookie, ctype, env, obs>>

NEVER == 99           \* a cookie that is never issued

\* Deterministic prefixes: the environment first feeds these inputs in order (one at a time, as the
\* queue has room), then becomes free.  They only save the model checker from re-exploring the
\* set-up of an object with a service; cookies are issued in order 1, 2, ...
MsgEv(c, m) == [t |-> "msg", c |-> c, m |-> m]
\* the scripted owner creates its service with the message form its version knows (CreateService2 is gated at 1.17)
SvcMsg == IF V0 >= 17
            THEN MsgEv(0, [k |-> "CreateService2", serial |-> 0, obj |-> 1, uuid |-> 201, val |-> 1, info |-> InfoRec(TRUE, 1, 0, "true")])
            ELSE MsgEv(0, [k |-> "CreateService", serial |-> 0, obj |-> 1, uuid |-> 201, ver |-> 1])
Script ==
  CASE ScriptSel = "svc" ->      \* connection 0 owns object 101 (cookie 1) with service 201 (cookie 2); connection 1 is a client
         << [t |-> "new", c |-> 0, ver |-> V0],
            MsgEv(0, [k |-> "CreateObject", serial |-> 0, uuid |-> 101]),
            SvcMsg,
            [t |-> "new", c |-> 1, ver |-> V1] >>
    [] ScriptSel = "chan" ->     \* connection 0 created a channel (cookie 1) with a claimed sender; connection 1 exists
         << [t |-> "new", c |-> 0, ver |-> V0],
            [t |-> "new", c |-> 1, ver |-> V1],
            MsgEv(0, [k |-> "CreateChannel", serial |-> 0, end |-> "Sender", cap |-> CapZero]) >>
    [] ScriptSel = "lst" ->      \* connection 0 owns a listener (cookie 1); connection 1 exists
         << [t |-> "new", c |-> 0, ver |-> V0],
            [t |-> "new", c |-> 1, ver |-> V1],
            MsgEv(0, [k |-> "CreateBusListener", serial |-> 0]) >>
    [] ScriptSel = "pend" ->     \* as "svc", and connection 1 has a call pending at connection 0 (caller serial 0, broker serial = InitSerial)
         << [t |-> "new", c |-> 0, ver |-> V0],
            MsgEv(0, [k |-> "CreateObject", serial |-> 0, uuid |-> 101]),
            SvcMsg,
            [t |-> "new", c |-> 1, ver |-> V1],
            MsgEv(1, [k |-> "CallFunction", serial |-> 0, svc |-> 2, fn |-> 0, hv |-> FALSE, ver |-> 0, val |-> 1]) >>
    [] ScriptSel = "pend2" ->    \* connection 0 owns object 101 with services 201 (cookie 2) and 202 (cookie 3); connection 1 has a call pending on 201
         << [t |-> "new", c |-> 0, ver |-> V0],
            MsgEv(0, [k |-> "CreateObject", serial |-> 0, uuid |-> 101]),
            MsgEv(0, [k |-> "CreateService", serial |-> 0, obj |-> 1, uuid |-> 201, ver |-> 1]),
            MsgEv(0, [k |-> "CreateService", serial |-> 0, obj |-> 1, uuid |-> 202, ver |-> 1]),
            [t |-> "new", c |-> 1, ver |-> V1],
            MsgEv(1, [k |-> "CallFunction", serial |-> 0, svc |-> 2, fn |-> 0, hv |-> FALSE, ver |-> 0, val |-> 1]) >>
    [] ScriptSel = "lstf" ->     \* connection 1 owns object 101 (cookie 1); connection 0 owns a listener (cookie 2) with an any-object filter
         << [t |-> "new", c |-> 0, ver |-> V0],
            [t |-> "new", c |-> 1, ver |-> V1],
            MsgEv(1, [k |-> "CreateObject", serial |-> 0, uuid |-> 101]),
            MsgEv(0, [k |-> "CreateBusListener", serial |-> 0]),
            MsgEv(0, [k |-> "AddBusListenerFilter", cookie |-> 2, filter |-> [ft |-> "obj", o |-> 0, s |-> 0]]) >>
    [] ScriptSel \in {"est1", "est5", "estM"} ->   \* as "chan", and connection 1 has claimed the receiver with capacity 1 / 5 / the maximum: the channel is established
         << [t |-> "new", c |-> 0, ver |-> V0],
            [t |-> "new", c |-> 1, ver |-> V1],
            MsgEv(0, [k |-> "CreateChannel", serial |-> 0, end |-> "Sender", cap |-> CapZero]),
            MsgEv(1, [k |-> "ClaimChannelEnd", serial |-> 0, cookie |-> 1, end |-> "Receiver",
                      cap |-> CASE ScriptSel = "est1" -> <<0, 1>> [] ScriptSel = "est5" -> <<1, 1>> [] OTHER -> <<3, 3>>]) >>
    [] ScriptSel \in {"sub", "suball"} ->          \* as "svc", and connection 1 is subscribed to event 0 / to all events of the service
         << [t |-> "new", c |-> 0, ver |-> V0],
            MsgEv(0, [k |-> "CreateObject", serial |-> 0, uuid |-> 101]),
            SvcMsg,
            [t |-> "new", c |-> 1, ver |-> V1],
            IF ScriptSel = "sub"
              THEN MsgEv(1, [k |-> "SubscribeEvent", svc |-> 2, ev |-> 0, has |-> TRUE, serial |-> 0])
              ELSE MsgEv(1, [k |-> "SubscribeAllEvents", svc |-> 2, has |-> TRUE, serial |-> 0]) >>
    [] OTHER -> << >>
ScriptConns == {Script[i].c : i \in {i \in 1..Len(Script) : Script[i].t = "new"}}
NoRec == [t |-> "none"]

Init ==
  /\ bk = [BrokerInit EXCEPT !.nextSerial = InitSerial] /\ inq = <<>> /\ pc = "idle" /\ rec = NoRec /\ nextCookie = 1 /\ ctype = EmptyFn
  /\ env = [started |-> {}, ended |-> {}, dropped |-> {}, sent |-> 0, phase |-> 1]
  /\ obs = O!ObsInit

\* ---------------------------------------------------------------------------------------------
\* the message generator
LiveOf(ty) == CASE ty = "obj" -> DOMAIN bk.objUuids [] ty = "svc" -> DOMAIN bk.svcUuids
                [] ty = "chan" -> DOMAIN bk.chans [] OTHER -> DOMAIN bk.lsts
DeadOf(ty) == LET D == {k \in DOMAIN ctype : ctype[k] = ty} \ LiveOf(ty) IN
              IF D = {} THEN {} ELSE {CHOOSE k \in D : \A j \in D : j <= k}      \* the most recent dead one
Pool(ty) == (IF "live" \in PoolKinds THEN LiveOf(ty) ELSE {}) \cup (IF "dead" \in PoolKinds THEN DeadOf(ty) ELSE {})
            \cup (IF "never" \in PoolKinds THEN {NEVER} ELSE {})
OptSerial == {[has |-> TRUE, serial |-> s] : s \in CSerials} \cup {[has |-> FALSE, serial |-> 0]}
Filters == {[ft |-> "obj", o |-> 0, s |-> 0]} \cup {[ft |-> "obj", o |-> o, s |-> 0] : o \in ObjUuids}
           \cup {[ft |-> "svc", o |-> o, s |-> s] : o \in ObjUuids \cup {0}, s \in SvcUuids \cup {0}}
Infos == {InfoRec(TRUE, 1, 0, sa) : sa \in {"none", "true", "false"}} \cup {InfoRec(FALSE, 0, 0, "none")}
BrokerSerials == DOMAIN bk.calls \cup {bk.nextSerial}

Gen(kind) ==
  CASE kind = "CreateObject" -> {[k |-> kind, serial |-> s, uuid |-> u] : s \in CSerials, u \in ObjUuids}
    [] kind = "DestroyObject" -> {[k |-> kind, serial |-> s, cookie |-> o] : s \in CSerials, o \in Pool("obj")}
    [] kind = "CreateService" -> {[k |-> kind, serial |-> s, obj |-> o, uuid |-> u, ver |-> 1] : s \in CSerials, o \in Pool("obj"), u \in SvcUuids}
    [] kind = "CreateService2" -> {[k |-> kind, serial |-> s, obj |-> o, uuid |-> u, val |-> 1, info |-> i] :
                                     s \in CSerials, o \in Pool("obj"), u \in SvcUuids, i \in Infos}
    [] kind = "DestroyService" -> {[k |-> kind, serial |-> s, cookie |-> x] : s \in CSerials, x \in Pool("svc")}
    [] kind = "CallFunction" -> {[k |-> kind, serial |-> s, svc |-> x, fn |-> f, hv |-> FALSE, ver |-> 0, val |-> p] :
                                   s \in CSerials, x \in Pool("svc"), f \in Fns, p \in Payloads}
    [] kind = "CallFunction2" -> {[k |-> kind, serial |-> s, svc |-> x, fn |-> f, hv |-> h, ver |-> IF h THEN 1 ELSE 0, val |-> p] :
                                    s \in CSerials, x \in Pool("svc"), f \in Fns, p \in Payloads, h \in BOOLEAN}
    [] kind = "CallFunctionReply" -> {[k |-> kind, serial |-> s, res |-> r, val |-> IF r = "Ok" THEN 1 ELSE 0] :
                                        s \in BrokerSerials, r \in {"Ok", "InvalidArgs"}}
    [] kind = "AbortFunctionCall" -> {[k |-> kind, serial |-> s] : s \in CSerials}
    [] kind = "SubscribeEvent" -> {[k |-> kind, svc |-> x, ev |-> e, has |-> o.has, serial |-> o.serial] :
                                     x \in Pool("svc"), e \in Events, o \in OptSerial}
    [] kind = "UnsubscribeEvent" -> {[k |-> kind, svc |-> x, ev |-> e] : x \in Pool("svc"), e \in Events}
    [] kind = "EmitEvent" -> {[k |-> kind, svc |-> x, ev |-> e, val |-> p] : x \in Pool("svc"), e \in Events, p \in Payloads}
    [] kind = "QueryServiceVersion" -> {[k |-> kind, serial |-> s, cookie |-> x] : s \in CSerials, x \in Pool("svc")}
    [] kind = "QueryServiceInfo" -> {[k |-> kind, serial |-> s, cookie |-> x] : s \in CSerials, x \in Pool("svc")}
    [] kind = "SubscribeService" -> {[k |-> kind, serial |-> s, svc |-> x] : s \in CSerials, x \in Pool("svc")}
    [] kind = "UnsubscribeService" -> {[k |-> kind, svc |-> x] : x \in Pool("svc")}
    [] kind = "SubscribeAllEvents" -> {[k |-> kind, svc |-> x, has |-> o.has, serial |-> o.serial] : x \in Pool("svc"), o \in OptSerial}
    [] kind = "UnsubscribeAllEvents" -> {[k |-> kind, svc |-> x, has |-> o.has, serial |-> o.serial] : x \in Pool("svc"), o \in OptSerial}
    [] kind = "CreateChannel" -> {[k |-> kind, serial |-> s, end |-> "Sender", cap |-> CapZero] : s \in CSerials}
                                 \cup {[k |-> kind, serial |-> s, end |-> "Receiver", cap |-> cp] : s \in CSerials, cp \in Caps}
    [] kind = "CloseChannelEnd" -> {[k |-> kind, serial |-> s, cookie |-> x, end |-> e] : s \in CSerials, x \in Pool("chan"), e \in {"Sender", "Receiver"}}
    [] kind = "ClaimChannelEnd" -> {[k |-> kind, serial |-> s, cookie |-> x, end |-> "Sender", cap |-> CapZero] : s \in CSerials, x \in Pool("chan")}
                                   \cup {[k |-> kind, serial |-> s, cookie |-> x, end |-> "Receiver", cap |-> cp] : s \in CSerials, x \in Pool("chan"), cp \in Caps}
    [] kind = "SendItem" -> {[k |-> kind, cookie |-> x, val |-> p] : x \in Pool("chan"), p \in Payloads}
    [] kind = "AddChannelCapacity" -> {[k |-> kind, cookie |-> x, cap |-> cp] : x \in Pool("chan"), cp \in Caps}
    [] kind = "Sync" -> {[k |-> kind, serial |-> s] : s \in CSerials}
    [] kind = "CreateBusListener" -> {[k |-> kind, serial |-> s] : s \in CSerials}
    [] kind = "DestroyBusListener" -> {[k |-> kind, serial |-> s, cookie |-> x] : s \in CSerials, x \in Pool("lst")}
    [] kind \in {"AddBusListenerFilter", "RemoveBusListenerFilter"} -> {[k |-> kind, cookie |-> x, filter |-> f] : x \in Pool("lst"), f \in Filters}
    [] kind = "ClearBusListenerFilters" -> {[k |-> kind, cookie |-> x] : x \in Pool("lst")}
    [] kind = "StartBusListener" -> {[k |-> kind, serial |-> s, cookie |-> x, scope |-> sc] : s \in CSerials, x \in Pool("lst"), sc \in {"Current", "New", "All"}}
    [] kind = "StopBusListener" -> {[k |-> kind, serial |-> s, cookie |-> x] : s \in CSerials, x \in Pool("lst")}
    [] kind = "RegisterIntrospection" -> {[k |-> kind, val |-> 1, ok |-> TRUE, tids |-> SetToSeq(T)] : T \in SUBSET TypeIds \ {{}}}
                                         \cup {[k |-> kind, val |-> 2, ok |-> FALSE, tids |-> <<>>]}
    [] kind = "QueryIntrospection" -> {[k |-> kind, serial |-> s, tid |-> t] : s \in CSerials, t \in TypeIds}
    [] kind = "QueryIntrospectionReply" -> {[k |-> kind, serial |-> s, res |-> r, val |-> IF r = "Ok" THEN 1 ELSE 0] :
                                              s \in DOMAIN bk.queryIntro \cup {bk.nextQSerial}, r \in {"Ok", "Unavailable"}}
    [] kind \in WrongKinds -> {[k |-> kind, serial |-> 0]}
    [] OTHER -> {}

CreateType(kind) == CASE kind = "CreateObject" -> "obj" [] kind \in {"CreateService", "CreateService2"} -> "svc"
                      [] kind = "CreateChannel" -> "chan" [] kind = "CreateBusListener" -> "lst" [] OTHER -> ""

\* ---------------------------------------------------------------------------------------------
\* environment
Sending(c) == c \in env.started /\ c \notin env.ended /\ c \notin env.dropped
Room == Len(inq) < InqBound /\ pc # "stopped"
Scripted == env.phase <= Len(Script)
Free == ~Scripted

EnvScript ==
  /\ Scripted /\ Room
  /\ LET ev == Script[env.phase] IN
     /\ inq' = Append(inq, ev)
     /\ bk' = IF ev.t = "new" THEN [bk EXCEPT !.alive = @ \cup {ev.c}] ELSE bk
     /\ env' = [env EXCEPT !.phase = @ + 1, !.started = IF ev.t = "new" THEN @ \cup {ev.c} ELSE @]
  /\ UNCHANGED <<pc, rec, nextCookie, ctype, obs>>

EnvConnect ==
  /\ Free /\ Room /\ Conns \ env.started # {}
  /\ LET c == CHOOSE x \in Conns \ env.started : \A y \in Conns \ env.started : x <= y IN
     \E v \in Versions :
       /\ inq' = Append(inq, [t |-> "new", c |-> c, ver |-> v])
       /\ bk' = [bk EXCEPT !.alive = @ \cup {c}]
       /\ env' = [env EXCEPT !.started = @ \cup {c}]
  /\ UNCHANGED <<pc, rec, nextCookie, ctype, obs>>

EnvMsg ==
  /\ Free /\ Room /\ env.sent < MsgBudget
  /\ \E c \in Senders : Sending(c) /\ \E kind \in Kinds \cup WrongKinds :
       /\ (CreateType(kind) # "" => nextCookie <= MaxCookie)
       /\ \E m \in Gen(kind) : inq' = Append(inq, [t |-> "msg", c |-> c, m |-> m])
  /\ env' = [env EXCEPT !.sent = @ + 1]
  /\ UNCHANGED <<bk, pc, rec, nextCookie, ctype, obs>>

EnvConnEnds ==
  /\ Free /\ Room /\ "ends" \in Faults
  /\ \E c \in Conns : Sending(c) /\ inq' = Append(inq, [t |-> "shut", c |-> c]) /\ env' = [env EXCEPT !.ended = @ \cup {c}]
  /\ UNCHANGED <<bk, pc, rec, nextCookie, ctype, obs>>

EnvTaskDropped ==
  /\ Free /\ "dropped" \in Faults /\ pc # "stopped"
  /\ \E c \in Conns : c \in env.started /\ c \notin env.dropped
       /\ bk' = [bk EXCEPT !.alive = @ \ {c}]
       /\ env' = [env EXCEPT !.dropped = @ \cup {c}]
       /\ obs' = O!ObsStep(obs, [t |-> "dead", c |-> c])
  /\ UNCHANGED <<inq, pc, rec, nextCookie, ctype>>

EnvHandle ==
  /\ Free /\ Room
  /\ \/ "sdb" \in Faults /\ ~bk.shutdownNow /\ (\A i \in 1..Len(inq) : inq[i].t # "sdb") /\ inq' = Append(inq, [t |-> "sdb"])
     \/ "sdi" \in Faults /\ ~bk.shutdownIdle /\ (\A i \in 1..Len(inq) : inq[i].t # "sdi") /\ inq' = Append(inq, [t |-> "sdi"])
     \/ "sdc" \in Faults /\ \E c \in env.started : c \in DOMAIN bk.conns /\ inq' = Append(inq, [t |-> "sdc", c |-> c])
  /\ UNCHANGED <<bk, pc, rec, nextCookie, ctype, env, obs>>

\* ---------------------------------------------------------------------------------------------
\* the broker's run loop
StopCond == bk.shutdownNow \/ (bk.shutdownIdle /\ DOMAIN bk.conns = {})

CookieUsed(b, k) == \E i \in 1..Len(b.out) : b.out[i].m.k \in {"CreateObjectReply", "CreateServiceReply", "CreateChannelReply", "CreateBusListenerReply"}
                                              /\ b.out[i].m.cookie = k

\* query_random_conn: any registered connection (only explored when introspection is enabled)
Picks == IF "QueryIntrospection" \in Kinds
           THEN {[conn |-> p, order |-> o] :
                   p \in {p \in [TypeIds -> Conns \cup {-1}] : \A t \in TypeIds :
                            IF t \in DOMAIN bk.intro /\ bk.intro[t].conns # {} THEN p[t] \in bk.intro[t].conns ELSE p[t] = -1},
                   o \in SetToSeqs(TypeIds)}
           ELSE {[conn |-> [t \in TypeIds |-> -1], order |-> <<>>]}

Dequeue ==
  /\ pc = "idle" /\ ~StopCond /\ inq # <<>>
  /\ \E pick \in Picks :
     LET ev == Head(inq)
         b2 == HandleEvent(bk, ev, nextCookie, pick)
         used == ev.t = "msg" /\ CookieUsed(b2, nextCookie) IN
     /\ bk' = b2
     /\ inq' = Tail(inq)
     /\ nextCookie' = IF used THEN nextCookie + 1 ELSE nextCookie
     /\ ctype' = IF used THEN Put(ctype, nextCookie, CreateType(ev.m.k)) ELSE ctype
     /\ b2.panic # "query_random_conn: pick outside the registered connections"
     /\ rec' = ev @@ [out |-> b2.out]
     /\ pc' = "working"
  /\ obs' = O!ObsStep(obs, rec')
  /\ UNCHANGED env

Work ==
  /\ pc = "working" /\ WorkLeft(bk)
  /\ LET cl == TopClass(bk) IN
     \E w \in DOMAIN bk.work[cl] : \E pick \in Picks :
       LET b2 == ProcessWork(bk, cl, w, pick) IN
       /\ b2.panic # "query_random_conn: pick outside the registered connections"
       /\ bk' = b2
       /\ rec' = WorkRec(cl, w, b2.out)
  /\ obs' = O!ObsStep(obs, rec')
  /\ UNCHANGED <<inq, pc, nextCookie, ctype, env>>

Idle ==
  /\ pc = "working" /\ ~WorkLeft(bk)
  /\ bk' = [bk EXCEPT !.out = <<>>]
  /\ rec' = [t |-> "idle", st |-> Dump(bk), out |-> <<>>]
  /\ pc' = "idle"
  /\ obs' = O!ObsStep(obs, rec')
  /\ UNCHANGED <<inq, nextCookie, ctype, env>>

Stop ==
  /\ pc = "idle" /\ StopCond
  /\ pc' = "stopped"
  /\ rec' = [t |-> "stop", out |-> <<>>]
  /\ obs' = O!ObsStep(obs, rec')
  /\ UNCHANGED <<bk, inq, nextCookie, ctype, env>>

Next == EnvScript \/ EnvConnect \/ EnvMsg \/ EnvConnEnds \/ EnvTaskDropped \/ EnvHandle \/ Dequeue \/ Work \/ Idle \/ Stop
Spec == Init /\ [][Next]_vars

\* ---------------------------------------------------------------------------------------------
\* what is checked
ObserverOk == obs.ok \/ Print(<<"OBSERVER", obs.prop, obs.why, rec>>, FALSE)
NoPanicSite == bk.panic = "" \/ Print(<<"PANIC-SITE", bk.panic>>, FALSE)
BoundaryConsistent == (pc = "idle" /\ bk.panic = "") => Consistent(bk)
FlagsOk == ListenerFlags(bk)
\* run loop exit assertions of Broker::run (debug_assert!s after the loop)
StoppedClean == pc = "stopped" => (~WorkLeft(bk) /\ DOMAIN bk.conns = {} /\ DOMAIN bk.objs = {} /\ DOMAIN bk.objUuids = {}
                                   /\ DOMAIN bk.svcs = {} /\ DOMAIN bk.svcUuids = {} /\ DOMAIN bk.calls = {})
=============================================================================
