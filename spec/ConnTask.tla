------------------------------ MODULE ConnTask ------------------------------
(* The connection task of the broker (broker/src/conn.rs, Connection::run) for ONE connection,
   between a client on a transport and the broker's two queues:

     client --transport--> [conn task] --inq (bounded, shared)--> broker
     client <--transport-- [conn task] <--outq (unbounded, per connection)-- broker

   The task is modelled step by step as the code is written: the rotating select over {broker
   queue, transport, flush} is a nondeterministic choice among the ready sources; forwarding a
   client message blocks while `inq` is full (the task services nothing else meanwhile);
   `client_shutdown`, `client_error`, `broker_shutdown`, `drain_broker_recv`, `drain_client_recv`
   are phases.  The broker is a stub that consumes `inq`, may send messages, may shut the
   connection or itself down (queueing Shutdown, then dropping the connection's sender, then --
   for a broker shutdown -- dropping the receiving end of `inq`).  The client is a stub that
   sends messages, answers a Shutdown with a Shutdown, shuts down, or fails.

   Checked (C09 "connection task end-of-life protocol", C15 "the broker side observes the
   connection as closed"):
     RunReturns        under weak fairness the task always returns;
     BrokerLearns      a task that returned while the broker was running has told the broker
                       (ConnectionShutdown was enqueued) unless the broker initiated the removal;
     NoGhostForward    nothing is forwarded to the client after the task saw the broker's Shutdown;
     ShutdownDelivered a Shutdown the broker queued for the connection reaches a client whose
                       transport still works.  With `TreatClosedInqAsShutdown = FALSE` (the code
                       as it is) TLC finds the known finding recorded in /verif/known-findings.json:
                       the broker stops while the task forwards a client message, the task returns
                       UnexpectedShutdown and the queued Shutdown is never delivered
                       (MC_ConnTask_asis.cfg, expected to FAIL ShutdownDelivered); with TRUE (the
                       repair the finding suggests) it holds (MC_ConnTask.cfg). *)
EXTENDS Naturals, Sequences, FiniteSets

CONSTANTS InqBound,                  \* capacity of the broker's input queue
          MaxClientMsgs,             \* messages the client may send
          MaxBrokerMsgs,             \* messages the broker may send
          TreatClosedInqAsShutdown   \* FALSE: the code as it is

VARIABLES
  phase,        \* "run" | "forwarding" | "brokerShutdown" | "clientEnd" | "done"
  result,       \* "" | "ok" | "err:transport" | "err:unexpectedShutdown"
  c2s,          \* transport client -> conn: sequence of "msg" | "shutdown"
  cState,       \* client end of the transport: "open" | "failed"
  s2c,          \* what the conn task has handed to the transport, in order
  flush,        \* flush_transport
  transport,    \* conn's transport handle: "open" | "none" (client_error drops it)
  inq,          \* broker input queue (only this connection's events matter): sequence of "msg" | "connShutdown"
  inqOpen,      \* the broker still holds the receiving end
  outq,         \* broker -> conn queue: sequence of "msg" | "shutdown"
  senderAlive,  \* the broker still holds the sending end of outq (the connection is registered)
  recvOpen,     \* the conn task still holds the receiving end of outq (drain sets it to FALSE on None)
  clientShutdownSeen,  \* drain_client_recv's local flag
  sentC, sentB, \* budgets
  toldBroker,   \* ConnectionShutdown was enqueued
  brokerInitiated,     \* the broker removed the connection on its own initiative
  sawBrokerShutdown,   \* the task received Shutdown from the broker
  clientAnswers \* the client answers a Shutdown with a Shutdown (a well-behaved client)
vars == <<phase, result, c2s, cState, s2c, flush, transport, inq, inqOpen, outq, senderAlive, recvOpen,
          clientShutdownSeen, sentC, sentB, toldBroker, brokerInitiated, sawBrokerShutdown, clientAnswers>>

Init ==
  /\ phase = "run" /\ result = "" /\ c2s = <<>> /\ cState = "open" /\ s2c = <<>> /\ flush = FALSE
  /\ transport = "open" /\ inq = <<>> /\ inqOpen = TRUE /\ outq = <<>> /\ senderAlive = TRUE /\ recvOpen = TRUE
  /\ clientShutdownSeen = FALSE /\ sentC = 0 /\ sentB = 0 /\ toldBroker = FALSE /\ brokerInitiated = FALSE
  /\ sawBrokerShutdown = FALSE /\ clientAnswers \in BOOLEAN

\* ---------------------------------------------------------------------------------------------
\* client stub
ClientSend ==
  /\ cState = "open" /\ sentC < MaxClientMsgs /\ ~(\E i \in 1..Len(c2s) : c2s[i] = "shutdown")
  /\ c2s' = Append(c2s, "msg") /\ sentC' = sentC + 1
  /\ UNCHANGED <<phase, result, cState, s2c, flush, transport, inq, inqOpen, outq, senderAlive, recvOpen,
                 clientShutdownSeen, sentB, toldBroker, brokerInitiated, sawBrokerShutdown, clientAnswers>>
ClientShutdown ==       \* the client shuts down on its own, or answers the broker's Shutdown (once)
  /\ cState = "open" /\ ~(\E i \in 1..Len(c2s) : c2s[i] = "shutdown") /\ sentC < MaxClientMsgs + 1
  /\ (\E i \in 1..Len(s2c) : s2c[i] = "shutdown") => clientAnswers
  /\ c2s' = Append(c2s, "shutdown") /\ sentC' = MaxClientMsgs + 1
  /\ UNCHANGED <<phase, result, cState, s2c, flush, transport, inq, inqOpen, outq, senderAlive, recvOpen,
                 clientShutdownSeen, sentB, toldBroker, brokerInitiated, sawBrokerShutdown, clientAnswers>>
ClientFails ==
  /\ cState = "open" /\ cState' = "failed"
  /\ UNCHANGED <<phase, result, c2s, s2c, flush, transport, inq, inqOpen, outq, senderAlive, recvOpen,
                 clientShutdownSeen, sentC, sentB, toldBroker, brokerInitiated, sawBrokerShutdown, clientAnswers>>

\* what the transport offers the conn task: a message, or an error once everything was read
TransportReady == transport = "open" /\ (c2s # <<>> \/ cState = "failed")

\* ---------------------------------------------------------------------------------------------
\* broker stub
BrokerConsume ==
  /\ inqOpen /\ inq # <<>>
  /\ inq' = Tail(inq)
  /\ IF Head(inq) = "connShutdown" THEN senderAlive' = FALSE ELSE UNCHANGED senderAlive   \* shutdown_connection drops the state
  /\ UNCHANGED <<phase, result, c2s, cState, s2c, flush, transport, inqOpen, outq, recvOpen, clientShutdownSeen,
                 sentC, sentB, toldBroker, brokerInitiated, sawBrokerShutdown, clientAnswers>>
BrokerSend ==
  /\ senderAlive /\ sentB < MaxBrokerMsgs
  /\ outq' = Append(outq, "msg") /\ sentB' = sentB + 1
  /\ UNCHANGED <<phase, result, c2s, cState, s2c, flush, transport, inq, inqOpen, senderAlive, recvOpen,
                 clientShutdownSeen, sentC, toldBroker, brokerInitiated, sawBrokerShutdown, clientAnswers>>
\* shutdown_connection(.., send_shutdown = true): Shutdown queued, then the sender dropped
BrokerShutsConnection ==
  /\ senderAlive /\ inqOpen
  /\ outq' = Append(outq, "shutdown") /\ senderAlive' = FALSE /\ brokerInitiated' = TRUE
  /\ UNCHANGED <<phase, result, c2s, cState, s2c, flush, transport, inq, inqOpen, recvOpen, clientShutdownSeen,
                 sentC, sentB, toldBroker, sawBrokerShutdown, clientAnswers>>
\* ShutdownBroker: the same for every connection, then Broker::run returns and drops `recv`
BrokerStops ==
  /\ inqOpen
  /\ outq' = IF senderAlive THEN Append(outq, "shutdown") ELSE outq
  /\ senderAlive' = FALSE /\ inqOpen' = FALSE
  /\ brokerInitiated' = (brokerInitiated \/ senderAlive)
  /\ UNCHANGED <<phase, result, c2s, cState, s2c, flush, transport, inq, recvOpen, clientShutdownSeen,
                 sentC, sentB, toldBroker, sawBrokerShutdown, clientAnswers>>

\* ---------------------------------------------------------------------------------------------
\* the connection task
OutqReady == recvOpen /\ (outq # <<>> \/ ~senderAlive)       \* a message, or None once the sender is gone
Finish(r) == phase' = "done" /\ result' = r

\* main loop, Selected::Broker(..)
RunFromBroker ==
  /\ phase = "run" /\ OutqReady
  /\ IF outq = <<>>
       THEN \* Selected::Broker(None) => Err(UnexpectedShutdown)
            /\ Finish("err:unexpectedShutdown")
            /\ UNCHANGED <<s2c, flush, outq, sawBrokerShutdown>>
       ELSE /\ outq' = Tail(outq)
            /\ IF Head(outq) = "shutdown"
                 THEN \* broker_shutdown(): send Shutdown to the client, then drain_client_recv
                      /\ sawBrokerShutdown' = TRUE
                      /\ IF transport = "open" THEN s2c' = Append(s2c, "shutdown") /\ flush' = TRUE ELSE UNCHANGED <<s2c, flush>>
                      /\ phase' = "brokerShutdown" /\ UNCHANGED result
                 ELSE /\ s2c' = Append(s2c, "msg") /\ flush' = TRUE
                      /\ UNCHANGED <<phase, result, sawBrokerShutdown>>
  /\ UNCHANGED <<c2s, cState, transport, inq, inqOpen, senderAlive, recvOpen, clientShutdownSeen, sentC, sentB,
                 toldBroker, brokerInitiated, clientAnswers>>

\* main loop, Selected::Transport(..)
RunFromTransport ==
  /\ phase = "run" /\ TransportReady
  /\ IF c2s = <<>>
       THEN \* transport error: client_error(): drop the transport, tell the broker, drain
            /\ transport' = "none" /\ flush' = FALSE
            /\ phase' = "tellBroker:err" /\ UNCHANGED <<c2s, result>>
       ELSE /\ c2s' = Tail(c2s)
            /\ IF Head(c2s) = "shutdown"
                 THEN phase' = "tellBroker:ok"       \* client_shutdown(): send_broker_shutdown first
                 ELSE phase' = "forwarding"          \* send_broker_msg: may block on a full inq
            /\ UNCHANGED <<transport, flush, result>>
  /\ UNCHANGED <<cState, s2c, inq, inqOpen, outq, senderAlive, recvOpen, clientShutdownSeen, sentC, sentB,
                 toldBroker, brokerInitiated, sawBrokerShutdown, clientAnswers>>

RunFlushed ==
  /\ phase \in {"run", "brokerShutdown", "clientEnd"} /\ flush /\ transport = "open"
  /\ flush' = FALSE
  /\ UNCHANGED <<phase, result, c2s, cState, s2c, transport, inq, inqOpen, outq, senderAlive, recvOpen,
                 clientShutdownSeen, sentC, sentB, toldBroker, brokerInitiated, sawBrokerShutdown, clientAnswers>>

\* send_broker_msg(..).await
Forward ==
  /\ phase = "forwarding"
  /\ IF ~inqOpen
       THEN \* the broker is gone
            IF TreatClosedInqAsShutdown
              THEN /\ phase' = "brokerShutdown" /\ sawBrokerShutdown' = TRUE
                   /\ s2c' = Append(s2c, "shutdown") /\ flush' = TRUE
                   /\ UNCHANGED <<result, inq>>
              ELSE /\ Finish("err:unexpectedShutdown") /\ UNCHANGED <<inq, s2c, flush, sawBrokerShutdown>>
       ELSE /\ Len(inq) < InqBound
            /\ inq' = Append(inq, "msg") /\ phase' = "run"
            /\ UNCHANGED <<result, s2c, flush, sawBrokerShutdown>>
  /\ UNCHANGED <<c2s, cState, transport, inqOpen, outq, senderAlive, recvOpen, clientShutdownSeen, sentC, sentB,
                 toldBroker, brokerInitiated, clientAnswers>>

\* send_broker_shutdown(..).await, then (clean case) the reply Shutdown, then drain_broker_recv
TellBroker ==
  /\ phase \in {"tellBroker:ok", "tellBroker:err"}
  /\ IF ~inqOpen
       THEN IF TreatClosedInqAsShutdown /\ phase = "tellBroker:ok" /\ transport = "open"
              THEN \* the broker is gone and the client asked to shut down: answer it
                   /\ s2c' = Append(s2c, "shutdown") /\ flush' = FALSE
                   /\ Finish("ok") /\ UNCHANGED <<inq, toldBroker>>
              ELSE /\ Finish("err:unexpectedShutdown") /\ UNCHANGED <<inq, toldBroker, s2c, flush>>
       ELSE /\ Len(inq) < InqBound
            /\ inq' = Append(inq, "connShutdown") /\ toldBroker' = TRUE
            /\ IF phase = "tellBroker:ok" /\ transport = "open"
                 THEN s2c' = Append(s2c, "shutdown") /\ flush' = TRUE
                 ELSE UNCHANGED <<s2c, flush>>
            /\ phase' = "clientEnd" /\ UNCHANGED result
  /\ UNCHANGED <<c2s, cState, transport, inqOpen, outq, senderAlive, recvOpen, clientShutdownSeen, sentC, sentB,
                 brokerInitiated, sawBrokerShutdown, clientAnswers>>

\* drain_broker_recv: until the broker dropped the sender and nothing is left to flush
DrainBroker ==
  /\ phase = "clientEnd"
  /\ \/ /\ OutqReady
        /\ IF outq = <<>> THEN recvOpen' = FALSE /\ UNCHANGED outq ELSE outq' = Tail(outq) /\ UNCHANGED recvOpen
        /\ UNCHANGED <<c2s, transport, flush>>
     \/ /\ TransportReady
        /\ IF c2s = <<>> THEN transport' = "none" /\ flush' = FALSE /\ UNCHANGED c2s
                         ELSE c2s' = Tail(c2s) /\ UNCHANGED <<transport, flush>>
        /\ UNCHANGED <<outq, recvOpen>>
  /\ UNCHANGED <<phase, result, cState, s2c, inq, inqOpen, senderAlive, clientShutdownSeen, sentC, sentB,
                 toldBroker, brokerInitiated, sawBrokerShutdown, clientAnswers>>
DrainBrokerDone ==
  /\ phase = "clientEnd" /\ ~recvOpen /\ ~flush
  /\ Finish(IF transport = "none" /\ cState = "failed" /\ ~toldBroker THEN "err:transport" ELSE "ok")
  /\ UNCHANGED <<c2s, cState, s2c, flush, transport, inq, inqOpen, outq, senderAlive, recvOpen, clientShutdownSeen,
                 sentC, sentB, toldBroker, brokerInitiated, sawBrokerShutdown, clientAnswers>>

\* drain_client_recv: until the client's Shutdown arrived and everything is flushed, or an error
DrainClient ==
  /\ phase = "brokerShutdown"
  /\ \/ /\ transport = "open" /\ (~clientShutdownSeen \/ flush) /\ TransportReady
        /\ IF c2s = <<>> THEN Finish("err:transport") /\ UNCHANGED <<c2s, clientShutdownSeen>>
                         ELSE /\ c2s' = Tail(c2s)
                              /\ clientShutdownSeen' = (clientShutdownSeen \/ Head(c2s) = "shutdown")
                              /\ UNCHANGED <<phase, result>>
        /\ UNCHANGED <<outq, recvOpen>>
     \/ /\ transport = "open" /\ (~clientShutdownSeen \/ flush) /\ OutqReady
        /\ IF outq = <<>> THEN recvOpen' = FALSE /\ UNCHANGED outq ELSE outq' = Tail(outq) /\ UNCHANGED recvOpen
        /\ UNCHANGED <<c2s, clientShutdownSeen, phase, result>>
     \/ /\ (transport # "open" \/ (clientShutdownSeen /\ ~flush))
        /\ Finish("ok") /\ UNCHANGED <<c2s, clientShutdownSeen, outq, recvOpen>>
  /\ UNCHANGED <<cState, s2c, flush, transport, inq, inqOpen, senderAlive, sentC, sentB, toldBroker, brokerInitiated,
                 sawBrokerShutdown, clientAnswers>>

Task == RunFromBroker \/ RunFromTransport \/ RunFlushed \/ Forward \/ TellBroker \/ DrainBroker \/ DrainBrokerDone \/ DrainClient
Env == ClientSend \/ ClientShutdown \/ ClientFails \/ BrokerConsume \/ BrokerSend \/ BrokerShutsConnection \/ BrokerStops
Next == Task \/ Env
Spec == Init /\ [][Next]_vars
        /\ WF_vars(RunFromBroker) /\ WF_vars(RunFromTransport) /\ WF_vars(RunFlushed) /\ WF_vars(Forward) /\ WF_vars(TellBroker)
        /\ WF_vars(DrainBroker) /\ WF_vars(DrainBrokerDone) /\ WF_vars(DrainClient)
        /\ WF_vars(BrokerConsume) /\ WF_vars(ClientShutdown)

\* ---------------------------------------------------------------------------------------------
TypeOK == phase \in {"run", "forwarding", "tellBroker:ok", "tellBroker:err", "brokerShutdown", "clientEnd", "done"}
\* the task never blocks the broker: the broker's steps are always enabled independently of `phase` (by construction)
BrokerLearns == (phase = "done" /\ inqOpen) => (toldBroker \/ brokerInitiated \/ result = "err:unexpectedShutdown")
NoGhostForward == sawBrokerShutdown => \A i \in 1..Len(s2c) : s2c[i] = "shutdown" => \A j \in (i + 1)..Len(s2c) : s2c[j] = "shutdown"
AtMostOneShutdownToClient == Cardinality({i \in 1..Len(s2c) : s2c[i] = "shutdown"}) <= 1
\* a Shutdown queued by the broker for a client whose transport works is delivered before the task returns
ShutdownDelivered ==
  (phase = "done" /\ brokerInitiated /\ cState = "open" /\ result # "err:transport" /\ ~toldBroker)
     => \E i \in 1..Len(s2c) : s2c[i] = "shutdown"
\* liveness: the task returns once the environment has settled (a client that neither answers nor
\* closes may keep a task waiting in drain_client_recv, as the code intends)
Ending == ~senderAlive \/ ~inqOpen \/ cState = "failed" \/ \E i \in 1..Len(c2s) : c2s[i] = "shutdown"
RunReturns == (Ending /\ (clientAnswers \/ cState = "failed")) ~> (phase = "done")
=============================================================================
