SPECIFICATION Spec
CONSTANTS
  InqBound = 1
  MaxClientMsgs = 2
  MaxBrokerMsgs = 2
  TreatClosedInqAsShutdown = TRUE
INVARIANTS TypeOK BrokerLearns NoGhostForward AtMostOneShutdownToClient ShutdownDelivered
PROPERTY RunReturns
CHECK_DEADLOCK FALSE
