------------------------------ MODULE ChanApi ------------------------------
(* One channel as the application sees it through aldrin::low_level::{Sender, Receiver}, at the
   level of whole operations (all clients synchronised with the broker after each): the item
   stream and the capacity flow control of C05 end to end -- the sender client's credit, the
   broker's two counters with its low-water rule (broker/src/broker/channel.rs) and the receiver
   client's top-up rule (aldrin/src/low_level/channel/established.rs) composed.

     send   succeeds iff the sender's credit is positive (otherwise the future stays pending and
            is abandoned), fails with "invalid channel" once the receiver has closed;
     recv   yields the items in send order, exactly once; pending when none is queued; end of
            stream after the sender closed and everything was taken;
     probe  Sender::receiver_closed polled once: "closed" iff the receiver has closed, no effect on
            the credit;
     credit the sender never holds more credit than the receiver has granted and not yet got back
            (Inv_Credit), and a sender that is out of credit while the receiver has room is topped
            up (Inv_NoStarvation: the low-water rules of broker and receiver guarantee it).

   State is one record, operations are functions Do(c, op) returning the observable result in
   c.res / c.val, as in BusApi.tla. *)
EXTENDS Naturals, Sequences, TLC

LOW == 4

CInit == [open |-> FALSE, n |-> 0, scap |-> 0, bsc |-> 0, brc |-> 0, rcur |-> 0, q |-> <<>>,
          sClosed |-> FALSE, rClosed |-> FALSE, nextK |-> 1, res |-> "", val |-> 0]

Enabled(c, op) ==
  CASE op.op = "open" -> ~c.open /\ op.n >= 1
    [] op.op = "send" -> c.open /\ ~c.sClosed
    [] op.op = "recv" -> c.open
    [] op.op = "closeS" -> c.open /\ ~c.sClosed
    [] op.op = "closeR" -> c.open /\ ~c.rClosed
    [] op.op = "probe" -> c.open /\ ~c.sClosed
    [] OTHER -> FALSE

\* the broker's rule when its view of the sender's credit is low: announce everything granted
TopUp(c) == IF c.bsc <= LOW /\ c.brc > c.bsc THEN [c EXCEPT !.scap = @ + (c.brc - c.bsc), !.bsc = c.brc] ELSE c

Do(c0, op) ==
  LET c == [c0 EXCEPT !.res = "", !.val = 0] IN
  CASE op.op = "open" ->
         [c EXCEPT !.open = TRUE, !.n = op.n, !.scap = op.n, !.bsc = op.n, !.brc = op.n, !.rcur = op.n, !.res = "ok"]
    [] op.op = "send" ->
         IF c.rClosed THEN [c EXCEPT !.res = "invalidChannel"]
         ELSE IF c.scap = 0 THEN [c EXCEPT !.res = "pending"]
         ELSE TopUp([c EXCEPT !.scap = @ - 1, !.bsc = @ - 1, !.brc = @ - 1, !.q = Append(@, c.nextK), !.nextK = @ + 1,
                              !.res = "ok", !.val = c.nextK])
    [] op.op = "recv" ->
         IF c.q # <<>> THEN
           LET c1 == [c EXCEPT !.q = Tail(@), !.rcur = @ - 1, !.res = "item", !.val = Head(c.q)] IN
           \* the receiver client's rule: at the low-water mark grant everything back
           IF c1.rcur <= LOW /\ ~c.rClosed
             THEN TopUp([c1 EXCEPT !.rcur = c.n, !.brc = @ + (c.n - c1.rcur)])
             ELSE c1
         ELSE IF c.sClosed \/ c.rClosed THEN [c EXCEPT !.res = "end"]
         ELSE [c EXCEPT !.res = "pending"]
    [] op.op = "closeS" -> [c EXCEPT !.sClosed = TRUE, !.res = "ok"]
    [] op.op = "closeR" -> [c EXCEPT !.rClosed = TRUE, !.res = "ok"]
    \* Sender::receiver_closed polled once: ready exactly when the receiver has closed; asking never changes
    \* anything -- in particular the credit announced meanwhile stays the sender's (the implementation reads the
    \* same notification stream for both and has to keep what it reads)
    [] op.op = "probe" -> [c EXCEPT !.res = IF c.rClosed THEN "closed" ELSE "pending"]
    [] OTHER -> c

\* ---- properties of the composition (MC_ChanApi) ----
\* the sender's credit never exceeds what the receiver has granted and not yet seen used
Inv_Credit(c) == c.open => /\ c.scap <= c.bsc /\ c.bsc <= c.brc
                           /\ c.brc + Len(c.q) <= c.rcur + Len(c.q)      \* granted <= receiver's own budget
                           /\ Len(c.q) + c.brc <= c.n + Len(c.q)
\* no starvation: if the sender is out of credit, the receiver side holds undelivered items
\* (taking them will grant credit) -- never both idle
Inv_NoStarvation(c) == (c.open /\ ~c.rClosed /\ c.scap = 0) => c.q # <<>>
=============================================================================
