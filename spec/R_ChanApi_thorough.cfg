SPECIFICATION Spec
CONSTANTS
  Caps = {1, 2, 4, 5, 6, 7, 16}
  MaxOps = 11
  Probe = FALSE
INVARIANTS Emit InvCredit InvNoStarvation
CHECK_DEADLOCK FALSE
