\* exhaustive design check of the TokioTransport machine (both directions interleaved): every order of API calls, every
\* I/O result at every I/O call, every read / write size
SPECIFICATION Spec
CONSTANTS
  Machine = "tokio"
  InSeqs <- MixIn2
  OutSeqs <- MixOut2
  Modes = {"free"}
  MinReserve = 4
  MaxReserve = 6
  Slack = 1
  Boundary = 8
  ChunkMode = "all"
  MaxChunks = 0
  Bounded = FALSE
  MaxCalls = 0
  MaxFaults = 0
  Emit = FALSE
INVARIANTS ObsOk PkInv TokInv
CHECK_DEADLOCK FALSE
