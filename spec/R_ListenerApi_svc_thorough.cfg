SPECIFICATION Spec
CONSTANTS
  ObjU = {1, 2}
  SvcU = {1}
  Lst = {1, 2}
  Filters <- MCFilters
  MaxOps = 4
  MaxCookie = 5
  PrefixSel = "svc"
INVARIANTS Emit
CHECK_DEADLOCK FALSE
