------------------------- MODULE MessageCodec_Trace -------------------------
(* Validation of verdicts of the real parser (core/src/message.rs Message::deserialize_message)
   against the reference decoder DecMsg.  Env TRACE = ndjson written by the driver `msg-vectors`;
   one record per step, a record is a batch:

     fr : sequence of frames (byte sequences, each shorter than 65536)
     ok : 1 = the real parser accepted frame i, 0 = it rejected it
     rs : for accepted frames, the real re-serialisation of the parsed message (else <<>>)

   Property level (printed as VIOLATION-AT .. "C08"): the real parser accepted a frame that has no
   complete header, whose length prefix differs from its length, or whose kind is unknown - the
   clauses of the property that do not depend on the layout table.
   Conformance level (printed with "C08.drift"): any other disagreement between the real verdict
   and DecMsg, and a re-serialisation that differs from EncMsg of the decoded message. *)
EXTENDS MessageCodec, TLC, Json, IOUtils

Rec == ndJsonDeserialize(IOEnv.TRACE)

VARIABLE l
vars == <<l>>

Judge(rec, i) ==
  LET s == rec.fr[i]
      real == rec.ok[i] = 1
      r == DecMsg(s)
      at == " #" \o ToString(i) IN
  IF real /\ ~r.ok
  THEN IF r.why \in {"eoi", "prefix", "kind"}
       THEN PrintT(<<"VIOLATION-AT", l, "C08", "real parser accepted a frame rejected by a decidable clause: " \o r.why \o at>>)
       ELSE PrintT(<<"VIOLATION-AT", l, "C08.drift", "real accepts, reference rejects: " \o r.why \o at>>)
  ELSE IF ~real /\ r.ok
  THEN PrintT(<<"VIOLATION-AT", l, "C08.drift", "real rejects, reference accepts" \o at>>)
  ELSE IF real /\ r.ok /\ EncMsg(r.m) # rec.rs[i]
  THEN PrintT(<<"VIOLATION-AT", l, "C08.drift", "re-serialisation differs from EncMsg(DecMsg(frame))" \o at>>)
  ELSE TRUE

Init == l = 1
Next == /\ l <= Len(Rec)
        /\ \A i \in 1 .. Len(Rec[l].fr) : Judge(Rec[l], i)
        /\ l' = l + 1
Spec == Init /\ [][Next]_vars

Accepted == \/ TLCGet("stats").diameter - 1 = Len(Rec)
            \/ Print(<<"TRACE-NOT-CONSUMED", TLCGet("stats").diameter - 1, Len(Rec)>>, FALSE)
=============================================================================
