SPECIFICATION Spec
CONSTANTS
  Deep = TRUE
  NRandU = 14
INVARIANTS
  Inv_WF
  Inv_Algo
  Inv_Perm
  Inv_Edit
POSTCONDITION Emit
CHECK_DEADLOCK FALSE
