SPECIFICATION Spec
CONSTANTS
  NRand = 150
  WsCount = 8
  PreLayouts = 2
INVARIANTS
  Inv_Layout
  Inv_Norm
  Inv_Inj
POSTCONDITION Emit
CHECK_DEADLOCK FALSE
