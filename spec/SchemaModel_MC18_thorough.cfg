SPECIFICATION Spec
CONSTANTS
  NRand = 40
  WsCount = 8
  PreLayouts = 2
  FullStyles = TRUE
  NRandS = 40
INVARIANTS
  Inv_Layout
  Inv_Norm
  Inv_Inj
POSTCONDITION Emit
CHECK_DEADLOCK FALSE
