SPECIFICATION Spec
CONSTANTS
  NRand = 120
  WsCount = 8
  PreLayouts = 2
  NRandS = 60
INVARIANTS
  Inv_Layout
  Inv_Norm
  Inv_Inj
POSTCONDITION Emit
CHECK_DEADLOCK FALSE
