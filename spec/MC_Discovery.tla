--------------------------- MODULE MC_Discovery ---------------------------
(* Design check of Discovery.tla (every sequence of registry operations and discoverer starts
   within the bounds: the implementation-shaped entries report exactly what C19 demands and none of
   their assertions can fire) and generator of the behaviours replayed on the real code
   (R_Discovery.cfg: with the history, one line per maximal behaviour). *)
EXTENDS Discovery, Json

CONSTANTS MaxCookie,       \* cookies 1..MaxCookie can be issued
          MaxOps,          \* length of a behaviour (replay configuration)
          Lifetimes        \* lifetimes can be bound (to the id of any object that exists or has existed)

\* the entries of the drivers (harness/crates/bus-driver/src/discovery.rs entry_specs, plus a bare any-object entry)
MCKeys == 0..5
MCEntryOf(k) == CASE k = 0 -> [obj |-> 1, svcs |-> {}]
                  [] k = 1 -> [obj |-> 2, svcs |-> {1}]
                  [] k = 2 -> [obj |-> 0, svcs |-> {1}]
                  [] k = 3 -> [obj |-> 0, svcs |-> {1, 2}]
                  [] k = 4 -> [obj |-> 1, svcs |-> {1, 2}]
                  [] OTHER -> [obj |-> 0, svcs |-> {}]

VARIABLES d, hist, chk
vars == <<d, hist, chk>>
view == <<d, chk>>

Fresh == Cardinality(d.used) + 1
Ops == {[op |-> "co", o |-> o, s |-> 0, c |-> Fresh, scope |-> ""] : o \in ObjU}
       \cup {[op |-> "do", o |-> o, s |-> 0, c |-> 0, scope |-> ""] : o \in ObjU}
       \cup {[op |-> "cs", o |-> o, s |-> s, c |-> Fresh, scope |-> ""] : o \in ObjU, s \in SvcU}
       \cup {[op |-> "ds", o |-> o, s |-> s, c |-> 0, scope |-> ""] : o \in ObjU, s \in SvcU}
       \cup {[op |-> x, o |-> 0, s |-> 0, c |-> 0, scope |-> sc] : x \in {"build", "restart"}, sc \in {"all", "current"}}
       \cup {[op |-> "lt", o |-> x[1], s |-> 0, c |-> x[2], scope |-> ""] : x \in (IF Lifetimes THEN d.ocs ELSE {})}

Init == d = DInit /\ hist = <<>> /\ chk = TRUE
Next == \E op \in Ops :
          /\ Enabled(d, op)
          /\ (op.c # 0 /\ op.op # "lt") => op.c <= MaxCookie
          /\ Len(hist) < MaxOps
          /\ d' = Do(d, op)
          /\ hist' = Append(hist, op)
          /\ chk' = EventsAreChanges(d, op, d')
Spec == Init /\ [][Next]_vars

InvView == ViewIsTruth(d) \/ Print(<<"VIEW", d>>, FALSE)
InvNoPanic == NoPanic(d) \/ Print(<<"PANIC", d.panic>>, FALSE)
InvEvents == chk \/ Print(<<"EVENTS", hist, d.out>>, FALSE)

Emit == Len(hist) = MaxOps => PrintT(<<"REPLAY", ToJson(hist)>>)
=============================================================================
