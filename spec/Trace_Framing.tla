---------------------------- MODULE Trace_Framing ----------------------------
(* Trace validation, property level, for C14: folds the observer of FramingObs.tla over an ndjson
   trace recorded from the real Packetizer / TokioTransport / Buffered (env TRACE; behaviours are
   separated by "reset" records).  A violation is printed as <<"VIOLATION-AT", record, "C14", why>>
   and the fold goes on with the next behaviour; the postcondition only establishes that every
   record was consumed. *)
EXTENDS FramingObs, TLC, Json, IOUtils

Rec == ndJsonDeserialize(IOEnv.TRACE)

VARIABLES l, obs
vars == <<l, obs>>

Init == l = 1 /\ obs = ObsInit
Next == /\ l <= Len(Rec)
        /\ LET o2 == ObsStep(obs, Rec[l]) IN
             /\ obs' = o2
             /\ (obs.ok /\ ~o2.ok) => PrintT(<<"VIOLATION-AT", l, o2.prop, o2.why>>)
        /\ l' = l + 1
Spec == Init /\ [][Next]_vars

Accepted == \/ TLCGet("stats").diameter - 1 = Len(Rec)
            \/ Print(<<"TRACE-NOT-CONSUMED", TLCGet("stats").diameter - 1, Len(Rec)>>, FALSE)
=============================================================================
