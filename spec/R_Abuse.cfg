SPECIFICATION RSpec
CONSTANTS
  B = 4
  Conns = {0, 1}
  Versions = {20}
  ObjUuids = {101, 102}
  SvcUuids = {201}
  Events = {0}
  Fns = {0}
  CSerials = {0}
  Payloads = {1}
  TypeIds = {301}
  Caps <- CapsOne
  MaxCookie = 4
  InqBound = 2
  Kinds = {"AbortFunctionCall", "AddBusListenerFilter", "AddChannelCapacity", "CallFunction", "CallFunction2", "CallFunctionReply", "ClaimChannelEnd", "ClearBusListenerFilters", "CloseChannelEnd", "CreateBusListener", "CreateChannel", "CreateObject", "CreateService", "CreateService2", "DestroyBusListener", "DestroyObject", "DestroyService", "EmitEvent", "QueryServiceInfo", "QueryServiceVersion", "RemoveBusListenerFilter", "SendItem", "StartBusListener", "StopBusListener", "SubscribeAllEvents", "SubscribeEvent", "SubscribeService", "Sync", "UnsubscribeAllEvents", "UnsubscribeEvent", "UnsubscribeService"}
  Faults = {"dropped"}
  WrongKinds = {"CreateObjectReply", "ItemReceived", "Connect", "EmitBusEvent", "ServiceDestroyed"}
  MsgBudget = 2
  InitSerial = 0
  Senders = {0, 1}
  PoolKinds = {"live", "dead", "never"}
  ScriptSel = "svc"
  V0 = 20
  V1 = 20

  FaultBudget = 1
INVARIANTS Emit
CHECK_DEADLOCK FALSE
