---------------------------- MODULE Trace_Broker ----------------------------
(* Trace validation, conformance level: every record of a trace recorded from the real broker must
   be a step of Broker.tla -- same handler outcome (the sends, compared as a bag because the code
   iterates hash containers), same deferred work popped from the highest-priority non-empty list,
   and at every idle record the broker's real maps (the hook's state dump) must equal the state of
   the specification.  A mismatch is a DRIFT (the code is no longer what was model-checked), never
   a VIOLATION; after a drift the rest of the run is skipped and checking resumes at the next
   "reset" record.

   Not modelled, hence skipped with resynchronisation from the trace: the three introspection
   message kinds (their only effect on the modelled state is that the sender may be closed).    *)
EXTENDS Broker, TLC, Json, IOUtils

Rec == ndJsonDeserialize(IOEnv.TRACE)

VARIABLES l, bk, lost
vars == <<l, bk, lost>>

Unmodelled == {}

\* bag of a sequence (sends of the unmodelled introspection kinds are left out of the comparison)
BagOfSeq(s) == LET S == {s[i] : i \in 1..Len(s)} IN [x \in S |-> Cardinality({i \in 1..Len(s) : s[i] = x})]
BagOf(s0) == BagOfSeq(SelectSeq(s0, LAMBDA o : o.m.k \notin Unmodelled))

\* the receiver liveness the record implies for the connections it sent to
WithAlive(b, r) ==
  LET okc == {r.out[i].c : i \in {i \in 1..Len(r.out) : r.out[i].ok}}
      bad == {r.out[i].c : i \in {i \in 1..Len(r.out) : ~r.out[i].ok}} IN
  [b EXCEPT !.alive = (@ \cup okc) \ bad]

\* the cookie a create request drew, as the trace shows it
FreshCookie(r) ==
  LET I == {i \in 1..Len(r.out) : r.out[i].m.k \in {"CreateObjectReply", "CreateServiceReply", "CreateChannelReply", "CreateBusListenerReply"}
                                   /\ r.out[i].m.cookie # 0} IN
  IF I = {} THEN 0 ELSE r.out[CHOOSE i \in I : TRUE].m.cookie
\* query_random_conn as the trace shows it: the recipient of each QueryIntrospection sent
PickOf(r) == [t \in {r.out[i].m.tid : i \in {i \in 1..Len(r.out) : r.out[i].m.k = "QueryIntrospection"}} |->
                r.out[CHOOSE i \in 1..Len(r.out) : r.out[i].m.k = "QueryIntrospection" /\ r.out[i].m.tid = t].c]
\* total version: -1 for types without a query in this record
PickFn(b, r) ==
  LET q == SelectSeq(r.out, LAMBDA o : o.m.k = "QueryIntrospection") IN
  [conn |-> [t \in DOMAIN b.intro \cup DOMAIN PickOf(r) |-> IF t \in DOMAIN PickOf(r) THEN PickOf(r)[t] ELSE -1],
   order |-> [i \in 1..Len(q) |-> q[i].m.tid]]
InfoValTok(r) ==
  LET I == {i \in 1..Len(r.out) : r.out[i].m.k = "QueryServiceInfoReply"} IN
  IF I = {} THEN 0 ELSE r.out[CHOOSE i \in I : TRUE].m.val

EventOf(r) == CASE r.t = "new" -> [t |-> "new", c |-> r.c, ver |-> r.ver]
                [] r.t = "msg" -> [t |-> "msg", c |-> r.c, m |-> r.m]
                [] r.t \in {"shut", "sdc"} -> [t |-> r.t, c |-> r.c]
                [] OTHER -> [t |-> r.t]

\* the deferred item a work record denotes
ItemOf(r) ==
  CASE r.w = "removeConn" -> [c |-> r.c, sd |-> r.sd]
    [] r.w = "unsubscribeEvent" -> [c |-> r.c, svc |-> r.svc, ev |-> r.ev]
    [] r.w \in {"unsubscribeAllEvents", "serviceDestroyed"} -> [c |-> r.c, svc |-> r.svc]
    [] r.w = "removeCall" -> [serial |-> r.serial, c |-> r.c, res |-> r.res]
    [] r.w \in {"objCreated", "objDestroyed"} -> [ouuid |-> r.ouuid, ocookie |-> r.ocookie]
    [] r.w \in {"svcCreated", "svcDestroyed"} -> [ouuid |-> r.ouuid, ocookie |-> r.ocookie, suuid |-> r.suuid, scookie |-> r.scookie]
    [] OTHER -> [serial |-> r.serial, callee |-> r.c]

\* comparison of the specification state with the hook's dump
SetOf(s) == {s[i] : i \in 1..Len(s)}
EndMatches(e, d) ==
  /\ d.st = (CASE e.st = "U" -> "Unclaimed" [] e.st = "C" -> "Claimed" [] OTHER -> "Closed")
  /\ e.st = "C" => (d.owner = e.owner /\ d.cap = e.cap)
StateMatches(b, st) ==
  /\ {st.conns[i].id : i \in 1..Len(st.conns)} = DOMAIN b.conns
  /\ \A i \in 1..Len(st.conns) : LET d == st.conns[i]  cs == b.conns[d.id] IN
       /\ d.ver = cs.ver /\ SetOf(d.objects) = cs.objects /\ SetOf(d.allEvents) = cs.allEvents /\ SetOf(d.subs) = cs.subs
       /\ SetOf(d.senders) = cs.senders /\ SetOf(d.receivers) = cs.receivers /\ SetOf(d.listeners) = cs.listeners
       /\ {d.events[j].svc : j \in 1..Len(d.events)} = DOMAIN cs.events
       /\ \A j \in 1..Len(d.events) : SetOf(d.events[j].evs) = cs.events[d.events[j].svc]
       /\ {d.calls[j].cs : j \in 1..Len(d.calls)} = DOMAIN cs.calls
       /\ \A j \in 1..Len(d.calls) : cs.calls[d.calls[j].cs] = [bs |-> d.calls[j].bs, callee |-> d.calls[j].callee]
  /\ {<<st.objUuids[i].cookie, st.objUuids[i].uuid>> : i \in 1..Len(st.objUuids)} = {<<o, b.objUuids[o]>> : o \in DOMAIN b.objUuids}
  /\ {st.objs[i].uuid : i \in 1..Len(st.objs)} = DOMAIN b.objs
  /\ \A i \in 1..Len(st.objs) : LET d == st.objs[i] IN
       b.objs[d.uuid] = [conn |-> d.conn, cookie |-> d.cookie, svcs |-> SetOf(d.svcs)]
  /\ {st.svcUuids[i].cookie : i \in 1..Len(st.svcUuids)} = DOMAIN b.svcUuids
  /\ \A i \in 1..Len(st.svcUuids) : LET d == st.svcUuids[i] IN
       b.svcUuids[d.cookie] = [ouuid |-> d.ouuid, ocookie |-> d.ocookie, suuid |-> d.suuid, ver |-> d.ver, tid |-> d.tid, sa |-> d.sa]
  /\ {<<st.svcs[i].ouuid, st.svcs[i].suuid>> : i \in 1..Len(st.svcs)} = DOMAIN b.svcs
  /\ \A i \in 1..Len(st.svcs) : LET d == st.svcs[i]  s == b.svcs[<<d.ouuid, d.suuid>>] IN
       /\ s.cookie = d.cookie /\ s.ocookie = d.ocookie /\ s.calls = SetOf(d.calls)
       /\ s.allEvents = SetOf(d.allEvents) /\ s.subs = SetOf(d.subs)
       /\ DOMAIN s.events = {d.events[j].ev : j \in 1..Len(d.events)}
       /\ \A j \in 1..Len(d.events) : s.events[d.events[j].ev] = SetOf(d.events[j].conns)
  /\ {st.calls[i].bs : i \in 1..Len(st.calls)} = DOMAIN b.calls
  /\ \A i \in 1..Len(st.calls) : LET d == st.calls[i] IN
       b.calls[d.bs] = [cs |-> d.cs, caller |-> d.caller, ouuid |-> d.ouuid, suuid |-> d.suuid, aborted |-> d.aborted]
  /\ {st.chans[i].cookie : i \in 1..Len(st.chans)} = DOMAIN b.chans
  /\ \A i \in 1..Len(st.chans) : LET d == st.chans[i] IN
       EndMatches(b.chans[d.cookie].snd, d.snd) /\ EndMatches(b.chans[d.cookie].rcv, d.rcv)
  /\ {st.lsts[i].cookie : i \in 1..Len(st.lsts)} = DOMAIN b.lsts
  /\ \A i \in 1..Len(st.lsts) : LET d == st.lsts[i]  x == b.lsts[d.cookie] IN
       /\ x.conn = d.conn /\ x.filters = SetOf(d.filters) /\ x.scope = d.scope
       /\ x.allObjs = d.allObjs /\ x.specificSvcs = d.specificSvcs
  /\ {st.intro[i].tid : i \in 1..Len(st.intro)} = DOMAIN b.intro
  /\ \A i \in 1..Len(st.intro) : LET d == st.intro[i]  e == b.intro[d.tid] IN
       /\ d.indexOk /\ SetOf(d.conns) = e.conns /\ d.cached = e.cached /\ d.qconn = e.qconn /\ d.qserial = e.qserial
       /\ d.pending = e.pending
  /\ {<<st.queryIntro[i].serial, st.queryIntro[i].tid>> : i \in 1..Len(st.queryIntro)} = {<<q, b.queryIntro[q]>> : q \in DOMAIN b.queryIntro}
  /\ st.stats.intros = Cardinality(DOMAIN b.intro)
  /\ b.shutdownNow = st.shutdownNow /\ b.shutdownIdle = st.shutdownIdle
  /\ b.stats.conns = st.stats.conns /\ b.stats.objs = st.stats.objs /\ b.stats.svcs = st.stats.svcs
  /\ b.stats.chans = st.stats.chans /\ b.stats.lsts = st.stats.lsts

\* one record: returns [b, why] with why = "" if the record is a step of the specification
StepOf(b, r, nxt) ==
  CASE r.t \in {"new", "shut", "sdc", "sdb", "sdi"} ->
         LET b2 == HandleEvent(WithAlive(b, r), EventOf(r), 0, PickFn(b, r)) IN
         [b |-> b2, why |-> IF BagOf(b2.out) = BagOf(r.out) THEN "" ELSE "sends of the event differ"]
    [] r.t = "msg" /\ r.m.k \in Unmodelled ->
         \* resynchronise: the sender is closed iff the trace removes it next
         LET closes == nxt.t = "work" /\ nxt.w = "removeConn" /\ nxt.c = r.c /\ ~nxt.sd
             b1 == [b EXCEPT !.out = <<>>] IN
         [b |-> IF closes THEN PushRemoveConn(b1, r.c, FALSE) ELSE b1, why |-> ""]
    [] r.t = "msg" ->
         LET k == IF r.m.k = "QueryServiceInfo" THEN InfoValTok(r) ELSE FreshCookie(r)
             b2 == HandleEvent(WithAlive(b, r), EventOf(r), k, PickFn(WithAlive(b, r), r)) IN
         [b |-> b2, why |-> IF b2.panic # "" THEN "the specification reaches panic site " \o b2.panic
                            ELSE IF BagOf(b2.out) = BagOf(r.out) THEN "" ELSE "sends of handler " \o r.m.k \o " differ"]
    [] r.t = "other" -> [b |-> [b EXCEPT !.out = <<>>], why |-> ""]
    [] r.t = "work" ->
         IF ~WorkLeft(b) THEN [b |-> b, why |-> "work popped although the specification has none left"]
         ELSE IF TopClass(b) # r.w THEN [b |-> b, why |-> "work class " \o r.w \o " popped, the specification expects " \o TopClass(b)]
         ELSE IF ItemOf(r) \notin DOMAIN b.work[r.w] THEN [b |-> b, why |-> "popped " \o r.w \o " item is not in the specification's list"]
         ELSE LET b2 == ProcessWork(WithAlive(b, r), r.w, ItemOf(r), PickFn(b, r)) IN
              [b |-> b2, why |-> IF b2.panic # "" THEN "the specification reaches panic site " \o b2.panic
                                 ELSE IF BagOf(b2.out) = BagOf(r.out) THEN "" ELSE "sends of work " \o r.w \o " differ"]
    [] r.t = "idle" ->
         IF WorkLeft(b) THEN [b |-> b, why |-> "idle although the specification has work left: " \o TopClass(b)]
         ELSE [b |-> [b EXCEPT !.out = <<>>], why |-> IF StateMatches(b, r.st) THEN "" ELSE "the broker's maps differ from the specification's state"]
    [] r.t = "stop" ->
         [b |-> b, why |-> IF b.shutdownNow \/ (b.shutdownIdle /\ DOMAIN b.conns = {}) THEN "" ELSE "the run loop was left although the stop condition is false"]
    [] OTHER -> [b |-> b, why |-> ""]          \* dead, probe, end, panic: harness markers

Init == l = 1 /\ bk = BrokerInit /\ lost = FALSE

Next ==
  /\ l <= Len(Rec)
  /\ LET r == Rec[l]
         nxt == IF l < Len(Rec) THEN Rec[l + 1] ELSE [t |-> "none"] IN
     IF r.t = "reset" THEN bk' = BrokerInit /\ lost' = FALSE
     ELSE IF lost THEN UNCHANGED <<bk, lost>>
     ELSE LET s == StepOf(bk, r, nxt) IN
          /\ bk' = s.b
          /\ lost' = (s.why # "")
          /\ (s.why # "") => PrintT(<<"DRIFT-AT", l, s.why>>)
          /\ (s.why # "" /\ "DEBUG" \in DOMAIN IOEnv) => PrintT(<<"DRIFT-DETAIL", s.b.out, r.out, s.b.panic>>)
  /\ l' = l + 1
Spec == Init /\ [][Next]_vars

Accepted == \/ TLCGet("stats").diameter - 1 = Len(Rec)
            \/ Print(<<"TRACE-NOT-CONSUMED", TLCGet("stats").diameter - 1, Len(Rec)>>, FALSE)
=============================================================================
