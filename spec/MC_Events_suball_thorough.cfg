SPECIFICATION Spec
CONSTANTS
  B = 4
  Conns = {0, 1, 2}
  Versions = {20}
  ObjUuids = {101, 102}
  SvcUuids = {201}
  Events = {0, 1}
  Fns = {0}
  CSerials = {0}
  Payloads = {1}
  TypeIds = {301}
  Caps <- CapsOne
  MaxCookie = 3
  InqBound = 1
  Kinds = {"SubscribeEvent", "UnsubscribeEvent", "EmitEvent", "SubscribeAllEvents", "UnsubscribeAllEvents", "DestroyService"}
  Faults = {"ends", "dropped"}
  WrongKinds = {}
  MsgBudget = 5
  InitSerial = 0
  Senders = {0, 1, 2}
  PoolKinds = {"live"}
  ScriptSel = "suball"
  V0 = 20
  V1 = 20

VIEW view
INVARIANTS ObserverOk NoPanicSite BoundaryConsistent FlagsOk StoppedClean
CHECK_DEADLOCK FALSE
