SPECIFICATION Spec
CONSTANTS
  Users = {1, 2}
  Events = {0, 1}
  OpKinds = {"call", "serve", "abort", "destroy"}
  MaxOps = 6
  MaxQueue = 3
INVARIANTS Emit InvType InvEvents
CHECK_DEADLOCK FALSE
