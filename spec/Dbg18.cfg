INIT DInit
NEXT DNext
CONSTANTS
  NRand = 12
  WsCount = 3
  PreLayouts = 1
POSTCONDITION Post
CHECK_DEADLOCK FALSE
