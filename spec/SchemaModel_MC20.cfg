SPECIFICATION Spec
CONSTANTS
  Deep = FALSE
  NRandU = 2
INVARIANTS
  Inv_WF
  Inv_Algo
  Inv_Perm
  Inv_Edit
POSTCONDITION Emit
CHECK_DEADLOCK FALSE
