SPECIFICATION Spec
CONSTANTS
  Ids = {0, 1, 2, 5}
  MaxLen = 3
  NRand = 8
INVARIANTS
  Inv_Rule
  Inv_WFD
  Inv_Explicit
  Inv_Classes
POSTCONDITION Emit
CHECK_DEADLOCK FALSE
