------------------------------ MODULE SchemaTypes ------------------------------
(* C16 -- the wire contract of the Rust types that aldrin-codegen + the derive macros generate for a
   schema, at the level of aldrin_core::Value trees (the container ENCODING flavour -- counted "V1" or
   terminated "V2" -- is invisible at this level: both decode to the same Value; bytes are produced and
   read back by the real core serializer in the driver).

   Three formulations of the contract, related by theorems that TLC checks on every enumerated case:
     Conforms(v, t)      declarative: the dynamic value v is an instance of schema type t
     Trans(v, t)         operational, shaped like the generated code (macros/src/derive/{de,}serialize.rs
                         + core/src/{de,}serializer/struct_.rs, enum_.rs): decode v as the generated
                         type, then encode that; [ok |-> accepted, out |-> re-encoded Value]
     Norm(v, t), Equiv   declarative: the value the re-encoding must be / the meaning of "equivalent"
     NormMax(v, t)       the most verbose equivalent re-encoding (unset optional fields as explicit None):
                         what lies between Norm and NormMax is equivalent but not the reference's output
   DecodeVerdict / Reencode are the names used by the design; they are projections of Trans.
   MutationsOf(d, salt): the systematic non-instances of a definition (required field missing, wrongly
   typed field -- wrong kind, right container with wrong content, wrong key kind, wrong array length --,
   unknown variant without fallback, payload on a unit variant, wrong kind of the whole value).

   Corpus(seed, thorough): the bounded corpus of schema definitions (library definitions, structs,
   enums, newtypes, old/new pairs) and, per definition, conforming values and systematic mutations.
   Theorems (ThmConforming, ThmMutation, ThmFieldAdded, ThmVariantAdded, ThmType) are evaluated by TLC in
   SchemaTypes_MC on every element of the corpus and on every type expression of the list FT. *)
EXTENDS Integers, Sequences, FiniteSets, TLC, SequencesExt

--------------------------------------------------------------------------------
(* Schema types *)
TPrim(n) == [t |-> n]
TOpt(a) == [t |-> "option", a |-> a]
TBox(a) == [t |-> "box", a |-> a]
TVec(a) == [t |-> "vec", a |-> a]
TSet(a) == [t |-> "set", a |-> a]
TSender(a) == [t |-> "sender", a |-> a]
TReceiver(a) == [t |-> "receiver", a |-> a]
TMap(k, a) == [t |-> "map", k |-> k, a |-> a]
TRes(a, b) == [t |-> "result", a |-> a, b |-> b]
TArr(a, n) == [t |-> "array", a |-> a, n |-> n]
TRef(name) == [t |-> "ref", name |-> name]

\* built-in types with exactly one admissible value kind (lifetime travels as an object id)
LeafKind == [bool |-> "Bool", u8 |-> "U8", i8 |-> "I8", u16 |-> "U16", i16 |-> "I16", u32 |-> "U32", i32 |-> "I32",
             u64 |-> "U64", i64 |-> "I64", f32 |-> "F32", f64 |-> "F64", string |-> "String", uuid |-> "Uuid",
             object_id |-> "ObjectId", service_id |-> "ServiceId", bytes |-> "Bytes", lifetime |-> "ObjectId"]
IsLeaf(t) == t.t \in DOMAIN LeafKind
\* admissible key types of map<K -> _> / set<K> and the key kind of the container value
KeyKindOfPrim == [u8 |-> "U8", i8 |-> "I8", u16 |-> "U16", i16 |-> "I16", u32 |-> "U32", i32 |-> "I32",
                  u64 |-> "U64", i64 |-> "I64", string |-> "String", uuid |-> "Uuid"]
KeyKinds == {KeyKindOfPrim[n] : n \in DOMAIN KeyKindOfPrim}

\* definitions
Fld(id, req, ty) == [id |-> id, req |-> req, ty |-> ty]
Var(id, has, ty) == [id |-> id, has |-> has, ty |-> ty]           \* ty = unit when ~has
DStruct(name, fields, fb) == [d |-> "struct", name |-> name, fields |-> fields, fb |-> fb]
DEnum(name, vars, fb) == [d |-> "enum", name |-> name, vars |-> vars, fb |-> fb]
DNewtype(name, ty) == [d |-> "newtype", name |-> name, ty |-> ty]

TU32 == TPrim("u32")
TStr == TPrim("string")
TUnit == TPrim("unit")

\* The library: the definitions that type expressions may reference. Leaf/Color/Id live in the imported
\* schema `lib` (extern references lib::X), LeafF/ColorF/Name in the referencing schema itself.
Lib == [Leaf |-> DStruct("Leaf", <<Fld(1, TRUE, TU32), Fld(2, FALSE, TStr)>>, FALSE),
        LeafF |-> DStruct("LeafF", <<Fld(2, FALSE, TPrim("i16")), Fld(5, TRUE, TPrim("bool"))>>, TRUE),
        Color |-> DEnum("Color", <<Var(0, FALSE, TUnit), Var(2, TRUE, TPrim("u8"))>>, FALSE),
        ColorF |-> DEnum("ColorF", <<Var(1, FALSE, TUnit), Var(4, TRUE, TStr)>>, TRUE),
        Id |-> DNewtype("Id", TU32),
        Name |-> DNewtype("Name", TStr)]
LibNames == <<"Leaf", "LeafF", "Color", "ColorF", "Id", "Name">>
LibExtern == {"Leaf", "Color", "Id"}

RECURSIVE KeyKindOf(_)
KeyKindOf(t) == IF t.t = "ref" THEN KeyKindOf(Lib[t.name].ty) ELSE KeyKindOfPrim[t.t]
RECURSIVE IsKeyType(_)
IsKeyType(t) == IF t.t = "ref" THEN Lib[t.name].d = "newtype" /\ IsKeyType(Lib[t.name].ty) ELSE t.t \in DOMAIN KeyKindOfPrim
\* codegen/src/rust.rs type_name: vec<u8> is emitted as core::Bytes (only for the literal element type u8)
IsU8(t) == t.t = "u8"

FieldIds(d) == {d.fields[j].id : j \in 1..Len(d.fields)}
FieldOf(d, id) == d.fields[CHOOSE j \in 1..Len(d.fields) : d.fields[j].id = id]
VarIds(d) == {d.vars[j].id : j \in 1..Len(d.vars)}
VarOf(d, id) == d.vars[CHOOSE j \in 1..Len(d.vars) : d.vars[j].id = id]
\* the wire type of a field: an optional field of type T travels as option<T> (or is absent)
FW(fld) == IF fld.req THEN fld.ty ELSE TOpt(fld.ty)

RECURSIVE Nesting(_)
Nesting(t) ==
  CASE t.t \in {"option", "box", "vec", "sender", "receiver", "array"} -> 1 + Nesting(t.a)
    [] t.t = "map" -> 1 + Nesting(t.a)
    [] t.t = "result" -> 1 + (IF Nesting(t.a) > Nesting(t.b) THEN Nesting(t.a) ELSE Nesting(t.b))
    [] t.t = "set" -> 1
    [] OTHER -> 0
RECURSIVE TypeOk(_)
TypeOk(t) ==
  CASE t.t \in {"option", "box", "vec", "sender", "receiver"} -> TypeOk(t.a)
    [] t.t = "array" -> TypeOk(t.a) /\ t.n \in 1..3
    [] t.t = "map" -> IsKeyType(t.k) /\ TypeOk(t.a)
    [] t.t = "set" -> IsKeyType(t.a)
    [] t.t = "result" -> TypeOk(t.a) /\ TypeOk(t.b)
    [] t.t = "ref" -> t.name \in DOMAIN Lib
    [] OTHER -> IsLeaf(t) \/ t.t \in {"value", "unit"}
\* a valid schema definition within the bounds of the corpus
WellFormed(d) ==
  CASE d.d = "struct" -> /\ Len(d.fields) <= 3 /\ Cardinality(FieldIds(d)) = Len(d.fields)
                         /\ \A j \in 1..Len(d.fields) : TypeOk(d.fields[j].ty) /\ Nesting(d.fields[j].ty) <= 2
    [] d.d = "enum" -> /\ Len(d.vars) \in 1..3 /\ Cardinality(VarIds(d)) = Len(d.vars)
                       /\ \A j \in 1..Len(d.vars) : TypeOk(d.vars[j].ty) /\ Nesting(d.vars[j].ty) <= 2
                                                    /\ (~d.vars[j].has => d.vars[j].ty = TUnit)
    [] d.d = "newtype" -> TypeOk(d.ty) /\ Nesting(d.ty) <= 2

--------------------------------------------------------------------------------
(* Dynamic values: the aldrin_core::Value tree. Leaves are (kind, sample token): the concrete number /
   string / uuid behind a token is chosen by the driver (kind-indexed sample tables), the contract only
   looks at kinds. Map / struct contents are functions from key tokens / field ids to values. *)
VNone == [k |-> "None"]
VSome(v) == [k |-> "Some", v |-> v]
VLeaf(kind, x) == [k |-> kind, x |-> x]
VVec(e) == [k |-> "Vec", e |-> e]
VMap(kk, m) == [k |-> "Map", kk |-> kk, m |-> m]
VSet(kk, s) == [k |-> "Set", kk |-> kk, s |-> s]
VStruct(f) == [k |-> "Struct", f |-> f]
VEnum(id, v) == [k |-> "Enum", id |-> id, v |-> v]
Restr(f, S) == [x \in S |-> f[x]]
Without(v, id) == VStruct(Restr(v.f, DOMAIN v.f \ {id}))
WithField(v, id, x) == VStruct((id :> x) @@ v.f)

--------------------------------------------------------------------------------
(* Conforms: v is an instance of t. Unknown field ids are tolerated in every struct; an unknown variant
   id is an instance only of an enum with a fallback. *)
RECURSIVE Conforms(_, _), ConformsDef(_, _)
Conforms(v, t) ==
  CASE IsLeaf(t) -> v.k = LeafKind[t.t]
    [] t.t = "value" -> TRUE
    [] t.t = "unit" -> v.k = "None"
    [] t.t = "option" -> v.k = "None" \/ (v.k = "Some" /\ Conforms(v.v, t.a))
    [] t.t = "box" -> Conforms(v, t.a)
    [] t.t = "vec" -> IF IsU8(t.a) THEN v.k = "Bytes"
                      ELSE v.k = "Vec" /\ \A i \in 1..Len(v.e) : Conforms(v.e[i], t.a)
    [] t.t = "array" -> v.k = "Vec" /\ Len(v.e) = t.n /\ \A i \in 1..Len(v.e) : Conforms(v.e[i], t.a)
    [] t.t = "map" -> v.k = "Map" /\ v.kk = KeyKindOf(t.k) /\ \A key \in DOMAIN v.m : Conforms(v.m[key], t.a)
    [] t.t = "set" -> v.k = "Set" /\ v.kk = KeyKindOf(t.a)
    [] t.t = "result" -> v.k = "Enum" /\ ((v.id = 0 /\ Conforms(v.v, t.a)) \/ (v.id = 1 /\ Conforms(v.v, t.b)))
    [] t.t = "sender" -> v.k = "Sender"
    [] t.t = "receiver" -> v.k = "Receiver"
    [] t.t = "ref" -> ConformsDef(v, Lib[t.name])
ConformsDef(v, d) ==
  CASE d.d = "struct" ->
         /\ v.k = "Struct"
         /\ \A j \in 1..Len(d.fields) :
              LET fld == d.fields[j] IN
              IF fld.id \in DOMAIN v.f THEN Conforms(v.f[fld.id], FW(fld)) ELSE ~fld.req
    [] d.d = "enum" ->
         /\ v.k = "Enum"
         /\ IF v.id \in VarIds(d)
              THEN LET var == VarOf(d, v.id) IN IF var.has THEN Conforms(v.v, var.ty) ELSE v.v.k = "None"
              ELSE d.fb
    [] d.d = "newtype" -> Conforms(v, d.ty)

--------------------------------------------------------------------------------
(* Norm: the value a conforming v must be re-encoded to. Optional fields are emitted only when Some;
   unknown field ids are dropped unless the struct has a fallback, in which case they are kept verbatim
   (the same for unknown variants); everything else is unchanged. *)
RECURSIVE Norm(_, _), NormDef(_, _)
Norm(v, t) ==
  CASE t.t = "option" -> IF v.k = "Some" THEN VSome(Norm(v.v, t.a)) ELSE v
    [] t.t = "box" -> Norm(v, t.a)
    [] t.t = "vec" -> IF IsU8(t.a) THEN v ELSE VVec([i \in 1..Len(v.e) |-> Norm(v.e[i], t.a)])
    [] t.t = "array" -> VVec([i \in 1..Len(v.e) |-> Norm(v.e[i], t.a)])
    [] t.t = "map" -> VMap(v.kk, [key \in DOMAIN v.m |-> Norm(v.m[key], t.a)])
    [] t.t = "result" -> VEnum(v.id, Norm(v.v, IF v.id = 0 THEN t.a ELSE t.b))
    [] t.t = "ref" -> NormDef(v, Lib[t.name])
    [] OTHER -> v
NormDef(v, d) ==
  CASE d.d = "struct" ->
         LET known == FieldIds(d)
             keep == {id \in DOMAIN v.f : IF id \in known THEN FieldOf(d, id).req \/ v.f[id].k = "Some" ELSE d.fb}
         IN VStruct([id \in keep |-> IF id \in known THEN Norm(v.f[id], FW(FieldOf(d, id))) ELSE v.f[id]])
    [] d.d = "enum" ->
         IF v.id \in VarIds(d) /\ VarOf(d, v.id).has THEN VEnum(v.id, Norm(v.v, VarOf(d, v.id).ty)) ELSE v
    [] d.d = "newtype" -> Norm(v, d.ty)

(* NormMax: the other end of the range of acceptable re-encodings. The statement asks for an EQUIVALENT value;
   an encoder that writes an unset optional field as an explicit None (instead of leaving it out, as
   serialize_if_some does) still produces an equivalent instance. Every value "between" Norm and NormMax
   (each declared optional field that is not Some either absent or None, at every nesting level) is
   equivalent to the input; only Norm itself is the reference's own output (anything else: DRIFT). *)
RECURSIVE NormMax(_, _), NormMaxDef(_, _)
NormMax(v, t) ==
  CASE t.t = "option" -> IF v.k = "Some" THEN VSome(NormMax(v.v, t.a)) ELSE v
    [] t.t = "box" -> NormMax(v, t.a)
    [] t.t = "vec" -> IF IsU8(t.a) THEN v ELSE VVec([i \in 1..Len(v.e) |-> NormMax(v.e[i], t.a)])
    [] t.t = "array" -> VVec([i \in 1..Len(v.e) |-> NormMax(v.e[i], t.a)])
    [] t.t = "map" -> VMap(v.kk, [key \in DOMAIN v.m |-> NormMax(v.m[key], t.a)])
    [] t.t = "result" -> VEnum(v.id, NormMax(v.v, IF v.id = 0 THEN t.a ELSE t.b))
    [] t.t = "ref" -> NormMaxDef(v, Lib[t.name])
    [] OTHER -> v
NormMaxDef(v, d) ==
  CASE d.d = "struct" ->
         LET known == FieldIds(d)
             keep == known \cup {id \in DOMAIN v.f \ known : d.fb}
         IN VStruct([id \in keep |-> IF id \notin known THEN v.f[id]
                                     ELSE IF id \in DOMAIN v.f THEN NormMax(v.f[id], FW(FieldOf(d, id))) ELSE VNone])
    [] d.d = "enum" ->
         IF v.id \in VarIds(d) /\ VarOf(d, v.id).has THEN VEnum(v.id, NormMax(v.v, VarOf(d, v.id).ty)) ELSE v
    [] d.d = "newtype" -> NormMax(v, d.ty)

(* Equiv: a and b (both instances of t) denote the same typed data -- what "re-encodes it to an
   equivalent value" means: an optional field that is absent equals one that is None; unknown fields
   matter only where a fallback keeps them. *)
IsSomeAt(v, id) == id \in DOMAIN v.f /\ v.f[id].k = "Some"
RECURSIVE Equiv(_, _, _), EquivDef(_, _, _)
Equiv(a, b, t) ==
  CASE t.t = "option" -> a.k = b.k /\ (a.k = "Some" => Equiv(a.v, b.v, t.a))
    [] t.t = "box" -> Equiv(a, b, t.a)
    [] t.t \in {"vec", "array"} ->
         IF t.t = "vec" /\ IsU8(t.a) THEN a = b
         ELSE Len(a.e) = Len(b.e) /\ \A i \in 1..Len(a.e) : Equiv(a.e[i], b.e[i], t.a)
    [] t.t = "map" -> a.kk = b.kk /\ DOMAIN a.m = DOMAIN b.m /\ \A key \in DOMAIN a.m : Equiv(a.m[key], b.m[key], t.a)
    [] t.t = "result" -> a.id = b.id /\ Equiv(a.v, b.v, IF a.id = 0 THEN t.a ELSE t.b)
    [] t.t = "ref" -> EquivDef(a, b, Lib[t.name])
    [] OTHER -> a = b
EquivDef(a, b, d) ==
  CASE d.d = "struct" ->
         /\ \A j \in 1..Len(d.fields) :
              LET fld == d.fields[j] IN
              IF fld.req THEN Equiv(a.f[fld.id], b.f[fld.id], fld.ty)
              ELSE /\ IsSomeAt(a, fld.id) <=> IsSomeAt(b, fld.id)
                   /\ IsSomeAt(a, fld.id) => Equiv(a.f[fld.id].v, b.f[fld.id].v, fld.ty)
         /\ d.fb => Restr(a.f, DOMAIN a.f \ FieldIds(d)) = Restr(b.f, DOMAIN b.f \ FieldIds(d))
    [] d.d = "enum" ->
         /\ a.id = b.id
         /\ IF a.id \in VarIds(d) THEN (VarOf(d, a.id).has => Equiv(a.v, b.v, VarOf(d, a.id).ty)) ELSE a = b
    [] d.d = "newtype" -> Equiv(a, b, d.ty)

--------------------------------------------------------------------------------
(* Trans: what the generated code does with v -- Deserialize as the generated Rust type, then Serialize
   that. Written as the code is: strict kind checks at the leaves (Deserializer::deserialize_u32 ...),
   element loops that stop at the first error, the derive's field loop
       vars := None; for each (id, value) on the wire: known id -> var := decode | unknown id -> fallback?
       add_to_unknown_fields : skip;   finish: every required var must be set
   and the derive's serializer: unknown fields first (serialize_struct2_with_unknown_fields), then the
   declared fields in order, optional ones through serialize_if_some. *)
Fail == [ok |-> FALSE, out |-> VNone]
Ok(o) == [ok |-> TRUE, out |-> o]

RECURSIVE Trans(_, _), TransDef(_, _), TransElems(_, _, _, _), TransEntries(_, _, _, _, _), StructLoop(_, _, _, _, _)
\* elements e[i..] of a vec / array, accumulated output acc
TransElems(e, i, t, acc) ==
  IF i > Len(e) THEN Ok(acc)
  ELSE LET r == Trans(e[i], t) IN IF r.ok THEN TransElems(e, i + 1, t, Append(acc, r.out)) ELSE Fail
\* map entries in wire order keys[i..]
TransEntries(keys, i, m, t, acc) ==
  IF i > Len(keys) THEN Ok(acc)
  ELSE LET r == Trans(m[keys[i]], t) IN IF r.ok THEN TransEntries(keys, i + 1, m, t, (keys[i] :> r.out) @@ acc) ELSE Fail
Trans(v, t) ==
  CASE IsLeaf(t) -> IF v.k = LeafKind[t.t] THEN Ok(v) ELSE Fail
    [] t.t = "value" -> Ok(v)                                       \* SerializedValue: any value, kept as bytes
    [] t.t = "unit" -> IF v.k = "None" THEN Ok(VNone) ELSE Fail
    [] t.t = "option" ->                                            \* Deserializer::deserialize_option
         CASE v.k = "None" -> Ok(VNone)
           [] v.k = "Some" -> LET r == Trans(v.v, t.a) IN IF r.ok THEN Ok(VSome(r.out)) ELSE Fail
           [] OTHER -> Fail
    [] t.t = "box" -> Trans(v, t.a)
    [] t.t = "vec" ->
         IF IsU8(t.a) THEN (IF v.k = "Bytes" THEN Ok(v) ELSE Fail)
         ELSE IF v.k # "Vec" THEN Fail
         ELSE LET r == TransElems(v.e, 1, t.a, <<>>) IN IF r.ok THEN Ok(VVec(r.out)) ELSE Fail
    [] t.t = "array" ->                                             \* impls/vec.rs Deserialize for [U; N]
         IF v.k # "Vec" THEN Fail
         ELSE IF Len(v.e) < t.n THEN Fail                           \* NoMoreElements (or an element error before)
         ELSE LET r == TransElems(SubSeq(v.e, 1, t.n), 1, t.a, <<>>) IN
              IF ~r.ok THEN Fail ELSE IF Len(v.e) > t.n THEN Fail   \* finish(): MoreElementsRemain
              ELSE Ok(VVec(r.out))
    [] t.t = "map" ->
         IF v.k # "Map" \/ v.kk # KeyKindOf(t.k) THEN Fail
         ELSE LET r == TransEntries(SetToSeq(DOMAIN v.m), 1, v.m, t.a, <<>>) IN IF r.ok THEN Ok(VMap(v.kk, r.out)) ELSE Fail
    [] t.t = "set" -> IF v.k = "Set" /\ v.kk = KeyKindOf(t.a) THEN Ok(v) ELSE Fail
    [] t.t = "result" ->                                            \* impls/result.rs: enum ids 0 / 1
         IF v.k # "Enum" THEN Fail
         ELSE CASE v.id = 0 -> LET r == Trans(v.v, t.a) IN IF r.ok THEN Ok(VEnum(0, r.out)) ELSE Fail
                [] v.id = 1 -> LET r == Trans(v.v, t.b) IN IF r.ok THEN Ok(VEnum(1, r.out)) ELSE Fail
                [] OTHER -> Fail
    [] t.t = "sender" -> IF v.k = "Sender" THEN Ok(v) ELSE Fail
    [] t.t = "receiver" -> IF v.k = "Receiver" THEN Ok(v) ELSE Fail
    [] t.t = "ref" -> TransDef(v, Lib[t.name])

\* the derive's field loop over the ids in wire order; st = [ok, vars: id -> re-encoded wire value, unk: id -> value]
StructLoop(ids, i, d, v, st) ==
  IF i > Len(ids) \/ ~st.ok THEN st
  ELSE LET id == ids[i] IN
       IF id \in FieldIds(d)
         THEN LET r == Trans(v.f[id], FW(FieldOf(d, id))) IN
              IF r.ok THEN StructLoop(ids, i + 1, d, v, [st EXCEPT !.vars = (id :> r.out) @@ @])
              ELSE [st EXCEPT !.ok = FALSE]
         ELSE StructLoop(ids, i + 1, d, v, IF d.fb THEN [st EXCEPT !.unk = (id :> v.f[id]) @@ @] ELSE st)
TransDef(v, d) ==
  CASE d.d = "struct" ->
         IF v.k # "Struct" THEN Fail
         ELSE LET st == StructLoop(SetToSeq(DOMAIN v.f), 1, d, v, [ok |-> TRUE, vars |-> <<>>, unk |-> <<>>]) IN
              IF ~st.ok THEN Fail
              ELSE IF \E j \in 1..Len(d.fields) : d.fields[j].req /\ d.fields[j].id \notin DOMAIN st.vars THEN Fail
              ELSE LET emitted == {id \in DOMAIN st.vars : FieldOf(d, id).req \/ st.vars[id].k = "Some"}   \* serialize_if_some
                   IN Ok(VStruct(Restr(st.vars, emitted) @@ st.unk))
    [] d.d = "enum" ->
         IF v.k # "Enum" THEN Fail
         ELSE IF v.id \in VarIds(d)
           THEN LET var == VarOf(d, v.id) IN
                IF var.has THEN LET r == Trans(v.v, var.ty) IN IF r.ok THEN Ok(VEnum(v.id, r.out)) ELSE Fail
                ELSE IF v.v.k = "None" THEN Ok(VEnum(v.id, VNone)) ELSE Fail          \* deserialize_unit
           ELSE IF d.fb THEN Ok(v) ELSE Fail                                          \* into_unknown_variant | InvalidSerialization
    [] d.d = "newtype" -> Trans(v, d.ty)

DecodeVerdict(v, d) == IF TransDef(v, d).ok THEN "accept" ELSE "reject"
Reencode(v, d) == TransDef(v, d).out

--------------------------------------------------------------------------------
(* Theorems, evaluated by TLC on every enumerated (definition, value) *)
UnknownIds(v, d) == DOMAIN v.f \ FieldIds(d)
ThmConforming(v, d) ==
  LET r == TransDef(v, d) IN
  /\ ConformsDef(v, d)
  /\ r.ok                                                         \* conforming => accepted
  /\ ConformsDef(r.out, d)                                        \* the re-encoding is an instance again
  /\ EquivDef(v, r.out, d)                                        \* ... equivalent to the input
  /\ r.out = NormDef(v, d)                                        \* ... and exactly the declarative normal form
  /\ TransDef(r.out, d) = r                                       \* re-encoding is idempotent
  /\ LET mx == NormMaxDef(v, d) IN                                \* the most verbose equivalent re-encoding
     ConformsDef(mx, d) /\ EquivDef(v, mx, d) /\ TransDef(mx, d) = r
  /\ (d.d = "struct" /\ d.fb) => \A id \in UnknownIds(v, d) : id \in DOMAIN r.out.f /\ r.out.f[id] = v.f[id]
  /\ (d.d = "struct" /\ ~d.fb) => DOMAIN r.out.f \subseteq FieldIds(d)
  /\ (d.d = "enum" /\ v.id \notin VarIds(d)) => r.out = v         \* (only possible with a fallback)
ThmMutation(m, d) == ~ConformsDef(m, d) /\ ~TransDef(m, d).ok

\* type expressions on their own: declarative and operational reading agree on every value offered
ThmType(t, samples, others) ==
  /\ \A i \in 1..Len(samples) :
       LET x == samples[i]  r == Trans(x, t) IN
       /\ Conforms(x, t) /\ r.ok /\ r.out = Norm(x, t) /\ Conforms(r.out, t) /\ Equiv(x, r.out, t) /\ Trans(r.out, t) = r
       /\ LET mx == NormMax(x, t) IN Conforms(mx, t) /\ Equiv(x, mx, t) /\ Trans(mx, t) = r
  /\ \A i \in 1..Len(others) : Conforms(others[i], t) <=> Trans(others[i], t).ok

\* old/new schema pairs: v is data written by the NEW schema
ThmFieldAdded(v, old, new, newid) ==
  LET r1 == TransDef(v, old) IN
  /\ ConformsDef(v, new)
  /\ r1.ok                                                        \* old code tolerates the unknown field
  /\ IF old.fb THEN LET r2 == TransDef(r1.out, new) IN r2.ok /\ r2.out = NormDef(v, new) /\ EquivDef(v, r2.out, new)
     ELSE newid \notin DOMAIN r1.out.f /\ r1.out = NormDef(Without(v, newid), new)
ThmVariantAdded(v, old, new, newid) ==
  LET r1 == TransDef(v, old) IN
  /\ ConformsDef(v, new)
  /\ IF v.id = newid
       THEN IF old.fb THEN r1.ok /\ r1.out = v /\ TransDef(r1.out, new).ok /\ TransDef(r1.out, new).out = NormDef(v, new)
            ELSE ~r1.ok
       ELSE r1.ok /\ r1.out = NormDef(v, new)

--------------------------------------------------------------------------------
(* Sample values of a type (a short sequence of instances, the first one is "the" sample) *)
KeyOther(kk) == IF kk = "U8" THEN "U16" ELSE IF kk = "String" THEN "Uuid" ELSE "U8"
ValueSamples == <<VLeaf("U8", 1), VStruct((1 :> VSome(VLeaf("String", 1))) @@ (3 :> VNone)), VNone,
                  VVec(<<VNone, VLeaf("I64", 2)>>), VEnum(3, VLeaf("Bool", 1))>>
Last2(s) == s[Len(s)]
RECURSIVE Samples(_), SamplesDef(_)
Samples(t) ==
  CASE IsLeaf(t) -> <<VLeaf(LeafKind[t.t], 1), VLeaf(LeafKind[t.t], 0), VLeaf(LeafKind[t.t], 2)>>
    [] t.t = "value" -> ValueSamples
    [] t.t = "unit" -> <<VNone>>
    [] t.t = "option" -> LET s == Samples(t.a) IN <<VSome(s[1]), VNone>> \o (IF Len(s) > 1 THEN <<VSome(s[2])>> ELSE <<>>)
    [] t.t = "box" -> Samples(t.a)
    [] t.t = "vec" -> IF IsU8(t.a) THEN <<VLeaf("Bytes", 1), VLeaf("Bytes", 0)>>
                      ELSE LET s == Samples(t.a) IN <<VVec(<<s[1]>>), VVec(<<>>), VVec(<<Last2(s), s[1]>>)>>
    [] t.t = "array" -> LET s == Samples(t.a) IN
                        <<VVec([i \in 1..t.n |-> s[1 + ((i - 1) % Len(s))]]), VVec([i \in 1..t.n |-> Last2(s)])>>
    [] t.t = "map" -> LET s == Samples(t.a)  kk == KeyKindOf(t.k) IN
                      <<VMap(kk, 1 :> s[1]), VMap(kk, <<>>), VMap(kk, (0 :> Last2(s)) @@ (2 :> s[1]))>>
    [] t.t = "set" -> LET kk == KeyKindOf(t.a) IN <<VSet(kk, {1}), VSet(kk, {}), VSet(kk, {0, 1, 2, 3})>>
    [] t.t = "result" -> LET a == Samples(t.a)  b == Samples(t.b) IN <<VEnum(0, a[1]), VEnum(1, b[1]), VEnum(0, Last2(a))>>
    [] t.t = "sender" -> <<VLeaf("Sender", 1), VLeaf("Sender", 0)>>
    [] t.t = "receiver" -> <<VLeaf("Receiver", 1), VLeaf("Receiver", 2)>>
    [] t.t = "ref" -> SamplesDef(Lib[t.name])

\* struct helpers
BaseStruct(d) == VStruct([id \in FieldIds(d) |-> Samples(FW(FieldOf(d, id)))[1]])
MinStruct(d) == VStruct([id \in {x \in FieldIds(d) : FieldOf(d, x).req} |-> Samples(FieldOf(d, id).ty)[1]])
UnkA(v) == VStruct(v.f @@ (90 :> VLeaf("U32", 1)))
UnkB(v) == VStruct(v.f @@ (91 :> VNone) @@ (4 :> VStruct(1 :> VSome(VLeaf("String", 2)))))
SamplesDef(d) ==
  CASE d.d = "struct" -> <<BaseStruct(d), UnkA(MinStruct(d)), MinStruct(d)>>
    [] d.d = "enum" -> [j \in 1..Len(d.vars) |-> VEnum(d.vars[j].id, IF d.vars[j].has THEN Samples(d.vars[j].ty)[1] ELSE VNone)]
                       \o (IF d.fb THEN <<VEnum(77, VLeaf("U16", 1))>> ELSE <<>>)
    [] d.d = "newtype" -> Samples(d.ty)

--------------------------------------------------------------------------------
(* Non-instances of a type *)
Pool == <<VLeaf("String", 1), VLeaf("U32", 1), VLeaf("U16", 1), VLeaf("I8", 1), VLeaf("U8", 1), VLeaf("I64", 1),
          VLeaf("U64", 1), VLeaf("I32", 1), VLeaf("I16", 1), VLeaf("Bool", 1), VLeaf("F64", 1), VLeaf("F32", 1),
          VNone, VSome(VNone), VSome(VLeaf("U32", 1)), VLeaf("Bytes", 1), VVec(<<>>), VVec(<<VLeaf("U8", 1)>>),
          VVec(<<VLeaf("String", 1)>>), VStruct(<<>>), VEnum(0, VNone), VEnum(7, VNone), VMap("U8", <<>>),
          VMap("U16", <<>>), VMap("String", <<>>), VSet("U8", {}), VSet("String", {}), VSet("U32", {1}),
          VLeaf("Uuid", 1), VLeaf("ObjectId", 1), VLeaf("ServiceId", 1), VLeaf("Sender", 1), VLeaf("Receiver", 1)>>
KindWrongs(t) == SelectSeq(Pool, LAMBDA w : ~Conforms(w, t))
First1(s) == IF Len(s) > 0 THEN <<s[1]>> ELSE <<>>
RECURSIVE Deep(_), DeepDef(_), AnyWrong(_)
AnyWrong(t) == LET kw == KindWrongs(t) IN IF Len(kw) > 0 THEN <<kw[1]>> ELSE First1(Deep(t))
\* structurally built non-instances: right container, wrong content
Deep(t) ==
  CASE t.t = "option" -> LET w == AnyWrong(t.a) IN [i \in 1..Len(w) |-> VSome(w[i])]
    [] t.t = "box" -> Deep(t.a)
    [] t.t = "vec" -> IF IsU8(t.a) THEN <<>> ELSE LET w == AnyWrong(t.a) IN [i \in 1..Len(w) |-> VVec(<<Samples(t.a)[1], w[i]>>)]
    [] t.t = "array" -> LET s == Samples(t.a)[1]  w == AnyWrong(t.a) IN
                        <<VVec([i \in 1..(t.n + 1) |-> s]), VVec([i \in 1..(t.n - 1) |-> s])>>
                        \o [i \in 1..Len(w) |-> VVec([x \in 1..t.n |-> IF x = t.n THEN w[i] ELSE s])]
    [] t.t = "map" -> LET w == AnyWrong(t.a)  s == Samples(t.a)[1] IN
                      <<VMap(KeyOther(KeyKindOf(t.k)), 1 :> s)>>
                      \o [i \in 1..Len(w) |-> VMap(KeyKindOf(t.k), (1 :> s) @@ (2 :> w[i]))]
    [] t.t = "set" -> <<VSet(KeyOther(KeyKindOf(t.a)), {1})>>
    [] t.t = "result" -> LET wa == AnyWrong(t.a)  wb == AnyWrong(t.b) IN
                         <<VEnum(2, VNone)>> \o [i \in 1..Len(wa) |-> VEnum(0, wa[i])] \o [i \in 1..Len(wb) |-> VEnum(1, wb[i])]
    [] t.t = "ref" -> DeepDef(Lib[t.name])
    [] OTHER -> <<>>
DeepDef(d) ==
  CASE d.d = "struct" ->
         LET base == BaseStruct(d) IN
         FlattenSeq([j \in 1..Len(d.fields) |->
           LET fld == d.fields[j]  w == AnyWrong(FW(fld)) IN
           (IF fld.req THEN <<Without(base, fld.id)>> ELSE <<>>)
           \o [i \in 1..Len(w) |-> WithField(base, fld.id, w[i])]])
    [] d.d = "enum" ->
         (IF d.fb THEN <<>> ELSE <<VEnum(77, VNone)>>)
         \o FlattenSeq([j \in 1..Len(d.vars) |->
              LET var == d.vars[j]  w == AnyWrong(var.ty) IN
              IF var.has THEN [i \in 1..Len(w) |-> VEnum(var.id, w[i])]
              ELSE <<VEnum(var.id, VLeaf("Bool", 1))>>])
    [] d.d = "newtype" -> Deep(d.ty)
\* up to two kind-level non-instances (rotating through the pool with salt) plus the structural ones
PickWrongs(t, salt) ==
  LET kw == KindWrongs(t)  n == Len(kw) IN
  (IF n = 0 THEN <<>> ELSE IF n = 1 THEN <<kw[1]>> ELSE <<kw[1 + (salt % n)], kw[1 + ((salt + 1 + n \div 2) % n)]>>)
  \o (LET dp == Deep(t) IN SubSeq(dp, 1, IF Len(dp) > 3 THEN 3 ELSE Len(dp)))

--------------------------------------------------------------------------------
(* Vectors of a definition: [cls, v]. Conforming classes first, then the mutations. *)
Item(cls, v) == [cls |-> cls, v |-> v]
ConformingOf(d) ==
  CASE d.d = "struct" ->
         LET base == BaseStruct(d)  min == MinStruct(d) IN
         <<Item("conforming", base)>>
         \o FlattenSeq([j \in 1..Len(d.fields) |->
              LET fld == d.fields[j]  s == Samples(FW(fld)) IN
              [x \in 1..(Len(s) - 1) |-> Item("conforming", WithField(base, fld.id, s[x + 1]))]
              \o (IF fld.req THEN <<>> ELSE <<Item("optional_absent", Without(base, fld.id))>>)])
         \o <<Item("minimal", min), Item("unknown_fields", UnkA(base)), Item("unknown_fields", UnkB(min)),
              Item("unknown_fields", UnkB(UnkA(base)))>>
    [] d.d = "enum" ->
         FlattenSeq([j \in 1..Len(d.vars) |->
           LET var == d.vars[j] IN
           IF var.has THEN LET sm == Samples(var.ty) IN [x \in 1..Len(sm) |-> Item("conforming", VEnum(var.id, sm[x]))]
           ELSE <<Item("conforming", VEnum(var.id, VNone))>>])
         \o (IF d.fb THEN <<Item("unknown_variant", VEnum(77, VNone)), Item("unknown_variant", VEnum(9, VVec(<<VLeaf("U8", 1), VNone>>))),
                            Item("unknown_variant", VEnum(6, VStruct(2 :> VLeaf("String", 2))))>> ELSE <<>>)
    [] d.d = "newtype" -> LET sm == Samples(d.ty) IN [x \in 1..Len(sm) |-> Item("conforming", sm[x])]

MutationsOf(d, salt) ==
  CASE d.d = "struct" ->
         LET base == BaseStruct(d) IN
         <<Item("wrong_kind", VEnum(0, VNone)), Item("wrong_kind", VVec(<<>>))>>
         \o FlattenSeq([j \in 1..Len(d.fields) |->
              LET fld == d.fields[j]  w == PickWrongs(FW(fld), salt + j) IN
              (IF fld.req THEN <<Item("missing_required", Without(base, fld.id)), Item("missing_required", Without(UnkA(base), fld.id))>> ELSE <<>>)
              \o [x \in 1..Len(w) |-> Item("wrong_field_type", WithField(base, fld.id, w[x]))]])
    [] d.d = "enum" ->
         <<Item("wrong_kind", VStruct(<<>>)), Item("wrong_kind", VLeaf("U32", 1))>>
         \o (IF d.fb THEN <<>> ELSE <<Item("unknown_variant_no_fallback", VEnum(77, VNone)),
                                      Item("unknown_variant_no_fallback", VEnum(9, VVec(<<VLeaf("U8", 1), VNone>>)))>>)
         \o FlattenSeq([j \in 1..Len(d.vars) |->
              LET var == d.vars[j]  w == PickWrongs(var.ty, salt + j) IN
              IF var.has THEN [x \in 1..Len(w) |-> Item("wrong_payload_type", VEnum(var.id, w[x]))]
              ELSE <<Item("wrong_payload_type", VEnum(var.id, VLeaf("Bool", 1))), Item("wrong_payload_type", VEnum(var.id, VSome(VNone)))>>])
    [] d.d = "newtype" -> LET w == PickWrongs(d.ty, salt) IN [x \in 1..Len(w) |-> Item("wrong_type", w[x])]
Mutations(d) == {MutationsOf(d, 0)[i].v : i \in 1..Len(MutationsOf(d, 0))}          \* (the design's name for the set)

IsConformingClass(cls) == cls \in {"conforming", "optional_absent", "minimal", "unknown_fields", "unknown_variant"}

--------------------------------------------------------------------------------
(* The corpus *)
Prims == <<"bool", "u8", "i8", "u16", "i16", "u32", "i32", "u64", "i64", "f32", "f64", "string", "uuid", "object_id",
           "service_id", "value", "bytes", "unit", "lifetime">>
L0 == [i \in 1..Len(Prims) |-> TPrim(Prims[i])] \o [i \in 1..Len(LibNames) |-> TRef(LibNames[i])]
N0 == Len(L0)
Keys == [i \in 1..10 |-> TPrim(<<"u8", "i8", "u16", "i16", "u32", "i32", "u64", "i64", "string", "uuid">>[i])] \o <<TRef("Id"), TRef("Name")>>
NK == Len(Keys)
Un(c, a) == CASE c = 0 -> TOpt(a) [] c = 1 -> TBox(a) [] c = 2 -> TVec(a) [] c = 3 -> TSender(a) [] c = 4 -> TReceiver(a)
L1 == [i \in 1..N0 |-> Un(i % 5, L0[i])] \o [i \in 1..N0 |-> Un((i + 2) % 5, L0[i])]
      \o [i \in 1..NK |-> TSet(Keys[i])] \o [i \in 1..NK |-> TMap(Keys[i], L0[1 + ((5 * i) % N0)])]
      \o [i \in 1..6 |-> TRes(L0[1 + ((4 * i) % N0)], L0[1 + ((4 * i + 11) % N0)])]
      \o [i \in 1..6 |-> TArr(L0[1 + ((3 * i + 1) % N0)], 1 + (i % 3))]
Inner(c, x) ==
  CASE c <= 4 -> Un(c, L0[x])
    [] c = 5 -> TMap(Keys[1 + (x % NK)], L0[x])
    [] c = 6 -> TRes(L0[x], L0[1 + ((x + 6) % N0)])
    [] c = 7 -> TArr(L0[x], 1 + (x % 2))
    [] c = 8 -> TSet(Keys[1 + (x % NK)])
Outer(c, in, x) ==
  CASE c <= 4 -> Un(c, in)
    [] c = 5 -> TMap(Keys[1 + ((5 * x) % NK)], in)
    [] c = 6 -> IF x % 2 = 0 THEN TRes(in, L0[x]) ELSE TRes(L0[x], in)
    [] c = 7 -> TArr(in, 1 + (x % 3))
L2 == [p \in 1..72 |-> LET o == (p - 1) \div 9  c == (p - 1) % 9  x == 1 + ((7 * p) % N0) IN Outer(o, Inner(c, x), x)]
FT == L0 \o L1 \o L2                      \* every field / payload / target type of the corpus comes from here
NFT == Len(FT)

IdPat == <<<<1, 2, 3>>, <<3, 1, 2>>, <<0, 10, 300>>, <<7, 5, 6>>>>          \* (never 4, 12, 90, 91: injected / added ids)
VarPat == <<<<0, 1, 2>>, <<3, 1, 8>>, <<10, 20, 5>>>>                        \* (never 6, 9, 12, 77)
Bit(m, j) == (m \div (2 ^ (j - 1))) % 2 = 1
Slot(s, n) == FT[1 + ((31 * s + 7 * n) % NFT)]                                 \* 7 is coprime to NFT = 183

\* struct number i: shape by index arithmetic on (i, seed); field types from consecutive slots
NFields(i, s) == IF (i + s) % 11 = 0 THEN 0 ELSE 1 + ((i + s) % 3)
RECURSIVE SlotsBefore(_, _)
SlotsBefore(i, s) == IF i <= 1 THEN 0 ELSE SlotsBefore(i - 1, s) + NFields(i - 1, s)
GenStruct(i, s, name) ==
  LET nf == NFields(i, s)  ids == IdPat[1 + ((i + s) % 4)]  mask == (5 * i + s) % 8  b == SlotsBefore(i, s) IN
  DStruct(name, [j \in 1..nf |-> Fld(ids[j], Bit(mask, j), Slot(s, b + j))], (i \div 2 + s) % 2 = 0)
NVars(i, s) == 1 + ((i + s) % 3)
GenEnum(i, s, name, base) ==
  LET nv == NVars(i, s)  ids == VarPat[1 + ((i + s) % 3)] IN
  DEnum(name, [j \in 1..nv |-> LET has == (3 * i + j + s) % 3 # 0 IN Var(ids[j], has, IF has THEN Slot(s, base + 3 * i + j) ELSE TUnit)],
        (i + s) % 2 = 0)
GenNewtype(i, s, name, base) == DNewtype(name, Slot(s, base + i))

\* old/new pairs, shape q: kind (field / variant added), old has a fallback, the added item is required / has a payload
PairOf(q, s, nameOld, nameNew, base) ==
  LET fieldAdded == q % 2 = 1  fb == (q \div 2) % 2 = 1  strong == (q \div 4) % 2 = 1
      t1 == Slot(s, base + 3 * q)  t2 == Slot(s, base + 3 * q + 1)  t3 == Slot(s, base + 3 * q + 2) IN
  IF fieldAdded
    THEN LET fs == <<Fld(1, TRUE, t1), Fld(3, FALSE, t2)>> IN
         [kind |-> "field_added", newid |-> 12, old |-> DStruct(nameOld, fs, fb), new |-> DStruct(nameNew, fs \o <<Fld(12, strong, t3)>>, fb)]
    ELSE LET vs == <<Var(1, FALSE, TUnit), Var(2, TRUE, t1)>> IN
         [kind |-> "variant_added", newid |-> 12, old |-> DEnum(nameOld, vs, fb),
          new |-> DEnum(nameNew, vs \o <<Var(12, strong, IF strong THEN t2 ELSE TUnit)>>, fb)]

\* where a struct / enum is declared: a top-level definition, or inline in a service (args / ok / err of a
\* function, argument of an event) -- names::function_args etc. name the generated Rust type
HomeOf(i) == CASE i % 7 = 3 -> "args" [] i % 7 = 5 -> "ok" [] i % 14 = 6 -> "err" [] i % 14 = 13 -> "event" [] OTHER -> "def"

Sizes(thorough) == IF thorough THEN [ns |-> 60, ne |-> 30, nn |-> 16, np |-> 16] ELSE [ns |-> 14, ne |-> 7, nn |-> 4, np |-> 3]
Nm(p, i) == p \o ToString(i)
\* entries: [def, home, vecs: <<[cls, chain: names, v]>>, pair: 0 | index of the partner]
Entry(d, home, items) == [def |-> d, home |-> home, items |-> items]
SelfItems(d, salt) ==
  LET c == ConformingOf(d)  m == MutationsOf(d, salt) IN
  [x \in 1..Len(c) |-> [cls |-> c[x].cls, chain |-> <<d.name, d.name>>, v |-> c[x].v]]
  \o [x \in 1..Len(m) |-> [cls |-> m[x].cls, chain |-> <<d.name>>, v |-> m[x].v]]
PairItems(p) ==
  LET cn == ConformingOf(p.new)  co == ConformingOf(p.old) IN
  [x \in 1..Len(cn) |-> [cls |-> "new_via_old", chain |-> <<p.old.name, p.new.name>>, v |-> cn[x].v]]
  \o [x \in 1..Len(co) |-> [cls |-> "old_via_new", chain |-> <<p.new.name>>, v |-> co[x].v]]

Corpus(seed, thorough) ==
  LET z == Sizes(thorough)  s == seed
      \* slot ranges follow each other, so that the thorough corpus walks the whole list FT
      eb == SlotsBefore(z.ns + 1, s) - 3  nb == eb + 3 * z.ne + 3  pb == nb + z.nn - 2
      q0 == IF thorough THEN 0 ELSE 3 * s
  IN [i \in 1..Len(LibNames) |-> Entry(Lib[LibNames[i]], IF LibNames[i] \in LibExtern THEN "lib" ELSE "intern", SelfItems(Lib[LibNames[i]], i))]
     \o [i \in 1..z.ns |-> LET d == GenStruct(i, s, Nm("S", i)) IN Entry(d, HomeOf(i), SelfItems(d, i + s))]
     \o [i \in 1..z.ne |-> LET d == GenEnum(i, s, Nm("E", i), eb) IN Entry(d, HomeOf(i + 1), SelfItems(d, i + s))]
     \o [i \in 1..z.nn |-> LET d == GenNewtype(i, s, Nm("N", i), nb) IN Entry(d, "def", SelfItems(d, i + s))]
     \o FlattenSeq([i \in 1..z.np |->
          LET p == PairOf(q0 + i, s, Nm("Old", i), Nm("New", i), pb) IN
          <<Entry(p.old, "def", SelfItems(p.old, i)), [def |-> p.new, home |-> "def", items |-> SelfItems(p.new, i) \o PairItems(p), pair |-> p]>>])

\* definitions by name (library + corpus), for the expected outcome of a chain
RECURSIVE Hops(_, _, _, _)
Hops(defs, chain, i, v) ==
  IF i > Len(chain) THEN <<>>
  ELSE LET r == TransDef(v, defs[chain[i]]) IN
       IF r.ok THEN <<r>> \o Hops(defs, chain, i + 1, r.out) ELSE <<r>>
=============================================================================
