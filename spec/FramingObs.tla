----------------------------- MODULE FramingObs -----------------------------
(* C14 -- byte-stream framing is independent of fragmentation and backpressure.

   This module has no constants and no variables.  It contains

   1. byte strings as *segment lists*: a byte string is a sequence of segments <<f, a, b>> = the
      bytes a .. b-1 (0-based, a < b) of frame f, adjacent segments of the same frame merged.
      Frame f of length L is << <<f, 0, L>> >>, its first four bytes carry L.  A 131075-byte
      frame costs TLC one triple, so the same text is checked with toy sizes (every chunking)
      and with the real sizes (reserve step 65536, backpressure boundary 8192);
   2. the *property observer* of C14: a deterministic fold ObsStep over an alphabet of events
      (what was fed / supplied, what came out of next_message / receive_poll, what the mock
      writer received, what an API call returned and which I/O results it had seen).  The
      observer states exactly what the property statement says; everything more detailed
      (backpressure boundary, reserve step, exact error kinds, whether the I/O object's flush was
      called) is *not* judged here.

   The observer is used twice: composed with the implementation-shaped machines of Framing.tla
   (TLC checks "obs.ok" over every behaviour), and folded by Trace_Framing.tla over traces
   recorded from the real Packetizer / TokioTransport / Buffered (that decides VIOLATION). *)
EXTENDS Integers, Sequences, FiniteSets

Min(a, b) == IF a <= b THEN a ELSE b
Max(a, b) == IF a >= b THEN a ELSE b

---------------------------------------------------------------------------------------------
(* 1. byte strings *)

RECURSIVE Size(_)
Size(s) == IF s = <<>> THEN 0 ELSE (s[1][3] - s[1][2]) + Size(Tail(s))

Cat(s, t) ==
    IF s = <<>> THEN t
    ELSE IF t = <<>> THEN s
    ELSE LET a == s[Len(s)]
             b == t[1]
         IN IF a[1] = b[1] /\ a[3] = b[2]
            THEN SubSeq(s, 1, Len(s) - 1) \o << <<a[1], a[2], b[3]>> >> \o Tail(t)
            ELSE s \o t

RECURSIVE Take(_, _)
Take(s, n) ==
    IF n <= 0 \/ s = <<>> THEN <<>>
    ELSE LET h == s[1]
             l == h[3] - h[2]
         IN IF l <= n THEN <<h>> \o Take(Tail(s), n - l)
            ELSE << <<h[1], h[2], h[2] + n>> >>

RECURSIVE Drop(_, _)
Drop(s, n) ==
    IF n <= 0 \/ s = <<>> THEN s
    ELSE LET h == s[1]
             l == h[3] - h[2]
         IN IF l <= n THEN Drop(Tail(s), n - l)
            ELSE << <<h[1], h[2] + n, h[3]>> >> \o Tail(s)

\* the stream of frames base+1 .. base+Len(l) with lengths l
StreamOf(l, base) == [i \in 1 .. Len(l) |-> <<base + i, 0, l[i]>>]
Slice(st, from, n) == Take(Drop(st, from), n)

RECURSIVE EndOf(_, _)
EndOf(l, i) == IF i <= 0 THEN 0 ELSE l[i] + EndOf(l, i - 1)   \* offset just behind frame i
Total(l) == EndOf(l, Len(l))

Has(seq, x) == \E i \in 1 .. Len(seq) : seq[i] = x
HasAny(seq, S) == \E i \in 1 .. Len(seq) : seq[i] \in S

---------------------------------------------------------------------------------------------
(* 2. the observer.

   Events (records; field t is the type).  "in" = frame lengths of the byte stream that is fed to
   the packetizer / supplied by the reader / offered by the inner transport; "out" = lengths of
   the messages that are sent.

   reset  [m, in, out]          a new behaviour starts (m = "pk" | "tokio" | "buf")
   ext    [n]                   Packetizer::extend_from_slice with the next n stream bytes
   spw    [n]                   the next n stream bytes written through spare_capacity_mut /
                                bytes_written (after next_message returned None)
   nxt    [f]                   Packetizer::next_message returned frame f (0: None, -1: bytes that
                                are not a frame of the stream)
   recv   [s, rd, ev, x, r, f, e]   receive_poll: the reader supplied rd more stream bytes, the
                                non-data I/O results seen were ev (subset of "pend","eof","err"),
                                result r = "msg" (message f) | "pend" | "err" (kind e)
   rdy    [s, fs, wn, wm, ev, x, r, e]   send_poll_ready: the writer accepted wn bytes, wm = 1 iff
                                they continue the serialized messages exactly, ev = non-data I/O
                                results ("w0","wpend","werr","fpend","fok","ferr"), r = "ok"|"pend"|"err"
   sta    [m, r]                send_start of message m
   fls    [...]                 send_poll_flush, fields as rdy
   brcv / brdy / bsta / bfls    the same four calls on Buffered<T>; ic = the calls Buffered made on
                                the scripted inner transport, as records [c, r, m]
   panic / hang / empty         the code under test panicked / did not return / returned an empty
                                spare slice under the usage contract (real traces only)
   ("woke" in ev: the waker was invoked during the call -- a Pending result is then legitimate)

   s, fs, x are inputs of the replay (I/O script) or conformance data; the observer ignores them. *)

ObsInit == [ok |-> TRUE, why |-> "", prop |-> "C14", in |-> <<>>, out |-> <<>>,
            fed |-> 0, deliv |-> 0, started |-> 0, wtot |-> 0, handed |-> 0, offered |-> 0, dead |-> FALSE]

Fail(o, why) == [o EXCEPT !.ok = FALSE, !.why = why]

\* the next frame of the stream lies completely inside the bytes fed / supplied so far
NextComplete(o) == o.deliv < Len(o.in) /\ EndOf(o.in, o.deliv + 1) <= o.fed

\* a frame / message is delivered: it must be the next one and complete
Deliver(o, f) ==
    IF f # o.deliv + 1 THEN
        Fail(o, IF f >= 1 /\ f <= o.deliv THEN "frame delivered twice"
                ELSE IF f < 1 THEN "delivered bytes are not a frame of the stream"
                ELSE "frame delivered out of order (a frame was lost)")
    ELSE IF f > Len(o.in) \/ EndOf(o.in, f) > o.fed THEN Fail(o, "frame delivered before it was complete")
    ELSE [o EXCEPT !.deliv = f]

ObsSend(o, e) ==   \* rdy and fls
    LET o1 == [o EXCEPT !.wtot = @ + e.wn] IN
    IF e.wm # 1 THEN Fail(o1, "the writer received bytes that do not continue the sent messages (lost, duplicated or reordered bytes)")
    ELSE IF o1.wtot > EndOf(o.out, o.started) THEN Fail(o1, "the writer received more bytes than were sent")
    ELSE IF Has(e.ev, "w0") /\ e.r # "err" THEN Fail(o1, "zero-length write not reported as an error")
    ELSE IF e.r = "err" THEN
        IF HasAny(e.ev, {"w0", "werr", "ferr"}) THEN [o1 EXCEPT !.dead = TRUE]
        ELSE Fail(o1, "send path returned an error although the I/O object reported none")
    ELSE IF e.r = "pend" THEN
        IF HasAny(e.ev, {"wpend", "fpend", "woke"}) THEN o1
        ELSE Fail(o1, "send path returned Pending although no I/O call was pending (lost wake-up)")
    ELSE IF e.t = "fls" /\ o1.wtot # EndOf(o.out, o.started) THEN
        Fail(o1, "flush returned Ok before all earlier messages were written")
    ELSE o1

ObsRecv(o, e) ==
    LET o1 == [o EXCEPT !.fed = @ + e.rd] IN
    IF o1.fed > Total(o.in) THEN Fail(o1, "harness: more bytes supplied than the stream has")
    ELSE IF e.r = "msg" THEN Deliver(o1, e.f)
    ELSE IF e.r = "err" THEN
        IF HasAny(e.ev, {"eof", "err"}) THEN [o1 EXCEPT !.dead = TRUE]
        ELSE Fail(o1, "receive returned an error although the I/O object reported none")
    ELSE \* "pend"
        IF Has(e.ev, "eof") THEN Fail(o1, "end of stream not reported as an error")
        ELSE IF ~HasAny(e.ev, {"pend", "woke"}) THEN Fail(o1, "receive returned Pending although no read was pending (lost wake-up)")
        ELSE IF NextComplete(o1) THEN Fail(o1, "receive returned Pending although a complete message was supplied")
        ELSE o1

\* Buffered<T>: the inner calls of one API call, in order
RECURSIVE ObsInner(_, _, _)
ObsInner(o, ic, i) ==
    IF i > Len(ic) \/ ~o.ok THEN o
    ELSE LET c == ic[i] IN
         IF c.c = "sta" THEN
             IF c.m # o.handed + 1 THEN
                 ObsInner(Fail(o, IF c.m <= o.handed THEN "message handed to the inner transport twice"
                                   ELSE "message handed to the inner transport out of order (a message was lost)"), ic, i + 1)
             ELSE IF c.m > o.started THEN ObsInner(Fail(o, "message handed to the inner transport before it was sent"), ic, i + 1)
             ELSE ObsInner([o EXCEPT !.handed = c.m], ic, i + 1)
         ELSE ObsInner(o, ic, i + 1)

InnerHas(ic, r) == \E i \in 1 .. Len(ic) : ic[i].r = r

ObsBufSend(o, e) ==
    LET o1 == ObsInner(o, e.ic, 1) IN
    IF ~o1.ok THEN o1
    ELSE IF e.r = "err" THEN
        IF InnerHas(e.ic, "err") THEN [o1 EXCEPT !.dead = TRUE]
        ELSE Fail(o1, "Buffered returned an error although the inner transport reported none")
    ELSE IF e.r = "pend" THEN
        IF InnerHas(e.ic, "pend") THEN o1
        ELSE Fail(o1, "Buffered returned Pending although no inner call was pending (lost wake-up)")
    ELSE IF e.t = "bfls" THEN
        IF o1.handed # o1.started THEN Fail(o1, "flush returned Ok before all earlier messages were handed to the inner transport")
        ELSE IF Len(e.ic) = 0 \/ e.ic[Len(e.ic)].c # "fls" \/ e.ic[Len(e.ic)].r # "ok"
             THEN Fail(o1, "flush returned Ok although the inner transport did not complete a flush after the last message")
        ELSE o1
    ELSE o1

ObsBufRecv(o, e) ==
    \* the inner transport offers the messages of "in" one by one
    LET k  == Cardinality({i \in 1 .. Len(e.ic) : e.ic[i].c = "rcv" /\ e.ic[i].r = "msg"})
        n  == Min(Len(o.in), o.offered + k)
        o1 == [o EXCEPT !.offered = n, !.fed = EndOf(o.in, n)]
    IN
    IF e.r = "msg" THEN Deliver(o1, e.f)
    ELSE IF e.r = "err" THEN
        IF InnerHas(e.ic, "err") THEN [o1 EXCEPT !.dead = TRUE]
        ELSE Fail(o1, "Buffered returned an error although the inner transport reported none")
    ELSE IF ~InnerHas(e.ic, "pend") THEN Fail(o1, "Buffered returned Pending although no inner call was pending (lost wake-up)")
    ELSE IF o1.deliv < o1.offered THEN Fail(o1, "a message produced by the inner transport was not delivered")
    ELSE o1

ObsStep(o, e) ==
    IF e.t = "reset" THEN [ObsInit EXCEPT !.in = e.in, !.out = e.out]
    ELSE IF ~o.ok \/ o.dead THEN o            \* after an error the transport is unusable; after a violation: silent until reset
    ELSE IF e.t = "panic" THEN Fail(o, "panic in the code under test")
    ELSE IF e.t = "hang" THEN Fail(o, "the code under test did not return")
    ELSE IF e.t = "empty" THEN Fail(o, "spare_capacity_mut returned an empty slice although next_message had returned None")
    ELSE IF e.t \in {"ext", "spw"} THEN
        IF o.fed + e.n > Total(o.in) THEN Fail(o, "harness: more bytes fed than the stream has")
        ELSE [o EXCEPT !.fed = @ + e.n]
    ELSE IF e.t = "nxt" THEN
        IF e.f = 0 THEN (IF NextComplete(o) THEN Fail(o, "next_message returned None although the next frame is complete (frame lost)") ELSE o)
        ELSE Deliver(o, e.f)
    ELSE IF e.t = "recv" THEN ObsRecv(o, e)
    ELSE IF e.t \in {"rdy", "fls"} THEN ObsSend(o, e)
    ELSE IF e.t \in {"sta", "bsta"} THEN
        IF e.m # o.started + 1 \/ e.m > Len(o.out) THEN Fail(o, "harness: messages must be sent in order")
        ELSE IF e.r # "ok" THEN Fail(o, "send_start failed")
        ELSE [o EXCEPT !.started = e.m]
    ELSE IF e.t \in {"brdy", "bfls"} THEN ObsBufSend(o, e)
    ELSE IF e.t = "brcv" THEN ObsBufRecv(o, e)
    ELSE Fail(o, "harness: unknown event")
=============================================================================
