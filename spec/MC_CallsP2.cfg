SPECIFICATION Spec
CONSTANTS
  B = 4
  Conns = {0, 1}
  Versions = {20}
  ObjUuids = {101}
  SvcUuids = {201, 202}
  Events = {0}
  Fns = {0}
  CSerials = {1}
  Payloads = {1}
  TypeIds = {301}
  Caps <- CapsOne
  MaxCookie = 3
  InqBound = 1
  Kinds = {"CallFunction", "CallFunctionReply", "DestroyService", "AbortFunctionCall"}
  Faults = {"ends"}
  WrongKinds = {}
  MsgBudget = 4
  InitSerial = 0
  Senders = {0, 1}
  PoolKinds = {"live", "dead"}
  ScriptSel = "pend2"
  V0 = 20
  V1 = 20

VIEW view
INVARIANTS ObserverOk NoPanicSite BoundaryConsistent FlagsOk StoppedClean
CHECK_DEADLOCK FALSE
