---------------------------- MODULE ListenerApi ----------------------------
(* Bus listeners as the application sees them through aldrin::BusListener (C10 end to end), at
   the level of whole operations: one client owns the listeners, another client changes the
   registry.  After every operation all clients are synchronised and every listener is drained.

     new      an object / service event reaches exactly the started listeners (scope new or all)
              of which a filter matches it -- each of them once, even though the broker sends the
              connection a single untagged message and the client matches it against every one of
              its listeners;
     current  starting with scope current or all reports exactly the existing objects and services
              that match the listener's filters at that moment, then the listener knows that the
              enumeration is complete;
     finished is_finished() is true exactly when nothing more can come: never started, stopped, or
              scope current after the enumeration.

   Filters: [ft |-> "obj", o |-> 0 (any) or uuid] and [ft |-> "svc", o |-> 0 or uuid, s |-> 0 or
   uuid] (bus_listener.rs / core BusListenerFilter). *)
EXTENDS Naturals, Sequences, FiniteSets, TLC

CONSTANTS ObjU, SvcU, Lst, Filters

Zero(S) == [x \in S |-> 0]
NoObs == [events |-> [l \in Lst |-> {}], finished |-> [l \in Lst |-> TRUE]]
LInit == [obj |-> Zero(ObjU), svc |-> [o \in ObjU |-> Zero(SvcU)], used |-> {},
          lst |-> [l \in Lst |-> [st |-> "idle", filters |-> {}, scope |-> "none"]],
          obs |-> NoObs, res |-> ""]

BE(be, o, oc, s, sc) == [be |-> be, o |-> o, oc |-> oc, s |-> s, sc |-> sc]
FMatch(f, ev) ==
  IF f.ft = "obj" THEN ev.be \in {"oc", "od"} /\ (f.o = 0 \/ f.o = ev.o)
  ELSE ev.be \in {"sc", "sd"} /\ (f.o = 0 \/ f.o = ev.o) /\ (f.s = 0 \/ f.s = ev.s)
Matches(L, ev) == \E f \in L.filters : FMatch(f, ev)
TakesNew(L) == L.st = "started" /\ L.scope \in {"new", "all"}
Finished(L) == ~(L.st = "started" /\ L.scope \in {"new", "all"})

Current(b) == {BE("oc", o, b.obj[o], 0, 0) : o \in {o \in ObjU : b.obj[o] # 0}}
              \cup {BE("sc", p[1], b.obj[p[1]], p[2], b.svc[p[1]][p[2]]) : p \in {p \in ObjU \X SvcU : b.obj[p[1]] # 0 /\ b.svc[p[1]][p[2]] # 0}}

Enabled(b, op) ==
  CASE op.op = "co" -> b.obj[op.o] = 0 /\ op.c \notin b.used /\ op.c # 0
    [] op.op = "do" -> b.obj[op.o] # 0
    [] op.op = "cs" -> b.obj[op.o] # 0 /\ b.svc[op.o][op.s] = 0 /\ op.c \notin b.used /\ op.c # 0
    [] op.op = "ds" -> b.obj[op.o] # 0 /\ b.svc[op.o][op.s] # 0
    [] op.op = "ladd" -> b.lst[op.l].st # "gone" /\ op.f \notin b.lst[op.l].filters
    [] op.op = "lrem" -> b.lst[op.l].st # "gone" /\ op.f \in b.lst[op.l].filters
    [] op.op = "lclear" -> b.lst[op.l].st # "gone" /\ b.lst[op.l].filters # {}
    \* (starting a started listener and stopping an idle one are refused and change nothing)
    [] op.op = "lstart" -> b.lst[op.l].st # "gone"
    [] op.op = "lstop" -> b.lst[op.l].st # "gone"
    [] op.op = "ldestroy" -> b.lst[op.l].st # "gone"
    [] OTHER -> FALSE

Deliver(b, evs) ==
  [b EXCEPT !.obs = [events |-> [l \in Lst |-> IF TakesNew(b.lst[l]) THEN {e \in evs : Matches(b.lst[l], e)} ELSE {}],
                     finished |-> [l \in Lst |-> Finished(b.lst[l])]]]
Quiet(b) == [b EXCEPT !.obs = [events |-> [l \in Lst |-> {}], finished |-> [l \in Lst |-> Finished(b.lst[l])]]]

Do(b0, op) ==
  LET b == [b0 EXCEPT !.res = "ok"] IN
  CASE op.op = "co" -> Deliver([b EXCEPT !.obj[op.o] = op.c, !.used = @ \cup {op.c}], {BE("oc", op.o, op.c, 0, 0)})
    [] op.op = "cs" -> Deliver([b EXCEPT !.svc[op.o][op.s] = op.c, !.used = @ \cup {op.c}], {BE("sc", op.o, b.obj[op.o], op.s, op.c)})
    [] op.op = "ds" -> Deliver([b EXCEPT !.svc[op.o][op.s] = 0], {BE("sd", op.o, b.obj[op.o], op.s, b.svc[op.o][op.s])})
    [] op.op = "do" -> Deliver([b EXCEPT !.obj[op.o] = 0, !.svc[op.o] = Zero(SvcU)],
                               {BE("sd", op.o, b.obj[op.o], s, b.svc[op.o][s]) : s \in {s \in SvcU : b.svc[op.o][s] # 0}}
                               \cup {BE("od", op.o, b.obj[op.o], 0, 0)})
    [] op.op = "ladd" -> Quiet([b EXCEPT !.lst[op.l].filters = @ \cup {op.f}])
    [] op.op = "lrem" -> Quiet([b EXCEPT !.lst[op.l].filters = @ \ {op.f}])
    [] op.op = "lclear" -> Quiet([b EXCEPT !.lst[op.l].filters = {}])
    [] op.op = "lstart" /\ b.lst[op.l].st = "started" -> [Quiet(b) EXCEPT !.res = "refused"]
    [] op.op = "lstop" /\ b.lst[op.l].st = "idle" -> [Quiet(b) EXCEPT !.res = "refused"]
    [] op.op = "lstart" ->
         LET b1 == [b EXCEPT !.lst[op.l].st = "started", !.lst[op.l].scope = op.scope]
             q == Quiet(b1) IN
         IF op.scope \in {"current", "all"}
           THEN [q EXCEPT !.obs.events[op.l] = {e \in Current(b) : Matches(b.lst[op.l], e)}]
           ELSE q
    [] op.op = "lstop" -> Quiet([b EXCEPT !.lst[op.l].st = "idle", !.lst[op.l].scope = "none"])
    [] op.op = "ldestroy" -> Quiet([b EXCEPT !.lst[op.l].st = "gone", !.lst[op.l].scope = "none"])
    [] OTHER -> b
=============================================================================
