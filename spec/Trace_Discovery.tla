-------------------------- MODULE Trace_Discovery --------------------------
(* Validates what the real Discoverer reported (log of `discovery-replay`, env TRACE) against
   Discovery.tla: every logged step must be the operation of the specification with exactly the
   specification's events (as a set) and exactly its view, entry by entry, cookies included.
   Findings are printed as <<"VIOLATION-AT", index, "C19", why>>; the rest of that run is skipped. *)
EXTENDS Discovery, Json, IOUtils

Rec == ndJsonDeserialize(IOEnv.TRACE)

\* the entries of the driver (must equal MCEntryOf of MC_Discovery.tla)
TKeys == 0..5
TEntryOf(k) == CASE k = 0 -> [obj |-> 1, svcs |-> {}]
                 [] k = 1 -> [obj |-> 2, svcs |-> {1}]
                 [] k = 2 -> [obj |-> 0, svcs |-> {1}]
                 [] k = 3 -> [obj |-> 0, svcs |-> {1, 2}]
                 [] k = 4 -> [obj |-> 1, svcs |-> {1, 2}]
                 [] OTHER -> [obj |-> 0, svcs |-> {}]

VARIABLES l, d, ok
vars == <<l, d, ok>>

Range(q) == {q[i] : i \in 1..Len(q)}
LoggedEvents(r) == {[key |-> e.key, created |-> e.created, o |-> e.o, c |-> e.c] : e \in Range(r.events)}
CookieOf(it, s) == LET m == {x \in Range(it.svcs) : x.s = s} IN IF m = {} THEN 0 ELSE (CHOOSE x \in m : TRUE).c
LoggedView(r, k) ==
  LET m == {v \in Range(r.view) : v.key = k} IN
  IF m = {} THEN {} ELSE {<<it.o, it.c, [s \in EntryOf(k).svcs |-> CookieOf(it, s)]>> : it \in Range((CHOOSE v \in m : TRUE).items)}

Judge(r) ==
  LET op == [op |-> r.op, o |-> r.o, s |-> r.s, c |-> r.c, scope |-> r.scope] IN
  IF ~r.ok THEN [ok |-> FALSE, d |-> d, why |-> "DRIFT the operation failed on the real bus: " \o r.op]
  ELSE IF ~Enabled(d, op) THEN [ok |-> FALSE, d |-> d, why |-> "DRIFT the specification does not allow this operation here: " \o r.op]
  ELSE LET d2 == Do(d, op) IN
       IF r.running # (d2.st = "running") THEN [ok |-> FALSE, d |-> d2, why |-> "DRIFT the discoverer exists in one and not in the other"]
       ELSE IF LoggedEvents(r) # EventSet(d2) \/ Len(r.events) # Len(d2.out)
         THEN [ok |-> FALSE, d |-> d2, why |-> "the discoverer's events of this operation are not the changes of the matching objects: " \o ToString(r.events) \o " instead of " \o ToString(d2.out)]
       ELSE IF \E k \in Keys : d2.st = "running" /\ LoggedView(r, k) # ViewOf(d2, k)
         THEN [ok |-> FALSE, d |-> d2, why |-> "an entry of the discoverer does not report exactly the matching objects with their ids: key "
                    \o ToString(CHOOSE k \in Keys : LoggedView(r, k) # ViewOf(d2, k))]
       ELSE IF \E x \in Range(r.lts) : <<x.o, x.c>> \notin d2.lts \/ x.ended # LtEnded(d2, <<x.o, x.c>>)
         THEN [ok |-> FALSE, d |-> d2, why |-> "a lifetime has ended although its scope exists, or has not ended although its scope is gone: "
                    \o ToString(CHOOSE x \in Range(r.lts) : <<x.o, x.c>> \notin d2.lts \/ x.ended # LtEnded(d2, <<x.o, x.c>>))]
       ELSE IF Len(r.lts) # Cardinality(d2.lts) THEN [ok |-> FALSE, d |-> d2, why |-> "DRIFT the bound lifetimes differ"]
       ELSE IF d2.st = "running" /\ r.finished # (d2.scope = "current")
         THEN [ok |-> FALSE, d |-> d2, why |-> "is_finished() is wrong for the scope of the discoverer"]
       ELSE [ok |-> TRUE, d |-> d2, why |-> ""]

Init == l = 1 /\ d = DInit /\ ok = TRUE
Next ==
  /\ l <= Len(Rec)
  /\ LET r == Rec[l] IN
     CASE r.t = "reset" -> d' = DInit /\ ok' = TRUE
       [] r.t = "step" /\ ok ->
            LET j == Judge(r) IN
            /\ d' = j.d /\ ok' = j.ok
            /\ ~j.ok => IF SubSeq(j.why, 1, 5) = "DRIFT" THEN PrintT(<<"DRIFT-AT", l, j.why>>) ELSE PrintT(<<"VIOLATION-AT", l, "C19", j.why>>)
       [] r.t = "panic" /\ ok -> /\ UNCHANGED d /\ ok' = FALSE
                                 /\ PrintT(<<"VIOLATION-AT", l, "C19", "a task panicked while the discoverer was driven: " \o r.msg>>)
       [] r.t = "incomplete" /\ ok -> /\ UNCHANGED d /\ ok' = FALSE
                                      /\ PrintT(<<"VIOLATION-AT", l, "C19", "the scripted operations did not complete (an awaited operation hangs)">>)
       [] OTHER -> UNCHANGED <<d, ok>>
  /\ l' = l + 1
Spec == Init /\ [][Next]_vars
Accepted == \/ TLCGet("stats").diameter - 1 = Len(Rec)
            \/ Print(<<"TRACE-NOT-CONSUMED", TLCGet("stats").diameter - 1, Len(Rec)>>, FALSE)
=============================================================================
