-------------------------------- MODULE Obs --------------------------------
(* Property observers for the broker-level properties C02, C03, C04, C05, C09, C10, C11, C12.

   The observer is a deterministic fold over the broker's step records (see spec/README.md for the
   record format; the same records are produced by the hook in the real broker and by Broker.tla).
   It reconstructs the *abstract bus state* purely from the history of inputs and of the broker's
   own acknowledgements, and judges every broker macro-step (one dequeued event, the deferred work
   it causes, up to the next point where the work lists are empty) against what the property
   statements require.  Where a statement is silent the observer accepts every reading and, if it
   must know which one was taken, reads it from the broker's own state dump in the idle record.

   Only this module decides VIOLATION.  Every clause below is tagged with the property it comes
   from.  Sends to connections that are removed in the same macro-step, or whose task is known to
   be dead, are neither required nor forbidden (nobody observes them).                          *)
EXTENDS Naturals, Integers, Sequences, FiniteSets

CONSTANT B
INSTANCE U32

\* ---------------------------------------------------------------------------------------------
\* generic helpers
Put(f, k, v) == [x \in DOMAIN f \cup {k} |-> IF x = k THEN v ELSE f[x]]
Del(f, K) == [x \in DOMAIN f \ K |-> f[x]]
EmptyFn == [x \in {} |-> 0]
ToSet(s) == {s[i] : i \in 1..Len(s)}
RECURSIVE FoldSeq(_, _, _, _)
FoldSeq(Op(_, _), acc, s, i) == IF i > Len(s) THEN acc ELSE FoldSeq(Op, Op(acc, s[i]), s, i + 1)
Fold(Op(_, _), acc, s) == FoldSeq(Op, acc, s, 1)
CountSeq(s, P(_)) == Cardinality({i \in 1..Len(s) : P(s[i])})
IdxOf(s, P(_)) == {i \in 1..Len(s) : P(s[i])}
SetMin(S) == CHOOSE x \in S : \A y \in S : x <= y
SetMax(S) == CHOOSE x \in S : \A y \in S : x >= y

\* ---------------------------------------------------------------------------------------------
\* message kinds and the protocol version that introduced them (C12)
MinVer(k) ==
  CASE k \in {"AbortFunctionCall"} -> 16
    [] k \in {"RegisterIntrospection", "QueryIntrospection", "QueryIntrospectionReply",
              "CreateService2", "QueryServiceInfo", "QueryServiceInfoReply"} -> 17
    [] k \in {"SubscribeService", "SubscribeServiceReply", "UnsubscribeService",
              "SubscribeAllEvents", "SubscribeAllEventsReply",
              "UnsubscribeAllEvents", "UnsubscribeAllEventsReply"} -> 18
    [] k \in {"CallFunction2"} -> 19
    [] OTHER -> 14

ClientToBroker == {"CreateObject", "DestroyObject", "CreateService", "CreateService2", "DestroyService",
  "CallFunction", "CallFunction2", "CallFunctionReply", "AbortFunctionCall", "SubscribeEvent",
  "UnsubscribeEvent", "EmitEvent", "SubscribeService", "UnsubscribeService", "SubscribeAllEvents",
  "UnsubscribeAllEvents", "QueryServiceVersion", "QueryServiceInfo", "CreateChannel", "CloseChannelEnd",
  "ClaimChannelEnd", "SendItem", "AddChannelCapacity", "Sync", "CreateBusListener", "DestroyBusListener",
  "AddBusListenerFilter", "RemoveBusListenerFilter", "ClearBusListenerFilters", "StartBusListener",
  "StopBusListener", "RegisterIntrospection", "QueryIntrospection", "QueryIntrospectionReply"}

\* kinds of broker output the observer accounts for exactly (everything else is unconstrained)
CheckedKinds == {"QueryIntrospection", "QueryIntrospectionReply", "CreateObjectReply", "DestroyObjectReply", "CreateServiceReply", "DestroyServiceReply",
  "CallFunction", "CallFunction2", "CallFunctionReply", "AbortFunctionCall", "SubscribeEventReply",
  "SubscribeEvent", "UnsubscribeEvent", "EmitEvent", "SubscribeServiceReply", "SubscribeAllEventsReply",
  "UnsubscribeAllEventsReply", "SubscribeAllEvents", "UnsubscribeAllEvents", "ServiceDestroyed",
  "QueryServiceVersionReply", "QueryServiceInfoReply", "CreateChannelReply", "CloseChannelEndReply",
  "ClaimChannelEndReply", "ChannelEndClaimed", "ChannelEndClosed", "ItemReceived", "SyncReply",
  "CreateBusListenerReply", "DestroyBusListenerReply", "StartBusListenerReply", "StopBusListenerReply",
  "EmitBusEvent", "BusListenerCurrentFinished"}

\* which property an unexpected / missing / duplicated output of a kind is reported under
PropOfKind(k) ==
  CASE k \in {"CallFunction", "CallFunction2", "CallFunctionReply", "AbortFunctionCall"} -> "C02"
    [] k \in {"CreateObjectReply", "DestroyObjectReply", "CreateServiceReply", "DestroyServiceReply",
              "QueryServiceVersionReply", "QueryServiceInfoReply", "SubscribeEventReply",
              "SubscribeServiceReply", "SubscribeAllEventsReply", "UnsubscribeAllEventsReply"} -> "C03"
    [] k \in {"SubscribeEvent", "UnsubscribeEvent", "EmitEvent", "SubscribeAllEvents",
              "UnsubscribeAllEvents", "ServiceDestroyed"} -> "C04"
    [] k \in {"CreateChannelReply", "CloseChannelEndReply", "ClaimChannelEndReply", "ChannelEndClaimed",
              "ChannelEndClosed", "ItemReceived"} -> "C05"
    [] k \in {"CreateBusListenerReply", "DestroyBusListenerReply", "StartBusListenerReply",
              "StopBusListenerReply", "EmitBusEvent", "BusListenerCurrentFinished"} -> "C10"
    [] OTHER -> "C11"

PropOfInput(k) ==
  CASE k \in {"CallFunction", "CallFunction2", "CallFunctionReply", "AbortFunctionCall"} -> "C02"
    [] k \in {"CreateObject", "DestroyObject", "CreateService", "CreateService2", "DestroyService",
              "QueryServiceVersion", "QueryServiceInfo"} -> "C03"
    [] k \in {"SubscribeEvent", "UnsubscribeEvent", "EmitEvent", "SubscribeService", "UnsubscribeService",
              "SubscribeAllEvents", "UnsubscribeAllEvents"} -> "C04"
    [] k \in {"CreateChannel", "CloseChannelEnd", "ClaimChannelEnd", "SendItem", "AddChannelCapacity"} -> "C05"
    [] k \in {"CreateBusListener", "DestroyBusListener", "AddBusListenerFilter", "RemoveBusListenerFilter",
              "ClearBusListenerFilters", "StartBusListener", "StopBusListener"} -> "C10"
    [] OTHER -> "C11"

\* projection of an output to the tuple the expectations are phrased in
Proj(o) ==
  LET m == o.m  c == o.c  k == o.m.k IN
  CASE k \in {"CreateObjectReply", "DestroyObjectReply", "CreateServiceReply", "DestroyServiceReply",
              "SubscribeEventReply", "SubscribeServiceReply", "SubscribeAllEventsReply",
              "UnsubscribeAllEventsReply", "CloseChannelEndReply", "ClaimChannelEndReply",
              "DestroyBusListenerReply", "StartBusListenerReply", "StopBusListenerReply",
              "QueryServiceInfoReply"} -> <<c, m.serial, m.res>>
    [] k = "QueryServiceVersionReply" -> <<c, m.serial, m.res, m.ver>>
    [] k \in {"CallFunction", "CallFunction2"} -> <<c, m.svc, m.fn, m.hv, m.ver, m.val>>
    [] k = "CallFunctionReply" -> <<c, m.serial, m.res, m.val>>
    [] k \in {"AbortFunctionCall", "SyncReply", "CreateChannelReply", "CreateBusListenerReply"} -> <<c, m.serial>>
    [] k \in {"SubscribeEvent", "UnsubscribeEvent"} -> <<c, m.svc, m.ev>>
    [] k \in {"SubscribeAllEvents", "UnsubscribeAllEvents", "ServiceDestroyed"} -> <<c, m.svc>>
    [] k = "EmitEvent" -> <<c, m.svc, m.ev, m.val>>
    [] k = "ItemReceived" -> <<c, m.cookie, m.val>>
    [] k \in {"ChannelEndClaimed", "ChannelEndClosed"} -> <<c, m.cookie, m.end>>
    [] k = "EmitBusEvent" -> <<c, m.lc, m.be, m.ouuid, m.ocookie, m.suuid, m.scookie>>
    [] k = "BusListenerCurrentFinished" -> <<c, m.cookie>>
    \* (the payload of an introspection answer may be re-encoded for the asker: not compared)
    [] k = "QueryIntrospectionReply" -> <<c, m.serial, m.res>>
    [] k = "QueryIntrospection" -> <<c, m.serial, m.tid>>
    [] OTHER -> <<c>>

\* ---------------------------------------------------------------------------------------------
\* observer state
NoInp == [t |-> "none"]

ObsInit ==
  [ ok |-> TRUE, why |-> "", prop |-> "",
    conns |-> EmptyFn,      \* connection -> negotiated minor version
    dead |-> {},            \* connections whose task the harness dropped
    objs |-> EmptyFn,       \* object cookie -> [uuid, owner]
    svcs |-> EmptyFn,       \* service cookie -> [obj, ouuid, uuid, ver]
    used |-> {},            \* every cookie ever acknowledged
    ghosts |-> {},          \* cookies of entities whose acknowledgement could not be delivered
    calls |-> EmptyFn,      \* <<caller, caller serial>> -> [svc, b, callee]
    zomb |-> EmptyFn,       \* <<callee, b>> -> svc   (aborted / orphaned calls the callee may still answer)
    sub |-> {},             \* <<conn, svc, event>>
    all |-> {},             \* <<conn, svc>>
    ssub |-> {},            \* <<conn, svc>>
    chans |-> EmptyFn,      \* channel cookie -> [snd, rcv : [st, owner], sc, rc : U32]
    lsts |-> EmptyFn,       \* listener cookie -> [owner, filters, scope]
    ireg |-> {},            \* introspection: <<type id, connection>> that registered the type (and has not declined it)
    icache |-> EmptyFn,     \* introspection: type id -> TRUE once a queried connection has answered Ok
    iq |-> EmptyFn,         \* introspection: type id -> [conn, bs]: the query the broker has outstanding
    iask |-> {},            \* introspection: <<type id, connection, serial>> waiting for an answer
    strangers |-> {},       \* channel cookies about which a connection owning neither end has sent a capacity grant (C11)
    sdi |-> FALSE, sdb |-> FALSE, stopped |-> FALSE,
    inp |-> NoInp, outs |-> <<>>, rems |-> <<>> ]

Bad(S, p, w) == IF S.ok THEN [S EXCEPT !.ok = FALSE, !.prop = p, !.why = w] ELSE S

Owner(S, svc) == S.objs[S.svcs[svc].obj].owner
LiveSvc(S, svc) == svc \in DOMAIN S.svcs
SvcsOfObj(S, o) == {k \in DOMAIN S.svcs : S.svcs[k].obj = o}
EvSubs(S, svc, ev) == {t[1] : t \in {t \in S.sub : t[2] = svc /\ t[3] = ev}}
AllSubs(S, svc) == {t[1] : t \in {t \in S.all : t[2] = svc}}

\* filters (C10): the plain semantics of the filter set, not the broker's cached-flag strategy
MatchesObj(f, ouuid) == f.ft = "obj" /\ (f.o = 0 \/ f.o = ouuid)
MatchesSvc(f, ouuid, suuid) == f.ft = "svc" /\ (f.o = 0 \/ f.o = ouuid) /\ (f.s = 0 \/ f.s = suuid)
LstMatchesObj(l, ouuid) == \E f \in l.filters : MatchesObj(f, ouuid)
LstMatchesSvc(l, ouuid, suuid) == \E f \in l.filters : MatchesSvc(f, ouuid, suuid)
InclCurrent(scope) == scope \in {"Current", "All"}
InclNew(scope) == scope \in {"New", "All"}

\* ---------------------------------------------------------------------------------------------
\* Effect of the input of a macro-step.  Returns
\*   s      the abstract state after the input itself (before removals and cascades)
\*   req    set of <<kind, tuple>> outputs required exactly once
\*   opt    set of <<kind, tuple>> outputs allowed at most once
\*   just   connections whose removal in this macro-step is justified by the input
\*   must   connections that have to be removed in this macro-step
\*   dObjs, dSvcs  objects / services destroyed by the input itself
\*   soft   TRUE if the sender's acknowledgement may legitimately be missing (it is dead / removed)
NoFx(S) == [s |-> S, req |-> {}, opt |-> {}, just |-> {}, must |-> {}, dObjs |-> {}, dSvcs |-> {}]

\* the result code actually sent for (kind, c, serial), if exactly one such reply exists; "" otherwise
ActualRes(outs, kind, c, serial) ==
  LET I == {i \in 1..Len(outs) : outs[i].m.k = kind /\ outs[i].c = c /\ outs[i].m.serial = serial} IN
  IF Cardinality(I) = 1 THEN outs[CHOOSE i \in I : TRUE].m.res ELSE ""
ActualOut(outs, kind, c, serial) ==
  LET I == {i \in 1..Len(outs) : outs[i].m.k = kind /\ outs[i].c = c /\ outs[i].m.serial = serial} IN
  IF I = {} THEN [k |-> "none"] ELSE outs[SetMin(I)].m
Delivered(outs, kind, c, serial) ==
  \E i \in 1..Len(outs) : outs[i].m.k = kind /\ outs[i].c = c /\ outs[i].m.serial = serial /\ outs[i].ok

\* --- registry (C03) ---
FxCreateObject(S, c, m, outs) ==
  LET live == \E o \in DOMAIN S.objs : S.objs[o].uuid = m.uuid
      rep == ActualOut(outs, "CreateObjectReply", c, m.serial) IN
  IF live THEN [NoFx(S) EXCEPT !.req = {<<"CreateObjectReply", <<c, m.serial, "DuplicateObject">>>>}]
  ELSE
    LET base == [NoFx(S) EXCEPT !.req = {<<"CreateObjectReply", <<c, m.serial, "Ok">>>>}] IN
    IF rep.k = "none" \/ rep.res # "Ok" THEN base
    ELSE IF rep.cookie \in S.used THEN [base EXCEPT !.s = Bad(S, "C03", "object cookie was used before")]
    ELSE IF ~Delivered(outs, "CreateObjectReply", c, m.serial)
      THEN [base EXCEPT !.s = [S EXCEPT !.used = @ \cup {rep.cookie}, !.ghosts = @ \cup {rep.cookie}]]
      ELSE [base EXCEPT !.s = [S EXCEPT !.used = @ \cup {rep.cookie},
                                        !.objs = Put(@, rep.cookie, [uuid |-> m.uuid, owner |-> c])]]

FxDestroyObject(S, c, m, outs) ==
  IF m.cookie \notin DOMAIN S.objs
    THEN [NoFx(S) EXCEPT !.req = {<<"DestroyObjectReply", <<c, m.serial, "InvalidObject">>>>}]
  ELSE IF S.objs[m.cookie].owner # c
    THEN [NoFx(S) EXCEPT !.req = {<<"DestroyObjectReply", <<c, m.serial, "ForeignObject">>>>}]
  ELSE [NoFx(S) EXCEPT !.req = {<<"DestroyObjectReply", <<c, m.serial, "Ok">>>>},
                       !.dObjs = IF Delivered(outs, "DestroyObjectReply", c, m.serial) THEN {m.cookie} ELSE {}]

FxCreateService(S, c, m, outs, ver, infoOk) ==
  LET invalid == m.obj \notin DOMAIN S.objs
      dup == ~invalid /\ \E k \in DOMAIN S.svcs : S.svcs[k].obj = m.obj /\ S.svcs[k].uuid = m.uuid
      foreign == ~invalid /\ S.objs[m.obj].owner # c
      codes == IF invalid THEN {"InvalidObject"}
               ELSE (IF dup THEN {"DuplicateService"} ELSE {}) \cup (IF foreign THEN {"ForeignObject"} ELSE {})
      act == ActualRes(outs, "CreateServiceReply", c, m.serial)
      rep == ActualOut(outs, "CreateServiceReply", c, m.serial) IN
  IF codes # {} THEN
    \* the statement does not order the applicable codes: any applicable one is accepted
    [NoFx(S) EXCEPT !.req = {<<"CreateServiceReply", <<c, m.serial, IF act \in codes THEN act ELSE CHOOSE x \in codes : TRUE>>>>}]
  ELSE IF ~infoOk THEN
    \* ill-formed service info: closing or ignoring the sender is all the broker can do (C11)
    [NoFx(S) EXCEPT !.just = {c}]
  ELSE
    LET base == [NoFx(S) EXCEPT !.req = {<<"CreateServiceReply", <<c, m.serial, "Ok">>>>}] IN
    IF rep.k = "none" \/ rep.res # "Ok" THEN base
    ELSE IF rep.cookie \in S.used THEN [base EXCEPT !.s = Bad(S, "C03", "service cookie was used before")]
    ELSE IF ~Delivered(outs, "CreateServiceReply", c, m.serial)
      THEN [base EXCEPT !.s = [S EXCEPT !.used = @ \cup {rep.cookie}, !.ghosts = @ \cup {rep.cookie}]]
      ELSE [base EXCEPT !.s = [S EXCEPT !.used = @ \cup {rep.cookie},
              !.svcs = Put(@, rep.cookie, [obj |-> m.obj, ouuid |-> S.objs[m.obj].uuid, uuid |-> m.uuid, ver |-> ver])]]

FxDestroyService(S, c, m, outs) ==
  IF ~LiveSvc(S, m.cookie)
    THEN [NoFx(S) EXCEPT !.req = {<<"DestroyServiceReply", <<c, m.serial, "InvalidService">>>>}]
  ELSE IF Owner(S, m.cookie) # c
    THEN [NoFx(S) EXCEPT !.req = {<<"DestroyServiceReply", <<c, m.serial, "ForeignObject">>>>}]
  ELSE [NoFx(S) EXCEPT !.req = {<<"DestroyServiceReply", <<c, m.serial, "Ok">>>>},
                       !.dSvcs = IF Delivered(outs, "DestroyServiceReply", c, m.serial) THEN {m.cookie} ELSE {}]

FxQueryVersion(S, c, m) ==
  [NoFx(S) EXCEPT !.req = {<<"QueryServiceVersionReply",
      IF LiveSvc(S, m.cookie) THEN <<c, m.serial, "Ok", S.svcs[m.cookie].ver>>
                              ELSE <<c, m.serial, "InvalidService", 0>>>>}]

FxQueryInfo(S, c, m) ==
  [NoFx(S) EXCEPT !.req = {<<"QueryServiceInfoReply",
      <<c, m.serial, IF LiveSvc(S, m.cookie) THEN "Ok" ELSE "InvalidService">>>>}]

\* --- calls (C02, C12) ---
FxCall(S, c, m, outs) ==
  IF ~LiveSvc(S, m.svc)
    THEN [NoFx(S) EXCEPT !.req = {<<"CallFunctionReply", <<c, m.serial, "InvalidService", 0>>>>}]
  ELSE IF <<c, m.serial>> \in DOMAIN S.calls
    THEN [NoFx(S) EXCEPT !.just = {c}]      \* duplicate in-flight serial: the statement is silent
  ELSE
    LET callee == Owner(S, m.svc)
        \* the form of the forwarded call follows the callee's version (C12); a callee that knows
        \* CallFunction2 may also be sent the legacy form as long as no version field is lost
        newCallee == callee \in DOMAIN S.conns /\ S.conns[callee] >= 19
        legacyFwd == \E i \in 1..Len(outs) : outs[i].m.k = "CallFunction" /\ outs[i].c = callee
        fk == IF newCallee /\ ~(~m.hv /\ legacyFwd) THEN "CallFunction2" ELSE "CallFunction"
        hv == IF fk = "CallFunction2" THEN m.hv ELSE FALSE
        vv == IF fk = "CallFunction2" THEN m.ver ELSE 0
        F == {i \in 1..Len(outs) : outs[i].m.k \in {"CallFunction", "CallFunction2"} /\ outs[i].c = callee}
        b == IF F = {} THEN -1 ELSE outs[SetMin(F)].m.serial
        inuse == \/ \E key \in DOMAIN S.calls : S.calls[key].callee = callee /\ S.calls[key].b = b
                 \/ <<callee, b>> \in DOMAIN S.zomb
        wrongForm == \E i \in F : outs[i].m.k # fk
        S1 == IF F = {} THEN S
              ELSE IF wrongForm THEN Bad(S, "C12", "a call was forwarded in a form that does not match the callee's negotiated version")
              ELSE IF inuse THEN Bad(S, "C02", "forwarded call reuses a serial that is still in flight at the callee")
              ELSE [S EXCEPT !.calls = Put(@, <<c, m.serial>>, [svc |-> m.svc, b |-> b, callee |-> callee])] IN
    [NoFx(S) EXCEPT !.s = S1, !.req = {<<fk, <<callee, m.svc, m.fn, hv, vv, m.val>>>>}]

FxCallReply(S, c, m) ==
  IF <<c, m.serial>> \in DOMAIN S.zomb THEN [NoFx(S) EXCEPT !.s = [S EXCEPT !.zomb = Del(@, {<<c, m.serial>>})]]
  ELSE
    LET K == {key \in DOMAIN S.calls : S.calls[key].callee = c /\ S.calls[key].b = m.serial} IN
    IF K = {} THEN NoFx(S)
    ELSE LET key == CHOOSE k \in K : TRUE IN
         [NoFx(S) EXCEPT !.s = [S EXCEPT !.calls = Del(@, {key})],
                         !.req = {<<"CallFunctionReply", <<key[1], key[2], m.res, m.val>>>>}]

FxAbort(S, c, m) ==
  IF <<c, m.serial>> \notin DOMAIN S.calls THEN NoFx(S)
  ELSE LET call == S.calls[<<c, m.serial>>]
           tell == call.callee \in DOMAIN S.conns /\ S.conns[call.callee] >= 16 IN
       [NoFx(S) EXCEPT !.s = [S EXCEPT !.calls = Del(@, {<<c, m.serial>>}),
                                       !.zomb = Put(@, <<call.callee, call.b>>, call.svc)],
                       !.req = {<<"CallFunctionReply", <<c, m.serial, "Aborted", 0>>>>}
                               \cup (IF tell THEN {<<"AbortFunctionCall", <<call.callee, call.b>>>>} ELSE {})]

\* --- events (C04) ---
FxSubscribeEvent(S, c, m, outs) ==
  IF ~m.has THEN [NoFx(S) EXCEPT !.just = {c}]
  ELSE IF ~LiveSvc(S, m.svc)
    THEN [NoFx(S) EXCEPT !.req = {<<"SubscribeEventReply", <<c, m.serial, "InvalidService">>>>}]
  ELSE [NoFx(S) EXCEPT !.req = {<<"SubscribeEventReply", <<c, m.serial, "Ok">>>>},
         !.s = IF Delivered(outs, "SubscribeEventReply", c, m.serial)
               THEN [S EXCEPT !.sub = @ \cup {<<c, m.svc, m.ev>>}] ELSE S]

FxUnsubscribeEvent(S, c, m) == [NoFx(S) EXCEPT !.s = [S EXCEPT !.sub = @ \ {<<c, m.svc, m.ev>>}]]

FxEmitEvent(S, c, m) ==
  IF LiveSvc(S, m.svc) /\ Owner(S, m.svc) = c
    THEN [NoFx(S) EXCEPT !.req = {<<"EmitEvent", <<x, m.svc, m.ev, m.val>>>> : x \in EvSubs(S, m.svc, m.ev) \cup AllSubs(S, m.svc)}]
    ELSE NoFx(S)

FxSubscribeService(S, c, m, outs) ==
  IF ~LiveSvc(S, m.svc)
    THEN [NoFx(S) EXCEPT !.req = {<<"SubscribeServiceReply", <<c, m.serial, "InvalidService">>>>}]
  ELSE [NoFx(S) EXCEPT !.req = {<<"SubscribeServiceReply", <<c, m.serial, "Ok">>>>},
         !.s = IF Delivered(outs, "SubscribeServiceReply", c, m.serial)
               THEN [S EXCEPT !.ssub = @ \cup {<<c, m.svc>>}] ELSE S]

FxUnsubscribeService(S, c, m) == [NoFx(S) EXCEPT !.s = [S EXCEPT !.ssub = @ \ {<<c, m.svc>>}]]

FxSubscribeAll(S, c, m, outs) ==
  IF ~m.has THEN [NoFx(S) EXCEPT !.just = {c}]
  ELSE IF ~LiveSvc(S, m.svc)
    THEN [NoFx(S) EXCEPT !.req = {<<"SubscribeAllEventsReply", <<c, m.serial, "InvalidService">>>>}]
  ELSE
    \* whether the service supports it is not part of any listed statement: Ok and NotSupported are
    \* both accepted, the subscription exists iff the broker said Ok
    LET act == ActualRes(outs, "SubscribeAllEventsReply", c, m.serial)
        res == IF act \in {"Ok", "NotSupported"} THEN act ELSE "Ok" IN
    [NoFx(S) EXCEPT !.req = {<<"SubscribeAllEventsReply", <<c, m.serial, res>>>>},
       !.s = IF res = "Ok" /\ Delivered(outs, "SubscribeAllEventsReply", c, m.serial)
             THEN [S EXCEPT !.all = @ \cup {<<c, m.svc>>}] ELSE S]

FxUnsubscribeAll(S, c, m, outs) ==
  LET act == IF m.has THEN ActualRes(outs, "UnsubscribeAllEventsReply", c, m.serial) ELSE ""
      live == LiveSvc(S, m.svc)
      res == IF ~live THEN "InvalidService" ELSE IF act \in {"Ok", "NotSupported"} THEN act ELSE "Ok"
      applied == live /\ (res = "Ok") IN
  [NoFx(S) EXCEPT !.req = IF m.has THEN {<<"UnsubscribeAllEventsReply", <<c, m.serial, res>>>>} ELSE {},
     !.s = IF applied /\ (~m.has \/ Delivered(outs, "UnsubscribeAllEventsReply", c, m.serial))
           THEN [S EXCEPT !.all = @ \ {<<c, m.svc>>}] ELSE S]

\* --- channels (C05) ---
EndU == [st |-> "U", owner |-> -1]
EndX == [st |-> "X", owner |-> -1]
EndC(c) == [st |-> "C", owner |-> c]
OtherEnd(e) == IF e = "Sender" THEN "Receiver" ELSE "Sender"
EndOf(ch, e) == IF e = "Sender" THEN ch.snd ELSE ch.rcv
\* closing end e of channel k: the end becomes X; an unclaimed other end dies with it
CloseEnd(ch, e) ==
  LET o == EndOf(ch, OtherEnd(e))
      o2 == IF o.st = "U" THEN EndX ELSE o IN
  IF e = "Sender" THEN [ch EXCEPT !.snd = EndX, !.rcv = o2] ELSE [ch EXCEPT !.rcv = EndX, !.snd = o2]
\* who is told that end e of channel k is closed: the claimed owner of the other end
ClosedNote(k, ch, e) ==
  LET o == EndOf(ch, OtherEnd(e)) IN
  IF o.st = "C" THEN {<<"ChannelEndClosed", <<o.owner, k, e>>>>} ELSE {}

\* credit announced to the sender in this macro-step via AddChannelCapacity
AnnouncedNow(outs, k, sndOwner) ==
  Fold(LAMBDA acc, o : IF o.m.k = "AddChannelCapacity" /\ o.m.cookie = k /\ o.c = sndOwner THEN Add(acc, o.m.cap) ELSE acc,
       Zero, outs)

FxCreateChannel(S, c, m, outs) ==
  LET rep == ActualOut(outs, "CreateChannelReply", c, m.serial)
      base == [NoFx(S) EXCEPT !.req = {<<"CreateChannelReply", <<c, m.serial>>>>}] IN
  IF rep.k = "none" THEN base
  ELSE IF rep.cookie \in S.used THEN [base EXCEPT !.s = Bad(S, "C05", "channel cookie was used before")]
  ELSE IF ~Delivered(outs, "CreateChannelReply", c, m.serial)
    THEN [base EXCEPT !.s = [S EXCEPT !.used = @ \cup {rep.cookie}, !.ghosts = @ \cup {rep.cookie}]]
  ELSE [base EXCEPT !.s = [S EXCEPT !.used = @ \cup {rep.cookie},
          !.chans = Put(@, rep.cookie,
             IF m.end = "Sender" THEN [snd |-> EndC(c), rcv |-> EndU, sc |-> Zero, rc |-> Zero]
                                 ELSE [snd |-> EndU, rcv |-> EndC(c), sc |-> Zero, rc |-> m.cap])]]

FxCloseChannelEnd(S, c, m, outs) ==
  IF m.cookie \notin DOMAIN S.chans
    THEN [NoFx(S) EXCEPT !.req = {<<"CloseChannelEndReply", <<c, m.serial, "InvalidChannel">>>>}]
  ELSE
    LET ch == S.chans[m.cookie]  e == EndOf(ch, m.end) IN
    IF e.st = "X" THEN [NoFx(S) EXCEPT !.req = {<<"CloseChannelEndReply", <<c, m.serial, "InvalidChannel">>>>}]
    ELSE IF e.st = "C" /\ e.owner # c
      THEN [NoFx(S) EXCEPT !.req = {<<"CloseChannelEndReply", <<c, m.serial, "ForeignChannel">>>>}]
    ELSE IF ~Delivered(outs, "CloseChannelEndReply", c, m.serial)
      THEN [NoFx(S) EXCEPT !.req = {<<"CloseChannelEndReply", <<c, m.serial, "Ok">>>>}]
    ELSE [NoFx(S) EXCEPT !.req = {<<"CloseChannelEndReply", <<c, m.serial, "Ok">>>>} \cup ClosedNote(m.cookie, ch, m.end),
                         !.s = [S EXCEPT !.chans = Put(@, m.cookie, CloseEnd(ch, m.end))]]

FxClaimChannelEnd(S, c, m, outs) ==
  IF m.cookie \notin DOMAIN S.chans
    THEN [NoFx(S) EXCEPT !.req = {<<"ClaimChannelEndReply", <<c, m.serial, "InvalidChannel">>>>}]
  ELSE
    LET k == m.cookie  ch == S.chans[k]  e == EndOf(ch, m.end)  o == EndOf(ch, OtherEnd(m.end)) IN
    IF e.st = "C" THEN [NoFx(S) EXCEPT !.req = {<<"ClaimChannelEndReply", <<c, m.serial, "AlreadyClaimed">>>>}]
    ELSE IF e.st = "X" THEN [NoFx(S) EXCEPT !.req = {<<"ClaimChannelEndReply", <<c, m.serial, "InvalidChannel">>>>}]
    ELSE \* unclaimed, hence the other end is claimed by its creator
      LET rep == ActualOut(outs, "ClaimChannelEndReply", c, m.serial)
          note == {i \in 1..Len(outs) : outs[i].m.k = "ChannelEndClaimed" /\ outs[i].m.cookie = k /\ outs[i].c = o.owner}
          res == IF m.end = "Sender" THEN "SenderClaimed" ELSE "ReceiverClaimed"
          \* the capacity announced to the sender is what the broker tells it
          sc2 == IF m.end = "Sender"
                   THEN (IF rep.k # "none" /\ rep.res = "SenderClaimed" THEN rep.cap ELSE Zero)
                   ELSE (IF note # {} THEN outs[SetMin(note)].m.cap ELSE Zero)
          rc2 == IF m.end = "Sender" THEN ch.rc ELSE m.cap
          ch2 == IF m.end = "Sender" THEN [ch EXCEPT !.snd = EndC(c), !.sc = sc2]
                                     ELSE [ch EXCEPT !.rcv = EndC(c), !.rc = rc2, !.sc = sc2] IN
      [NoFx(S) EXCEPT !.req = {<<"ClaimChannelEndReply", <<c, m.serial, res>>>>,
                               <<"ChannelEndClaimed", <<o.owner, k, m.end>>>>},
                      !.s = [S EXCEPT !.chans = Put(@, k, ch2)]]

FxSendItem(S, c, m, outs, dumpChans) ==
  IF m.cookie \notin DOMAIN S.chans THEN NoFx(S)
  ELSE
    LET k == m.cookie  ch == S.chans[k] IN
    IF ~(ch.snd.st = "C" /\ ch.snd.owner = c) THEN NoFx(S)
    ELSE IF ch.rcv.st = "X" THEN NoFx(S)
    ELSE IF ch.rcv.st = "U" THEN
      \* sending before the receiver is claimed: the statement is silent; the broker's own state
      \* tells whether it tore the channel down (then the sender may be told) or ignored the item
      IF k \in dumpChans THEN NoFx(S)
      ELSE [NoFx(S) EXCEPT !.opt = {<<"ChannelEndClosed", <<c, k, "Receiver">>>>},
                           !.s = [S EXCEPT !.chans = Put(@, k, [ch EXCEPT !.snd = EndX, !.rcv = EndX])]]
    ELSE IF IsZero(ch.sc) THEN
      \* the sender exceeded the capacity announced to it: it loses its own end, nothing else
      [NoFx(S) EXCEPT !.req = ClosedNote(k, ch, "Sender"),
                      !.s = [S EXCEPT !.chans = Put(@, k, CloseEnd(ch, "Sender"))]]
    ELSE IF IsZero(ch.rc) THEN
      \* announced credit without granted credit: either forwarding or cutting off breaks C05
      [NoFx(S) EXCEPT !.s = Bad(S, "C05", "sender was announced more capacity than the receiver granted")]
    ELSE
      LET sc2 == Add(Dec(ch.sc), AnnouncedNow(outs, k, c)) IN
      [NoFx(S) EXCEPT !.req = {<<"ItemReceived", <<ch.rcv.owner, k, m.val>>>>},
                      !.s = [S EXCEPT !.chans = Put(@, k, [ch EXCEPT !.sc = sc2, !.rc = Dec(ch.rc)])]]

FxAddCapacity(S, c, m, outs) ==
  IF m.cookie \notin DOMAIN S.chans THEN NoFx(S)
  ELSE
    LET k == m.cookie  ch == S.chans[k] IN
    IF ~(ch.rcv.st = "C" /\ ch.rcv.owner = c) \/ IsZero(m.cap)
      \* not the receiver's owner: no effect; remembered, because a credit clause broken later on this
      \* channel is then also "other connections affected by a message that is none of the sender's business"
      THEN [NoFx(S) EXCEPT !.s = [S EXCEPT !.strangers = @ \cup (IF ch.rcv.st = "C" /\ ch.rcv.owner = c THEN {} ELSE {k})]]
    ELSE IF Overflows(Add(ch.rc, m.cap)) THEN
      \* a grant that would overflow closes only the receiver
      [NoFx(S) EXCEPT !.req = ClosedNote(k, ch, "Receiver"),
                      !.s = [S EXCEPT !.chans = Put(@, k, CloseEnd(ch, "Receiver"))]]
    ELSE
      LET ann == IF ch.snd.st = "C" THEN AnnouncedNow(outs, k, ch.snd.owner) ELSE Zero IN
      [NoFx(S) EXCEPT !.s = [S EXCEPT !.chans = Put(@, k, [ch EXCEPT !.rc = Add(ch.rc, m.cap), !.sc = Add(ch.sc, ann)])]]

\* --- bus listeners (C10) ---
FxCreateListener(S, c, m, outs) ==
  LET rep == ActualOut(outs, "CreateBusListenerReply", c, m.serial)
      base == [NoFx(S) EXCEPT !.req = {<<"CreateBusListenerReply", <<c, m.serial>>>>}] IN
  IF rep.k = "none" THEN base
  ELSE IF rep.cookie \in S.used THEN [base EXCEPT !.s = Bad(S, "C10", "listener cookie was used before")]
  ELSE IF ~Delivered(outs, "CreateBusListenerReply", c, m.serial)
    THEN [base EXCEPT !.s = [S EXCEPT !.used = @ \cup {rep.cookie}, !.ghosts = @ \cup {rep.cookie}]]
  ELSE [base EXCEPT !.s = [S EXCEPT !.used = @ \cup {rep.cookie},
          !.lsts = Put(@, rep.cookie, [owner |-> c, filters |-> {}, scope |-> "None"])]]

OwnLst(S, c, L) == L \in DOMAIN S.lsts /\ S.lsts[L].owner = c

FxDestroyListener(S, c, m, outs) ==
  IF ~OwnLst(S, c, m.cookie)
    THEN [NoFx(S) EXCEPT !.req = {<<"DestroyBusListenerReply", <<c, m.serial, "InvalidBusListener">>>>}]
  ELSE [NoFx(S) EXCEPT !.req = {<<"DestroyBusListenerReply", <<c, m.serial, "Ok">>>>},
         !.s = IF Delivered(outs, "DestroyBusListenerReply", c, m.serial)
               THEN [S EXCEPT !.lsts = Del(@, {m.cookie})] ELSE S]

FxFilter(S, c, m) ==
  IF ~OwnLst(S, c, m.cookie) THEN NoFx(S)
  ELSE LET l == S.lsts[m.cookie]
           fs == CASE m.k = "AddBusListenerFilter" -> l.filters \cup {m.filter}
                   [] m.k = "RemoveBusListenerFilter" -> l.filters \ {m.filter}
                   [] OTHER -> {} IN
       [NoFx(S) EXCEPT !.s = [S EXCEPT !.lsts = Put(@, m.cookie, [l EXCEPT !.filters = fs])]]

FxStartListener(S, c, m, outs) ==
  IF ~OwnLst(S, c, m.cookie)
    THEN [NoFx(S) EXCEPT !.req = {<<"StartBusListenerReply", <<c, m.serial, "InvalidBusListener">>>>}]
  ELSE
    LET L == m.cookie  l == S.lsts[L] IN
    IF l.scope # "None" THEN [NoFx(S) EXCEPT !.req = {<<"StartBusListenerReply", <<c, m.serial, "AlreadyStarted">>>>}]
    ELSE IF ~Delivered(outs, "StartBusListenerReply", c, m.serial)
      THEN [NoFx(S) EXCEPT !.req = {<<"StartBusListenerReply", <<c, m.serial, "Ok">>>>}]
    ELSE
      LET cur == IF InclCurrent(m.scope)
                 THEN {<<"EmitBusEvent", <<c, L, "ObjectCreated", S.objs[o].uuid, o, 0, 0>>>> :
                         o \in {o \in DOMAIN S.objs : LstMatchesObj(l, S.objs[o].uuid)}}
                      \cup {<<"EmitBusEvent", <<c, L, "ServiceCreated", S.svcs[k].ouuid, S.svcs[k].obj, S.svcs[k].uuid, k>>>> :
                         k \in {k \in DOMAIN S.svcs : LstMatchesSvc(l, S.svcs[k].ouuid, S.svcs[k].uuid)}}
                      \cup {<<"BusListenerCurrentFinished", <<c, L>>>>}
                 ELSE {} IN
      [NoFx(S) EXCEPT !.req = {<<"StartBusListenerReply", <<c, m.serial, "Ok">>>>} \cup cur,
                      !.s = [S EXCEPT !.lsts = Put(@, L, [l EXCEPT !.scope = m.scope])]]

FxStopListener(S, c, m, outs) ==
  IF ~OwnLst(S, c, m.cookie)
    THEN [NoFx(S) EXCEPT !.req = {<<"StopBusListenerReply", <<c, m.serial, "InvalidBusListener">>>>}]
  ELSE LET l == S.lsts[m.cookie] IN
       IF l.scope = "None" THEN [NoFx(S) EXCEPT !.req = {<<"StopBusListenerReply", <<c, m.serial, "NotStarted">>>>}]
       ELSE [NoFx(S) EXCEPT !.req = {<<"StopBusListenerReply", <<c, m.serial, "Ok">>>>},
              !.s = [S EXCEPT !.lsts = Put(@, m.cookie, [l EXCEPT !.scope = "None"])]]

\* --- dispatch of a client message ---
\* --- introspection (C11: a type's description comes from a connection that registered it and was
\*     asked; nobody else's word is taken; askers are answered once) ---
FxIntroQuery(S, c, m) ==
  IF m.tid \in DOMAIN S.icache
    THEN [NoFx(S) EXCEPT !.req = {<<"QueryIntrospectionReply", <<c, m.serial, "Ok">>>>}]
    \* otherwise the asker waits; IntroSettle decides what must happen (forward, or "unavailable")
    ELSE [NoFx(S) EXCEPT !.s = [S EXCEPT !.iask = @ \cup {<<m.tid, c, m.serial>>}]]

FxIntroReply(S, c, m) ==
  LET T == {t \in DOMAIN S.iq : S.iq[t].conn = c /\ S.iq[t].bs = m.serial} IN
  IF T = {} THEN [NoFx(S) EXCEPT !.just = {c}]      \* nobody asked this connection: no effect on anyone else; it may be closed
  ELSE LET t == CHOOSE t \in T : TRUE
           askers == {a \in S.iask : a[1] = t} IN
       IF m.res = "Ok"
         THEN [NoFx(S) EXCEPT !.s = [S EXCEPT !.icache = Put(@, t, TRUE), !.iq = Del(@, {t}), !.iask = @ \ askers],
                              !.req = {<<"QueryIntrospectionReply", <<a[2], a[3], "Ok">>>> : a \in askers}]
         \* the connection declines: it is no longer asked for this type (nor answered, if it was asking itself)
         ELSE [NoFx(S) EXCEPT !.s = [S EXCEPT !.ireg = @ \ {<<t, c>>}, !.iq = Del(@, {t}),
                                              !.iask = @ \ {a \in askers : a[2] = c}]]

\* After the removals of a macro-step: every waiting asker either still has a query outstanding at a
\* live connection that registered the type, or a new query goes to such a connection now, or -- if
\* there is none left -- is told "unavailable".  Which connection is asked is the broker's choice and
\* is read from the outputs.
IntroSettle(S, Rem, outs, strict, prevIq) ==
  LET reg == {p \in S.ireg : p[2] \notin Rem}
      ask == {a \in S.iask : a[2] \notin Rem}
      iq1 == [t \in {t \in DOMAIN S.iq : S.iq[t].conn \notin Rem} |-> S.iq[t]]
      cand(t) == {p[2] : p \in {p \in reg : p[1] = t}}
      cache == [t \in {t \in DOMAIN S.icache : cand(t) # {}} |-> TRUE]
      need == {a[1] : a \in ask} \ (DOMAIN cache \cup DOMAIN iq1)
      \* (a connection whose task was dropped is still asked: the broker cannot know)
      F(t) == {i \in 1..Len(outs) : outs[i].m.k = "QueryIntrospection" /\ outs[i].m.tid = t /\ outs[i].c \in cand(t)}
      fwd == {t \in need : cand(t) # {}}
      unav == {t \in need : cand(t) = {}}
      lost == {t \in fwd : F(t) = {}}
      \* a query that ended in this step without an answer (its connection went away or declined) is
      \* started again by the broker even if nobody is waiting any more: allowed, not required
      lostNow == {outs[i].m.tid : i \in {i \in 1..Len(outs) : outs[i].m.k = "QueryIntrospection" /\ outs[i].c \in Rem}}
      again == {t \in (prevIq \cup lostNow) \ (DOMAIN iq1 \cup DOMAIN cache \cup need) : F(t) # {}}
      iq2 == [t \in DOMAIN iq1 \cup (fwd \ lost) \cup again |->
                IF t \in DOMAIN iq1 THEN iq1[t] ELSE [conn |-> outs[SetMax(F(t))].c, bs |-> outs[SetMax(F(t))].m.serial]]
      req == {<<"QueryIntrospection", <<iq2[t].conn, iq2[t].bs, t>>>> : t \in fwd \ lost}
             \cup {<<"QueryIntrospectionReply", <<a[2], a[3], "Unavailable">>>> : a \in {a \in ask : a[1] \in unav}}
  IN [s |-> [S EXCEPT !.ireg = reg, !.icache = cache, !.iq = iq2, !.iask = {a \in ask : a[1] \notin unav}],
      req |-> req,
      opt |-> {<<"QueryIntrospection", <<iq2[t].conn, iq2[t].bs, t>>>> : t \in again},
      bad |-> IF lost # {} THEN "a query for a type that a live connection has registered was neither forwarded nor answered" ELSE ""]

FxMsg(S, c, m, outs, dumpChans) ==
  LET k == m.k IN
  IF c \notin DOMAIN S.conns THEN NoFx(S)                      \* message of a connection that is already gone
  ELSE IF k \notin ClientToBroker THEN [NoFx(S) EXCEPT !.just = {c}]                \* wrong direction (C11)
  ELSE IF S.conns[c] < MinVer(k) THEN [NoFx(S) EXCEPT !.just = {c}, !.must = {c}]   \* gated (C12)
  ELSE CASE k = "CreateObject" -> FxCreateObject(S, c, m, outs)
         [] k = "DestroyObject" -> FxDestroyObject(S, c, m, outs)
         [] k = "CreateService" -> FxCreateService(S, c, m, outs, m.ver, TRUE)
         [] k = "CreateService2" -> FxCreateService(S, c, m, outs, m.info.ver, m.info.ok)
         [] k = "DestroyService" -> FxDestroyService(S, c, m, outs)
         [] k = "QueryServiceVersion" -> FxQueryVersion(S, c, m)
         [] k = "QueryServiceInfo" -> FxQueryInfo(S, c, m)
         [] k \in {"CallFunction", "CallFunction2"} -> FxCall(S, c, m, outs)
         [] k = "CallFunctionReply" -> FxCallReply(S, c, m)
         [] k = "AbortFunctionCall" -> FxAbort(S, c, m)
         [] k = "SubscribeEvent" -> FxSubscribeEvent(S, c, m, outs)
         [] k = "UnsubscribeEvent" -> FxUnsubscribeEvent(S, c, m)
         [] k = "EmitEvent" -> FxEmitEvent(S, c, m)
         [] k = "SubscribeService" -> FxSubscribeService(S, c, m, outs)
         [] k = "UnsubscribeService" -> FxUnsubscribeService(S, c, m)
         [] k = "SubscribeAllEvents" -> FxSubscribeAll(S, c, m, outs)
         [] k = "UnsubscribeAllEvents" -> FxUnsubscribeAll(S, c, m, outs)
         [] k = "CreateChannel" -> FxCreateChannel(S, c, m, outs)
         [] k = "CloseChannelEnd" -> FxCloseChannelEnd(S, c, m, outs)
         [] k = "ClaimChannelEnd" -> FxClaimChannelEnd(S, c, m, outs)
         [] k = "SendItem" -> FxSendItem(S, c, m, outs, dumpChans)
         [] k = "AddChannelCapacity" -> FxAddCapacity(S, c, m, outs)
         [] k = "Sync" -> [NoFx(S) EXCEPT !.req = {<<"SyncReply", <<c, m.serial>>>>}]
         [] k = "CreateBusListener" -> FxCreateListener(S, c, m, outs)
         [] k = "DestroyBusListener" -> FxDestroyListener(S, c, m, outs)
         [] k \in {"AddBusListenerFilter", "RemoveBusListenerFilter", "ClearBusListenerFilters"} -> FxFilter(S, c, m)
         [] k = "StartBusListener" -> FxStartListener(S, c, m, outs)
         [] k = "StopBusListener" -> FxStopListener(S, c, m, outs)
         [] k = "RegisterIntrospection" ->
              IF m.ok THEN [NoFx(S) EXCEPT !.s = [S EXCEPT !.ireg = @ \cup {<<m.tids[i], c>> : i \in 1..Len(m.tids)}]]
              ELSE [NoFx(S) EXCEPT !.just = {c}]
         [] k = "QueryIntrospection" -> FxIntroQuery(S, c, m)
         [] k = "QueryIntrospectionReply" -> FxIntroReply(S, c, m)
         [] OTHER -> NoFx(S)

FxInput(S, inp, outs, dumpChans) ==
  CASE inp.t = "new" -> [NoFx(S) EXCEPT !.s = [S EXCEPT !.conns = Put(@, inp.c, inp.ver)]]
    [] inp.t = "msg" -> FxMsg(S, inp.c, inp.m, outs, dumpChans)
    [] inp.t \in {"shut", "sdc"} -> LET X == IF inp.c \in DOMAIN S.conns THEN {inp.c} ELSE {} IN
                                    [NoFx(S) EXCEPT !.just = X, !.must = X]
    [] inp.t = "sdb" -> [NoFx(S) EXCEPT !.just = DOMAIN S.conns, !.must = DOMAIN S.conns,
                                        !.opt = {<<"Shutdown", <<x>>>> : x \in DOMAIN S.conns},
                                        !.s = [S EXCEPT !.sdb = TRUE]]
    [] inp.t = "sdi" -> [NoFx(S) EXCEPT !.s = [S EXCEPT !.sdi = TRUE]]
    [] OTHER -> NoFx(S)

\* ---------------------------------------------------------------------------------------------
\* Cascade: removal of connections and death of objects / services (C02, C03, C04, C05, C09, C10)
Cascade(S, Rem, dObjs0, dSvcs0) ==
  LET dObjs == dObjs0 \cup {o \in DOMAIN S.objs : S.objs[o].owner \in Rem}
      dSvcs == dSvcs0 \cup {k \in DOMAIN S.svcs : S.svcs[k].obj \in dObjs}
      \* calls on dying services are answered InvalidService (C02)
      deadCalls == {key \in DOMAIN S.calls : S.calls[key].svc \in dSvcs}
      repl == {<<"CallFunctionReply", <<key[1], key[2], "InvalidService", 0>>>> : key \in deadCalls}
      \* calls whose caller vanished are aborted at the callee if it understands aborts (C02, C12)
      orphan == {key \in DOMAIN S.calls \ deadCalls : key[1] \in Rem}
      aborts == {<<"AbortFunctionCall", <<S.calls[key].callee, S.calls[key].b>>>> :
                   key \in {key \in orphan : S.calls[key].callee \in DOMAIN S.conns /\ S.conns[S.calls[key].callee] >= 16}}
      \* a callee may still answer a call that the broker has ended -- because the caller vanished or because
      \* the service went away while the callee lives on (a promise can outlive its service): until it does,
      \* or goes away itself, the call's serial must not be handed to it again
      ended == orphan \cup deadCalls
      zomb1 == [z \in (DOMAIN S.zomb \cup {<<S.calls[key].callee, S.calls[key].b>> : key \in ended}) |->
                  IF z \in DOMAIN S.zomb THEN S.zomb[z]
                  ELSE S.calls[CHOOSE key \in ended : <<S.calls[key].callee, S.calls[key].b>> = z].svc]
      zomb2 == Del(zomb1, {z \in DOMAIN zomb1 : z[1] \in Rem})
      \* subscribers of dying services are told once (C04); all-events-only subscribers: statement silent
      sdReq == {<<"ServiceDestroyed", <<t[1], t[2]>>>> : t \in {t \in S.sub : t[2] \in dSvcs}}
               \cup {<<"ServiceDestroyed", <<t[1], t[2]>>>> : t \in {t \in S.ssub : t[2] \in dSvcs}}
      sdOpt == {<<"ServiceDestroyed", <<t[1], t[2]>>>> : t \in {t \in S.all : t[2] \in dSvcs}}
      sub2 == {t \in S.sub : t[1] \notin Rem /\ t[2] \notin dSvcs}
      all2 == {t \in S.all : t[1] \notin Rem /\ t[2] \notin dSvcs}
      ssub2 == {t \in S.ssub : t[1] \notin Rem /\ t[2] \notin dSvcs}
      \* channel ends of removed connections are closed, the peer is told once (C05)
      chNotes == UNION {(IF ch.snd.st = "C" /\ ch.snd.owner \in Rem /\ ~(ch.rcv.st = "C" /\ ch.rcv.owner \in Rem)
                           THEN ClosedNote(k, ch, "Sender") ELSE {})
                        \cup (IF ch.rcv.st = "C" /\ ch.rcv.owner \in Rem /\ ~(ch.snd.st = "C" /\ ch.snd.owner \in Rem)
                           THEN ClosedNote(k, ch, "Receiver") ELSE {})
                        : <<k, ch>> \in {<<k, S.chans[k]>> : k \in DOMAIN S.chans}}
      chans2 == [k \in DOMAIN S.chans |->
                  LET ch == S.chans[k]
                      c1 == IF ch.snd.st = "C" /\ ch.snd.owner \in Rem THEN CloseEnd(ch, "Sender") ELSE ch
                      c2 == IF c1.rcv.st = "C" /\ c1.rcv.owner \in Rem THEN CloseEnd(c1, "Receiver") ELSE c1 IN c2]
      \* untagged bus events (C10): one per connection owning a started, matching listener
      newConns(isObj, ouuid, suuid) ==
        {S.lsts[L].owner : L \in {L \in DOMAIN S.lsts : InclNew(S.lsts[L].scope) /\
             (IF isObj THEN LstMatchesObj(S.lsts[L], ouuid) ELSE LstMatchesSvc(S.lsts[L], ouuid, suuid))}}
      beObj == UNION {{<<"EmitBusEvent", <<x, 0, "ObjectDestroyed", S.objs[o].uuid, o, 0, 0>>>> : x \in newConns(TRUE, S.objs[o].uuid, 0)} : o \in dObjs}
      beSvc == UNION {{<<"EmitBusEvent", <<x, 0, "ServiceDestroyed", S.svcs[k].ouuid, S.svcs[k].obj, S.svcs[k].uuid, k>>>> :
                          x \in newConns(FALSE, S.svcs[k].ouuid, S.svcs[k].uuid)} : k \in dSvcs}
  IN [ s |-> [S EXCEPT !.conns = Del(@, Rem), !.dead = @ \ Rem,
                       !.objs = Del(@, dObjs), !.svcs = Del(@, dSvcs),
                       !.calls = Del(@, deadCalls \cup orphan), !.zomb = zomb2,
                       !.sub = sub2, !.all = all2, !.ssub = ssub2, !.chans = chans2,
                       !.lsts = Del(@, {L \in DOMAIN S.lsts : S.lsts[L].owner \in Rem})],
       req |-> repl \cup aborts \cup sdReq \cup chNotes \cup beObj \cup beSvc,
       opt |-> sdOpt, dObjs |-> dObjs, dSvcs |-> dSvcs ]

\* untagged creation events (C10) for entities acknowledged in this macro-step
CreatedEvents(Spre, Spost) ==
  LET newConns(isObj, ouuid, suuid) ==
        {Spre.lsts[L].owner : L \in {L \in DOMAIN Spre.lsts : InclNew(Spre.lsts[L].scope) /\
             (IF isObj THEN LstMatchesObj(Spre.lsts[L], ouuid) ELSE LstMatchesSvc(Spre.lsts[L], ouuid, suuid))}}
  IN UNION {{<<"EmitBusEvent", <<x, 0, "ObjectCreated", Spost.objs[o].uuid, o, 0, 0>>>> : x \in newConns(TRUE, Spost.objs[o].uuid, 0)}
               : o \in DOMAIN Spost.objs \ DOMAIN Spre.objs}
     \cup UNION {{<<"EmitBusEvent", <<x, 0, "ServiceCreated", Spost.svcs[k].ouuid, Spost.svcs[k].obj, Spost.svcs[k].uuid, k>>>> :
                    x \in newConns(FALSE, Spost.svcs[k].ouuid, Spost.svcs[k].uuid)}
               : k \in DOMAIN Spost.svcs \ DOMAIN Spre.svcs}

\* 0 <-> 1 transitions of subscriber counts, told to the owner (C04)
Transitions(Spre, Spost, survivors) ==
  LET pairs == {<<t[2], t[3]>> : t \in Spre.sub \cup Spost.sub}
      svcsAll == {t[2] : t \in Spre.all \cup Spost.all}
      alive(k) == k \in DOMAIN Spost.svcs /\ k \in DOMAIN Spre.svcs /\ Owner(Spost, k) \in survivors
  IN {<<"SubscribeEvent", <<Owner(Spost, p[1]), p[1], p[2]>>>> :
         p \in {p \in pairs : alive(p[1]) /\ EvSubs(Spre, p[1], p[2]) = {} /\ EvSubs(Spost, p[1], p[2]) # {}}}
     \cup {<<"UnsubscribeEvent", <<Owner(Spost, p[1]), p[1], p[2]>>>> :
         p \in {p \in pairs : alive(p[1]) /\ EvSubs(Spre, p[1], p[2]) # {} /\ EvSubs(Spost, p[1], p[2]) = {}}}
     \cup {<<"SubscribeAllEvents", <<Owner(Spost, k), k>>>> :
         k \in {k \in svcsAll : alive(k) /\ AllSubs(Spre, k) = {} /\ AllSubs(Spost, k) # {}}}
     \cup {<<"UnsubscribeAllEvents", <<Owner(Spost, k), k>>>> :
         k \in {k \in svcsAll : alive(k) /\ AllSubs(Spre, k) # {} /\ AllSubs(Spost, k) = {}}}

\* ---------------------------------------------------------------------------------------------
\* Comparison of the macro-step's outputs with the expectations
\* The statements fix *whether* these requests succeed, not which error code a refusal carries:
\* every refusal code is the same to the observer (the exact code is conformance, Trace_Broker.tla).
LooseErrKinds == {"CloseChannelEndReply", "ClaimChannelEndReply", "DestroyBusListenerReply", "StartBusListenerReply", "StopBusListenerReply"}
NormE(e) == IF e[1] \in LooseErrKinds /\ e[2][3] \notin {"Ok", "SenderClaimed", "ReceiverClaimed"}
              THEN <<e[1], <<e[2][1], e[2][2], "refused">>>> ELSE e

CheckOuts(S, outs, strict, req0, opt0, sender) ==
  LET A == SelectSeq(outs, LAMBDA o : o.m.k \in CheckedKinds /\ o.c \in strict)
      P == [i \in 1..Len(A) |-> NormE(<<A[i].m.k, Proj(A[i])>>)]
      req == {NormE(e) : e \in req0}
      opt == {NormE(e) : e \in opt0}
      reqS == {e \in req : e[2][1] \in strict}
      optS == {e \in opt : e[2][1] \in strict}
      cnt(e) == Cardinality({i \in 1..Len(P) : P[i] = e})
      missing == {e \in reqS : cnt(e) = 0}
      \* (a connection may ask twice for the same type under the same serial; it is then answered twice)
      dupl == {e \in reqS \cup optS : cnt(e) > 1 /\ e[1] # "QueryIntrospectionReply"}
      extra == {i \in 1..Len(P) : P[i] \notin reqS /\ P[i] \notin optS}
      \* who is affected: the sender of the input itself, or another connection (C11 cares about the latter)
      whom(c) == IF c = sender THEN " (to the sender of the request)" ELSE " (to another connection)"
  IN IF missing # {} THEN LET e == CHOOSE e \in missing : TRUE IN
                          Bad(S, PropOfKind(e[1]), "missing output " \o e[1] \o whom(e[2][1]))
     ELSE IF dupl # {} THEN LET e == CHOOSE e \in dupl : TRUE IN
                          Bad(S, PropOfKind(e[1]), "duplicated output " \o e[1] \o whom(e[2][1]))
     ELSE IF extra # {} THEN LET i == SetMin(extra) IN
                          Bad(S, PropOfKind(P[i][1]), "unexpected output " \o P[i][1] \o whom(P[i][2][1]))
     ELSE S

\* version discipline of everything the broker sends (C12)
CheckVersions(S, outs, vers) ==
  IF \E i \in 1..Len(outs) : outs[i].c \in DOMAIN vers /\ MinVer(outs[i].m.k) > vers[outs[i].c]
    THEN Bad(S, "C12", "message kind newer than the recipient's negotiated version")
    ELSE S

\* order clauses (C10): the end-of-current marker follows the tagged events; a service is reported
\* destroyed before its object
CheckOrder(S, outs) ==
  LET fin == {i \in 1..Len(outs) : outs[i].m.k = "BusListenerCurrentFinished"}
      tagged == {i \in 1..Len(outs) : outs[i].m.k = "EmitBusEvent" /\ outs[i].m.lc # 0}
      badFin == \E i \in tagged : \E j \in fin : outs[i].c = outs[j].c /\ outs[i].m.lc = outs[j].m.cookie /\ j < i
      od == {i \in 1..Len(outs) : outs[i].m.k = "EmitBusEvent" /\ outs[i].m.lc = 0 /\ outs[i].m.be = "ObjectDestroyed"}
      sd == {i \in 1..Len(outs) : outs[i].m.k = "EmitBusEvent" /\ outs[i].m.lc = 0 /\ outs[i].m.be = "ServiceDestroyed"}
      badOrd == \E i \in od : \E j \in sd : outs[i].c = outs[j].c /\ outs[i].m.ocookie = outs[j].m.ocookie /\ i < j
  IN IF badFin THEN Bad(S, "C10", "tagged bus event after the end-of-current marker")
     ELSE IF badOrd THEN Bad(S, "C10", "object reported destroyed before one of its services")
     ELSE S

\* ---------------------------------------------------------------------------------------------
\* Comparison with the broker's own state dump (C09 and the map-specific properties)
DumpCheck(S, st) ==
  LET dConns == {st.conns[i].id : i \in 1..Len(st.conns)}
      dObjs == {st.objs[i].cookie : i \in 1..Len(st.objs)}
      dObjIdx == {st.objUuids[i].cookie : i \in 1..Len(st.objUuids)}
      dSvcs == {st.svcs[i].cookie : i \in 1..Len(st.svcs)}
      dSvcIdx == {st.svcUuids[i].cookie : i \in 1..Len(st.svcUuids)}
      dLsts == {st.lsts[i].cookie : i \in 1..Len(st.lsts)}
      dChans == {st.chans[i].cookie : i \in 1..Len(st.chans)}
      oChans == {k \in DOMAIN S.chans : S.chans[k].snd.st = "C" \/ S.chans[k].rcv.st = "C"}
      dSub == UNION {UNION {{<<st.svcs[i].events[j].conns[n], st.svcs[i].cookie, st.svcs[i].events[j].ev>> :
                               n \in 1..Len(st.svcs[i].events[j].conns)} : j \in 1..Len(st.svcs[i].events)} : i \in 1..Len(st.svcs)}
      dAll == UNION {{<<st.svcs[i].allEvents[n], st.svcs[i].cookie>> : n \in 1..Len(st.svcs[i].allEvents)} : i \in 1..Len(st.svcs)}
      dSsub == UNION {{<<st.svcs[i].subs[n], st.svcs[i].cookie>> : n \in 1..Len(st.svcs[i].subs)} : i \in 1..Len(st.svcs)}
      dCalls == {<<st.calls[i].caller, st.calls[i].cs>> : i \in {i \in 1..Len(st.calls) : ~st.calls[i].aborted}}
      refConns == {st.objs[i].conn : i \in 1..Len(st.objs)} \cup {st.lsts[i].conn : i \in 1..Len(st.lsts)}
                  \cup {t[1] : t \in dSub \cup dAll \cup dSsub}
                  \cup {st.chans[i].snd.owner : i \in {i \in 1..Len(st.chans) : st.chans[i].snd.st = "Claimed"}}
                  \cup {st.chans[i].rcv.owner : i \in {i \in 1..Len(st.chans) : st.chans[i].rcv.st = "Claimed"}}
                  \cup {st.calls[i].caller : i \in {i \in 1..Len(st.calls) : ~st.calls[i].aborted}}
                  \cup UNION {{st.intro[i].conns[n] : n \in 1..Len(st.intro[i].conns)} : i \in 1..Len(st.intro)}
                  \cup UNION {{st.intro[i].pending[n].conn : n \in 1..Len(st.intro[i].pending)} : i \in 1..Len(st.intro)}
      gaugesOk == /\ st.stats.conns = Len(st.conns) /\ st.stats.objs = Len(st.objs) /\ st.stats.svcs = Len(st.svcs)
                  /\ st.stats.chans = Len(st.chans) /\ st.stats.lsts = Len(st.lsts)
      empty == /\ Len(st.objs) = 0 /\ Len(st.objUuids) = 0 /\ Len(st.svcs) = 0 /\ Len(st.svcUuids) = 0
               /\ Len(st.calls) = 0 /\ Len(st.chans) = 0 /\ Len(st.lsts) = 0 /\ Len(st.intro) = 0 /\ Len(st.queryIntro) = 0
  \* a table that differs from the history is a violation of the property the table belongs to and of
  \* C09 ("everything is released, no residual state"): both checks report it ("Cxx+C09")
  IN IF dConns # DOMAIN S.conns THEN Bad(S, "C09", "the broker's connection table differs from the connections that are open")
     ELSE IF dObjs # DOMAIN S.objs \/ dObjIdx # dObjs THEN Bad(S, "C03+C09", "the broker's object table differs from the objects that exist")
     ELSE IF dSvcs # DOMAIN S.svcs \/ dSvcIdx # dSvcs THEN Bad(S, "C03+C09", "the broker's service table differs from the services that exist")
     ELSE IF dSub # S.sub \/ dAll # S.all \/ dSsub # S.ssub THEN Bad(S, "C04+C09", "the broker's subscription tables differ from the subscriptions made")
     ELSE IF dCalls # DOMAIN S.calls THEN Bad(S, "C02+C09", "the broker's pending calls differ from the calls in flight")
     ELSE IF dChans # oChans THEN Bad(S, "C05+C09", "the broker's channel table differs from the channels that are open")
     ELSE IF dLsts # DOMAIN S.lsts THEN Bad(S, "C10+C09", "the broker's listener table differs from the listeners that exist")
     ELSE IF ~(refConns \subseteq dConns) THEN Bad(S, "C09", "broker state still refers to a connection that is gone")
     ELSE IF Len(st.conns) = 0 /\ ~empty THEN Bad(S, "C09", "residual state although all connections are gone")
     ELSE IF ~gaugesOk THEN Bad(S, "C09", "a statistics gauge differs from the number of live entities")
     ELSE S

\* ---------------------------------------------------------------------------------------------
\* The judgement of one macro-step, evaluated at the idle record
Judge(S, st) ==
  LET inp == S.inp
      outs == S.outs
      Rem == ToSet(S.rems)
      dumpChans == {st.chans[i].cookie : i \in 1..Len(st.chans)}
      fx == FxInput(S, inp, outs, dumpChans)
      S1 == fx.s
      failed == {outs[i].c : i \in {i \in 1..Len(outs) : ~outs[i].ok}}
      unjust == Rem \ (fx.just \cup failed)
      casc == Cascade(S1, Rem, fx.dObjs, fx.dSvcs)
      S2c == casc.s
      survivors == DOMAIN S2c.conns
      strict == survivors \ (S.dead \cup failed)
      intro == IntroSettle(S2c, Rem, outs, strict, DOMAIN S.iq)
      S2 == intro.s
      created == CreatedEvents(S, S1)
      trans == Transitions(S, S2, survivors)
      \* notifications caused by a sender that does not survive the step are optional
      senderGone == inp.t = "msg" /\ inp.c \notin strict
      req == fx.req \cup casc.req \cup intro.req \cup (IF senderGone THEN {} ELSE created \cup trans)
      opt == fx.opt \cup casc.opt \cup intro.opt \cup (IF senderGone THEN created \cup trans ELSE {})
      \* events about entities whose acknowledgement was never delivered are not accounted
      ghostOut(o) == o.m.k = "EmitBusEvent" /\ (o.m.ocookie \in S1.ghosts \/ o.m.scookie \in S1.ghosts)
      outsA == SelectSeq(outs, LAMBDA o : ~ghostOut(o))
      vers == [x \in DOMAIN S.conns \cup DOMAIN S1.conns |-> IF x \in DOMAIN S1.conns THEN S1.conns[x] ELSE S.conns[x]]
      T1 == IF ~S1.ok THEN S1
            ELSE IF unjust # {} THEN Bad(S2, "C11", "a connection was closed without cause")
            ELSE IF intro.bad # "" THEN Bad(S2, "C11", intro.bad)
            ELSE IF ~(fx.must \subseteq Rem) THEN
                   Bad(S2, IF inp.t = "msg" THEN "C12" ELSE "C09", "a connection that had to be closed is still registered")
            ELSE S2
      \* the version discipline first: a message kind the recipient does not know is a C12 matter
      \* whatever else is wrong with it
      T2v == IF T1.ok THEN CheckVersions(T1, outs, vers) ELSE T1
      T2 == IF T2v.ok THEN CheckOuts(T2v, outsA, strict, req, opt, IF inp.t = "msg" THEN inp.c ELSE -1) ELSE T2v
      T3 == T2
      T4 == IF T3.ok THEN CheckOrder(T3, outs) ELSE T3
      T5 == IF T4.ok /\ inp.t = "sdb"
              THEN (IF /\ \A x \in DOMAIN S.conns \ (S.dead \cup failed) : CountSeq(outs, LAMBDA o : o.m.k = "Shutdown" /\ o.c = x) = 1
                       /\ \A x \in DOMAIN S.conns : CountSeq(outs, LAMBDA o : o.m.k = "Shutdown" /\ o.c = x) <= 1
                      THEN T4 ELSE Bad(T4, "C09", "broker shutdown did not send exactly one shutdown message to each connection"))
              ELSE T4
      \* C05: a sender that was announced more credit than the receiver granted will, by using it,
      \* either be cut off within its announced capacity or make the broker forward beyond the grant
      T5b == IF T5.ok /\ \E k \in DOMAIN T5.chans : T5.chans[k].snd.st = "C" /\ T5.chans[k].rcv.st = "C" /\ Gt(T5.chans[k].sc, T5.chans[k].rc)
               THEN Bad(T5, IF \E k \in DOMAIN T5.chans \cap T5.strangers : Gt(T5.chans[k].sc, T5.chans[k].rc) THEN "C05+C11" ELSE "C05",
                        "the sender has been announced more capacity than the receiver granted")
               ELSE T5
      T6 == IF T5b.ok THEN DumpCheck(T5b, st) ELSE T5b
      \* C12: a callee older than 1.16 is never sent an abort; the broker itself ends the call and must
      \* then swallow the callee's late reply ("re-encodes ... aborts ... for older ones").  A call
      \* clause broken on exactly that path -- the abort of a call to such a callee, or its late
      \* reply -- is a C12 matter as well.
      oldCallee(x) == x \in DOMAIN S.conns /\ S.conns[x] < 16
      c12path == inp.t = "msg" /\
                 \/ inp.m.k = "CallFunctionReply" /\ <<inp.c, inp.m.serial>> \in DOMAIN S.zomb /\ oldCallee(inp.c)
                 \/ inp.m.k = "AbortFunctionCall" /\ <<inp.c, inp.m.serial>> \in DOMAIN S.calls /\ oldCallee(S.calls[<<inp.c, inp.m.serial>>].callee)
      T7 == IF S.ok /\ ~T6.ok /\ c12path /\ T6.prop \in {"C02", "C02+C09"} THEN [T6 EXCEPT !.prop = @ \o "+C12"] ELSE T6
  IN [T7 EXCEPT !.inp = NoInp, !.outs = <<>>, !.rems = <<>>]

\* ---------------------------------------------------------------------------------------------
\* The fold
ObsStep(S, r) ==
  IF r.t = "reset" THEN ObsInit
  ELSE IF ~S.ok THEN S
  ELSE CASE r.t = "reset" -> ObsInit
    [] r.t \in {"new", "msg", "shut", "sdc", "sdb", "sdi", "other"} ->
         IF S.inp.t # "none" THEN Bad(S, "C11", "harness: input record inside an unfinished macro-step")
         ELSE IF S.stopped THEN Bad(S, "C09", "the broker handled an event after it had stopped")
         ELSE [S EXCEPT !.inp = r, !.outs = r.out, !.rems = <<>>]
    [] r.t = "work" ->
         LET connected == (DOMAIN S.conns \cup (IF S.inp.t = "new" THEN {S.inp.c} ELSE {})) \ ToSet(S.rems) IN
         [S EXCEPT !.outs = @ \o r.out,
                   !.rems = IF r.w = "removeConn" /\ r.c \in connected THEN Append(@, r.c) ELSE @]
    [] r.t = "idle" -> IF S.inp.t = "none" THEN S ELSE Judge(S, r.st)
    [] r.t = "dead" -> [S EXCEPT !.dead = @ \cup {r.c}]
    [] r.t = "stop" ->
         \* the run loop may only be left after a shutdown request; idle shutdown only without connections (C09)
         IF S.sdb \/ (S.sdi /\ DOMAIN S.conns = {}) THEN [S EXCEPT !.stopped = TRUE]
         ELSE Bad(S, "C09", "the broker stopped without a shutdown request")
    [] r.t = "probe" -> IF r.ok THEN S ELSE Bad(S, "C11", "a well-behaved connection was not served after the abuse")
    [] r.t = "panic" ->
         \* a panic is a violation of C11 and of the property whose request was being processed
         Bad(S, IF S.inp.t = "msg" THEN PropOfInput(S.inp.m.k)
                ELSE IF S.inp.t \in {"new", "shut", "sdc", "sdb", "sdi"} THEN "C09" ELSE "C11",
             "panic: " \o r.msg)
    [] r.t = "end" ->
         IF r.stuck THEN Bad(S, "C11", "the system did not become quiescent within the step bound")
         ELSE IF S.inp.t # "none" THEN Bad(S, "C11", "the broker stopped in the middle of a step")
         ELSE IF (S.sdb \/ (S.sdi /\ DOMAIN S.conns = {})) /\ ~r.brokerDone
           THEN Bad(S, "C09", "the broker did not terminate after the shutdown request")
         ELSE IF \E i \in 1..Len(r.conns) : ~r.conns[i].dropped /\ ~r.conns[i].done
           THEN Bad(S, "C09", "a connection task did not return")
         \* C09 / C15 "the broker side observes the connection as closed": a connection task that has
         \* returned must have told the broker, or the broker keeps everything the connection owned
         ELSE IF \E i \in 1..Len(r.conns) : r.conns[i].done /\ ~r.conns[i].dropped /\ r.conns[i].c \in DOMAIN S.conns /\ ~r.brokerDone
           THEN Bad(S, "C09", "a connection task has returned but the broker still has the connection registered (its state is never released)")
         ELSE S
    [] OTHER -> S
=============================================================================
