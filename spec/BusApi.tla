------------------------------- MODULE BusApi -------------------------------
(* The bus as an application sees it through the client API (aldrin::low_level::{Service, Proxy,
   Call, PendingReply}), at the level of whole awaited operations: one service owned by client 0,
   one proxy per user client.  After every operation all clients are synchronised with the broker
   and every proxy and every pending reply is polled once, so the observable outcome of an
   operation is a function of the history -- which is what this module defines:

     events  an emitted event reaches exactly the proxies subscribed to its id or to all events
             at that moment, once, in emission order (C04 as the application sees it);
     calls   a call is served by the owner in arrival order; the caller gets exactly the outcome the
             owner chose for THAT call (value included); a dropped reply future aborts the call, whose
             late answer is swallowed; calls pending when the service goes away end with
             "invalid service" (C02 / C06 as the application sees them);
     end     destroying the service ends every proxy's event stream.

   State is one record, operations are functions Do(b, op) that also return what must be observed
   (b.obs), so the same text drives the design check, the behaviours replayed through the real
   clients and broker (api-replay) and the validation of what the real code reported
   (Trace_BusApi.tla). *)
EXTENDS Naturals, Sequences, FiniteSets, TLC

CONSTANTS Users,      \* user clients (each has one proxy)
          Events      \* event ids

Hows == {"ok", "err", "abort", "invalidFunction", "invalidArgs", "drop"}
\* what the caller sees for each way the owner can finish a call
Outcome(how) == CASE how = "ok" -> "ok" [] how = "err" -> "errval" [] how \in {"abort", "drop"} -> "aborted"
                  [] how = "invalidFunction" -> "invalidFunction" [] OTHER -> "invalidArgs"

NoObs == [events |-> [c \in Users |-> <<>>], ended |-> {}, results |-> {}]

BInit == [alive |-> TRUE,
          sub |-> [c \in Users |-> {}],        \* event ids each proxy is subscribed to
          all |-> [c \in Users |-> FALSE],     \* subscribed to all events
          over |-> {},                         \* proxies whose stream has ended
          nextK |-> 1,                         \* value of the next emitted event
          nextT |-> 1,                         \* token of the next call
          queue |-> <<>>,                      \* calls at the owner, in arrival order: [t, c, aborted]
          obs |-> NoObs]                       \* what this operation makes observable

Res(t, c, out, k) == [t |-> t, c |-> c, res |-> out, val |-> k]

Enabled(b, op) ==
  CASE op.op \in {"sub", "unsub"} -> op.c \in Users /\ op.ev \in Events
    [] op.op \in {"suball", "unsuball"} -> op.c \in Users
    [] op.op = "emit" -> b.alive /\ op.ev \in Events
    [] op.op = "call" -> op.c \in Users
    [] op.op = "serve" -> b.alive /\ b.queue # <<>> /\ op.how \in Hows
    [] op.op = "abort" -> op.c \in Users /\ \E i \in 1..Len(b.queue) : b.queue[i].c = op.c /\ ~b.queue[i].aborted
    [] op.op = "destroy" -> b.alive
    [] OTHER -> FALSE

\* result of a subscription request: "ok", or "invalidService" once the service is gone
SubRes(b) == IF b.alive THEN "ok" ELSE "invalidService"

Do(b0, op) ==
  LET b == [b0 EXCEPT !.obs = NoObs] IN
  CASE op.op = "sub" -> IF b.alive THEN [b EXCEPT !.sub[op.c] = @ \cup {op.ev}] ELSE b
    [] op.op = "unsub" -> IF b.alive THEN [b EXCEPT !.sub[op.c] = @ \ {op.ev}] ELSE b
    [] op.op = "suball" -> IF b.alive THEN [b EXCEPT !.all[op.c] = TRUE] ELSE b
    \* Proxy::unsubscribe_all drops every subscription of the proxy, the individual event ids as well
    \* (client.rs req_unsubscribe_all_events)
    [] op.op = "unsuball" -> IF b.alive THEN [b EXCEPT !.all[op.c] = FALSE, !.sub[op.c] = {}] ELSE b
    [] op.op = "emit" ->
         [b EXCEPT !.nextK = @ + 1,
                   !.obs.events = [c \in Users |-> IF b.all[c] \/ op.ev \in b.sub[c] THEN <<<<op.ev, b.nextK>>>> ELSE <<>>]]
    [] op.op = "call" ->
         IF b.alive THEN [b EXCEPT !.nextT = @ + 1, !.queue = Append(@, [t |-> b.nextT, c |-> op.c, aborted |-> FALSE])]
         ELSE [b EXCEPT !.nextT = @ + 1, !.obs.results = {Res(b.nextT, op.c, "invalidService", 0)}]
    [] op.op = "serve" ->
         LET h == Head(b.queue) IN
         [b EXCEPT !.queue = Tail(@),
                   !.obs.results = IF h.aborted THEN {} ELSE {Res(h.t, h.c, Outcome(op.how), IF op.how \in {"ok", "err"} THEN h.t ELSE 0)}]
    [] op.op = "abort" ->
         LET i == CHOOSE i \in 1..Len(b.queue) : b.queue[i].c = op.c /\ ~b.queue[i].aborted
                     /\ \A j \in 1..(i - 1) : ~(b.queue[j].c = op.c /\ ~b.queue[j].aborted) IN
         [b EXCEPT !.queue[i].aborted = TRUE]
    [] op.op = "destroy" ->
         [b EXCEPT !.alive = FALSE, !.queue = <<>>, !.over = Users, !.sub = [c \in Users |-> {}], !.all = [c \in Users |-> FALSE],
                   !.obs.ended = Users \ b.over,
                   !.obs.results = {Res(b.queue[i].t, b.queue[i].c, "invalidService", 0) : i \in {i \in 1..Len(b.queue) : ~b.queue[i].aborted}}]
    [] OTHER -> b

\* ---------------------------------------------------------------------------------------------
\* properties of the model itself (checked by MC_BusApi): the per-operation outcome agrees with the
\* history-level statements
\* every call gets at most one result, and only after it was made
TypeOk(b) == /\ \A i \in 1..Len(b.queue) : b.queue[i].t < b.nextT
             /\ \A r \in b.obs.results : r.t < b.nextT
\* no event reaches a proxy that is subscribed neither to its id nor to all events
NoStrayEvent(b0, op, b) == op.op = "emit" => \A c \in Users : (b.obs.events[c] # <<>>) = (b0.all[c] \/ op.ev \in b0.sub[c])
=============================================================================
