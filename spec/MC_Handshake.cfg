SPECIFICATION TableSpec
INVARIANT TableOk
CHECK_DEADLOCK FALSE
