--------------------------- MODULE MC_ClientChan ---------------------------
(* C06, design check of the channel hand-shake: the bookkeeping of two real-shaped clients
   (aldrin/src/client.rs: the senders / receivers maps, the create / claim / close serial maps, the
   strict validation of every incoming message; aldrin/src/low_level/channel/raw.rs: the `claimed`
   flag and the drop-driven close request) composed with the broker of Broker.tla over FIFO links.

   Applications may create a channel claiming either end, hand the unclaimed end to the other
   client, claim it, close or drop any value at any moment.  TLC explores every interleaving of
   application steps, client run-loop steps (one handle request or one incoming message at a time)
   and broker steps, and checks that no client ever meets a message its validation rejects
   (RunError::UnexpectedMessageReceived) or an assertion of client.rs, and that the broker meets
   none of its own.

   `AssertRegisteredOnClose = TRUE` restores the debug_assert of msg_close_channel_end_reply that
   was removed by fix 689bf46; TLC then finds the refused-claim scenario (MC_ClientChan_prefix.cfg). *)
EXTENDS Broker, TLC

CONSTANTS Clients,                  \* e.g. {0, 1}; both are connected from the start
          AppBudget,                \* application operations per behaviour
          MaxCreates,               \* channels created per behaviour
          AssertRegisteredOnClose   \* model the removed assertion (see above)

VARIABLES bk,        \* broker state (Broker.tla)
          toB,       \* client -> FIFO of messages to the broker (transport + connection task + broker queue)
          toC,       \* client -> FIFO of messages from the broker
          cl,        \* client -> client task state
          app,       \* client -> set of application-level channel values
          budget, creates, nextCookie
vars == <<bk, toB, toC, cl, app, budget, creates, nextCookie>>

NoPick == [conn |-> EmptyFn, order |-> <<>>]
Cap1 == U!FromNat(1)

ClientInit == [status |-> "run",
               hq |-> <<>>,                 \* handle requests, in the order the application issued them
               senders |-> EmptyFn,         \* cookie -> "Pending" | "Established" | "PeerClosed"
               receivers |-> EmptyFn,
               createReq |-> EmptyFn,       \* serial -> [end]
               claimReq |-> EmptyFn,        \* serial -> [end, cookie]
               closeReq |-> EmptyFn,        \* serial -> [end, cookie, claimed]
               nextCreate |-> 0, nextClaim |-> 0, nextClose |-> 0]

Init ==
  /\ bk = [BrokerInit EXCEPT !.conns = [c \in Clients |-> NewConnState(20)], !.alive = Clients,
                            !.stats.conns = Cardinality(Clients)]
  /\ toB = [c \in Clients |-> <<>>] /\ toC = [c \in Clients |-> <<>>]
  /\ cl = [c \in Clients |-> ClientInit]
  /\ app = [c \in Clients |-> {}]
  /\ budget = AppBudget /\ creates = 0 /\ nextCookie = 1

\* ---------------------------------------------------------------------------------------------
\* application values: [id, kind, end, cookie, claimed, st]
\*   kind: "pending" (creator's claimed end, not yet established), "unclaimed", "claiming" (claim in
\*         flight), "failed" (claim refused, value about to be dropped), "established"
\*   st:   "Open" | "Closed"   (RawChannel::state; Closing is folded into Closed: the request is queued)
Val(kind, end, cookie, claimed) == [kind |-> kind, end |-> end, cookie |-> cookie, claimed |-> claimed, st |-> "Open"]

AppCreate(c) ==
  /\ budget > 0 /\ creates < MaxCreates /\ cl[c].status = "run"
  /\ \E end \in {"Sender", "Receiver"} :
       cl' = [cl EXCEPT ![c].hq = Append(@, [k |-> "create", end |-> end])]
  /\ budget' = budget - 1 /\ creates' = creates + 1
  /\ UNCHANGED <<bk, toB, toC, app, nextCookie>>

\* hand an unclaimed end to the other client (unbind at c, bind at d): no message is involved
AppTransfer(c) ==
  /\ budget > 0
  /\ \E v \in app[c] : \E d \in Clients \ {c} :
       /\ v.kind = "unclaimed" /\ v.st = "Open"
       /\ app' = [app EXCEPT ![c] = @ \ {v}, ![d] = @ \cup {v}]
  /\ budget' = budget - 1
  /\ UNCHANGED <<bk, toB, toC, cl, creates, nextCookie>>

\* UnclaimedSender::claim / UnclaimedReceiver::claim: set_claimed() first, then the request
AppClaim(c) ==
  /\ budget > 0 /\ cl[c].status = "run"
  /\ \E v \in app[c] :
       /\ v.kind = "unclaimed" /\ v.st = "Open"
       /\ app' = [app EXCEPT ![c] = (@ \ {v}) \cup {[v EXCEPT !.kind = "claiming", !.claimed = TRUE]}]
       /\ cl' = [cl EXCEPT ![c].hq = Append(@, [k |-> "claim", end |-> v.end, cookie |-> v.cookie])]
  /\ budget' = budget - 1
  /\ UNCHANGED <<bk, toB, toC, creates, nextCookie>>

\* close() or drop of any open value: RawChannel::begin_close with the value's `claimed` flag
AppClose(c) ==
  /\ budget > 0 /\ cl[c].status = "run"
  /\ \E v \in app[c] :
       /\ v.st = "Open" /\ v.kind \in {"pending", "unclaimed", "established"}
       /\ app' = [app EXCEPT ![c] = (@ \ {v}) \cup {[v EXCEPT !.st = "Closed"]}]
       /\ cl' = [cl EXCEPT ![c].hq = Append(@, [k |-> "close", end |-> v.end, cookie |-> v.cookie, claimed |-> v.claimed])]
  /\ budget' = budget - 1
  /\ UNCHANGED <<bk, toB, toC, creates, nextCookie>>

\* the claim future returned Err: the value, marked claimed, is dropped (not an application choice)
AppDropFailed(c) ==
  /\ cl[c].status = "run"
  /\ \E v \in app[c] :
       /\ v.st = "Open" /\ v.kind = "failed"
       /\ app' = [app EXCEPT ![c] = (@ \ {v}) \cup {[v EXCEPT !.st = "Closed"]}]
       /\ cl' = [cl EXCEPT ![c].hq = Append(@, [k |-> "close", end |-> v.end, cookie |-> v.cookie, claimed |-> v.claimed])]
  /\ UNCHANGED <<bk, toB, toC, budget, creates, nextCookie>>

\* ---------------------------------------------------------------------------------------------
\* client run loop: one handle request (client.rs req_*)
Free(used, n) == CHOOSE s \in 0..(Cardinality(used) + n + 1) : s >= n /\ s \notin used /\ \A t \in n..(s - 1) : t \in used

ClReq(c) ==
  /\ cl[c].status = "run" /\ cl[c].hq # <<>>
  /\ LET r == Head(cl[c].hq)  st == cl[c] IN
     CASE r.k = "create" ->
            LET s == Free(DOMAIN st.createReq, st.nextCreate) IN
            /\ cl' = [cl EXCEPT ![c] = [st EXCEPT !.hq = Tail(@), !.createReq = Put(@, s, [end |-> r.end]), !.nextCreate = s + 1]]
            /\ toB' = [toB EXCEPT ![c] = Append(@, [k |-> "CreateChannel", serial |-> s, end |-> r.end,
                                                    cap |-> IF r.end = "Receiver" THEN Cap1 ELSE CapZero])]
       [] r.k = "claim" ->
            LET s == Free(DOMAIN st.claimReq, st.nextClaim) IN
            /\ cl' = [cl EXCEPT ![c] = [st EXCEPT !.hq = Tail(@), !.claimReq = Put(@, s, [end |-> r.end, cookie |-> r.cookie]), !.nextClaim = s + 1]]
            /\ toB' = [toB EXCEPT ![c] = Append(@, [k |-> "ClaimChannelEnd", serial |-> s, cookie |-> r.cookie, end |-> r.end,
                                                    cap |-> IF r.end = "Receiver" THEN Cap1 ELSE CapZero])]
       [] OTHER ->
            LET s == Free(DOMAIN st.closeReq, st.nextClose) IN
            /\ cl' = [cl EXCEPT ![c] = [st EXCEPT !.hq = Tail(@), !.closeReq = Put(@, s, [end |-> r.end, cookie |-> r.cookie, claimed |-> r.claimed]),
                                                  !.nextClose = s + 1]]
            /\ toB' = [toB EXCEPT ![c] = Append(@, [k |-> "CloseChannelEnd", serial |-> s, cookie |-> r.cookie, end |-> r.end])]
  /\ UNCHANGED <<bk, toC, app, budget, creates, nextCookie>>

\* client run loop: one incoming message (client.rs msg_*), strict validation
Unexpected(st) == [st EXCEPT !.status = "unexpected"]
Panic(st, site) == [st EXCEPT !.status = "panic: " \o site]

OnMsg(c, st, vals, m) ==      \* returns [st, vals]
  CASE m.k = "CreateChannelReply" ->
         IF m.serial \notin DOMAIN st.createReq THEN [st |-> Unexpected(st), vals |-> vals]
         ELSE LET end == st.createReq[m.serial].end
                  st1 == [st EXCEPT !.createReq = Del(@, {m.serial})] IN
              IF end = "Sender"
                THEN IF m.cookie \in DOMAIN st1.senders THEN [st |-> Panic(st1, "msg_create_channel_reply dup"), vals |-> vals]
                     ELSE [st |-> [st1 EXCEPT !.senders = Put(@, m.cookie, "Pending")],
                           vals |-> vals \cup {Val("pending", "Sender", m.cookie, TRUE), Val("unclaimed", "Receiver", m.cookie, FALSE)}]
                ELSE IF m.cookie \in DOMAIN st1.receivers THEN [st |-> Panic(st1, "msg_create_channel_reply dup"), vals |-> vals]
                     ELSE [st |-> [st1 EXCEPT !.receivers = Put(@, m.cookie, "Pending")],
                           vals |-> vals \cup {Val("pending", "Receiver", m.cookie, TRUE), Val("unclaimed", "Sender", m.cookie, FALSE)}]
    [] m.k = "ClaimChannelEndReply" ->
         IF m.serial \notin DOMAIN st.claimReq THEN [st |-> Unexpected(st), vals |-> vals]
         ELSE LET rq == st.claimReq[m.serial]
                  st1 == [st EXCEPT !.claimReq = Del(@, {m.serial})]
                  v == CHOOSE v \in vals : v.kind = "claiming" /\ v.cookie = rq.cookie /\ v.end = rq.end
                  has == \E v2 \in vals : v2.kind = "claiming" /\ v2.cookie = rq.cookie /\ v2.end = rq.end
                  okRes == IF rq.end = "Sender" THEN "SenderClaimed" ELSE "ReceiverClaimed"
                  wrongRes == IF rq.end = "Sender" THEN "ReceiverClaimed" ELSE "SenderClaimed" IN
              IF m.res = wrongRes THEN [st |-> Unexpected(st1), vals |-> vals]
              ELSE IF m.res = okRes THEN
                IF (rq.end = "Sender" /\ rq.cookie \in DOMAIN st1.senders) \/ (rq.end = "Receiver" /\ rq.cookie \in DOMAIN st1.receivers)
                  THEN [st |-> Panic(st1, "msg_claim_channel_end_reply dup"), vals |-> vals]
                  ELSE [st |-> IF rq.end = "Sender" THEN [st1 EXCEPT !.senders = Put(@, rq.cookie, "Established")]
                                                    ELSE [st1 EXCEPT !.receivers = Put(@, rq.cookie, "Established")],
                        vals |-> IF has THEN (vals \ {v}) \cup {[v EXCEPT !.kind = "established"]} ELSE vals]
              ELSE \* InvalidChannel / AlreadyClaimed: the claim future returns Err and drops the value
                   [st |-> st1, vals |-> IF has THEN (vals \ {v}) \cup {[v EXCEPT !.kind = "failed"]} ELSE vals]
    [] m.k = "CloseChannelEndReply" ->
         IF m.serial \notin DOMAIN st.closeReq THEN [st |-> Unexpected(st), vals |-> vals]
         ELSE LET rq == st.closeReq[m.serial]
                  st1 == [st EXCEPT !.closeReq = Del(@, {m.serial})]
                  registered == IF rq.end = "Sender" THEN rq.cookie \in DOMAIN st1.senders ELSE rq.cookie \in DOMAIN st1.receivers IN
              IF rq.claimed
                THEN IF AssertRegisteredOnClose /\ ~registered
                       THEN [st |-> Panic(st1, "msg_close_channel_end_reply debug_assert(contained.is_some())"), vals |-> vals]
                       ELSE [st |-> IF rq.end = "Sender" THEN [st1 EXCEPT !.senders = Del(@, {rq.cookie})]
                                                         ELSE [st1 EXCEPT !.receivers = Del(@, {rq.cookie})],
                             vals |-> vals]
                ELSE [st |-> st1, vals |-> vals]
    [] m.k = "ChannelEndClosed" ->
         \* the closed end is the peer's: my own end of the other kind must be registered and not yet told
         IF m.end = "Sender"
           THEN IF m.cookie \in DOMAIN st.receivers /\ st.receivers[m.cookie] # "PeerClosed"
                  THEN [st |-> [st EXCEPT !.receivers[m.cookie] = "PeerClosed"], vals |-> vals]
                  ELSE [st |-> Unexpected(st), vals |-> vals]
           ELSE IF m.cookie \in DOMAIN st.senders /\ st.senders[m.cookie] # "PeerClosed"
                  THEN [st |-> [st EXCEPT !.senders[m.cookie] = "PeerClosed"], vals |-> vals]
                  ELSE [st |-> Unexpected(st), vals |-> vals]
    [] m.k = "ChannelEndClaimed" ->
         IF m.end = "Sender"
           THEN IF m.cookie \in DOMAIN st.receivers /\ st.receivers[m.cookie] = "Pending"
                  THEN [st |-> [st EXCEPT !.receivers[m.cookie] = "Established"], vals |-> vals]
                  ELSE [st |-> Unexpected(st), vals |-> vals]
           ELSE IF m.cookie \in DOMAIN st.senders /\ st.senders[m.cookie] = "Pending"
                  THEN [st |-> [st EXCEPT !.senders[m.cookie] = "Established"], vals |-> vals]
                  ELSE [st |-> Unexpected(st), vals |-> vals]
    [] OTHER -> [st |-> Unexpected(st), vals |-> vals]

ClMsg(c) ==
  /\ cl[c].status = "run" /\ toC[c] # <<>>
  /\ LET r == OnMsg(c, cl[c], app[c], Head(toC[c])) IN
     /\ cl' = [cl EXCEPT ![c] = r.st]
     /\ app' = [app EXCEPT ![c] = r.vals]
  /\ toC' = [toC EXCEPT ![c] = Tail(@)]
  /\ UNCHANGED <<bk, toB, budget, creates, nextCookie>>

\* ---------------------------------------------------------------------------------------------
\* the broker: one dequeued message and all the deferred work it causes
RECURSIVE Drain(_, _)
Drain(b, outs) ==
  IF ~WorkLeft(b) THEN [b |-> b, outs |-> outs]
  ELSE LET clz == TopClass(b)
           w == CHOOSE x \in DOMAIN b.work[clz] : TRUE
           b2 == ProcessWork(b, clz, w, NoPick) IN
       Drain(b2, outs \o b2.out)

BrokerStep(c) ==
  /\ toB[c] # <<>>
  /\ LET m == Head(toB[c])
         b1 == HandleEvent(bk, [t |-> "msg", c |-> c, m |-> m], nextCookie, NoPick)
         r == Drain(b1, b1.out)
         used == \E i \in 1..Len(r.outs) : r.outs[i].m.k = "CreateChannelReply" IN
     /\ bk' = [r.b EXCEPT !.out = <<>>]
     /\ toC' = [d \in Clients |-> toC[d] \o [i \in 1..Len(SelectSeq(r.outs, LAMBDA o : o.c = d)) |-> SelectSeq(r.outs, LAMBDA o : o.c = d)[i].m]]
     /\ nextCookie' = IF used THEN nextCookie + 1 ELSE nextCookie
  /\ toB' = [toB EXCEPT ![c] = Tail(@)]
  /\ UNCHANGED <<cl, app, budget, creates>>

Next == \E c \in Clients : AppCreate(c) \/ AppTransfer(c) \/ AppClaim(c) \/ AppClose(c) \/ AppDropFailed(c) \/ ClReq(c) \/ ClMsg(c) \/ BrokerStep(c)
Spec == Init /\ [][Next]_vars

\* ---------------------------------------------------------------------------------------------
NoUnexpectedNoPanic == \A c \in Clients : cl[c].status = "run" \/ Print(<<"CLIENT", c, cl[c].status>>, FALSE)
BrokerNoPanic == bk.panic = "" \/ Print(<<"BROKER-PANIC", bk.panic>>, FALSE)
\* nobody was removed: the broker never had to close a well-behaved client
NobodyClosed == DOMAIN bk.conns = Clients
\* when everything has drained, client and broker agree on which ends exist
Quiet == \A c \in Clients : toB[c] = <<>> /\ toC[c] = <<>> /\ cl[c].hq = <<>>
Agreement ==
  Quiet => \A c \in Clients :
     /\ DOMAIN cl[c].senders = bk.conns[c].senders
     /\ DOMAIN cl[c].receivers = bk.conns[c].receivers
=============================================================================
