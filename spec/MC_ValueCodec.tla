---------------------------- MODULE MC_ValueCodec ----------------------------
(* Exhaustive check of the reference's theorems over a bounded VALUE domain, and emission of one
   test vector per value (JSON line on stdout) for the codec-vectors driver.


   State space: <<0,0>> -> <<a,0>> (bucket) -> <<a,b>> (value number (a-1)*BS+b of the domain), so
   that TLC's workers share the values; every <<a,b>> state is one value with every theorem
   evaluated on it. *)
EXTENDS ValueCodec, TLC, Json, IOUtils, SequencesExt

\* Thorough: the larger domain; Seed0: seed of the pseudo-random nesting chains; Emit: print the vectors;
\* Part: "all" or one slice of the domain (development).  They are CONSTANTS (set in the .cfg, which
\* codec_checks.py writes per run) so that TLC evaluates the domain once, as a constant.
CONSTANTS Thorough, Seed0, Emit, Part
Seed == Seed0 % 1000

--------------------------------------------------------------------------------
(* Leaves *)
IntBytes(N) == IF Thorough THEN {0, 1, 127, 128, 255 - N, 256 - N, 254, 255} ELSE {0, 1, 128, 255 - N, 256 - N, 255}
IntPos(N) == IF Thorough THEN 2..N ELSE {2, N}
IntsOf(N) ==
  (IF N = 1 THEN {<<x>> : x \in IntBytes(1)}
   ELSE {Tup([i \in 1..N |-> IF i = 1 THEN x ELSE IF i = j THEN y ELSE 0]) : x \in IntBytes(N), y \in IntBytes(N), j \in IntPos(N)})
  \cup {Tup([i \in 1..N |-> 255]), Tup([i \in 1..N |-> IF i = N THEN 128 ELSE 0]), Tup([i \in 1..N |-> IF i = N THEN 127 ELSE 255])}

IntLeaves == UNION {{VInt(nm, t) : t \in IntsOf(IF nm \in {"U8", "I8"} THEN 1 ELSE IF nm \in {"U16", "I16"} THEN 2
                                                ELSE IF nm \in {"U32", "I32"} THEN 4 ELSE 8)} : nm \in DOMAIN IntKindByte}

F32s == {<<0, 0, 0, 0>>, <<0, 0, 0, 128>>, <<0, 0, 128, 63>>, <<0, 0, 192, 127>>, <<1, 0, 160, 127>>, <<1, 0, 0, 0>>,
         <<0, 0, 128, 127>>, <<255, 255, 255, 255>>, <<219, 15, 73, 64>>}
F64s == {<<0, 0, 0, 0, 0, 0, 0, 0>>, <<0, 0, 0, 0, 0, 0, 0, 128>>, <<0, 0, 0, 0, 0, 0, 240, 63>>, <<0, 0, 0, 0, 0, 0, 248, 127>>,
         <<1, 0, 0, 0, 0, 0, 244, 127>>, <<1, 0, 0, 0, 0, 0, 0, 0>>, <<0, 0, 0, 0, 0, 0, 240, 255>>,
         <<255, 255, 255, 255, 255, 255, 255, 255>>, <<24, 45, 68, 84, 251, 33, 9, 64>>}
U0 == Tup([i \in 1..16 |-> 0])
U1 == Tup([i \in 1..16 |-> i])
U2 == Tup([i \in 1..16 |-> 255])
Rep(n, x) == Tup([i \in 1..n |-> x])

Strings == {<<>>, <<97>>, <<97, 98>>, <<0>>, <<195, 169>>, <<226, 130, 172>>, <<240, 159, 152, 128>>, <<97, 226, 130, 172, 98>>,
            <<237, 159, 191>>, <<244, 143, 191, 191>>}
BytesS == {<<>>, <<0>>, <<1>>, <<1, 2, 3>>, <<255, 0>>, <<200, 0, 195>>}
BigLeaves == {VString(Rep(251, 120)), VString(Rep(252, 120)), VBytes(Rep(251, 7)), VBytes(Rep(252, 0)), VBytes(Rep(256, 255))}

Leaves == {VNone, VBool(TRUE), VBool(FALSE)} \cup IntLeaves
          \cup {VBlob("F32", s) : s \in F32s} \cup {VBlob("F64", s) : s \in F64s}
          \cup {VString(s) : s \in Strings} \cup {VBytes(s) : s \in BytesS}
          \cup {VBlob("Uuid", u) : u \in {U0, U1, U2}}
          \cup {VBlob("ObjectId", U1 \o U2), VBlob("ObjectId", U0 \o U0), VBlob("ServiceId", U1 \o U2 \o U0 \o U1),
                VBlob("Sender", U1), VBlob("Receiver", U2), VBlob("Sender", U0)}
          \cup BigLeaves

--------------------------------------------------------------------------------
(* Containers *)
E8 == <<VNone, VInt("U8", <<7>>), VInt("I32", <<255, 255, 255, 255>>), VInt("U64", <<0, 0, 0, 0, 0, 0, 0, 1>>),
        VString(<<97>>), VBool(TRUE), VBlob("F32", <<0, 0, 192, 127>>), VBytes(<<1, 2, 3>>)>>
V3 == <<VNone, VInt("U16", <<44, 1>>), VString(<<195, 169>>)>>
ESet == {E8[i] : i \in 1..8}
VSet3 == {V3[i] : i \in 1..3}

KeysOf == <<
  <<<<0>>, <<7>>, <<255>>, <<128>>>>,
  <<<<0>>, <<255>>, <<128>>, <<127>>>>,
  <<<<0, 0>>, <<253, 0>>, <<254, 0>>, <<255, 255>>>>,
  <<<<0, 0>>, <<255, 255>>, <<127, 0>>, <<0, 128>>>>,
  <<<<0, 0, 0, 0>>, <<251, 0, 0, 0>>, <<252, 0, 0, 0>>, <<255, 255, 255, 255>>>>,
  <<<<0, 0, 0, 0>>, <<255, 255, 255, 255>>, <<126, 0, 0, 0>>, <<0, 0, 0, 128>>>>,
  <<<<0, 0, 0, 0, 0, 0, 0, 0>>, <<247, 0, 0, 0, 0, 0, 0, 0>>, <<248, 0, 0, 0, 0, 0, 0, 0>>, <<0, 0, 0, 0, 1, 0, 0, 255>>>>,
  <<<<0, 0, 0, 0, 0, 0, 0, 0>>, <<255, 255, 255, 255, 255, 255, 255, 255>>, <<124, 0, 0, 0, 0, 0, 0, 0>>, <<0, 0, 0, 0, 0, 0, 0, 128>>>>,
  <<<<>>, <<97>>, <<195, 169>>, <<97, 98>>>>,
  <<U0, U1, U2, Tup([i \in 1..16 |-> 17 - i])>> >>
Ids4 == <<<<0, 0, 0, 0>>, <<1, 0, 0, 0>>, <<252, 0, 0, 0>>, <<255, 255, 255, 255>>>>

\* entry sets over 4 keys: empty, singletons, pairs, one triple (thorough: all value combinations on pairs)
EntrySets(K) ==
  {{}} \cup {{<<K[i], v>>} : i \in 1..4, v \in VSet3}
  \cup (IF Thorough THEN {{<<K[i], v>>, <<K[j], w>>} : i \in 1..4, j \in 1..4, v \in ESet, w \in ESet}
                            \cup {{<<K[i], E8[i]>>, <<K[j], V3[2]>>, <<K[k], E8[4 + k]>>} : i \in 1..4, j \in 1..4, k \in 1..4}
        ELSE {{<<K[i], V3[1 + (i % 3)]>>, <<K[j], V3[1 + (j % 3)]>>} : i \in 1..4, j \in 1..4}
             \cup {{<<K[i], V3[2]>>, <<K[j], E8[i + j]>>} : i \in 1..4, j \in 1..4})
  \cup {{<<K[1], V3[1]>>, <<K[2], V3[2]>>, <<K[3], V3[3]>>}, {<<K[i], E8[i]>> : i \in 1..4}}

Maps == UNION {{VMap(KeyNames[x], m) : m \in {S \in EntrySets(KeysOf[x]) : \A e1 \in S, e2 \in S : e1[1] = e2[1] => e1 = e2}} : x \in 1..10}
Sets == UNION {{VSet(KeyNames[x], S) : S \in SUBSET {KeysOf[x][i] : i \in 1..4}} : x \in 1..10}
Structs == {VStruct(f) : f \in {S \in EntrySets(Ids4) : \A e1 \in S, e2 \in S : e1[1] = e2[1] => e1 = e2}}
Enums == {VEnum(Ids4[i], v) : i \in 1..4, v \in ESet}
Vecs == {VVec(<<>>)} \cup {VVec(<<x>>) : x \in ESet} \cup {VVec(<<x, y>>) : x \in ESet, y \in ESet}
        \cup {VVec(<<x, y, z>>) : x \in VSet3, y \in VSet3, z \in (IF Thorough THEN ESet ELSE VSet3)}
        \cup {VVec(Tup([i \in 1..n |-> E8[1 + (i % 8)]])) : n \in {8, 252}}
Somes == {VSome(x) : x \in ESet \cup VSet3} \cup {VSome(VSome(VNone)), VSome(VSome(VSome(VInt("U8", <<7>>))))}
Level1 == Maps \cup Sets \cup Structs \cup Enums \cup Vecs \cup Somes

L1Sample == LET q == SetToSeq(Level1) IN {q[i] : i \in {j \in 1..Len(q) : j % 25 = 0}}     \* thorough: every 25th level-1 value as well
L1Reps == (IF Thorough THEN L1Sample ELSE {}) \cup
          {VSome(E8[2]), VVec(<<>>), VVec(<<VNone, E8[2]>>), VBytes(<<1, 2, 3>>), VMap("U8", {}),
           VMap("U16", {<<<<254, 0>>, V3[3]>>}), VMap("String", {<<<<97>>, VNone>>}), VSet("U32", {<<252, 0, 0, 0>>}),
           VSet("Uuid", {}), VSet("I16", {<<255, 255>>, <<0, 128>>}), VStruct({}), VStruct({<<Ids4[3], V3[2]>>}),
           VEnum(Ids4[2], VNone), VEnum(Ids4[4], E8[5])}
Wrappers(r) == {VSome(r), VVec(<<r>>), VVec(<<r, VNone>>), VVec(<<E8[2], r>>), VMap("U8", {<<<<0>>, r>>}),
                VMap("I64", {<<KeysOf[8][2], r>>, <<KeysOf[8][1], VNone>>}), VMap("Uuid", {<<U1, r>>}),
                VMap("String", {<<<<195, 169>>, r>>}), VStruct({<<Ids4[2], r>>}), VStruct({<<Ids4[1], VNone>>, <<Ids4[3], r>>}),
                VEnum(Ids4[3], r)}
Level2 == UNION {Wrappers(r) : r \in L1Reps}
L2Reps == IF Thorough THEN LET q == SetToSeq({r \in Level2 : Depth(r) = 3}) IN {q[i] : i \in {j \in 1..Len(q) : j % 8 = 0}} ELSE UNION {Wrappers(r) : r \in {VVec(<<VNone, E8[2]>>), VMap("U16", {<<<<254, 0>>, V3[3]>>})}}
Level3 == UNION {Wrappers(r) : r \in L2Reps}

--------------------------------------------------------------------------------
(* Nesting chains: steps 1..14 = Some, Vec, Struct, Enum, Map of each of the ten key kinds. *)
Wrap(s, inner) ==
  CASE s = 1 -> VSome(inner)
    [] s = 2 -> VVec(<<inner>>)
    [] s = 3 -> VStruct({<<Ids4[2], inner>>})
    [] s = 4 -> VEnum(Ids4[3], inner)
    [] OTHER -> VMap(KeyNames[s - 4], {<<KeysOf[s - 4][2], inner>>})
RECURSIVE ChainOf(_, _, _)
ChainOf(steps, i, leaf) == IF i > Len(steps) THEN leaf ELSE Wrap(steps[i], ChainOf(steps, i + 1, leaf))
Rnd(a, b) == ((Seed * 7919 + a * 104729 + b * 1299709) % 14) + 1
ChainLeaf(a) == IF a % 2 = 0 THEN VNone ELSE E8[2]

Uniform == {ChainOf(Tup([i \in 1..(D - 1) |-> s]), 1, VNone) : s \in 1..14, D \in {32, 33}}
Pairs == {ChainOf(Tup([i \in 1..(D - 1) |-> IF i = D - 2 THEN s ELSE IF i = D - 1 THEN t ELSE Rnd(s * 14 + t, i)]), 1, ChainLeaf(s + t))
            : s \in 1..14, t \in 1..14, D \in {32, 33}}
Triples == IF ~Thorough THEN {} ELSE
           {ChainOf(Tup([i \in 1..(D - 1) |-> IF i = D - 3 THEN s ELSE IF i = D - 2 THEN t ELSE IF i = D - 1 THEN u
                                          ELSE Rnd(s * 196 + t * 14 + u, i)]), 1, ChainLeaf(s + t + u))
              : s \in 1..14, t \in 1..14, u \in 1..14, D \in {32, 33}}
Ladder == {ChainOf(Tup([i \in 1..(D - 1) |-> Rnd(D, i)]), 1, ChainLeaf(D)) : D \in 2..40}
\* childless containers as the deepest node, exactly on the limit and one beyond it: a container with no
\* element has no value on the next level, so it is as deep as a scalar
BoundaryLeaves == {VVec(<<>>), VMap("U8", {}), VSet("U8", {}), VStruct({}), VBytes(<<>>)}
Boundary == {ChainOf(Tup([i \in 1..(D - 1) |-> s]), 1, leaf) : s \in 1..14, D \in {32, 33}, leaf \in BoundaryLeaves}
Chains == Uniform \cup Pairs \cup Triples \cup Ladder \cup Boundary

Domain == CASE Part = "leaves" -> Leaves [] Part = "level1" -> Level1 [] Part = "level23" -> Level2 \cup Level3
            [] Part = "chains" -> Chains [] OTHER -> Leaves \cup Level1 \cup Level2 \cup Level3 \cup Chains
\* The domain is built once, before the workers start, and kept in TLC register 1 (TLC does not cache
\* definitions that use RECURSIVE operators).  Touch enumerates every nested set once so that the shared
\* value is fully normalised (read-only) when the workers read it.
RECURSIVE Touch(_)
Touch(v) == CASE v.k \in {"Some", "Enum"} -> Touch(v.v)
              [] v.k = "Vec" -> \A i \in 1..Len(v.e) : Touch(v.e[i])
              [] v.k = "Map" -> \A kv \in v.m : Touch(kv[2])
              [] v.k = "Struct" -> \A kv \in v.f : Touch(kv[2])
              [] v.k = "Set" -> Cardinality(v.s) >= 0
              [] OTHER -> TRUE
ASSUME LET d == SetToSeq(Domain) IN (\A i \in 1..Len(d) : Touch(d[i])) /\ TLCSet(1, d)
DomSeq == TLCGet(1)
N == Len(DomSeq)
BS == 16
NA == (N + BS - 1) \div BS

--------------------------------------------------------------------------------
(* Theorems on one value *)
EPs == {<<2, 2>>, <<1, 1>>, <<1, 2>>, <<2, 1>>}

\* valid but non-canonical encodings of v (what other peers may send): they must decode to v
Alts(v) ==
  (IF v.k = "Bool" /\ v.b THEN {<<2, 2>>, <<2, 255>>} ELSE {})
  \cup (IF v.k \in {"U16", "U32", "U64"} THEN {<<IntKindByte[v.k], 255>> \o v.n} ELSE {})
  \cup (IF v.k \in {"I16", "I32", "I64"} THEN {<<IntKindByte[v.k], 255>> \o ZigZagEnc(v.n)} ELSE {})
  \cup (IF v.k \in {"U32"} /\ HiIdx(v.n) = 1 THEN {<<7, 252, v.n[1]>>, <<7, 253, v.n[1], 0>>} ELSE {})
  \cup (IF v.k = "String" /\ Len(v.s) < 256 THEN {<<13, 255, Len(v.s), 0, 0, 0>> \o v.s} ELSE {})
  \cup (IF v.k = "Bytes" /\ Len(v.s) >= 2 /\ Len(v.s) < 250
          THEN {<<44, 1, v.s[1], Len(v.s) - 1>> \o SubSeq(v.s, 2, Len(v.s)) \o <<0>>,
                <<44, 253, Len(v.s) - 1, 0>> \o SubSeq(v.s, 1, Len(v.s) - 1) \o <<1, v.s[Len(v.s)], 0>>} ELSE {})
  \cup (IF v.k = "Map" /\ v.m # {}          \* a repeated key: the last entry wins
          THEN LET x == KeyIdx(v.kk)  kv == Pick(v.m) IN
               {<<44 + x>> \o <<1>> \o EncKey(x, kv[1]) \o <<1, 0>> \o EncEntries(SeqOfSet(v.m), 1, x, <<2, 2>>, 2, <<1>>) \o <<0>>,
                <<18 + x>> \o PutVarint(U32Of(Cardinality(v.m) + 1)) \o EncKey(x, kv[1]) \o <<1, 0>>
                    \o EncEntries(SeqOfSet(v.m), 1, x, <<1, 1>>, 2, <<>>)}
          ELSE {})
  \cup (IF v.k = "Set" /\ v.s # {}
          THEN LET x == KeyIdx(v.kk)  key == Pick(v.s) IN
               {<<54 + x>> \o <<1>> \o EncKey(x, key) \o EncKeys(SeqOfSet(v.s), 1, x, <<1>>) \o <<0>>}
          ELSE {})
  \cup (IF v.k = "Struct" /\ v.f # {}
          THEN LET kv == Pick(v.f) IN
               {<<65, 1>> \o PutVarint(kv[1]) \o <<3, 9>> \o EncEntries(SeqOfSet(v.f), 1, 5, <<2, 2>>, 2, <<1>>) \o <<0>>}
          ELSE {})

ThmOk(v, e11, encs, altSeq, altConv) ==
  /\ Enc2(v).ok /\ Enc1(v).ok /\ Enc1(v).b = e11
  /\ \A x \in encs :
       LET d == Dec(x, 1)  k == Skip(x, 1)  c == ConvWalk(x) IN
       /\ d.ok /\ d.value = v /\ d.n = Len(x) /\ d.rest = <<>>            \* round trip, everything consumed
       /\ k.ok /\ k.n = Len(x)                                            \* skip length = encoded length
       /\ (x = e11 => ~k.v2)                                              \* no 1.20 kind in the legacy encoding
       /\ Kind(x).ok /\ Kind(x).k = x[1]
       /\ c.ok /\ c.b = e11                                               \* conversion = the legacy encoding (=> idempotent)
       /\ Conv(x, 2).b = x /\ ConvFT(x, 1, 1).b = x /\ ConvFT(x, 1, 2).b = x
  /\ \A j \in 1..Len(altSeq) :
       LET a == altSeq[j]  d == Dec(a, 1)  k == Skip(a, 1)  c == altConv[j] IN
       /\ d.ok /\ d.value = v /\ d.n = Len(a)
       /\ k.ok /\ k.n = Len(a)
       /\ c.ok /\ LET dc == Dec(c.b, 1)  kc == Skip(c.b, 1) IN
                  /\ dc.ok /\ dc.value = v /\ dc.n = Len(c.b) /\ kc.ok /\ ~kc.v2
                  /\ ConvWalk(c.b).b = c.b
                  /\ (v.k \notin {"Map", "Set", "Struct"} => c.b = e11)    \* scalars are normalised

ThmDeep(v, encs) ==
  /\ ~Enc2(v).ok /\ Enc2(v).e = "tooDeep" /\ ~Enc1(v).ok /\ Enc1(v).e = "tooDeep"
  /\ \A x \in encs :
       /\ Dec(x, 1).e = "tooDeep" /\ Skip(x, 1).e = "tooDeep" /\ ConvWalk(x).e = "tooDeep"
       /\ Conv(x, 2).b = x

--------------------------------------------------------------------------------
(* Vectors *)
RECURSIVE Export(_)
Export(v) ==
  CASE v.k = "Some" -> [k |-> "Some", v |-> Export(v.v)]
    [] v.k = "Enum" -> [k |-> "Enum", id |-> v.id, v |-> Export(v.v)]
    [] v.k = "Vec" -> [k |-> "Vec", e |-> [i \in 1..Len(v.e) |-> Export(v.e[i])]]
    [] v.k = "Map" -> LET s == SeqOfSet(v.m) IN [k |-> "Map", kk |-> v.kk, m |-> [i \in 1..Len(s) |-> <<s[i][1], Export(s[i][2])>>]]
    [] v.k = "Struct" -> LET s == SeqOfSet(v.f) IN [k |-> "Struct", f |-> [i \in 1..Len(s) |-> <<s[i][1], Export(s[i][2])>>]]
    [] v.k = "Set" -> [k |-> "Set", kk |-> v.kk, s |-> SeqOfSet(v.s)]
    [] OTHER -> v

\* one value: all theorems, then (CODEC_EMIT=1) its vector
Check(i, v) ==
  LET ok == Depth(v) <= MaxDepth
      e22 == EncRaw(v, <<2, 2>>, 1)  e11 == EncRaw(v, <<1, 1>>, 1)
      mixed == Thorough \/ Depth(v) <= 24   \* quick: the long nesting chains are checked in the two pure encodings only
      e12 == IF mixed THEN EncRaw(v, <<1, 2>>, 1) ELSE e11
      e21 == IF mixed THEN EncRaw(v, <<2, 1>>, 1) ELSE e22
      altSeq == SeqOfSet(IF ok THEN Alts(v) ELSE {})
      altConv == [j \in 1..Len(altSeq) |-> ConvWalk(altSeq[j])]
  IN /\ IF ok THEN ThmOk(v, e11, {e22, e11, e12, e21}, altSeq, altConv) ELSE ThmDeep(v, {e22, e11, e12, e21})
     /\ Emit => PrintT(ToJson([id |-> i, depth |-> Depth(v), ok |-> ok, mixed |-> mixed, v |-> Export(v),
                                e22 |-> e22, e11 |-> e11, e12 |-> e12, e21 |-> e21,
                                alts |-> [j \in 1..Len(altSeq) |-> [a |-> altSeq[j], c |-> altConv[j].b]]]))

VARIABLES a, b
Init == a = 0 /\ b = 0
Next == \/ a = 0 /\ a' \in 1..NA /\ b' = 0
        \/ a > 0 /\ b = 0 /\ a' = a /\ b' \in 1..BS /\ (a - 1) * BS + b' <= N
Spec == Init /\ [][Next]_<<a, b>>

Idx == (a - 1) * BS + b
Theorems == b > 0 => Check(Idx, DomSeq[Idx])

--------------------------------------------------------------------------------
(* Cross-check of the reference with hand-written byte vectors of /repo/core/src/impls/test.rs
   (test_vec, test_vec_value, test_bytes, test_bytes_segmented, test_u8_map, test_struct, test_option_some,
   i16 min, u64 max, string): <<value, legacy bytes, current bytes>>. *)
Golden == <<
  <<VVec(<<VInt("U8", <<7>>), VInt("U8", <<8>>)>>), <<17, 2, 3, 7, 3, 8>>, <<43, 1, 3, 7, 1, 3, 8, 0>>>>,
  <<VVec(<<VNone, VInt("U8", <<4>>)>>), <<17, 2, 0, 3, 4>>, <<43, 1, 0, 1, 3, 4, 0>>>>,
  <<VBytes(<<1, 2, 3>>), <<18, 3, 1, 2, 3>>, <<44, 3, 1, 2, 3, 0>>>>,
  <<VMap("U8", {<<<<0>>, VInt("U8", <<1>>)>>, <<<<2>>, VInt("U8", <<3>>)>>}), <<19, 2, 0, 3, 1, 2, 3, 3>>, <<45, 1, 0, 3, 1, 1, 2, 3, 3, 0>>>>,
  <<VStruct({<<<<1, 0, 0, 0>>, VInt("U32", <<2, 0, 0, 0>>)>>, <<<<2, 0, 0, 0>>, VSome(VInt("I32", <<3, 0, 0, 0>>))>>}),
    <<39, 2, 1, 7, 2, 2, 1, 8, 6>>, <<65, 1, 1, 7, 2, 1, 2, 1, 8, 6, 0>>>>,
  <<VSome(VNone), <<1, 0>>, <<1, 0>>>>,
  <<VInt("I16", <<0, 128>>), <<6, 255, 255, 255>>, <<6, 255, 255, 255>>>>,
  <<VInt("U64", <<255, 255, 255, 255, 255, 255, 255, 255>>), <<9, 255, 255, 255, 255, 255, 255, 255, 255, 255>>,
    <<9, 255, 255, 255, 255, 255, 255, 255, 255, 255>>>> >>
GoldenTheorem ==
  /\ \A i \in 1..Len(Golden) :
       LET g == Golden[i] IN
       /\ Dec(g[2], 1).ok /\ Dec(g[2], 1).value = g[1] /\ Dec(g[3], 1).ok /\ Dec(g[3], 1).value = g[1]
       /\ ConvWalk(g[3]).b = g[2]
       /\ (Cardinality({1}) = 1 /\ g[1].k \notin {"Map", "Struct"}) => (Enc1(g[1]).b = g[2] /\ Enc2(g[1]).b = g[3])
  /\ Dec(<<44, 1, 1, 1, 2, 1, 3, 0>>, 1).value = VBytes(<<1, 2, 3>>)           \* test_bytes_segmented
  /\ Dec(<<2, 7>>, 1).value = VBool(TRUE)                                      \* test_bool_non_zero
  /\ Dec(<<1, 1, 1, 1, 1, 1, 1, 1, 1, 1, 1, 1, 1, 1, 1, 1, 1, 1, 1, 1, 1, 1, 1, 1, 1, 1, 1, 1, 1, 1, 1, 1, 0>>, 1).e = "tooDeep"  \* test_deserialize_too_deep
ASSUME GoldenTheorem

\* version table (printed once with the vectors; the driver uses it as the oracle for version handling)
Versions == {<<ma, mi>> : ma \in 0..2, mi \in 0..30}
EpochTheorem == /\ \A ver \in Versions : EpochOf(ver) \in {0, 1, 2}
                /\ {ver \in Versions : EpochOf(ver) # 0} = {<<1, mi>> : mi \in 14..20}
                /\ {ver \in Versions : EpochOf(ver) = 2} = {<<1, 20>>}
                /\ \A t \in Versions :
                     /\ \A f \in Versions :
                          LET r == ConvVer(<<43, 0>>, f, t) IN
                          IF EpochOf(f) = 0 \/ EpochOf(t) = 0 THEN r.e = "invalidVersion"
                          ELSE IF EpochOf(t) >= EpochOf(f) THEN r.b = <<43, 0>> ELSE r.b = <<17, 0>>
                     /\ LET r == ConvVer(<<43, 0>>, NoVersion, t) IN
                          IF EpochOf(t) = 0 THEN r.e = "invalidVersion"
                          ELSE IF EpochOf(t) = 2 THEN r.b = <<43, 0>> ELSE r.b = <<17, 0>>
ASSUME EpochTheorem
ASSUME Emit => PrintT(ToJson([epochs |-> [i \in 1..31 |-> <<1, i - 1, EpochOf(<<1, i - 1>>)>>], n |-> N]))
=============================================================================
