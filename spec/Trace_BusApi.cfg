SPECIFICATION Spec
CONSTANTS
  Users = {1, 2}
  Events = {0, 1}
POSTCONDITION Accepted
CHECK_DEADLOCK FALSE
