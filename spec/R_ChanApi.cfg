SPECIFICATION Spec
CONSTANTS
  Caps = {1, 2, 4, 5, 6, 16}
  MaxOps = 9
INVARIANTS Emit InvCredit InvNoStarvation
CHECK_DEADLOCK FALSE
