SPECIFICATION Spec
CONSTANTS
  ObjU = {1, 2}
  SvcU = {1, 2}
  Keys <- TKeys
  EntryOf <- TEntryOf
POSTCONDITION Accepted
CHECK_DEADLOCK FALSE
