SPECIFICATION Spec
CONSTANTS
  Caps = {1, 5, 6}
  MaxOps = 8
  Probe = TRUE
INVARIANTS Emit InvCredit InvNoStarvation
CHECK_DEADLOCK FALSE
