SPECIFICATION Spec
CONSTANTS
  KindMutAll = TRUE
  ByteMut = TRUE
INVARIANTS
  Inv_WF
  Inv_RoundTrip
  Inv_Prefix
  Inv_Strict
  Inv_Lenient
POSTCONDITION Emit
CHECK_DEADLOCK FALSE
