----------------------------- MODULE Trace_Obs -----------------------------
(* Trace validation, property level: folds the observer of Obs.tla over a recorded ndjson trace
   (env TRACE).  The verdict is the invariant Inv; the postcondition only establishes that every
   record was consumed. *)
EXTENDS Obs, TLC, Json, IOUtils

Rec == ndJsonDeserialize(IOEnv.TRACE)

VARIABLES l, obs
vars == <<l, obs>>

Init == l = 1 /\ obs = ObsInit
Next == /\ l <= Len(Rec)
        /\ obs' = ObsStep(obs, Rec[l])
        /\ l' = l + 1
Spec == Init /\ [][Next]_vars

Inv == obs.ok \/ Print(<<"VIOLATION-AT", l - 1, obs.prop, obs.why>>, FALSE)

Accepted == \/ TLCGet("stats").diameter - 1 = Len(Rec)
            \/ Print(<<"TRACE-NOT-CONSUMED", TLCGet("stats").diameter - 1, Len(Rec)>>, FALSE)
=============================================================================
