----------------------------- MODULE Trace_Obs -----------------------------
(* Trace validation, property level: folds the observer of Obs.tla over a recorded ndjson trace
   (env TRACE).  The verdict is the invariant Inv; the postcondition only establishes that every
   record was consumed. *)
EXTENDS Obs, TLC, Json, IOUtils

Rec == ndJsonDeserialize(IOEnv.TRACE)

VARIABLES l, obs
vars == <<l, obs>>

Init == l = 1 /\ obs = ObsInit
\* A violation is printed (one line, parsed by bin/check) and the fold goes on: the observer stays
\* silent until the next "reset" record, where it starts afresh, so that one TLC run judges every
\* run of a concatenated trace.
Next == /\ l <= Len(Rec)
        /\ LET o2 == ObsStep(obs, Rec[l]) IN
             /\ obs' = o2
             /\ (obs.ok /\ ~o2.ok) => PrintT(<<"VIOLATION-AT", l, o2.prop, o2.why>>)
        /\ l' = l + 1
Spec == Init /\ [][Next]_vars

Accepted == \/ TLCGet("stats").diameter - 1 = Len(Rec)
            \/ Print(<<"TRACE-NOT-CONSUMED", TLCGet("stats").diameter - 1, Len(Rec)>>, FALSE)
=============================================================================
