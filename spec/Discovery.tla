----------------------------- MODULE Discovery -----------------------------
(* The discoverer of aldrin/src/discoverer*.rs on top of the bus, as a sequential machine.

   Two layers in one module:
   * implementation-shaped: the four entry kinds (any object / one specific object, each with or
     without required services) keep exactly the maps of any.rs, specific_with_services.rs and
     specific_without_services.rs and react to the bus events the listener delivers -- every event
     that passes the UNION of all entries' filters reaches EVERY entry (discoverer.rs
     poll_next_event), so an entry is only right if it guards itself;
   * abstract: what C19 says -- the view of an entry is exactly the set of existing objects that
     satisfy it, and the events of one operation are exactly the changes of that set.

   The bus part is the registry of Broker.tla at the level of whole operations (the client API
   awaits the reply; the events of one operation reach the listener before anything else the same
   client is told afterwards).  State is one record `d`, operations are functions Do(d, op), so the
   same text drives the design check (MC_Discovery.tla), the behaviours replayed on the real code
   (spec -> implementation) and the validation of what the real code then reported
   (Trace_Discovery.tla). *)
EXTENDS Naturals, Sequences, FiniteSets, TLC

CONSTANTS ObjU,            \* object uuids (positive integers)
          SvcU,            \* service uuids
          Keys,            \* entry keys
          EntryOf(_)       \* key -> [obj |-> 0 (any) or uuid, svcs |-> SUBSET SvcU]

Zero(S) == [x \in S |-> 0]
EmptyEnt == [created |-> Zero(ObjU), svc |-> [s \in SvcU |-> Zero(ObjU)]]

DInit == [obj |-> Zero(ObjU),                    \* uuid -> cookie of the existing object, 0 = none
          svc |-> [o \in ObjU |-> Zero(SvcU)],   \* uuid -> service uuid -> cookie, 0 = none
          used |-> {},                           \* cookies issued so far
          ocs |-> {},                            \* <<uuid, cookie>> of every object ever created
          lts |-> {},                            \* lifetimes bound so far: <<uuid, cookie>> of their scope
          st |-> "none",                         \* "none" | "running"
          scope |-> "all",                       \* "all" | "current"
          ent |-> [k \in Keys |-> EmptyEnt],
          snapObj |-> Zero(ObjU),                \* the bus when the listener was started (current scope)
          snapSvc |-> [o \in ObjU |-> Zero(SvcU)],
          out |-> <<>>,                          \* discoverer events of the last operation
          panic |-> ""]                          \* a debug_assert / expect of the entry code would fire

\* ---------------------------------------------------------------------------------------------
\* bus events and the listener's filters (bus_listener.rs: any filter matches)
BE(be, o, oc, s, sc) == [be |-> be, o |-> o, oc |-> oc, s |-> s, sc |-> sc]
EntryFilterMatches(e, ev) ==
  IF e.svcs = {} THEN ev.be \in {"oc", "od"} /\ (e.obj = 0 \/ e.obj = ev.o)
  ELSE ev.be \in {"sc", "sd"} /\ ev.s \in e.svcs /\ (e.obj = 0 \/ e.obj = ev.o)
Delivered(ev) == \E k \in Keys : EntryFilterMatches(EntryOf(k), ev)

\* ---------------------------------------------------------------------------------------------
\* one entry handles one bus event: [e |-> new entry state, evs |-> <<>> or <<event>>, panic]
DEv(k, created, o, c) == [key |-> k, created |-> created, o |-> o, c |-> c]
R(e, evs, p) == [e |-> e, evs |-> evs, panic |-> p]

AnyStep(k, spec, e, ev) ==
  CASE ev.be = "oc" ->
         IF spec.svcs = {}
           THEN R([e EXCEPT !.created[ev.o] = ev.oc], <<DEv(k, TRUE, ev.o, ev.oc)>>,
                  IF e.created[ev.o] # 0 THEN "any.rs object_created: duplicate" ELSE "")
           ELSE R(e, <<>>, "")
    [] ev.be = "od" ->
         IF e.created[ev.o] # 0
           THEN R([e EXCEPT !.created[ev.o] = 0], <<DEv(k, FALSE, ev.o, ev.oc)>>,
                  IF e.created[ev.o] # ev.oc THEN "any.rs object_destroyed: cookie mismatch" ELSE "")
           ELSE R(e, <<>>, "")
    [] ev.be = "sc" ->
         IF ev.s \notin spec.svcs THEN R(e, <<>>, "")
         ELSE LET e1 == [e EXCEPT !.svc[ev.s][ev.o] = ev.sc]
                  p1 == IF e.svc[ev.s][ev.o] # 0 THEN "any.rs service_created: duplicate service" ELSE "" IN
              IF \A s \in spec.svcs : e1.svc[s][ev.o] # 0
                THEN R([e1 EXCEPT !.created[ev.o] = ev.oc], <<DEv(k, TRUE, ev.o, ev.oc)>>,
                       IF p1 # "" THEN p1 ELSE IF e.created[ev.o] # 0 THEN "any.rs service_created: duplicate object" ELSE "")
                ELSE R(e1, <<>>, p1)
    [] OTHER ->  \* "sd"
         IF ev.s \notin spec.svcs THEN R(e, <<>>, "")
         ELSE LET e1 == [e EXCEPT !.svc[ev.s][ev.o] = 0]
                  p1 == IF e.svc[ev.s][ev.o] # ev.sc THEN "any.rs service_destroyed: cookie mismatch" ELSE "" IN
              IF e.created[ev.o] # 0
                THEN R([e1 EXCEPT !.created[ev.o] = 0], <<DEv(k, FALSE, ev.o, ev.oc)>>,
                       IF p1 # "" THEN p1 ELSE IF e.created[ev.o] # ev.oc THEN "any.rs service_destroyed: object cookie mismatch" ELSE "")
                ELSE R(e1, <<>>, p1)

\* specific_without_services.rs: `cookie` is created[obj]
BareStep(k, spec, e, ev) ==
  CASE ev.be = "oc" /\ ev.o = spec.obj ->
         R([e EXCEPT !.created[ev.o] = ev.oc], <<DEv(k, TRUE, ev.o, ev.oc)>>,
           IF e.created[ev.o] # 0 THEN "specific_without_services.rs object_created: already created" ELSE "")
    [] ev.be = "od" /\ ev.o = spec.obj ->
         R([e EXCEPT !.created[ev.o] = 0], <<DEv(k, FALSE, ev.o, ev.oc)>>,
           IF e.created[ev.o] # ev.oc THEN "specific_without_services.rs object_destroyed: cookie mismatch" ELSE "")
    [] OTHER -> R(e, <<>>, "")

\* specific_with_services.rs: `cookie` is created[obj], `services` is svc[s][obj]
WithStep(k, spec, e, ev) ==
  CASE ev.be = "sc" /\ ev.o = spec.obj /\ ev.s \in spec.svcs ->
         LET e1 == [e EXCEPT !.svc[ev.s][spec.obj] = ev.sc]
             p1 == IF e.svc[ev.s][spec.obj] # 0 THEN "specific_with_services.rs service_created: already there" ELSE "" IN
         IF \A s \in spec.svcs : e1.svc[s][spec.obj] # 0
           THEN R([e1 EXCEPT !.created[spec.obj] = ev.oc], <<DEv(k, TRUE, ev.o, ev.oc)>>, p1)
           ELSE R(e1, <<>>, p1)
    [] ev.be = "sd" /\ ev.o = spec.obj /\ ev.s \in spec.svcs ->
         LET e1 == [e EXCEPT !.svc[ev.s][spec.obj] = 0]
             p1 == IF e.svc[ev.s][spec.obj] # ev.sc THEN "specific_with_services.rs service_destroyed: cookie mismatch" ELSE "" IN
         IF e.created[spec.obj] # 0
           THEN R([e1 EXCEPT !.created[spec.obj] = 0], <<DEv(k, FALSE, ev.o, ev.oc)>>, p1)
           ELSE R(e1, <<>>, p1)
    [] OTHER -> R(e, <<>>, "")

EntryStep(k, e, ev) ==
  LET spec == EntryOf(k) IN
  IF spec.obj = 0 THEN AnyStep(k, spec, e, ev)
  ELSE IF spec.svcs = {} THEN BareStep(k, spec, e, ev)
  ELSE WithStep(k, spec, e, ev)

\* the discoverer handles one delivered bus event: every entry sees it
KeySeq == CHOOSE q \in [1..Cardinality(Keys) -> Keys] : \A i, j \in 1..Cardinality(Keys) : i # j => q[i] # q[j]
RECURSIVE FeedEntries(_, _, _)
FeedEntries(d, ev, i) ==
  IF i > Len(KeySeq) THEN d
  ELSE LET k == KeySeq[i]
           r == EntryStep(k, d.ent[k], ev) IN
       FeedEntries([d EXCEPT !.ent[k] = r.e, !.out = @ \o r.evs,
                             !.panic = IF @ # "" THEN @ ELSE r.panic], ev, i + 1)

\* a bus event happens: delivered if the listener is running, takes new events and a filter matches
Receives(d) == d.st = "running" /\ d.scope = "all"
Feed(d, ev) == IF Delivered(ev) THEN FeedEntries(d, ev, 1) ELSE d
RECURSIVE FeedAll(_, _, _)
FeedAll(d, evs, i) == IF i > Len(evs) THEN d ELSE FeedAll(Feed(d, evs[i]), evs, i + 1)

\* ---------------------------------------------------------------------------------------------
\* operations.  op = [op, o, s, c, scope]; unused fields are 0 / "".
SetToSeq(S) == CHOOSE q \in [1..Cardinality(S) -> S] : \A i, j \in 1..Cardinality(S) : i # j => q[i] # q[j]
SvcsOf(d, o) == {s \in SvcU : d.svc[o][s] # 0}

\* the events with which the broker answers StartBusListener for the current bus (objects, then
\* their services; the order among objects and among services is the broker's hash order and
\* does not matter to the entries)
CurrentEvents(d) ==
  LET objs == SetToSeq({o \in ObjU : d.obj[o] # 0})
      ofObj(o) == <<BE("oc", o, d.obj[o], 0, 0)>> \o
                  [i \in 1..Cardinality(SvcsOf(d, o)) |-> LET s == SetToSeq(SvcsOf(d, o))[i] IN BE("sc", o, d.obj[o], s, d.svc[o][s])]
      RECURSIVE cat(_)
      cat(i) == IF i > Len(objs) THEN <<>> ELSE ofObj(objs[i]) \o cat(i + 1)
  IN cat(1)

Enabled(d, op) ==
  CASE op.op = "co" -> d.obj[op.o] = 0 /\ op.c \notin d.used /\ op.c # 0
    [] op.op = "do" -> d.obj[op.o] # 0
    [] op.op = "cs" -> d.obj[op.o] # 0 /\ d.svc[op.o][op.s] = 0 /\ op.c \notin d.used /\ op.c # 0
    [] op.op = "ds" -> d.obj[op.o] # 0 /\ d.svc[op.o][op.s] # 0
    \* a lifetime can be bound to the id of any object that exists or has existed
    [] op.op = "lt" -> <<op.o, op.c>> \in d.ocs \ d.lts
    [] op.op = "build" -> d.st = "none"
    [] op.op = "restart" -> d.st = "running"
    [] OTHER -> FALSE

Start(d, scope) ==
  LET d1 == [d EXCEPT !.st = "running", !.scope = scope, !.ent = [k \in Keys |-> EmptyEnt],
                      !.snapObj = d.obj, !.snapSvc = d.svc] IN
  FeedAll(d1, CurrentEvents(d1), 1)

Do(d0, op) ==
  LET d == [d0 EXCEPT !.out = <<>>] IN
  CASE op.op = "co" ->
         LET d1 == [d EXCEPT !.obj[op.o] = op.c, !.used = @ \cup {op.c}, !.ocs = @ \cup {<<op.o, op.c>>}] IN
         IF Receives(d) THEN Feed(d1, BE("oc", op.o, op.c, 0, 0)) ELSE d1
    [] op.op = "lt" -> [d EXCEPT !.lts = @ \cup {<<op.o, op.c>>}]
    [] op.op = "cs" ->
         LET d1 == [d EXCEPT !.svc[op.o][op.s] = op.c, !.used = @ \cup {op.c}] IN
         IF Receives(d) THEN Feed(d1, BE("sc", op.o, d.obj[op.o], op.s, op.c)) ELSE d1
    [] op.op = "ds" ->
         LET d1 == [d EXCEPT !.svc[op.o][op.s] = 0] IN
         IF Receives(d) THEN Feed(d1, BE("sd", op.o, d.obj[op.o], op.s, d.svc[op.o][op.s])) ELSE d1
    [] op.op = "do" ->
         LET ss == SetToSeq(SvcsOf(d, op.o))
             evs == [i \in 1..Len(ss) |-> BE("sd", op.o, d.obj[op.o], ss[i], d.svc[op.o][ss[i]])] \o <<BE("od", op.o, d.obj[op.o], 0, 0)>>
             d1 == [d EXCEPT !.obj[op.o] = 0, !.svc[op.o] = Zero(SvcU)] IN
         IF Receives(d) THEN FeedAll(d1, evs, 1) ELSE d1
    [] op.op \in {"build", "restart"} -> Start(d, op.scope)
    [] OTHER -> d

\* ---------------------------------------------------------------------------------------------
\* the abstract side (C19)
Satisfies(spec, objs, svcs, o) == objs[o] # 0 /\ (spec.obj = 0 \/ spec.obj = o) /\ \A s \in spec.svcs : svcs[o][s] # 0
\* what an entry reports: <<object uuid, object cookie, cookies of the required services>>
Item(spec, objs, svcs, o) == <<o, objs[o], [s \in spec.svcs |-> svcs[o][s]]>>
TruthOf(k, objs, svcs) == {Item(EntryOf(k), objs, svcs, o) : o \in {o \in ObjU : Satisfies(EntryOf(k), objs, svcs, o)}}
ViewOf(d, k) == LET spec == EntryOf(k) IN
                {<<o, d.ent[k].created[o], [s \in spec.svcs |-> d.ent[k].svc[s][o]]>> : o \in {o \in ObjU : d.ent[k].created[o] # 0}}
\* all scope: the bus now; current scope: the bus when the listener started
Expected(d, k) == IF d.scope = "all" THEN TruthOf(k, d.obj, d.svc) ELSE TruthOf(k, d.snapObj, d.snapSvc)

\* C19 (lifetimes): a lifetime has ended exactly when the object incarnation that is its scope does not
\* exist (any more) -- another object under the same uuid is not the scope
LtEnded(d, x) == d.obj[x[1]] # x[2]

ViewIsTruth(d) == d.st = "running" => \A k \in Keys : ViewOf(d, k) = Expected(d, k)
NoPanic(d) == d.panic = ""
\* the events of one operation are exactly the changes of the satisfied sets (as a set: one entry
\* changes at most once per object and operation)
EventSet(d) == {d.out[i] : i \in 1..Len(d.out)}
ChangesOf(before, after) ==
  {DEv(k, TRUE, x[1], x[2]) : <<k, x>> \in {<<k, x>> \in Keys \X UNION {after[k] : k \in Keys} : x \in after[k] /\ ~\E y \in before[k] : y[1] = x[1] /\ y[2] = x[2]}}
  \cup {DEv(k, FALSE, x[1], x[2]) : <<k, x>> \in {<<k, x>> \in Keys \X UNION {before[k] : k \in Keys} : x \in before[k] /\ ~\E y \in after[k] : y[1] = x[1] /\ y[2] = x[2]}}
EventsAreChanges(d0, op, d) ==
  LET before == IF op.op \in {"build", "restart"} \/ d0.st # "running" THEN [k \in Keys |-> {}] ELSE [k \in Keys |-> Expected(d0, k)]
      after == IF d.st # "running" THEN [k \in Keys |-> {}] ELSE [k \in Keys |-> Expected(d, k)] IN
  EventSet(d) = ChangesOf(before, after) /\ Len(d.out) = Cardinality(EventSet(d))
=============================================================================
