SPECIFICATION Spec
CONSTANTS
  Calls = {1, 2}
  AsIs = FALSE
  MaxSpin = 8
INVARIANTS NoSpin
PROPERTIES Returns
CHECK_DEADLOCK FALSE
