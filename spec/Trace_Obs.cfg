SPECIFICATION Spec
CONSTANT B = 65536
INVARIANT Inv
POSTCONDITION Accepted
CHECK_DEADLOCK FALSE
