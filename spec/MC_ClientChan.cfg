SPECIFICATION Spec
CONSTANTS
  B = 4
  Clients = {0, 1}
  AppBudget = 6
  MaxCreates = 2
  AssertRegisteredOnClose = FALSE
INVARIANTS NoUnexpectedNoPanic BrokerNoPanic NobodyClosed Agreement
CHECK_DEADLOCK FALSE
