\* exhaustive design check of the TokioTransport machine (send direction): every order of API calls, every
\* I/O result at every I/O call, every read / write size
SPECIFICATION Spec
CONSTANTS
  Machine = "tokio"
  InSeqs <- None
  OutSeqs <- ToyOut2
  Modes = {"free"}
  MinReserve = 4
  MaxReserve = 6
  Slack = 0
  Boundary = 8
  ChunkMode = "all"
  MaxChunks = 0
  Bounded = FALSE
  MaxCalls = 0
  MaxFaults = 0
  Emit = FALSE
INVARIANTS ObsOk PkInv TokInv
CHECK_DEADLOCK FALSE
