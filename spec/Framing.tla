------------------------------- MODULE Framing -------------------------------
(* C14 -- implementation-shaped model of

     (a) core/src/message/packetizer.rs   Packetizer {buf, len} (+ the capacity of buf, which the
                                          reserve rule of spare_capacity_mut depends on)
     (b) core/src/tokio.rs                TokioTransport {io, packetizer, write_buf} over a scripted
                                          AsyncRead + AsyncWrite
     (c) core/src/transport/buffered.rs   Buffered {inner, buffer} over a scripted inner transport

   composed with the property observer of FramingObs.tla.  Bytes are segment lists (FramingObs),
   so one text serves the exhaustive design check on toy sizes (MinReserve 4, Boundary 8, every
   chunking / every I/O result at every I/O call) and the case generators with the real constants
   (MinReserve 65536, MaxReserve 4 MiB, Boundary 8192, frames of 5 .. 131075 bytes).

   Every action appends one *event* (FramingObs, section 2) to the observer -- and, when Emit is
   TRUE, to hist; a complete hist is printed as one JSON line and replayed, event by event, on the
   real code by /verif/harness/crates/framing-driver: the input fields (n, s, fs, m) tell the
   driver what to do and what the scripted I/O object answers, the other fields are the
   specification's prediction of what the real code does.

   The I/O object.  Reads: a queue of items  n > 0 "n more bytes arrive" (a poll_read takes
   min(n, spare) of them, the rest stays at the head), 0 "end of stream" (the read fills nothing),
   -1 Pending, -2 error.  Writes: n > 0 "accept up to n bytes", 0 "Ok(0)", -1 Pending, -2 error.
   Flush: 1 Ok, -1 Pending, -2 error.  The model does not fix a script in advance: at every I/O
   call it chooses the next item, which is the same as quantifying over all scripts; the chosen
   items are recorded in the event (s, fs) so that the replay can script the mock accordingly.

   Usage contract (DESIGN 9.3): spare_capacity_mut is only called after next_message returned
   None -- as TokioTransport::receive_poll does.  Spw is enabled under that contract only.
   Length prefixes < 4 are outside the property (not a concatenation of serialized messages):
   every frame has length >= 5. *)
EXTENDS FramingObs, TLC, Json

CONSTANTS
    Machine,      \* "pk" | "tokio" | "buf"
    InSeqs,       \* set of sequences of frame lengths: the incoming byte stream
    OutSeqs,      \* set of sequences of message lengths: the messages to send
    Modes,        \* disciplines of the packetizer machine: "free" (any interleaving), "ext", "lazy", "spw", "alt", "alt2"
    MinReserve, MaxReserve,   \* Packetizer: MIN_RESERVE_CAPACITY, MAX_RESERVE_CAPACITY
    Slack,        \* a reserve may allocate up to Slack bytes more than asked for (BytesMut does)
    Boundary,     \* TokioTransport: BACKPRESSURE_BOUNDARY
    ChunkMode,    \* "all": every chunk size; "edge": only chunks ending at the interesting offsets
    MaxChunks,    \* edge mode: bound on the number of chunks fed / read items / write items of a behaviour
                  \* (the last read completes the stream, the last write takes everything)
    Bounded,      \* TRUE: generator (budgets below apply, API calls are goal directed)
    MaxCalls,     \* Bounded: number of events per behaviour
    MaxFaults,    \* Bounded: number of non-data I/O results per behaviour
    Emit          \* TRUE: keep the history and print every complete behaviour as JSON

VARIABLES
    lens, slens, mode,
    pk,         \* Packetizer: [buf, len (0 = None), cap]
    fed,        \* stream bytes handed to the packetizer so far
    drained,    \* the last packetizer call was next_message and it returned None
    chunks,     \* number of chunks so far (generator disciplines only)
    wbuf,       \* TokioTransport.write_buf
    avail,      \* what is left of the read item at the head of the reader's queue
    wr,         \* bytes the mock writer has accepted
    started,    \* messages passed to send_start
    ready,      \* send_poll_ready returned Ok and no send_start since
    dirty,      \* a send_start happened since the last flush that returned Ok
    pc,         \* "idle" | "rx" | "tx" | "txf" | "bf" | "bff": where the code is inside an API call
    call,       \* the event of the API call in progress
    bq,         \* Buffered.buffer
    handed,     \* messages the inner transport got through send_start
    offered,    \* messages the inner transport has produced
    dead,       \* an API call returned an error: the transport is unusable, the behaviour ends
    faults, ncalls,
    hist, obs

vars == <<lens, slens, mode, pk, fed, drained, chunks, wbuf, avail, wr, started, ready, dirty, pc, call,
          bq, handed, offered, dead, faults, ncalls, hist, obs>>

InStream == StreamOf(lens, 0)          \* frames 1, 2, ...
OutStream == StreamOf(slens, 100)      \* messages 101, 102, ...
T == Total(lens)

\* the I/O script of a call is recorded for the replay only (it is not part of the model's state)
Script(s, items) == IF Emit THEN s \o items ELSE s
Count(x) == IF Bounded THEN x + 1 ELSE 0
FaultsLeft == ~Bounded \/ faults < MaxFaults
CallsLeft == ~Bounded \/ ncalls < MaxCalls

---------------------------------------------------------------------------------------------
(* Packetizer, as functions on [buf, len, cap] *)

PkInit == [buf |-> <<>>, len |-> 0, cap |-> 0]

\* the u32 in the first four bytes of b (Size(b) >= 4): the length of the frame that starts there
Header(b) == IF b[1][2] = 0 /\ b[1][3] >= 4
             THEN (IF b[1][1] > 100 THEN slens[b[1][1] - 100] ELSE lens[b[1][1]])
             ELSE 4      \* not a header: never happens (invariant Aligned); any value keeps the model total

\* BytesMut::reserve(k): nothing if the spare capacity suffices, else a buffer for at least len + k
Reserve(p, k) == IF p.cap - Size(p.buf) >= k THEN {p.cap}
                 ELSE (Size(p.buf) + k) .. (Size(p.buf) + k + Slack)

Clamp(x) == IF x < MinReserve THEN MinReserve ELSE IF x > MaxReserve THEN MaxReserve ELSE x

\* capacities after the reserve rule of spare_capacity_mut
SpareCaps(p) ==
    IF p.len # 0 THEN (IF p.cap < p.len THEN Reserve(p, Clamp(p.len - Size(p.buf))) ELSE {p.cap})
    ELSE IF p.cap = Size(p.buf) THEN Reserve(p, MinReserve)
    ELSE {p.cap}

\* next_message: [pk |-> new state, msg |-> bytes of the message, <<>> for None]
PkNext(p) ==
    LET sz == Size(p.buf) IN
    IF sz < 4 THEN [pk |-> p, msg |-> <<>>]
    ELSE LET l == IF p.len # 0 THEN p.len ELSE Header(p.buf) IN
         IF sz >= l THEN [pk |-> [buf |-> Drop(p.buf, Max(l, 4)), len |-> 0, cap |-> p.cap - Max(l, 4)], msg |-> Take(p.buf, l)]
         ELSE [pk |-> [p EXCEPT !.len = l], msg |-> <<>>]

\* which frame of the incoming stream a byte string is (-1: none)
FrameId(m) == IF Len(m) = 1 /\ m[1][1] \in 1 .. Len(lens) /\ m[1][2] = 0 /\ m[1][3] = lens[m[1][1]] THEN m[1][1] ELSE -1

---------------------------------------------------------------------------------------------
(* chunk sizes *)

Cuts == UNION { LET s == EndOf(lens, i - 1)
                    L == lens[i]
                IN {s + 1, s + 3, s + 4, s + 5, s + L - 1, s + L}
                   \cup (IF L > 8192 THEN {s + 8192} ELSE {})
                   \cup (IF L > 65536 THEN {s + 65536, s + 65537} ELSE {}) : i \in 1 .. Len(lens) }

FeedSizes == IF ChunkMode = "all" THEN 1 .. (T - fed)
             ELSE IF chunks + 1 >= MaxChunks THEN {T - fed} \ {0}
             ELSE {c - fed : c \in {c \in Cuts : c > fed /\ c <= T}}

WriteSizes == LET w == Size(wbuf) IN
              IF ChunkMode = "all" THEN 1 .. w
              ELSE IF chunks + 1 >= MaxChunks THEN {w}
              ELSE {n \in {1, 4, 5, w - 1, w, w + 7, 8192, w - 8192, w - 8191} : n >= 1}

---------------------------------------------------------------------------------------------
Init ==
    /\ lens \in InSeqs /\ slens \in OutSeqs /\ mode \in Modes
    /\ pk = PkInit /\ fed = 0 /\ drained = FALSE /\ chunks = 0
    /\ wbuf = <<>> /\ avail = 0 /\ wr = <<>> /\ started = 0 /\ ready = FALSE /\ dirty = FALSE
    /\ pc = "idle" /\ call = [t |-> "none"] /\ bq = <<>> /\ handed = 0 /\ offered = 0
    /\ dead = FALSE /\ faults = 0 /\ ncalls = 0
    /\ LET e == [t |-> "reset", m |-> Machine, in |-> lens, out |-> slens] IN
         /\ hist = IF Emit THEN <<e>> ELSE <<>>
         /\ obs = ObsStep(ObsInit, e)

Log(e) == /\ obs' = ObsStep(obs, e)
          /\ hist' = IF Emit THEN Append(hist, e) ELSE hist
          /\ ncalls' = Count(ncalls)

\* an API call of the transport returns
Return(e) == /\ pc' = "idle" /\ call' = [t |-> "none"]
             /\ dead' = (e.r = "err")
             /\ Log(e)

---------------------------------------------------------------------------------------------
(* (a) the packetizer machine *)

ExtOk == \/ mode \in {"free", "lazy"}
         \/ mode = "ext" /\ (chunks = 0 \/ drained)
         \/ mode = "alt" /\ drained /\ chunks % 2 = 0
         \/ mode = "alt2" /\ drained /\ chunks % 2 = 1
SpwOk == /\ drained          \* the usage contract
         /\ \/ mode \in {"free", "spw"}
            \/ mode = "alt" /\ chunks % 2 = 1
            \/ mode = "alt2" /\ chunks % 2 = 0
NxtOk == \/ mode = "free"
         \/ mode = "lazy" /\ fed = T /\ ~drained
         \/ mode = "ext" /\ chunks > 0 /\ ~drained
         \/ mode \in {"spw", "alt", "alt2"} /\ ~drained

PkUnch == UNCHANGED <<lens, slens, mode, wbuf, avail, wr, started, ready, dirty, pc, call, bq, handed, offered, dead, faults>>

Ext(n) ==
    /\ ExtOk
    /\ \E c \in Reserve(pk, n) :      \* extend_from_slice reserves what it needs
         pk' = [pk EXCEPT !.buf = Cat(@, Slice(InStream, fed, n)), !.cap = c]
    /\ fed' = fed + n /\ drained' = FALSE
    /\ chunks' = IF mode = "free" THEN 0 ELSE chunks + 1
    /\ Log([t |-> "ext", n |-> n])
    /\ PkUnch

Spw(n) ==
    /\ SpwOk
    /\ \E c \in SpareCaps(pk) :
         /\ n <= c - Size(pk.buf)      \* at most the slice that spare_capacity_mut returned
         /\ pk' = [pk EXCEPT !.buf = Cat(@, Slice(InStream, fed, n)), !.cap = c]
    /\ fed' = fed + n /\ drained' = FALSE
    /\ chunks' = IF mode = "free" THEN 0 ELSE chunks + 1
    /\ Log([t |-> "spw", n |-> n])
    /\ PkUnch

Nxt ==
    /\ NxtOk
    /\ LET r == PkNext(pk) IN
         /\ pk' = r.pk
         /\ drained' = (r.msg = <<>>)
         /\ Log([t |-> "nxt", f |-> IF r.msg = <<>> THEN 0 ELSE FrameId(r.msg)])
    /\ UNCHANGED <<fed, chunks>>
    /\ PkUnch

PkDone == fed = T /\ drained
PkNext_ == /\ Machine = "pk" /\ ~PkDone
           /\ \/ \E n \in FeedSizes : Ext(n) \/ Spw(n)
              \/ Nxt

---------------------------------------------------------------------------------------------
(* (b) TokioTransport *)

TokUnchRecv == UNCHANGED <<lens, slens, mode, drained, wbuf, wr, started, ready, dirty, bq, handed, offered>>
TokUnchSend0 == UNCHANGED <<lens, slens, mode, pk, fed, drained, avail, bq, handed, offered>>
TokUnchSend == TokUnchSend0 /\ UNCHANGED chunks

Delivered == obs.deliv
FrameBuffered == PkNext(pk).msg # <<>>

RecvStart ==
    /\ pc = "idle" /\ ~dead /\ CallsLeft
    /\ Bounded => (FrameBuffered \/ avail > 0 \/ fed < T \/ (FaultsLeft /\ Delivered = Len(lens)))
    /\ pc' = "rx"
    /\ call' = [t |-> "recv", s |-> <<>>, rd |-> 0, ev |-> <<>>]
    /\ UNCHANGED <<pk, fed, avail, chunks, dead, faults, ncalls, hist, obs>>
    /\ TokUnchRecv

RecvResult(c, r, f, e) == [t |-> "recv", s |-> c.s, rd |-> c.rd, ev |-> c.ev, x |-> 0, r |-> r, f |-> f, e |-> e]

\* one iteration of the loop of receive_poll
RxStep ==
    /\ pc = "rx"
    /\ TokUnchRecv
    /\ LET r == PkNext(pk) IN
       IF r.msg # <<>> THEN
            \* Message::deserialize_message: succeeds on a frame of the stream
            /\ pk' = r.pk
            /\ IF FrameId(r.msg) >= 1 THEN Return(RecvResult(call, "msg", FrameId(r.msg), ""))
                                      ELSE Return(RecvResult(call, "err", 0, "de"))
            /\ UNCHANGED <<fed, avail, chunks, faults>>
       ELSE \E c \in SpareCaps(r.pk) :
            LET spare == c - Size(r.pk.buf)
                p1 == [r.pk EXCEPT !.cap = c]
                take(k) == [p1 EXCEPT !.buf = Cat(@, Slice(InStream, fed, k))]
            IN
            IF spare = 0 THEN      \* an empty ReadBuf is filled with nothing: read as end of stream
                /\ pk' = p1 /\ Return(RecvResult(call, "err", 0, "eof"))
                /\ UNCHANGED <<fed, avail, chunks, faults>>
            ELSE
            \/ /\ avail > 0         \* the rest of an item that did not fit before
               /\ LET k == Min(avail, spare) IN
                    /\ pk' = take(k) /\ fed' = fed + k /\ avail' = avail - k
                    /\ call' = [call EXCEPT !.rd = @ + k]
               /\ UNCHANGED <<pc, dead, chunks, faults, ncalls, hist, obs>>
            \/ /\ avail = 0 /\ fed < T
               /\ \E n \in FeedSizes :
                    LET k == Min(n, spare) IN
                    /\ pk' = take(k) /\ fed' = fed + k /\ avail' = n - k
                    /\ call' = [call EXCEPT !.rd = @ + k, !.s = Script(@, <<n>>)]
               /\ chunks' = IF Bounded THEN chunks + 1 ELSE 0
               /\ UNCHANGED <<pc, dead, faults, ncalls, hist, obs>>
            \/ /\ avail = 0 /\ FaultsLeft
               /\ pk' = p1 /\ faults' = Count(faults)
               /\ UNCHANGED <<fed, avail, chunks>>
               /\ \/ Return(RecvResult([call EXCEPT !.s = Script(@, <<-1>>), !.ev = Append(@, "pend")], "pend", 0, ""))
                  \/ Return(RecvResult([call EXCEPT !.s = Script(@, <<0>>), !.ev = Append(@, "eof")], "err", 0, "eof"))
                  \/ Return(RecvResult([call EXCEPT !.s = Script(@, <<-2>>), !.ev = Append(@, "err")], "err", 0, "io"))

SendCall(t) == [t |-> t, s |-> <<>>, fs |-> <<>>, wn |-> 0, wm |-> 1, ev |-> <<>>]
SendResult(c, r, e) == [t |-> c.t, s |-> c.s, fs |-> c.fs, wn |-> c.wn, wm |-> c.wm, ev |-> c.ev, x |-> 0, r |-> r, e |-> e]

RdyStart ==
    /\ pc = "idle" /\ ~dead /\ CallsLeft
    /\ Bounded => (~ready /\ started < Len(slens))
    /\ IF Size(wbuf) >= Boundary
       THEN /\ pc' = "tx" /\ call' = SendCall("rdy")
            /\ UNCHANGED <<ready, dead, ncalls, hist, obs>>
       ELSE /\ ready' = TRUE
            /\ Return(SendResult(SendCall("rdy"), "ok", ""))
    /\ UNCHANGED <<wbuf, wr, started, dirty, faults>>
    /\ TokUnchSend

StaStart ==
    /\ pc = "idle" /\ ~dead /\ CallsLeft
    /\ ready /\ started < Len(slens)          \* contract of AsyncTransport::send_start
    /\ LET m == Slice(OutStream, EndOf(slens, started), slens[started + 1]) IN
         wbuf' = IF wbuf = <<>> THEN m ELSE Cat(wbuf, m)
    /\ started' = started + 1 /\ ready' = FALSE /\ dirty' = TRUE
    /\ Log([t |-> "sta", m |-> started + 1, r |-> "ok"])
    /\ UNCHANGED <<wr, pc, call, dead, faults>>
    /\ TokUnchSend

FlsStart ==
    /\ pc = "idle" /\ ~dead /\ CallsLeft
    /\ Bounded => dirty
    /\ pc' = "tx" /\ call' = SendCall("fls")
    /\ UNCHANGED <<wbuf, wr, started, ready, dirty, dead, faults, ncalls, hist, obs>>
    /\ TokUnchSend

SendReturn(c, r, e) ==
    /\ Return(SendResult(c, r, e))
    /\ ready' = IF c.t = "rdy" /\ r = "ok" THEN TRUE ELSE ready
    /\ dirty' = IF c.t = "fls" /\ r = "ok" THEN FALSE ELSE dirty

\* one iteration of the write loop of send_poll_flush
TxStep ==
    /\ pc = "tx"
    /\ TokUnchSend0
    /\ UNCHANGED started
    /\ IF wbuf = <<>> THEN
            /\ pc' = "txf"
            /\ UNCHANGED <<wbuf, wr, ready, dirty, call, dead, faults, chunks, ncalls, hist, obs>>
       ELSE
       \/ \E n \in WriteSizes :
            LET k == Min(n, Size(wbuf))
                w2 == Cat(wr, Take(wbuf, k))
            IN
            /\ wr' = w2 /\ wbuf' = Drop(wbuf, k)
            /\ call' = [call EXCEPT !.s = Script(@, <<n>>), !.wn = @ + k,
                                    !.wm = IF w2 = Take(OutStream, Size(w2)) THEN @ ELSE 0]
            /\ chunks' = IF Bounded /\ ChunkMode = "edge" THEN chunks + 1 ELSE chunks
            /\ UNCHANGED <<pc, ready, dirty, dead, faults, ncalls, hist, obs>>
       \/ /\ FaultsLeft /\ faults' = Count(faults)
          /\ UNCHANGED <<wbuf, wr, chunks>>
          /\ \/ SendReturn([call EXCEPT !.s = Script(@, <<0>>), !.ev = Append(@, "w0")], "err", "wz")
             \/ SendReturn([call EXCEPT !.s = Script(@, <<-1>>), !.ev = Append(@, "wpend")], "pend", "")
             \/ SendReturn([call EXCEPT !.s = Script(@, <<-2>>), !.ev = Append(@, "werr")], "err", "io")

\* io.poll_flush
TxFlush ==
    /\ pc = "txf"
    /\ TokUnchSend
    /\ UNCHANGED <<wbuf, wr, started>>
    /\ \/ /\ SendReturn([call EXCEPT !.fs = Script(@, <<1>>), !.ev = Append(@, "fok")], "ok", "")
          /\ UNCHANGED faults
       \/ /\ FaultsLeft /\ faults' = Count(faults)
          /\ \/ SendReturn([call EXCEPT !.fs = Script(@, <<-1>>), !.ev = Append(@, "fpend")], "pend", "")
             \/ SendReturn([call EXCEPT !.fs = Script(@, <<-2>>), !.ev = Append(@, "ferr")], "err", "io")

TokDone == \/ dead
           \/ Bounded /\ ncalls >= MaxCalls
           \/ Bounded /\ Delivered = Len(lens) /\ ~FaultsLeft /\ started = Len(slens) /\ ~dirty
TokNext == /\ Machine = "tokio"
           /\ pc # "idle" \/ ~TokDone
           /\ \/ RecvStart \/ RxStep \/ RdyStart \/ StaStart \/ FlsStart \/ TxStep \/ TxFlush

---------------------------------------------------------------------------------------------
(* (c) Buffered<T> over a scripted inner transport.  Inner results: 1 Ok / next message,
   -1 Pending, -2 error. *)

BufUnch == UNCHANGED <<lens, slens, mode, pk, fed, drained, chunks, wbuf, avail, wr>>

IC(c, r, m) == [c |-> c, r |-> r, m |-> m]
BufResult(t, s, ic, r, f, e) == [t |-> t, s |-> s, ic |-> ic, x |-> 0, r |-> r, f |-> f, e |-> e]

BufRecv ==
    /\ pc = "idle" /\ ~dead /\ CallsLeft
    /\ Bounded => (offered < Len(lens) \/ FaultsLeft)
    /\ BufUnch
    /\ UNCHANGED <<started, ready, dirty, bq, handed>>
    /\ \/ /\ offered < Len(lens)
          /\ offered' = offered + 1
          /\ Return(BufResult("brcv", <<1>>, <<IC("rcv", "msg", offered + 1)>>, "msg", offered + 1, ""))
          /\ UNCHANGED faults
       \/ /\ FaultsLeft /\ faults' = Count(faults)
          /\ UNCHANGED offered
          /\ \/ Return(BufResult("brcv", <<-1>>, <<IC("rcv", "pend", 0)>>, "pend", 0, ""))
             \/ Return(BufResult("brcv", <<-2>>, <<IC("rcv", "err", 0)>>, "err", 0, "io"))

BufRdy ==
    /\ pc = "idle" /\ ~dead /\ CallsLeft
    /\ Bounded => (~ready /\ started < Len(slens))
    /\ ready' = TRUE
    /\ Return(BufResult("brdy", <<>>, <<>>, "ok", 0, ""))
    /\ BufUnch
    /\ UNCHANGED <<started, dirty, bq, handed, offered, faults>>

BufSta ==
    /\ pc = "idle" /\ ~dead /\ CallsLeft
    /\ ready /\ started < Len(slens)
    /\ bq' = Append(bq, started + 1)
    /\ started' = started + 1 /\ ready' = FALSE /\ dirty' = TRUE
    /\ Log([t |-> "bsta", m |-> started + 1, r |-> "ok"])
    /\ BufUnch
    /\ UNCHANGED <<pc, call, handed, offered, dead, faults>>

BufFlsStart ==
    /\ pc = "idle" /\ ~dead /\ CallsLeft
    /\ Bounded => dirty
    /\ pc' = "bf" /\ call' = [t |-> "bfls", s |-> <<>>, ic |-> <<>>]
    /\ BufUnch
    /\ UNCHANGED <<started, ready, dirty, bq, handed, offered, dead, faults, ncalls, hist, obs>>

BufReturn(c, r, e) ==
    /\ Return(BufResult("bfls", c.s, c.ic, r, 0, e))
    /\ dirty' = IF r = "ok" THEN FALSE ELSE dirty

\* one iteration of the loop of Buffered::send_poll_flush
BfStep ==
    /\ pc = "bf"
    /\ BufUnch
    /\ UNCHANGED <<started, ready, offered>>
    /\ IF bq = <<>> THEN
            /\ pc' = "bff"
            /\ UNCHANGED <<bq, handed, dirty, call, dead, faults, ncalls, hist, obs>>
       ELSE
       \/ \* inner.send_poll_ready Ok, then inner.send_start Ok
          /\ bq' = Tail(bq) /\ handed' = handed + 1
          /\ call' = [call EXCEPT !.s = Script(@, <<1, 1>>), !.ic = @ \o <<IC("rdy", "ok", 0), IC("sta", "ok", Head(bq))>>]
          /\ UNCHANGED <<pc, dirty, dead, faults, ncalls, hist, obs>>
       \/ /\ FaultsLeft /\ faults' = Count(faults)
          /\ \/ \* inner.send_poll_ready Ok, inner.send_start fails
                /\ bq' = Tail(bq) /\ handed' = handed + 1
                /\ BufReturn([call EXCEPT !.s = Script(@, <<1, -2>>), !.ic = @ \o <<IC("rdy", "ok", 0), IC("sta", "err", Head(bq))>>], "err", "io")
             \/ /\ UNCHANGED <<bq, handed>>
                /\ BufReturn([call EXCEPT !.s = Script(@, <<-1>>), !.ic = Append(@, IC("rdy", "pend", 0))], "pend", "")
             \/ /\ UNCHANGED <<bq, handed>>
                /\ BufReturn([call EXCEPT !.s = Script(@, <<-2>>), !.ic = Append(@, IC("rdy", "err", 0))], "err", "io")

BffStep ==
    /\ pc = "bff"
    /\ BufUnch
    /\ UNCHANGED <<started, ready, offered, bq, handed>>
    /\ \/ /\ BufReturn([call EXCEPT !.s = Script(@, <<1>>), !.ic = Append(@, IC("fls", "ok", 0))], "ok", "")
          /\ UNCHANGED faults
       \/ /\ FaultsLeft /\ faults' = Count(faults)
          /\ \/ BufReturn([call EXCEPT !.s = Script(@, <<-1>>), !.ic = Append(@, IC("fls", "pend", 0))], "pend", "")
             \/ BufReturn([call EXCEPT !.s = Script(@, <<-2>>), !.ic = Append(@, IC("fls", "err", 0))], "err", "io")

BufDone == \/ dead
           \/ Bounded /\ ncalls >= MaxCalls
           \/ Bounded /\ offered = Len(lens) /\ ~FaultsLeft /\ started = Len(slens) /\ ~dirty
BufNext == /\ Machine = "buf"
           /\ pc # "idle" \/ ~BufDone
           /\ \/ BufRecv \/ BufRdy \/ BufSta \/ BufFlsStart \/ BfStep \/ BffStep

---------------------------------------------------------------------------------------------
Next == PkNext_ \/ TokNext \/ BufNext
Spec == Init /\ [][Next]_vars

Done == pc = "idle" /\ CASE Machine = "pk" -> PkDone
                         [] Machine = "tokio" -> TokDone
                         [] OTHER -> BufDone

---------------------------------------------------------------------------------------------
(* What TLC checks *)

\* the property, as the observer states it, over every behaviour of the machines
ObsOk == obs.ok

\* structure: the packetizer never looks at bytes that are not a header; nothing is lost or
\* duplicated between the bytes fed, the frames taken out and the buffer; the cached length is
\* the length of the frame at the front; buffer within capacity
Aligned == pk.buf # <<>> => pk.buf[1][2] = 0
Conserved == Cat(Take(InStream, EndOf(lens, obs.deliv)), pk.buf) = Take(InStream, fed)
LenCache == pk.len # 0 => /\ obs.deliv < Len(lens) /\ pk.len = lens[obs.deliv + 1]
                          /\ Size(pk.buf) >= 4
CapOk == Size(pk.buf) <= pk.cap
\* the slice returned by spare_capacity_mut is not empty when the usage contract holds
\* (otherwise TokioTransport would read an empty ReadBuf as end of stream)
SpareNonEmpty == drained => \A c \in SpareCaps(pk) : c > Size(pk.buf)
\* a drained packetizer holds no complete frame: frames out = the frames complete so far
DrainedMeansAll == drained => ~NextComplete(obs)
PkInv == Aligned /\ Conserved /\ LenCache /\ CapOk /\ SpareNonEmpty /\ DrainedMeansAll

\* send side: writer + write_buf = exactly the messages started; the writer has a prefix of them
SendConserved == Cat(wr, wbuf) = Take(OutStream, EndOf(slens, started))
FlushMeansWritten == (~dirty /\ pc = "idle" /\ ~dead) => wbuf = <<>>
\* backpressure: send_poll_ready returns Ok (ready) only with less than Boundary bytes queued,
\* so write_buf never exceeds Boundary - 1 + the largest message (conformance-level fact)
ReadyMeansRoom == (ready /\ ~dead) => Size(wbuf) < Boundary
TokInv == SendConserved /\ FlushMeansWritten /\ ReadyMeansRoom

\* Buffered: buffer = the messages started and not yet handed over, in order
BufConserved == bq = [i \in 1 .. (started - handed) |-> handed + i]
BufFlushMeansHanded == (~dirty /\ pc = "idle" /\ ~dead) => bq = <<>>
BufInv == BufConserved /\ BufFlushMeansHanded

\* generator: one JSON line per complete behaviour
EmitCases == (Emit /\ Done) => PrintT("CASE " \o ToJson([ev |-> hist]))
=============================================================================
