SPECIFICATION Spec
CONSTANTS
  B = 4
  Conns = {0, 1}
  Versions = {20}
  ObjUuids = {101, 102}
  SvcUuids = {201}
  Events = {0}
  Fns = {0}
  CSerials = {0}
  Payloads = {1}
  TypeIds = {301}
  Caps <- CapsMany
  MaxCookie = 2
  InqBound = 1
  Kinds = {"SendItem", "AddChannelCapacity", "CloseChannelEnd", "ClaimChannelEnd"}
  Faults = {"ends", "dropped"}
  WrongKinds = {}
  MsgBudget = 3
  InitSerial = 0
  Senders = {0, 1}
  PoolKinds = {"live"}
  ScriptSel = "est1"
  V0 = 20
  V1 = 20

VIEW view
INVARIANTS ObserverOk NoPanicSite BoundaryConsistent FlagsOk StoppedClean
CHECK_DEADLOCK FALSE
