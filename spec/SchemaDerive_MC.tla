--------------------------- MODULE SchemaDerive_MC ---------------------------
(* C20, derive-macro types with partly implicit ids: enumeration of the id patterns, exhaustive check of the
   in-model theorems about the derive rule (SchemaDerive!AssignIds) and the CanonId of the derived types, and
   emission of every (kind, pattern) with its expected id assignment, the definition it denotes and its CanonId
   (env DVECTORS = ndjson file).  /verif/lib/schema_checks.py turns every emitted pattern into a real
   `#[derive(Tag, PrimaryTag, RefType, Serialize, Deserialize, Introspectable)]` type (attribute `#[aldrin(id = N)]`
   exactly where the pattern has an explicit id), compiles the corpus against /repo and compares.

   Patterns: every sequence of length 0 .. MaxLen over Ids \cup {NoId}; NRand seeded-random (env SEED) longer
   patterns over ids 0 .. 23; for every one of those the same assignment with all ids written out (what the code
   generator would emit for the same schema); minus the patterns that assign an id twice.  Kinds: enum, struct
   with named fields, tuple struct. *)
EXTENDS SchemaDerive, Json, IOUtils

CONSTANTS Ids,     \* explicit ids of the exhaustively enumerated patterns
          MaxLen,  \* their maximal length
          NRand    \* number of seeded-random longer patterns

Seed == IF "SEED" \in DOMAIN IOEnv /\ IOEnv.SEED # "" THEN atoi(IOEnv.SEED) ELSE 1

BasePatterns == UNION {[1 .. n -> Ids \cup {NoId}] : n \in 0 .. MaxLen}

RandPattern(k) ==
  LET n == MaxLen + 1 + (Rnd3(Seed, 211 * k + 3, 0) % 3) IN
  [i \in 1 .. n |-> LET r == Rnd3(Seed, 211 * k + 3, i) IN IF r % 2 = 0 THEN NoId ELSE (r \div 2) % 24]
RandPatterns == {RandPattern(k) : k \in 1 .. NRand}

Written == {p \in BasePatterns \cup RandPatterns : Admissible(p)}
Patterns == Written \cup {AssignIds(p) : p \in Written}

Case(kind, p) == [kind |-> kind, p |-> p]
AllCases == {Case(kind, p) : kind \in DeriveKinds, p \in Patterns}

ASSUME \A p \in Patterns : IsPattern(p)
\* the corpus tells the rule from numbering by position
ASSUME \E p \in Patterns : PositionalIds(p) # AssignIds(p)

\* evaluated once (constant definitions): the expected description of every derived type of the corpus
CanonOf == [c \in AllCases |-> DeriveCanon(c.kind, c.p)]
AssignOf == [p \in Patterns |-> AssignIds(p)]

-----------------------------------------------------------------------------
VARIABLE cs
\* a trivial initial state, then one state per kind (the empty pattern), then the other patterns of that kind: the
\* evaluation is spread over the worker threads
Start == Case("start", <<>>)
Init == cs = Start
Next == \/ /\ cs = Start
           /\ cs' \in {Case(kind, <<>>) : kind \in DeriveKinds}
        \/ /\ cs # Start /\ cs.p = <<>>
           /\ cs' \in {c \in AllCases : c.kind = cs.kind} \ {cs}
Spec == Init /\ [][Next]_cs

\* the recursive rule and its closed form agree; explicit ids are kept, an implicit item follows its predecessor;
\* writing the assignment out is a fixed point
Inv_Rule == cs # Start =>
  LET p == cs.p
      a == AssignIds(p) IN
  /\ Len(a) = Len(p)
  /\ a = ClosedIds(p)
  /\ \A i \in 1 .. Len(p) : /\ p[i] # NoId => a[i] = p[i]
                            /\ p[i] = NoId => a[i] = IF i = 1 THEN 0 ELSE a[i - 1] + 1
  /\ AssignIds(a) = a
  /\ a \in Patterns /\ AllExplicit(a)

\* the derived type is a well-formed definition, and the worklist of compute_from_dyn collects its references
Inv_WFD == cs # Start => LET P == DeriveUniverse(cs.kind, cs.p) IN
  WFUniverse(P) /\ WFRefs(P) /\ AlgoId(P, RefOf(P.defs[1])) = CanonId(P, RefOf(P.defs[1]))

\* writing all ids out does not change the type; a named struct and a tuple struct of one pattern are one type
Inv_Explicit == cs # Start =>
  /\ CanonOf[Case(cs.kind, AssignIds(cs.p))] = CanonOf[cs]
  /\ cs.kind = "struct" => CanonOf[Case("tstruct", cs.p)] = CanonOf[cs]

\* across the whole corpus: equal CanonId <=> same layout kind and equal id assignment
Inv_Classes == cs # Start =>
  \A c \in AllCases : (CanonOf[c] = CanonOf[cs]) <=> (LayoutKind(c.kind) = LayoutKind(cs.kind) /\ AssignOf[c.p] = AssignOf[cs.p])

-----------------------------------------------------------------------------
RECURSIVE PatString(_)
PatString(p) == IF p = <<>> THEN ""
                ELSE (IF Len(p) = 1 THEN "" ELSE PatString(SubSeq(p, 1, Len(p) - 1)) \o ",")
                     \o (IF p[Len(p)] = NoId THEN "_" ELSE ToString(p[Len(p)]))
CaseId(c) == "derive/" \o c.kind \o "/" \o PatString(c.p)

Vector(c) ==
  [id |-> CaseId(c), derive |-> TRUE, kind |-> c.kind, pat |-> c.p, ids |-> AssignIds(c.p),
   def |-> DeriveDef(c.kind, c.p), canon |-> CanonOf[c],
   positional |-> PositionalIds(c.p) = AssignIds(c.p), explicit |-> AllExplicit(c.p)]

Emit == IF TLCGet("stats").distinct > 0 /\ "DVECTORS" \in DOMAIN IOEnv /\ IOEnv.DVECTORS # ""
        THEN LET s == SetToSeq(AllCases)
                 v == [i \in 1 .. Len(s) |-> Vector(s[i])]
             IN  /\ ndJsonSerialize(IOEnv.DVECTORS, v)
                 /\ PrintT(<<"VECTORS-WRITTEN", Len(s), Cardinality({v[i].canon : i \in 1 .. Len(s)}),
                             Cardinality(Patterns), Cardinality({p \in Patterns : PositionalIds(p) # AssignIds(p)})>>)
        ELSE TRUE
=============================================================================
