--------------------------- MODULE SchemaModel_MC18 ---------------------------
(* C18: enumeration of (schema, layout) pairs over a corpus of base schemas, exhaustive check of
   the in-model theorems on every pair, and emission of the pairs (text + expected AST) for the
   real parser / formatter (env VECTORS = output file, ndjson; env SEED = seed of the random
   combinations).

   Per base schema (B, deco0):
     base   - deco0 under the compact layout and under uniform layouts
     pre    - ONE prelude position populated at a time: every position of Paths(B) x every item
              template the grammar admits there (comment / doc / inline doc / attribute classes and
              short mixed sequences), the other positions as in deco0; rendered under PreLayouts
              layouts
     ws     - ONE gap populated at a time: every gap between two lexical tokens x the first WsCount
              whitespace classes, on top of the compact layout
     unws   - the uniform one-blank layout with ONE (non-mandatory) gap emptied at a time
     rand   - NRand seeded-random combinations: every position populated with probability 2/3 by a
              random template, every gap by a random whitespace class *)
EXTENDS SchemaModel, Json, IOUtils

CONSTANTS
  NRand,        \* random combinations per base schema
  WsCount,      \* how many of the whitespace classes the one-gap-at-a-time sweep uses
  PreLayouts,   \* 1: compact only, 2: compact and one-token-per-line
  FullStyles,   \* TRUE: every spelling style of every item class; FALSE: a representative subset (every class still occurs)
  NRandS        \* number of seeded-random base schemas (rendered under the uniform layouts and random combinations only)

Seed == IF "SEED" \in DOMAIN IOEnv /\ IOEnv.SEED # "" THEN atoi(IOEnv.SEED) ELSE 1

-----------------------------------------------------------------------------
(* item templates: [t, st] instantiated with a tag (an identifier) that makes the text unique *)
MkCom(st, x) ==
  CASE st = 1 -> Com("// " \o x \o "\n", x)
    [] st = 2 -> Com("//" \o x \o "\n", x)
    [] st = 3 -> Com("//\n", "")
    [] st = 4 -> Com("//  " \o x \o "\n", " " \o x)
    [] st = 5 -> Com("// " \o x \o "  \n", x)
    [] st = 6 -> Com("// " \o x \o "\r\n", x)
    [] st = 7 -> Com("// " \o x \o " // y /// z //! w\n", x \o " // y /// z //! w")
    [] st = 8 -> Com("//\t" \o x \o "\n", "\t" \o x)
    [] st = 9 -> Com("// \n", "")

MkDocLine(mk(_, _), pfx, st, x) ==
  CASE st = 1 -> mk(pfx \o " " \o x \o "\n", x)
    [] st = 2 -> mk(pfx \o x \o "\n", x)
    [] st = 3 -> mk(pfx \o "\n", "")
    [] st = 4 -> mk(pfx \o "/" \o x \o "\n", "/" \o x)
    [] st = 5 -> mk(pfx \o "  " \o x \o "\n", " " \o x)
    [] st = 6 -> mk(pfx \o " " \o x \o " \t\r\n", x)
    [] st = 7 -> mk(pfx \o " see [" \o x \o "] and `code`\n", "see [" \o x \o "] and `code`")

MkAttr(mk(_, _, _), st, x) ==
  CASE st = 1 -> mk(x, <<>>, FALSE)
    [] st = 2 -> mk(x, <<"o1">>, FALSE)
    [] st = 3 -> mk(x, <<"o1", x>>, FALSE)
    [] st = 4 -> mk(x, <<"o1", "o2", "o3">>, TRUE)
    [] st = 5 -> mk(x, <<"o1">>, TRUE)

Mk(tpl, x) ==
  CASE tpl.t = "com"   -> MkCom(tpl.st, x)
    [] tpl.t = "doc"   -> MkDocLine(Doc, "///", tpl.st, x)
    [] tpl.t = "idoc"  -> MkDocLine(IDoc, "//!", tpl.st, x)
    [] tpl.t = "attr"  -> MkAttr(Attr, tpl.st, x)
    [] tpl.t = "iattr" -> MkAttr(IAttr, tpl.st, x)

Inst(tpls, tag) == [i \in 1 .. Len(tpls) |-> Mk(tpls[i], tag \o "_" \o ToString(i))]

T(t, st) == [t |-> t, st |-> st]
Styles(t) == IF FullStyles THEN 1 .. 9
             ELSE CASE t = "com" -> {1, 2, 3, 6} [] t \in {"doc", "idoc"} -> {1, 3, 4} [] OTHER -> {1, 3, 4}
Singles(t, n) == SelectSeq([i \in 1 .. n |-> <<T(t, i)>>], LAMBDA x : x[1].st \in Styles(t))

TplC   == Singles("com", 9) \o << <<T("com", 1), T("com", 2)>> >>
TplCD  == TplC \o Singles("doc", 7)
          \o << <<T("doc", 1), T("com", 1)>>, <<T("com", 1), T("doc", 1), T("com", 2), T("doc", 2)>>,
                <<T("doc", 1), T("doc", 3), T("doc", 1)>> >>
TplCDA == TplCD \o Singles("attr", 5)
          \o << <<T("attr", 2), T("doc", 1), T("com", 1)>>, <<T("com", 1), T("attr", 1), T("attr", 3), T("doc", 1)>> >>
TplIA  == Singles("idoc", 6) \o Singles("iattr", 5)
          \o << <<T("iattr", 2), T("idoc", 1)>>, <<T("idoc", 1), T("iattr", 3), T("idoc", 2)>> >>
TplCI  == Singles("idoc", 6) \o SelectSeq([i \in 1 .. 9 |-> <<T("com", i), T("idoc", 1)>>], LAMBDA x : x[1].st \in Styles("com"))
          \o << <<T("com", 1), T("idoc", 1), T("com", 2), T("idoc", 2)>>,
                <<T("com", 1), T("com", 1), T("idoc", 1), T("idoc", 1)>> >>

Templates(a) == CASE a = "c" -> TplC [] a = "cd" -> TplCD [] a = "cda" -> TplCDA [] a = "ia" -> TplIA [] a = "ci" -> TplCI

\* every position populated, canonical order (used as deco0 of the decorated bases)
FullTpl(a) == CASE a = "c"   -> <<T("com", 1)>>
                [] a = "cd"  -> <<T("com", 1), T("doc", 1)>>
                [] a = "cda" -> <<T("com", 1), T("doc", 1), T("attr", 3)>>
                [] a = "ia"  -> <<T("idoc", 1), T("iattr", 3)>>
                [] a = "ci"  -> <<T("com", 1), T("idoc", 1)>>
FullDeco(B) == LET ps == Paths(B) IN
  [p \in {ps[i].p : i \in 1 .. Len(ps)} |->
     LET i == CHOOSE i \in 1 .. Len(ps) : ps[i].p = p IN Inst(FullTpl(ps[i].a), "f" \o ToString(i))]

-----------------------------------------------------------------------------
(* the corpus *)
U1 == "e0af57f3-5537-48c6-b04d-e9011803609c"
U2 == "44fe418f-fbbc-42a7-8573-3e48eb5cb53e"
U3 == "0F1E2D3C-4b5a-6978-8796-a5b4c3d2e1f0"

SStructs == Schema("structs", <<4>>, <<
  Struct("Alpha", <<Field("a", "1", TRUE, Lf("u8")), Field("b", "2", FALSE, Un("option", Lf("string"))),
                    Field("c", "3", FALSE, MapT(Lf("u8"), Un("vec", Ref("Beta"))))>>, <<"rest">>),
  Struct("Beta", <<>>, <<>>),
  Const("LEN", "u32", "3"),
  Struct("Gamma", <<Field("x", "0", FALSE, ArrL(Lf("u8"), "4")), Field("y", "7", TRUE, ArrR(Ref("Beta"), Ref("LEN"))),
                    Field("z", "9", FALSE, ResT(Lf("unit"), Ext("other", "Thing"))),
                    Field("w", "10", FALSE, ArrR(Lf("bytes"), Ext("other", "N")))>>, <<>>),
  Struct("OnlyFb", <<>>, <<"unknown">>) >>)

SEnums == Schema("enums", <<>>, <<
  Enum("Kind", <<Var("A", "1", <<>>), Var("B", "2", <<Lf("u8")>>), Var("C", "3", <<Un("box", Ref("Kind"))>>)>>, <<"Unknown">>),
  Enum("Empty", <<>>, <<>>),
  Enum("OnlyFb", <<>>, <<"Other">>),
  Enum("Plain", <<Var("X", "0", <<>>), Var("Y", "1", <<Un("set", Lf("string"))>>)>>, <<>>) >>)

SService == Schema("service", <<>>, <<
  Service("Svc", U1, "1", <<
    Fn("f1", "1", <<>>, <<>>, <<>>, FALSE),
    Fn("f2", "2", <<>>, <<TyI(Lf("u8"))>>, <<>>, FALSE),
    Ev("e1", "1", <<>>),
    Fn("f3", "3", <<TyI(Lf("u8"))>>, <<>>, <<>>, TRUE),
    Fn("f4", "4", <<>>, <<TyI(Lf("string"))>>, <<>>, TRUE),
    Fn("f5", "5", <<TyI(Ref("Arg"))>>, <<TyI(Un("vec", Ref("Arg")))>>, <<TyI(Ref("Err"))>>, TRUE),
    Ev("e2", "2", <<TyI(Un("option", Lf("u8")))>>),
    Fn("f6", "6", <<>>, <<IStruct(<<Field("a", "1", FALSE, Lf("u8"))>>, <<>>)>>, <<>>, FALSE),
    Fn("f7", "7", <<IEnum(<<Var("X", "1", <<>>)>>, <<>>)>>, <<>>, <<IStruct(<<>>, <<>>)>>, TRUE),
    Fn("f8", "8", <<>>, <<>>, <<>>, TRUE),
    Ev("e3", "3", <<IStruct(<<Field("q", "1", TRUE, Lf("u8"))>>, <<"fb">>)>>),
    Ev("e4", "4", <<IEnum(<<>>, <<>>)>>),
    Fn("f9", "9", <<>>, <<IEnum(<<Var("P", "0", <<Lf("unit")>>)>>, <<"Q">>)>>, <<>>, TRUE) >>,
    <<"unknown_function">>, <<"unknown_event">>, FALSE),
  Struct("Arg", <<Field("v", "1", FALSE, Lf("value"))>>, <<>>),
  Enum("Err", <<Var("Bad", "1", <<>>)>>, <<>>) >>)

SMisc == Schema("misc", <<>>, <<
  Const("C_U8", "u8", "1"), Const("C_I8", "i8", "-1"),
  Struct("S1", <<>>, <<>>),
  Const("C_U16", "u16", "65535"), Const("C_I16", "i16", "-32768"), Const("C_U32", "u32", "0"), Const("C_I32", "i32", "7"),
  Newtype("N1", Lf("bool")),
  Newtype("N2", Un("sender", Lf("u8"))),
  Enum("E1", <<Var("V", "1", <<>>)>>, <<>>),
  Newtype("N3", Un("receiver", Ref("S1"))),
  Const("C_U64", "u64", "18446744073709551615"), Const("C_I64", "i64", "-9223372036854775808"),
  Const("C_STR", "string", "\"a \\\" b \\\\ // not a comment\""), Const("C_UUID", "uuid", U2),
  Newtype("N4", Lf("lifetime")), Newtype("N5", MapT(Lf("uuid"), Lf("object_id"))),
  Newtype("N6", ResT(Lf("service_id"), Un("vec", Un("option", Lf("f64"))))),
  Newtype("N7", Un("set", Lf("i64"))), Newtype("N8", ArrL(ArrL(Lf("f32"), "2"), "3")),
  Struct("S2", <<Field("n", "1", FALSE, Ref("N8"))>>, <<>>),
  Struct("S3", <<>>, <<>>),
  Newtype("N9", Lf("i16")) >>)

SImports == Schema("imports", <<3, 1, 3, 2>>, <<
  Struct("UsesThem", <<Field("a", "1", FALSE, Ext("alpha", "T")), Field("g", "2", FALSE, Ext("gamma", "G"))>>, <<>>) >>)

SPrelude == Schema("prelude_only", <<>>, <<>>)
SPreludeDeco == (<<0>> :> <<Com("// first\n", "first"), IDoc("//! one\n", "one"), Com("//second\n", "second"), IDoc("//! last", "last")>>)

\* diagnostics other than syntax errors: naming conventions, duplicate ids, unknown types, empty enum
SIssues == Schema("Issues", <<1>>, <<
  Struct("lower_case", <<Field("BadField", "1", FALSE, Lf("u8")), Field("dup", "1", FALSE, Ref("Missing")),
                         Field("dup", "3", TRUE, Ext("nowhere", "X"))>>, <<>>),
  Enum("e", <<Var("v", "1", <<>>), Var("v", "1", <<>>)>>, <<>>),
  Const("lower", "u8", "300"),
  Struct("lower_case", <<>>, <<>>),
  Newtype("nt", Ref("nt")),
  Service("svc", U1, "0", <<Fn("BadFn", "1", <<>>, <<>>, <<>>, FALSE), Fn("BadFn", "1", <<>>, <<>>, <<>>, FALSE),
                            Ev("BadEv", "4294967296", <<>>)>>, <<>>, <<>>, FALSE),
  Struct("Rec", <<Field("r", "1", TRUE, Ref("Rec")), Field("m", "2", FALSE, MapT(Lf("f32"), Lf("u8")))>>, <<>>) >>)

SServices2 == Schema("services2", <<>>, <<
  Service("Min", U1, "1", <<>>, <<>>, <<>>, FALSE),
  Service("EvFirst", U2, "2", <<Ev("e", "1", <<>>), Fn("f", "1", <<>>, <<>>, <<>>, FALSE)>>, <<"ff">>, <<"ef">>, TRUE),
  Service("OnlyEvFb", U3, "3", <<Fn("f", "1", <<>>, <<TyI(Lf("u8"))>>, <<>>, FALSE)>>, <<>>, <<"ef">>, FALSE),
  Service("OnlyFnFb", "00000000-0000-0000-0000-000000000000", "4294967295", <<Ev("e", "1", <<TyI(Lf("u8"))>>)>>, <<"ff">>, <<>>, TRUE) >>)

SDecorated == Schema("decorated", <<2, 1>>, <<
  Struct("St", <<Field("a", "1", TRUE, Lf("unit")), Field("b", "2", FALSE, Lf("unit"))>>, <<"fb">>),
  Enum("En", <<Var("V1", "1", <<>>), Var("V2", "2", <<Lf("unit")>>)>>, <<"Unknown">>),
  Service("Sv", U1, "1", <<
    Fn("f1", "1", <<>>, <<>>, <<>>, FALSE),
    Fn("f2", "2", <<IStruct(<<Field("x", "1", FALSE, Lf("u8"))>>, <<"fb">>)>>, <<TyI(Lf("unit"))>>,
       <<IEnum(<<Var("E", "1", <<>>)>>, <<"Other">>)>>, TRUE),
    Fn("f3", "3", <<>>, <<IStruct(<<Field("y", "1", TRUE, Lf("u8"))>>, <<>>)>>, <<>>, FALSE),
    Ev("e1", "1", <<>>),
    Ev("e2", "2", <<IEnum(<<Var("W", "1", <<Lf("u8")>>)>>, <<>>)>>),
    Fn("f4", "4", <<>>, <<TyI(Lf("u8"))>>, <<>>, TRUE) >>, <<"ff">>, <<"ef">>, FALSE),
  Const("K", "u8", "1"),
  Newtype("Nt", Lf("u8")) >>)

OtherText == "struct Thing {}\nconst N = u8(2);\n"
Dep(n, t) == [name |-> n, text |-> t]

(* seeded-random base schemas from the grammar: 2..5 definitions of random kinds, members, function shapes and
   types (references may name constants or services or nothing: that only adds non-syntax diagnostics) *)
RDef(i) == "D" \o ToString(i)
RType(k, n, salt) ==
  LET r == Rnd3(Seed, 131 * k + 7, salt)
      d == Ref(RDef(((r \div 20) % n) + 1))
      c == r % 20 IN
  CASE c = 0 -> Lf("u8") [] c = 1 -> Lf("string") [] c = 2 -> Lf("bool") [] c = 3 -> Lf("f64") [] c = 4 -> Lf("unit")
    [] c = 5 -> Un("option", Lf("string")) [] c = 6 -> Un("vec", d) [] c = 7 -> MapT(Lf("string"), d) [] c = 8 -> d
    [] c = 9 -> Un("option", Un("box", d)) [] c = 10 -> ResT(d, Lf("u32")) [] c = 11 -> ArrL(d, "3") [] c = 12 -> ArrR(Lf("u8"), d)
    [] c = 13 -> Ext("alpha", "T") [] c = 14 -> Un("set", Lf("uuid")) [] c = 15 -> Un("sender", d) [] c = 16 -> Un("receiver", Lf("bytes"))
    [] c = 17 -> Lf("value") [] c = 18 -> MapT(Lf("i16"), Un("vec", Un("option", d))) [] OTHER -> Lf("lifetime")
RMembers(k, n, salt, isStruct) ==
  LET m == Rnd3(Seed, k, salt) % 4 IN
  [j \in 1 .. m |-> IF isStruct THEN Field("f" \o ToString(j), ToString(j), Rnd3(Seed, k + 2, salt + j) % 2 = 0, RType(k, n, salt + j))
                    ELSE Var("V" \o ToString(j), ToString(j), IF Rnd3(Seed, k + 3, salt + j) % 2 = 0 THEN <<>> ELSE <<RType(k, n, salt + j)>>)]
RFb(k, salt) == IF Rnd3(Seed, k + 4, salt) % 2 = 0 THEN <<>> ELSE <<"other">>
RToi(k, n, salt) ==
  LET c == Rnd3(Seed, k + 5, salt) % 4 IN
  CASE c = 0 -> <<>>
    [] c = 1 -> <<TyI(RType(k, n, salt))>>
    [] c = 2 -> <<IStruct(RMembers(k, n, salt + 50, TRUE), RFb(k, salt + 50))>>
    [] c = 3 -> <<IEnum(RMembers(k, n, salt + 60, FALSE), RFb(k, salt + 60))>>
RItem(k, n, salt, j) ==
  IF Rnd3(Seed, k + 6, salt) % 3 = 0
  THEN Ev("ev" \o ToString(j), ToString(j), RToi(k, n, salt + 1))
  ELSE LET args == RToi(k, n, salt + 2)
           ok == RToi(k, n, salt + 3)
           err == RToi(k, n, salt + 4) IN
       Fn("fun" \o ToString(j), ToString(j), args, ok, err, args # <<>> \/ err # <<>> \/ Rnd3(Seed, k + 7, salt) % 2 = 0)
RConst(k, i) ==
  LET c == Rnd3(Seed, k + 8, i) % 4 IN
  CASE c = 0 -> Const("K" \o ToString(i), "u8", "3") [] c = 1 -> Const("K" \o ToString(i), "i64", "-5")
    [] c = 2 -> Const("K" \o ToString(i), "string", "\"s\"") [] c = 3 -> Const("K" \o ToString(i), "uuid", U2)
RDefn(k, n, i) ==
  LET c == Rnd3(Seed, k + 9, i) % 6
      salt == 200 * i IN
  CASE c = 0 \/ c = 5 -> Struct(RDef(i), RMembers(k, n, salt, TRUE), RFb(k, salt))
    [] c = 1 -> Enum(RDef(i), RMembers(k, n, salt, FALSE), RFb(k, salt))
    [] c = 2 -> Service(RDef(i), IF i % 2 = 0 THEN U1 ELSE U3, ToString(i),
                        [j \in 1 .. (Rnd3(Seed, k + 10, i) % 5) |-> RItem(k, n, salt + 10 * j, j)],
                        IF Rnd3(Seed, k + 11, i) % 2 = 0 THEN <<>> ELSE <<"unknown_fn">>,
                        IF Rnd3(Seed, k + 12, i) % 2 = 0 THEN <<>> ELSE <<"unknown_ev">>, Rnd3(Seed, k + 13, i) % 2 = 0)
    [] c = 3 -> RConst(k, i)
    [] c = 4 -> Newtype(RDef(i), RType(k, n, salt))
RandBase(k) ==
  LET n == 2 + (Rnd3(Seed, k, 1) % 4)
      im == Rnd3(Seed, k, 2) % 3 IN
  Schema("rnd" \o ToString(k), CASE im = 0 -> <<>> [] im = 1 -> <<1>> [] im = 2 -> <<3, 1>>, [i \in 1 .. n |-> RDefn(k, n, i)])

Bases == <<
  [B |-> SStructs,   deco |-> <<>>, deps |-> <<Dep("other", OtherText)>>, sweep |-> TRUE],
  [B |-> SEnums,     deco |-> <<>>, deps |-> <<>>, sweep |-> TRUE],
  [B |-> SService,   deco |-> <<>>, deps |-> <<>>, sweep |-> TRUE],
  [B |-> SMisc,      deco |-> <<>>, deps |-> <<>>, sweep |-> TRUE],
  [B |-> SImports,   deco |-> <<>>, deps |-> <<Dep("alpha", "struct T {}\n"), Dep("gamma", "import alpha;\nstruct G { t @ 1 = alpha::T; }\n")>>, sweep |-> TRUE],
  [B |-> SPrelude,   deco |-> SPreludeDeco, deps |-> <<>>, sweep |-> TRUE],
  [B |-> SIssues,    deco |-> <<>>, deps |-> <<Dep("alpha", "struct T {}\n")>>, sweep |-> TRUE],
  [B |-> SServices2, deco |-> <<>>, deps |-> <<>>, sweep |-> TRUE],
  [B |-> SDecorated, deco |-> FullDeco(SDecorated), deps |-> <<Dep("alpha", "struct T {}\n"), Dep("beta", "struct T {}\n")>>, sweep |-> TRUE]
>> \o [k \in 1 .. NRandS |-> [B |-> RandBase(k), deco |-> <<>>, deps |-> <<Dep("alpha", "struct T {}\n")>>, sweep |-> FALSE]]
NB == Len(Bases)

\* TLC evaluates these once
BaseToks  == [b \in 1 .. NB |-> Lex(Bases[b].B, Bases[b].deco)]
BasePaths == [b \in 1 .. NB |-> Paths(Bases[b].B)]
BaseAst   == [b \in 1 .. NB |-> Ast(Bases[b].B, Bases[b].deco)]

WsSeq == <<" ", "\n", "\n\n", "\t", "\r\n", " \n    ", "\n\t", "  ">>
WsAll == <<"">> \o WsSeq
UniformSeq == <<" ", "\n", "\n\n", "\t", "\r\n">>

-----------------------------------------------------------------------------
(* case descriptors and what they denote *)
Desc(b, kind, i, j) == [b |-> b, kind |-> kind, i |-> i, j |-> j]

Descs(b) ==
  LET n == Len(BaseToks[b])
      ps == BasePaths[b] IN
  {Desc(b, "base", i, 0) : i \in 1 .. 1 + Len(UniformSeq)}
  \cup {Desc(b, "rand", k, 0) : k \in 1 .. NRand}
  \cup (IF Bases[b].sweep
        THEN {Desc(b, "pre" \o ToString(l), i, j) : l \in 1 .. PreLayouts, i \in 1 .. Len(ps), j \in 0 .. 40}
             \cup {Desc(b, "ws", g, w) : g \in 0 .. n, w \in 1 .. WsCount}
             \cup {Desc(b, "unws", g, 0) : g \in {g \in 0 .. n : ~(g >= 1 /\ BaseToks[b][g].m)}}
        ELSE {})

\* the decoration of a descriptor (j = 0 of kind pre: the position emptied)
DecoOf(d) ==
  LET base == Bases[d.b]
      ps == BasePaths[d.b] IN
  CASE d.kind \in {"pre1", "pre2"} ->
         LET tpls == Templates(ps[d.i].a) IN
         (ps[d.i].p :> (IF d.j = 0 THEN <<>> ELSE Inst(tpls[d.j], "p" \o ToString(d.i)))) @@ base.deco
    [] d.kind = "rand" ->
         [p \in {ps[i].p : i \in 1 .. Len(ps)} |->
            LET i == CHOOSE i \in 1 .. Len(ps) : ps[i].p = p
                r == Rnd3(Seed, 1000 * d.b + d.i, i)
                tpls == Templates(ps[i].a) IN
            IF r % 3 = 0 THEN <<>> ELSE Inst(tpls[((r \div 3) % Len(tpls)) + 1], "r" \o ToString(i) \o "k" \o ToString(d.i))]
    [] OTHER -> base.deco

ValidDesc(d) ==
  d.kind \in {"pre1", "pre2"} =>
     /\ d.j <= Len(Templates(BasePaths[d.b][d.i].a))
     /\ (d.j = 0 => D(Bases[d.b].deco, BasePaths[d.b][d.i].p) # <<>>)

LayoutOf(d, toks) ==
  CASE d.kind = "base" -> IF d.i = 1 THEN Compact(toks) ELSE Uniform(toks, UniformSeq[d.i - 1])
    [] d.kind = "pre1" -> Compact(toks)
    [] d.kind = "pre2" -> Uniform(toks, "\n")
    [] d.kind = "ws"   -> [Compact(toks) EXCEPT ![d.i] = WsSeq[d.j]]
    [] d.kind = "unws" -> [Uniform(toks, " ") EXCEPT ![d.i] = ""]
    [] d.kind = "rand" -> [g \in 0 .. Len(toks) |->
                             LET w == WsAll[(Rnd3(Seed + 17, 1000 * d.b + d.i, g) % Len(WsAll)) + 1]
                             IN  IF w = "" /\ g >= 1 /\ toks[g].m THEN " " ELSE w]

AllDescs == {d \in UNION {Descs(b) : b \in 1 .. NB} : ValidDesc(d)}

-----------------------------------------------------------------------------
VARIABLE st
\* a trivial initial state: all evaluation happens in the worker threads (TLC's main thread has a small stack)
Start == Desc(0, "start", 0, 0)
Init == st = Start
Next == \/ /\ st = Start
           /\ st' \in {Desc(b, "base", 1, 0) : b \in 1 .. NB}
        \/ /\ st.kind = "base" /\ st.i = 1
           /\ st' \in {d \in Descs(st.b) : ValidDesc(d)} \ {st}
Spec == Init /\ [][Next]_st

(* --- the theorems --- *)
\* the corpus is well formed
ASSUME \A b \in 1 .. NB : /\ WFDeco(Bases[b].B, Bases[b].deco)
                          /\ \A d \in 1 .. Len(Bases[b].B.defs) :
                               Bases[b].B.defs[d].k = "service" => \A i \in 1 .. Len(Bases[b].B.defs[d].items) :
                                  Bases[b].B.defs[d].items[i].k = "fn" => WFFn(Bases[b].B.defs[d].items[i])

\* kinds whose decoration is the base's own: tokens and AST are those of the base (evaluated once)
OwnDeco(d) == d.kind \in {"pre1", "pre2", "rand"}
ToksOf(d) == IF OwnDeco(d) THEN Lex(Bases[d.b].B, DecoOf(d)) ELSE BaseToks[d.b]
AstOf(d)  == IF OwnDeco(d) THEN Ast(Bases[d.b].B, DecoOf(d)) ELSE BaseAst[d.b]

\* the layout is one the grammar admits; stripping the layout entries of the rendering gives the
\* lexical tokens, i.e. the tokens of the compact rendering
Inv_Layout ==
  st # Start =>
  LET toks == ToksOf(st)
      ws == LayoutOf(st, toks)
      r == Render(toks, ws) IN
  /\ WFLayout(toks, ws)
  /\ StripWs(r) = TokStrings(toks)
  /\ StripWs(r) = StripWs(Render(toks, Compact(toks)))

\* the decoration is one the grammar admits; the ideal formatter preserves the AST, yields a
\* well-formed schema, and is idempotent (checked once per distinct decoration)
Inv_Norm ==
  (st # Start /\ (st.kind \in {"pre1", "rand"} \/ (st.kind = "base" /\ st.i = 1))) =>
  LET B == Bases[st.b].B
      deco == DecoOf(st)
      B2 == NormB(B, deco)
      d2 == NormDeco(B, deco) IN
  /\ WFDeco(B, deco)
  /\ Ast(B2, d2) = Ast(B, deco)
  /\ WFDeco(B2, d2)
  /\ NormB(B2, d2) = B2
  /\ NormDeco(B2, d2) = d2

\* Render is injective on Ast modulo layout: over all decorations of one base, two schemas have the
\* same AST iff their normal forms have the same tokens (checked once per base, at its second state, so that the workers share the bases)
DecoDescs(b) == {d \in Descs(b) : ValidDesc(d) /\ d.kind = (IF Bases[b].sweep THEN "pre1" ELSE "rand")} \cup {Desc(b, "base", 1, 0)}
Inv_Inj ==
  (st.kind = "base" /\ st.i = 2) =>
     LET B == Bases[st.b].B
         pairs == {LET deco == DecoOf(d) IN <<Ast(B, deco), TokStrings(Lex(NormB(B, deco), NormDeco(B, deco)))>> : d \in DecoDescs(st.b)}
     IN  /\ Cardinality(pairs) = Cardinality({p[1] : p \in pairs})
         /\ Cardinality(pairs) = Cardinality({p[2] : p \in pairs})

-----------------------------------------------------------------------------
(* emission *)
\* cases that share the decoration of their base refer to the AST of the base case (astof)
Vector(d) ==
  LET base == Bases[d.b]
      toks == ToksOf(d)
      id == base.B.name \o "/" \o d.kind \o "/" \o ToString(d.i) \o "/" \o ToString(d.j)
      text == Render(toks, LayoutOf(d, toks)) IN   \* the text is the concatenation (done by the driver)
  IF OwnDeco(d) \/ (d.kind = "base" /\ d.i = 1)
  THEN [id |-> id, name |-> base.B.name, kind |-> d.kind, text |-> text, ntok |-> Len(toks), ast |-> AstOf(d), deps |-> base.deps]
  ELSE [id |-> id, name |-> base.B.name, kind |-> d.kind, text |-> text, ntok |-> Len(toks),
        astof |-> base.B.name \o "/base/1/0", deps |-> base.deps]

Emit == IF TLCGet("stats").distinct > 0 /\ "VECTORS" \in DOMAIN IOEnv /\ IOEnv.VECTORS # ""
        THEN LET s == SetToSeq(AllDescs)
                 v == [i \in 1 .. Len(s) |-> Vector(s[i])]
             IN  /\ ndJsonSerialize(IOEnv.VECTORS, v)
                 /\ PrintT(<<"VECTORS-WRITTEN", Len(s)>>)
        ELSE TRUE
=============================================================================
