SPECIFICATION Spec
POSTCONDITION Accepted
CHECK_DEADLOCK FALSE
