SPECIFICATION Spec
CONSTANTS
  Users = {1, 2}
  Events = {0, 1}
  OpKinds = {"sub", "suball", "unsub", "emit", "call", "serve", "abort", "destroy"}
  MaxOps = 4
  MaxQueue = 3
INVARIANTS Emit InvType InvEvents
CHECK_DEADLOCK FALSE
