------------------------------- MODULE Broker -------------------------------
(* Implementation-shaped specification of the aldrin broker (/repo/broker/src/broker.rs and its
   helper modules).  One broker *micro-step* = one dequeued ConnectionEvent handled by
   handle_event, or one deferred work item popped by process_loop_result, or the point where the
   work lists are empty.  Every handler is a transcription of the Rust handler: same lookups in the
   same order, reply first / state change second / notifications third, `?` on a failed reply,
   redundant per-connection mirrors kept as the code keeps them, every expect / debug_assert /
   unreachable of the code as a named predicate that sets `panic`.

   The broker state is one record `b` so that handlers are pure functions b -> b, composed the way
   the Rust statements are sequenced.  Each micro-step produces a step record `rec` in exactly the
   format the verif-hooks trace sink of the real broker produces (spec/README.md), so that the
   observers of Obs.tla can be composed with this module (MC_*.tla) and recorded traces can be
   validated against it (Trace_Broker.tla).

   Not modelled: message/byte statistics, timestamps.                                            *)
EXTENDS Naturals, Integers, Sequences, FiniteSets, FiniteSetsExt, SequencesExt

CONSTANT B                      \* limb base of capacities (U32.tla)
U == INSTANCE U32

\* ---------------------------------------------------------------------------------------------
\* helpers
Put(f, k, v) == [x \in DOMAIN f \cup {k} |-> IF x = k THEN v ELSE f[x]]
Del(f, K) == [x \in DOMAIN f \ K |-> f[x]]
EmptyFn == [x \in {} |-> 0]
SFold(Op(_, _), acc, S) == FoldSet(LAMBDA x, a : Op(a, x), acc, S)
BagAdd(bag, x) == IF x \in DOMAIN bag THEN [bag EXCEPT ![x] = @ + 1] ELSE Put(bag, x, 1)
BagDel(bag, x) == IF bag[x] > 1 THEN [bag EXCEPT ![x] = @ - 1] ELSE Del(bag, {x})

LOW == U!FromNat(4)             \* LOW_CAPACITY of broker/channel.rs (needs B > 4 or two limbs)

\* ---------------------------------------------------------------------------------------------
\* messages, in the format of the trace (one constructor per kind the broker sends)
CapZero == U!Zero
M_CreateObjectReply(s, res, k) == [k |-> "CreateObjectReply", serial |-> s, res |-> res, cookie |-> k]
M_DestroyObjectReply(s, res) == [k |-> "DestroyObjectReply", serial |-> s, res |-> res]
M_CreateServiceReply(s, res, k) == [k |-> "CreateServiceReply", serial |-> s, res |-> res, cookie |-> k]
M_DestroyServiceReply(s, res) == [k |-> "DestroyServiceReply", serial |-> s, res |-> res]
M_CallFunction(s, svc, fn, val) == [k |-> "CallFunction", serial |-> s, svc |-> svc, fn |-> fn, hv |-> FALSE, ver |-> 0, val |-> val]
M_CallFunction2(s, svc, fn, hv, ver, val) == [k |-> "CallFunction2", serial |-> s, svc |-> svc, fn |-> fn, hv |-> hv, ver |-> ver, val |-> val]
M_CallFunctionReply(s, res, val) == [k |-> "CallFunctionReply", serial |-> s, res |-> res, val |-> val]
M_AbortFunctionCall(s) == [k |-> "AbortFunctionCall", serial |-> s]
M_SubscribeEventReply(s, res) == [k |-> "SubscribeEventReply", serial |-> s, res |-> res]
M_SubscribeEvent(svc, ev) == [k |-> "SubscribeEvent", svc |-> svc, ev |-> ev, has |-> FALSE, serial |-> 0]
M_UnsubscribeEvent(svc, ev) == [k |-> "UnsubscribeEvent", svc |-> svc, ev |-> ev]
M_EmitEvent(svc, ev, val) == [k |-> "EmitEvent", svc |-> svc, ev |-> ev, val |-> val]
M_QueryServiceVersionReply(s, res, v) == [k |-> "QueryServiceVersionReply", serial |-> s, res |-> res, ver |-> v]
M_QueryServiceInfoReply(s, res, val, info) == [k |-> "QueryServiceInfoReply", serial |-> s, res |-> res, val |-> val, info |-> info]
M_SubscribeServiceReply(s, res) == [k |-> "SubscribeServiceReply", serial |-> s, res |-> res]
M_SubscribeAllEventsReply(s, res) == [k |-> "SubscribeAllEventsReply", serial |-> s, res |-> res]
M_UnsubscribeAllEventsReply(s, res) == [k |-> "UnsubscribeAllEventsReply", serial |-> s, res |-> res]
M_SubscribeAllEvents(svc) == [k |-> "SubscribeAllEvents", svc |-> svc, has |-> FALSE, serial |-> 0]
M_UnsubscribeAllEvents(svc) == [k |-> "UnsubscribeAllEvents", svc |-> svc, has |-> FALSE, serial |-> 0]
M_ServiceDestroyed(svc) == [k |-> "ServiceDestroyed", svc |-> svc]
M_CreateChannelReply(s, k) == [k |-> "CreateChannelReply", serial |-> s, cookie |-> k]
M_CloseChannelEndReply(s, res) == [k |-> "CloseChannelEndReply", serial |-> s, res |-> res]
M_ClaimChannelEndReply(s, res, cap) == [k |-> "ClaimChannelEndReply", serial |-> s, res |-> res, cap |-> cap]
M_ChannelEndClaimed(k, end, cap) == [k |-> "ChannelEndClaimed", cookie |-> k, end |-> end, cap |-> cap]
M_ChannelEndClosed(k, end) == [k |-> "ChannelEndClosed", cookie |-> k, end |-> end]
M_ItemReceived(k, val) == [k |-> "ItemReceived", cookie |-> k, val |-> val]
M_AddChannelCapacity(k, cap) == [k |-> "AddChannelCapacity", cookie |-> k, cap |-> cap]
M_SyncReply(s) == [k |-> "SyncReply", serial |-> s]
M_CreateBusListenerReply(s, k) == [k |-> "CreateBusListenerReply", serial |-> s, cookie |-> k]
M_DestroyBusListenerReply(s, res) == [k |-> "DestroyBusListenerReply", serial |-> s, res |-> res]
M_StartBusListenerReply(s, res) == [k |-> "StartBusListenerReply", serial |-> s, res |-> res]
M_StopBusListenerReply(s, res) == [k |-> "StopBusListenerReply", serial |-> s, res |-> res]
M_EmitBusEvent(lc, be, ouuid, ocookie, suuid, scookie) ==
  [k |-> "EmitBusEvent", lc |-> lc, be |-> be, ouuid |-> ouuid, ocookie |-> ocookie, suuid |-> suuid, scookie |-> scookie]
M_BusListenerCurrentFinished(L) == [k |-> "BusListenerCurrentFinished", cookie |-> L]
M_Shutdown == [k |-> "Shutdown"]
M_QueryIntrospection(s, tid) == [k |-> "QueryIntrospection", serial |-> s, tid |-> tid]
M_QueryIntrospectionReply(s, res, val) == [k |-> "QueryIntrospectionReply", serial |-> s, res |-> res, val |-> val]
InfoRec(ok, ver, tid, sa) == [ok |-> ok, ver |-> ver, tid |-> tid, sa |-> sa]

\* ---------------------------------------------------------------------------------------------
\* state
NewConnState(v) ==
  [ver |-> v, objects |-> {}, events |-> EmptyFn, allEvents |-> {}, subs |-> {}, senders |-> {},
   receivers |-> {}, listeners |-> {}, calls |-> EmptyFn]

EmptyWork ==
  [removeConn |-> EmptyFn, unsubscribeEvent |-> EmptyFn, unsubscribeAllEvents |-> EmptyFn,
   serviceDestroyed |-> EmptyFn, removeCall |-> EmptyFn, objCreated |-> EmptyFn, svcCreated |-> EmptyFn,
   svcDestroyed |-> EmptyFn, objDestroyed |-> EmptyFn, abortCall |-> EmptyFn]

\* priority order of process_loop_result
WorkOrder == <<"removeConn", "unsubscribeEvent", "unsubscribeAllEvents", "serviceDestroyed", "removeCall",
               "objCreated", "svcCreated", "svcDestroyed", "objDestroyed", "abortCall">>

BrokerInit ==
  [ conns |-> EmptyFn,         \* conns: ConnectionId -> ConnectionState
    alive |-> {},              \* connections whose UnboundedReceiver still exists (sends succeed)
    objUuids |-> EmptyFn,      \* obj_uuids: ObjectCookie -> ObjectUuid
    objs |-> EmptyFn,          \* objs: ObjectUuid -> [conn, cookie, svcs]
    svcUuids |-> EmptyFn,      \* svc_uuids: ServiceCookie -> [ouuid, ocookie, suuid, ver, tid, sa]
    svcs |-> EmptyFn,          \* svcs: <<ObjectUuid, ServiceUuid>> -> [cookie, ocookie, calls, events, allEvents, subs]
    calls |-> EmptyFn,         \* function_calls: serial -> [cs, caller, ouuid, suuid, aborted]
    nextSerial |-> 0,          \* SerialMap.next
    chans |-> EmptyFn,         \* channels: cookie -> [snd, rcv : [st, owner, cap]]
    lsts |-> EmptyFn,          \* bus_listeners: cookie -> [conn, filters, scope, allObjs, specificSvcs]
    intro |-> EmptyFn,         \* IntrospectionDatabase: TypeId -> [conns, cached, val, qconn, qserial, pending]
    queryIntro |-> EmptyFn,    \* query_introspection: serial -> TypeId
    nextQSerial |-> 0,
    work |-> EmptyWork,        \* State: the ten deferred lists, as bags
    shutdownNow |-> FALSE, shutdownIdle |-> FALSE,
    stats |-> [conns |-> 0, objs |-> 0, svcs |-> 0, chans |-> 0, lsts |-> 0],
    panic |-> "",              \* first expect / debug_assert / unreachable that would fire
    out |-> <<>> ]             \* sends of the current micro-step, in program order

\* expect("inconsistent state"), debug_assert!, unreachable!() sites
Chk(b, cond, site) == IF cond \/ b.panic # "" THEN b ELSE [b EXCEPT !.panic = site]

\* ConnectionState::send through the send! macro: the only place output leaves the broker.
\* Precondition (as in the code, which holds a &ConnectionState): c \in DOMAIN b.conns.
SendOk(b, c) == c \in b.alive
Send(b, c, m, from) == [b EXCEPT !.out = Append(@, [c |-> c, ok |-> SendOk(b, c), from |-> from, m |-> m])]

Push(b, class, item) == [b EXCEPT !.work[class] = BagAdd(@, item)]
PushRemoveConn(b, c, sd) == Push(b, "removeConn", [c |-> c, sd |-> sd])

\* handler results: the new state and whether the handler returned Err(())
Ok(b) == [b |-> b, err |-> FALSE]
Err(b) == [b |-> b, err |-> TRUE]

\* send!(...)?  -- a reply whose failure makes the handler return Err; `K` is the continuation
\* send!(...) as the tail expression of a handler
ReplyTail(b, c, m) == [b |-> Send(b, c, m, 0), err |-> ~SendOk(b, c)]

\* SerialMap::insert: skip occupied slots, wrapping
SerialWrap == 2147483647
RECURSIVE FreeSerial(_, _)
FreeSerial(used, n) == IF n \notin used THEN n ELSE FreeSerial(used, IF n = SerialWrap THEN 0 ELSE n + 1)

\* ---------------------------------------------------------------------------------------------
\* removal helpers (broker.rs: remove_object, remove_service, remove_event_subscription, ...)

\* Service::subscribed_conn_ids: events and subscriptions, not all_events
SubscribedConnIds(svc) == UNION {svc.events[e] : e \in DOMAIN svc.events} \cup svc.subs

\* ConnectionState::unsubscribe_all: events and subscriptions, not all_events (StaleAllEvents)
ConnUnsubscribeAll(cs, k) == [cs EXCEPT !.events = Del(@, {k}), !.subs = @ \ {k}]

RemoveService(b0, k) ==
  IF k \notin DOMAIN b0.svcUuids THEN b0
  ELSE
    LET ix == b0.svcUuids[k]
        key == <<ix.ouuid, ix.suuid>>
        b1 == Chk(b0, key \in DOMAIN b0.svcs, "remove_service: svcs.remove expect")
    IN IF b1.panic # "" THEN b1 ELSE
    LET svc == b1.svcs[key]
        b2 == [b1 EXCEPT !.svcUuids = Del(@, {k}), !.svcs = Del(@, {key})]
        \* the object might already have been removed
        b3 == IF ix.ouuid \in DOMAIN b2.objs
                THEN Chk([b2 EXCEPT !.objs[ix.ouuid].svcs = @ \ {k}], k \in b2.objs[ix.ouuid].svcs, "Object::remove_service debug_assert")
                ELSE b2
        b4 == Push(b3, "svcDestroyed", [ouuid |-> ix.ouuid, ocookie |-> ix.ocookie, suuid |-> ix.suuid, scookie |-> k])
        b5 == SFold(LAMBDA acc, s :
                      LET a1 == Chk(acc, s \in DOMAIN acc.calls, "remove_service: function_calls.remove expect") IN
                      IF a1.panic # "" THEN a1 ELSE
                      LET call == a1.calls[s]
                          a2 == [a1 EXCEPT !.calls = Del(@, {s})] IN
                      IF call.aborted THEN a2
                      ELSE Push(a2, "removeCall", [serial |-> call.cs, c |-> call.caller, res |-> "InvalidService"]),
                    b4, svc.calls)
        b6 == SFold(LAMBDA acc, x :
                      IF x \in DOMAIN acc.conns
                        THEN Push([acc EXCEPT !.conns[x] = ConnUnsubscribeAll(@, k)], "serviceDestroyed", [c |-> x, svc |-> k])
                        ELSE acc,
                    b5, SubscribedConnIds(svc))
    IN [b6 EXCEPT !.stats.svcs = IF @ > 0 THEN @ - 1 ELSE 0]

RemoveObject(b0, o) ==
  IF o \notin DOMAIN b0.objUuids THEN b0
  ELSE
    LET uuid == b0.objUuids[o]
        b1 == Chk(b0, uuid \in DOMAIN b0.objs, "remove_object: objs.remove expect")
    IN IF b1.panic # "" THEN b1 ELSE
    LET obj == b1.objs[uuid]
        b2 == [b1 EXCEPT !.objUuids = Del(@, {o}), !.objs = Del(@, {uuid})]
        \* the connection might already have been removed
        b3 == IF obj.conn \in DOMAIN b2.conns
                THEN Chk([b2 EXCEPT !.conns[obj.conn].objects = @ \ {o}], o \in b2.conns[obj.conn].objects, "ConnectionState::remove_object debug_assert")
                ELSE b2
        b4 == Push(b3, "objDestroyed", [ouuid |-> uuid, ocookie |-> o])
        b5 == SFold(LAMBDA acc, k : RemoveService(acc, k), b4, obj.svcs)
    IN [b5 EXCEPT !.stats.objs = IF @ > 0 THEN @ - 1 ELSE 0]

\* ConnectionState::unsubscribe_event
ConnUnsubscribeEvent(cs, k, e) ==
  IF k \in DOMAIN cs.events
    THEN LET s2 == cs.events[k] \ {e} IN
         IF s2 = {} THEN [cs EXCEPT !.events = Del(@, {k})] ELSE [cs EXCEPT !.events[k] = s2]
    ELSE cs

\* Service::unsubscribe_event: returns the new service and whether the last subscriber left
SvcUnsubscribeEvent(svc, e, c) ==
  IF e \in DOMAIN svc.events
    THEN LET s2 == svc.events[e] \ {c} IN
         IF s2 = {} THEN [svc |-> [svc EXCEPT !.events = Del(@, {e})], last |-> TRUE]
                    ELSE [svc |-> [svc EXCEPT !.events[e] = s2], last |-> FALSE]
    ELSE [svc |-> svc, last |-> FALSE]

RemoveEventSubscription(b0, c, k, e) ==
  IF k \notin DOMAIN b0.svcUuids THEN b0
  ELSE
    LET ix == b0.svcUuids[k]  key == <<ix.ouuid, ix.suuid>>
        b1 == IF c \in DOMAIN b0.conns THEN [b0 EXCEPT !.conns[c] = ConnUnsubscribeEvent(@, k, e)] ELSE b0
        b2 == Chk(b1, key \in DOMAIN b1.svcs, "remove_event_subscription: svcs.get_mut expect")
    IN IF b2.panic # "" THEN b2 ELSE
    LET r == SvcUnsubscribeEvent(b2.svcs[key], e, c)
        b3 == [b2 EXCEPT !.svcs[key] = r.svc]
    IN IF r.last
         THEN LET b4 == Chk(b3, ix.ouuid \in DOMAIN b3.objs, "remove_event_subscription: objs.get expect") IN
              IF b4.panic # "" THEN b4 ELSE Push(b4, "unsubscribeEvent", [c |-> b4.objs[ix.ouuid].conn, svc |-> k, ev |-> e])
         ELSE b3

RemoveAllEventsSubscription(b0, c, k) ==
  IF k \notin DOMAIN b0.svcUuids THEN b0
  ELSE
    LET ix == b0.svcUuids[k]  key == <<ix.ouuid, ix.suuid>>
        b1 == IF c \in DOMAIN b0.conns THEN [b0 EXCEPT !.conns[c].allEvents = @ \ {k}] ELSE b0
        b2 == Chk(b1, key \in DOMAIN b1.svcs, "remove_all_events_subscription: svcs.get_mut expect")
    IN IF b2.panic # "" THEN b2 ELSE
    LET svc == b2.svcs[key]
        wasEmpty == svc.allEvents = {}
        s2 == svc.allEvents \ {c}
        b3 == [b2 EXCEPT !.svcs[key].allEvents = s2]
    IN IF ~wasEmpty /\ s2 = {}
         THEN LET b4 == Chk(b3, ix.ouuid \in DOMAIN b3.objs, "remove_all_events_subscription: objs.get expect") IN
              IF b4.panic # "" THEN b4 ELSE Push(b4, "unsubscribeAllEvents", [c |-> b4.objs[ix.ouuid].conn, svc |-> k])
         ELSE b3

RemoveSubscription(b0, c, k) ==
  IF k \notin DOMAIN b0.svcUuids THEN b0
  ELSE LET ix == b0.svcUuids[k]  key == <<ix.ouuid, ix.suuid>>
           b1 == Chk(b0, key \in DOMAIN b0.svcs, "remove_subscription: svcs.get_mut expect") IN
       IF b1.panic # "" THEN b1 ELSE [b1 EXCEPT !.svcs[key].subs = @ \ {c}]

\* Channel::close: returns the owner of the other end to notify (-1: none) and panics on the
\* "illegal to call" arms
EndU == [st |-> "U", owner |-> -1, cap |-> CapZero]
EndX == [st |-> "X", owner |-> -1, cap |-> CapZero]
EndC(c, cap) == [st |-> "C", owner |-> c, cap |-> cap]

RemoveChannelEnd(b0, k, end, owner) ==      \* owner = -1 for None
  IF k \notin DOMAIN b0.chans THEN b0
  ELSE
    LET ch == b0.chans[k]
        b1 == IF owner # -1 /\ owner \in DOMAIN b0.conns
                THEN (IF end = "Sender"
                        THEN Chk([b0 EXCEPT !.conns[owner].senders = @ \ {k}], k \in b0.conns[owner].senders, "ConnectionState::remove_sender debug_assert")
                        ELSE Chk([b0 EXCEPT !.conns[owner].receivers = @ \ {k}], k \in b0.conns[owner].receivers, "ConnectionState::remove_receiver debug_assert"))
                ELSE b0
        mine == IF end = "Sender" THEN ch.snd ELSE ch.rcv
        other == IF end = "Sender" THEN ch.rcv ELSE ch.snd
        legal == (mine.st = "C") \/ (mine.st = "U" /\ other.st = "C")
        b2 == Chk(b1, legal, "Channel::close unreachable")
    IN IF b2.panic # "" THEN b2 ELSE
    LET ch2 == IF end = "Sender" THEN [ch EXCEPT !.snd = EndX] ELSE [ch EXCEPT !.rcv = EndX]
        notify == other.st = "C"      \* (Unclaimed|Claimed, Claimed) => Some(other)
        b3 == [b2 EXCEPT !.chans[k] = ch2]
    IN IF notify /\ other.owner \in DOMAIN b3.conns
         THEN LET b4 == Send(b3, other.owner, M_ChannelEndClosed(k, end), 0) IN
              IF SendOk(b3, other.owner) THEN b4 ELSE PushRemoveConn(b4, other.owner, FALSE)
         ELSE [b3 EXCEPT !.chans = Del(@, {k}), !.stats.chans = IF @ > 0 THEN @ - 1 ELSE 0]

RemoveBusListener(b0, L) ==
  IF L \notin DOMAIN b0.lsts THEN b0
  ELSE LET l == b0.lsts[L]
           b1 == [b0 EXCEPT !.lsts = Del(@, {L})]
           b2 == IF l.conn \in DOMAIN b1.conns
                   THEN Chk([b1 EXCEPT !.conns[l.conn].listeners = @ \ {L}], L \in b1.conns[l.conn].listeners, "ConnectionState::remove_bus_listener debug_assert")
                   ELSE b1
       IN [b2 EXCEPT !.stats.lsts = IF @ > 0 THEN @ - 1 ELSE 0]

\* ---------------------------------------------------------------------------------------------
\* message handlers (broker.rs: create_object ... unsubscribe_all_events).  `k` is the fresh
\* cookie the handler would draw (ObjectCookie::new_v4 etc.); unused if no cookie is needed.
Gone(b, c) == c \notin DOMAIN b.conns
Ver(b, c) == b.conns[c].ver

H_CreateObject(b, c, m, k) ==
  IF Gone(b, c) THEN Ok(b)
  ELSE IF m.uuid \in DOMAIN b.objs THEN ReplyTail(b, c, M_CreateObjectReply(m.serial, "DuplicateObject", 0))
  ELSE
    LET b1 == Send(b, c, M_CreateObjectReply(m.serial, "Ok", k), 0) IN
    IF ~SendOk(b, c) THEN Err(b1)
    ELSE LET b2 == Chk(b1, k \notin DOMAIN b1.objUuids, "create_object: obj_uuids dup debug_assert")
             b3 == [b2 EXCEPT !.objUuids = Put(@, k, m.uuid),
                              !.objs = Put(@, m.uuid, [conn |-> c, cookie |-> k, svcs |-> {}]),
                              !.conns[c].objects = @ \cup {k},
                              !.stats.objs = @ + 1]
         IN Ok(Push(b3, "objCreated", [ouuid |-> m.uuid, ocookie |-> k]))

H_DestroyObject(b, c, m) ==
  IF Gone(b, c) THEN Ok(b)
  ELSE IF m.cookie \notin DOMAIN b.objUuids THEN ReplyTail(b, c, M_DestroyObjectReply(m.serial, "InvalidObject"))
  ELSE
    LET uuid == b.objUuids[m.cookie]
        b0 == Chk(b, uuid \in DOMAIN b.objs, "destroy_object: objs.get expect") IN
    IF b0.panic # "" THEN Ok(b0)
    ELSE IF b0.objs[uuid].conn # c THEN ReplyTail(b0, c, M_DestroyObjectReply(m.serial, "ForeignObject"))
    ELSE LET b1 == Send(b0, c, M_DestroyObjectReply(m.serial, "Ok"), 0) IN
         IF ~SendOk(b0, c) THEN Err(b1) ELSE Ok(RemoveObject(b1, m.cookie))

\* create_service and create_service2 share everything but the info and the gate
CreateServiceCommon(b, c, m, k, info, infoOk) ==
  IF m.obj \notin DOMAIN b.objUuids THEN ReplyTail(b, c, M_CreateServiceReply(m.serial, "InvalidObject", 0))
  ELSE
    LET ouuid == b.objUuids[m.obj] IN
    IF <<ouuid, m.uuid>> \in DOMAIN b.svcs THEN ReplyTail(b, c, M_CreateServiceReply(m.serial, "DuplicateService", 0))
    ELSE
      LET b0 == Chk(b, ouuid \in DOMAIN b.objs, "create_service: objs.get_mut expect") IN
      IF b0.panic # "" THEN Ok(b0)
      ELSE IF b0.objs[ouuid].conn # c THEN ReplyTail(b0, c, M_CreateServiceReply(m.serial, "ForeignObject", 0))
      ELSE IF ~infoOk THEN Err(b0)            \* create_service2: value does not decode as ServiceInfo
      ELSE
        LET b1 == Send(b0, c, M_CreateServiceReply(m.serial, "Ok", k), 0) IN
        IF ~SendOk(b0, c) THEN Err(b1)
        ELSE LET b2 == Chk(b1, k \notin DOMAIN b1.svcUuids, "create_service: svc_uuids dup debug_assert")
                 b3 == Chk(b2, k \notin b2.objs[ouuid].svcs, "Object::add_service debug_assert")
                 b4 == [b3 EXCEPT !.svcUuids = Put(@, k, [ouuid |-> ouuid, ocookie |-> m.obj, suuid |-> m.uuid,
                                                         ver |-> info.ver, tid |-> info.tid, sa |-> info.sa]),
                                  !.svcs = Put(@, <<ouuid, m.uuid>>, [cookie |-> k, ocookie |-> m.obj, calls |-> {},
                                                                     events |-> EmptyFn, allEvents |-> {}, subs |-> {}]),
                                  !.objs[ouuid].svcs = @ \cup {k},
                                  !.stats.svcs = @ + 1]
             IN Ok(Push(b4, "svcCreated", [ouuid |-> ouuid, ocookie |-> m.obj, suuid |-> m.uuid, scookie |-> k]))

H_CreateService(b, c, m, k) ==
  IF Gone(b, c) THEN Ok(b) ELSE CreateServiceCommon(b, c, m, k, [ver |-> m.ver, tid |-> 0, sa |-> "none"], TRUE)

H_CreateService2(b, c, m, k) ==
  IF Gone(b, c) THEN Ok(b)
  ELSE IF Ver(b, c) < 17 THEN Err(b)
  ELSE LET sa == IF Ver(b, c) < 18 THEN "false" ELSE m.info.sa IN
       CreateServiceCommon(b, c, m, k, [ver |-> m.info.ver, tid |-> m.info.tid, sa |-> sa], m.info.ok)

H_DestroyService(b, c, m) ==
  IF Gone(b, c) THEN Ok(b)
  ELSE IF m.cookie \notin DOMAIN b.svcUuids THEN ReplyTail(b, c, M_DestroyServiceReply(m.serial, "InvalidService"))
  ELSE
    LET ix == b.svcUuids[m.cookie]
        b0 == Chk(b, ix.ouuid \in DOMAIN b.objs, "destroy_service: objs.get expect") IN
    IF b0.panic # "" THEN Ok(b0)
    ELSE IF b0.objs[ix.ouuid].conn # c THEN ReplyTail(b0, c, M_DestroyServiceReply(m.serial, "ForeignObject"))
    ELSE LET b1 == Send(b0, c, M_DestroyServiceReply(m.serial, "Ok"), 0) IN
         IF ~SendOk(b0, c) THEN Err(b1) ELSE Ok(RemoveService(b1, m.cookie))

\* call_function_impl (CallFunction arrives as CallFunction2 with version None)
CallImpl(b, c, m) ==
  IF Gone(b, c) THEN Ok(b)
  ELSE IF m.svc \notin DOMAIN b.svcUuids THEN ReplyTail(b, c, M_CallFunctionReply(m.serial, "InvalidService", 0))
  ELSE
    LET ix == b.svcUuids[m.svc]
        b0 == Chk(b, ix.ouuid \in DOMAIN b.objs, "call_function_impl: objs.get expect") IN
    IF b0.panic # "" THEN Ok(b0) ELSE
    LET callee == b0.objs[ix.ouuid].conn
        serial == FreeSerial(DOMAIN b0.calls, b0.nextSerial)
        next == IF serial = SerialWrap THEN 0 ELSE serial + 1
        b1 == [b0 EXCEPT !.nextSerial = next]          \* the counter advances even if add_call fails
    IN IF m.serial \in DOMAIN b1.conns[c].calls THEN Err(b1)     \* add_call failed: duplicate caller serial
    ELSE
      LET b2 == [b1 EXCEPT !.calls = Put(@, serial, [cs |-> m.serial, caller |-> c, ouuid |-> ix.ouuid, suuid |-> ix.suuid, aborted |-> FALSE]),
                           !.conns[c].calls = Put(@, m.serial, [bs |-> serial, callee |-> callee])]
          b3 == Chk(b2, callee \in DOMAIN b2.conns, "call_function_impl: conns.get(callee) expect")
      IN IF b3.panic # "" THEN Ok(b3) ELSE
      LET key == <<ix.ouuid, ix.suuid>>
          b4 == Chk(b3, key \in DOMAIN b3.svcs, "call_function_impl: svcs.get_mut expect")
      IN IF b4.panic # "" THEN Ok(b4) ELSE
      LET b5 == Chk([b4 EXCEPT !.svcs[key].calls = @ \cup {serial}], serial \notin b4.svcs[key].calls, "Service::add_function_call debug_assert")
          fwd == IF Ver(b5, callee) >= 19 THEN M_CallFunction2(serial, m.svc, m.fn, m.hv, m.ver, m.val)
                                         ELSE M_CallFunction(serial, m.svc, m.fn, m.val)
          b6 == Send(b5, callee, fwd, Ver(b5, c))
      IN Ok(IF SendOk(b5, callee) THEN b6 ELSE PushRemoveConn(b6, callee, FALSE))

H_CallFunction(b, c, m) == CallImpl(b, c, m)
H_CallFunction2(b, c, m) ==
  IF Gone(b, c) THEN Ok(b) ELSE IF Ver(b, c) < 19 THEN Err(b) ELSE CallImpl(b, c, m)

H_CallFunctionReply(b, c, m) ==
  IF Gone(b, c) THEN Ok(b)
  ELSE IF m.serial \notin DOMAIN b.calls THEN Ok(b)
  ELSE
    LET call == b.calls[m.serial]
        b0 == Chk(b, call.ouuid \in DOMAIN b.objs, "call_function_reply: objs.get expect") IN
    IF b0.panic # "" THEN Ok(b0)
    ELSE IF b0.objs[call.ouuid].conn # c THEN Ok(b0)
    ELSE
      LET key == <<call.ouuid, call.suuid>>
          b1 == [b0 EXCEPT !.calls = Del(@, {m.serial})]
          b2 == Chk(b1, key \in DOMAIN b1.svcs, "call_function_reply: svcs.get_mut expect")
      IN IF b2.panic # "" THEN Ok(b2) ELSE
      LET b3 == Chk([b2 EXCEPT !.svcs[key].calls = @ \ {m.serial}], m.serial \in b2.svcs[key].calls, "Service::remove_function_call debug_assert") IN
      IF call.aborted THEN Ok(b3)
      ELSE IF call.caller \notin DOMAIN b3.conns THEN Ok(b3)
      ELSE
        LET b4 == Chk([b3 EXCEPT !.conns[call.caller].calls = Del(@, {call.cs})],
                         call.cs \in DOMAIN b3.conns[call.caller].calls, "ConnectionState::remove_call debug_assert")
            b5 == Send(b4, call.caller, M_CallFunctionReply(call.cs, m.res, m.val), Ver(b4, c))
        IN Ok(IF SendOk(b4, call.caller) THEN b5 ELSE PushRemoveConn(b5, call.caller, FALSE))

H_AbortFunctionCall(b, c, m) ==
  IF Gone(b, c) THEN Ok(b)
  ELSE IF Ver(b, c) < 16 THEN Err(b)
  ELSE IF m.serial \notin DOMAIN b.conns[c].calls THEN Ok(b)
  ELSE LET cd == b.conns[c].calls[m.serial] IN
       Ok(Push(b, "abortCall", [serial |-> cd.bs, callee |-> cd.callee]))

H_SubscribeEvent(b, c, m) ==
  IF ~m.has THEN Err(b)
  ELSE IF Gone(b, c) THEN Ok(b)
  ELSE IF m.svc \notin DOMAIN b.svcUuids THEN ReplyTail(b, c, M_SubscribeEventReply(m.serial, "InvalidService"))
  ELSE
    LET ix == b.svcUuids[m.svc]  key == <<ix.ouuid, ix.suuid>>
        b1 == Send(b, c, M_SubscribeEventReply(m.serial, "Ok"), 0) IN
    IF ~SendOk(b, c) THEN Err(b1)
    ELSE
      LET evs == IF m.svc \in DOMAIN b1.conns[c].events THEN b1.conns[c].events[m.svc] ELSE {}
          b2 == [b1 EXCEPT !.conns[c].events = Put(@, m.svc, evs \cup {m.ev})]
          b3 == Chk(b2, key \in DOMAIN b2.svcs, "subscribe_event: svcs.get_mut expect")
      IN IF b3.panic # "" THEN Ok(b3) ELSE
      LET svc == b3.svcs[key]
          first == m.ev \notin DOMAIN svc.events
          subs == IF first THEN {c} ELSE svc.events[m.ev] \cup {c}
          b4 == [b3 EXCEPT !.svcs[key].events = Put(@, m.ev, subs)]
      IN IF ~first THEN Ok(b4)
         ELSE LET b5 == Chk(b4, ix.ouuid \in DOMAIN b4.objs, "subscribe_event: objs.get_mut expect") IN
              IF b5.panic # "" THEN Ok(b5) ELSE
              LET target == b5.objs[ix.ouuid].conn IN
              \* `let _ = send!(...)`: a failure is ignored
              Ok(IF target \in DOMAIN b5.conns THEN Send(b5, target, M_SubscribeEvent(m.svc, m.ev), 0) ELSE b5)

H_UnsubscribeEvent(b, c, m) ==
  IF m.svc \notin DOMAIN b.svcUuids THEN Ok(b)
  ELSE
    LET ix == b.svcUuids[m.svc]  key == <<ix.ouuid, ix.suuid>>
        b0 == Chk(b, key \in DOMAIN b.svcs, "unsubscribe_event: svcs.get_mut expect") IN
    IF b0.panic # "" THEN Ok(b0)
    ELSE IF Gone(b0, c) THEN Ok(b0)
    ELSE
      LET b1 == [b0 EXCEPT !.conns[c] = ConnUnsubscribeEvent(@, m.svc, m.ev)]
          r == SvcUnsubscribeEvent(b1.svcs[key], m.ev, c)
          b2 == [b1 EXCEPT !.svcs[key] = r.svc]
      IN IF ~r.last THEN Ok(b2)
         ELSE LET b3 == Chk(b2, ix.ouuid \in DOMAIN b2.objs, "unsubscribe_event: objs.get expect") IN
              IF b3.panic # "" THEN Ok(b3) ELSE
              LET owner == b3.objs[ix.ouuid].conn
                  b4 == Chk(b3, owner \in DOMAIN b3.conns, "unsubscribe_event: conns.get(owner) expect") IN
              IF b4.panic # "" THEN Ok(b4) ELSE
              LET b5 == Send(b4, owner, M_UnsubscribeEvent(m.svc, m.ev), 0) IN
              Ok(IF SendOk(b4, owner) THEN b5 ELSE PushRemoveConn(b5, owner, FALSE))

\* ConnectionState::is_subscribed_to_event: the connection-side mirror decides the fan-out
IsSubscribed(cs, k, e) == k \in cs.allEvents \/ (k \in DOMAIN cs.events /\ e \in cs.events[k])

H_EmitEvent(b, c, m) ==
  IF Gone(b, c) THEN Ok(b)
  ELSE IF m.svc \notin DOMAIN b.svcUuids THEN Ok(b)
  ELSE
    LET ix == b.svcUuids[m.svc]
        b0 == Chk(b, ix.ouuid \in DOMAIN b.objs, "emit_event: objs.get expect") IN
    IF b0.panic # "" THEN Ok(b0)
    ELSE IF b0.objs[ix.ouuid].conn # c THEN Ok(b0)
    ELSE Ok(SFold(LAMBDA acc, x :
                    IF IsSubscribed(acc.conns[x], m.svc, m.ev)
                      THEN LET a1 == Send(acc, x, M_EmitEvent(m.svc, m.ev, m.val), Ver(acc, c)) IN
                           IF SendOk(acc, x) THEN a1 ELSE PushRemoveConn(a1, x, FALSE)
                      ELSE acc,
                  b0, DOMAIN b0.conns))

H_QueryServiceVersion(b, c, m) ==
  IF Gone(b, c) THEN Ok(b)
  ELSE IF m.cookie \in DOMAIN b.svcUuids
    THEN ReplyTail(b, c, M_QueryServiceVersionReply(m.serial, "Ok", b.svcUuids[m.cookie].ver))
    ELSE ReplyTail(b, c, M_QueryServiceVersionReply(m.serial, "InvalidService", 0))

\* the payload token of the serialized ServiceInfo is not modelled (val = 0 in the model; the
\* trace specification binds it to the logged token)
H_QueryServiceInfo(b, c, m, valTok) ==
  IF Gone(b, c) THEN Ok(b)
  ELSE IF Ver(b, c) < 17 THEN Err(b)
  ELSE IF m.cookie \in DOMAIN b.svcUuids
    THEN LET ix == b.svcUuids[m.cookie] IN
         ReplyTail(b, c, M_QueryServiceInfoReply(m.serial, "Ok", valTok, InfoRec(TRUE, ix.ver, ix.tid, ix.sa)))
    ELSE ReplyTail(b, c, M_QueryServiceInfoReply(m.serial, "InvalidService", 0, InfoRec(FALSE, 0, 0, "none")))

H_SubscribeService(b, c, m) ==
  IF Gone(b, c) THEN Ok(b)
  ELSE IF Ver(b, c) < 18 THEN Err(b)
  ELSE IF m.svc \notin DOMAIN b.svcUuids THEN ReplyTail(b, c, M_SubscribeServiceReply(m.serial, "InvalidService"))
  ELSE
    LET ix == b.svcUuids[m.svc]  key == <<ix.ouuid, ix.suuid>>
        b1 == Send(b, c, M_SubscribeServiceReply(m.serial, "Ok"), 0) IN
    IF ~SendOk(b, c) THEN Err(b1)
    ELSE LET b2 == Chk(b1, key \in DOMAIN b1.svcs, "subscribe_service: svcs.get_mut expect") IN
         IF b2.panic # "" THEN Ok(b2)
         ELSE Ok([b2 EXCEPT !.svcs[key].subs = @ \cup {c}, !.conns[c].subs = @ \cup {m.svc}])

H_UnsubscribeService(b, c, m) ==
  IF Gone(b, c) THEN Ok(b)
  ELSE IF Ver(b, c) < 18 THEN Err(b)
  ELSE IF m.svc \notin DOMAIN b.svcUuids THEN Ok(b)
  ELSE LET ix == b.svcUuids[m.svc]  key == <<ix.ouuid, ix.suuid>>
           b1 == Chk(b, key \in DOMAIN b.svcs, "unsubscribe_service: svcs.get_mut expect") IN
       IF b1.panic # "" THEN Ok(b1)
       ELSE Ok([b1 EXCEPT !.svcs[key].subs = @ \ {c}, !.conns[c].subs = @ \ {m.svc}])

H_SubscribeAllEvents(b, c, m) ==
  IF Gone(b, c) THEN Ok(b)
  ELSE IF Ver(b, c) < 18 THEN Err(b)
  ELSE IF ~m.has THEN Err(b)
  ELSE IF m.svc \notin DOMAIN b.svcUuids THEN ReplyTail(b, c, M_SubscribeAllEventsReply(m.serial, "InvalidService"))
  ELSE
    LET ix == b.svcUuids[m.svc]  key == <<ix.ouuid, ix.suuid>> IN
    IF ix.sa # "true" THEN ReplyTail(b, c, M_SubscribeAllEventsReply(m.serial, "NotSupported"))
    ELSE
      LET b0 == Chk(b, ix.ouuid \in DOMAIN b.objs, "subscribe_all_events: objs.get expect") IN
      IF b0.panic # "" THEN Ok(b0) ELSE
      LET target == b0.objs[ix.ouuid].conn
          b1 == Chk(b0, target \in DOMAIN b0.conns, "subscribe_all_events: conns.get(target) expect") IN
      IF b1.panic # "" THEN Ok(b1)
      ELSE IF Ver(b1, target) < 18 THEN ReplyTail(b1, c, M_SubscribeAllEventsReply(m.serial, "NotSupported"))
      ELSE
        LET b2 == Send(b1, c, M_SubscribeAllEventsReply(m.serial, "Ok"), 0) IN
        IF ~SendOk(b1, c) THEN Err(b2)
        ELSE
          LET b3 == Chk(b2, key \in DOMAIN b2.svcs, "subscribe_all_events: svcs.get_mut expect") IN
          IF b3.panic # "" THEN Ok(b3) ELSE
          LET wasEmpty == b3.svcs[key].allEvents = {}
              b4 == [b3 EXCEPT !.conns[c].allEvents = @ \cup {m.svc}, !.svcs[key].allEvents = @ \cup {c}]
          IN Ok(IF wasEmpty THEN Send(b4, target, M_SubscribeAllEvents(m.svc), 0) ELSE b4)

H_UnsubscribeAllEvents(b, c, m) ==
  IF Gone(b, c) THEN Ok(b)
  ELSE IF Ver(b, c) < 18 THEN Err(b)
  ELSE IF m.svc \notin DOMAIN b.svcUuids
    THEN (IF m.has THEN ReplyTail(b, c, M_UnsubscribeAllEventsReply(m.serial, "InvalidService")) ELSE Ok(b))
  ELSE
    LET ix == b.svcUuids[m.svc]  key == <<ix.ouuid, ix.suuid>>
        b0 == Chk(b, ix.ouuid \in DOMAIN b.objs, "unsubscribe_all_events: objs.get expect") IN
    IF b0.panic # "" THEN Ok(b0) ELSE
    LET target == b0.objs[ix.ouuid].conn
        b1 == Chk(b0, target \in DOMAIN b0.conns, "unsubscribe_all_events: conns.get(target) expect") IN
    IF b1.panic # "" THEN Ok(b1)
    ELSE IF Ver(b1, target) < 18
      THEN (IF m.has THEN ReplyTail(b1, c, M_UnsubscribeAllEventsReply(m.serial, "NotSupported")) ELSE Ok(b1))
    ELSE
      LET b2 == IF m.has THEN Send(b1, c, M_UnsubscribeAllEventsReply(m.serial, "Ok"), 0) ELSE b1 IN
      IF m.has /\ ~SendOk(b1, c) THEN Err(b2)
      ELSE
        LET b3 == Chk(b2, key \in DOMAIN b2.svcs, "unsubscribe_all_events: svcs.get_mut expect") IN
        IF b3.panic # "" THEN Ok(b3) ELSE
        LET wasEmpty == b3.svcs[key].allEvents = {}
            s2 == b3.svcs[key].allEvents \ {c}
            b4 == [b3 EXCEPT !.conns[c].allEvents = @ \ {m.svc}, !.svcs[key].allEvents = s2]
        IN Ok(IF ~wasEmpty /\ s2 = {} THEN Send(b4, target, M_UnsubscribeAllEvents(m.svc), 0) ELSE b4)

\* --- channels (broker.rs create_channel ... send_item; channel.rs) ---
H_CreateChannel(b, c, m, k) ==
  IF Gone(b, c) THEN Ok(b)
  ELSE
    LET isS == m.end = "Sender"
        b1 == IF isS THEN Chk([b EXCEPT !.conns[c].senders = @ \cup {k}], k \notin b.conns[c].senders, "ConnectionState::add_sender debug_assert")
                     ELSE Chk([b EXCEPT !.conns[c].receivers = @ \cup {k}], k \notin b.conns[c].receivers, "ConnectionState::add_receiver debug_assert")
        ch == IF isS THEN [snd |-> EndC(c, CapZero), rcv |-> EndU] ELSE [snd |-> EndU, rcv |-> EndC(c, m.cap)]
        \* the gauge is counted with the insertion (fix 98f3cbb; it used to follow the reply)
        b2 == [b1 EXCEPT !.chans = Put(@, k, ch), !.stats.chans = @ + 1]
        b3 == Send(b2, c, M_CreateChannelReply(m.serial, k), 0)
    IN IF SendOk(b2, c) THEN Ok(b3) ELSE Err(b3)

\* Channel::check_close
CheckClose(ch, c, end) ==
  LET e == IF end = "Sender" THEN ch.snd ELSE ch.rcv IN
  CASE e.st = "U" -> [res |-> "Ok", claimed |-> FALSE]
    [] e.st = "C" /\ e.owner = c -> [res |-> "Ok", claimed |-> TRUE]
    [] e.st = "C" -> [res |-> "ForeignChannel", claimed |-> TRUE]
    [] OTHER -> [res |-> "InvalidChannel", claimed |-> FALSE]

H_CloseChannelEnd(b, c, m) ==
  IF Gone(b, c) THEN Ok(b)
  ELSE IF m.cookie \notin DOMAIN b.chans THEN ReplyTail(b, c, M_CloseChannelEndReply(m.serial, "InvalidChannel"))
  ELSE
    LET r == CheckClose(b.chans[m.cookie], c, m.end)
        b1 == Send(b, c, M_CloseChannelEndReply(m.serial, r.res), 0) IN
    IF ~SendOk(b, c) THEN Err(b1)
    ELSE IF r.res = "Ok" THEN Ok(RemoveChannelEnd(b1, m.cookie, m.end, IF r.claimed THEN c ELSE -1))
    ELSE Ok(b1)

H_ClaimChannelEnd(b, c, m) ==
  IF Gone(b, c) THEN Ok(b)
  ELSE IF m.cookie \notin DOMAIN b.chans THEN ReplyTail(b, c, M_ClaimChannelEndReply(m.serial, "InvalidChannel", CapZero))
  ELSE
    LET k == m.cookie  ch == b.chans[k]
        mine == IF m.end = "Sender" THEN ch.snd ELSE ch.rcv
        other == IF m.end = "Sender" THEN ch.rcv ELSE ch.snd IN
    IF mine.st = "C" THEN ReplyTail(b, c, M_ClaimChannelEndReply(m.serial, "AlreadyClaimed", CapZero))
    ELSE IF mine.st = "X" THEN ReplyTail(b, c, M_ClaimChannelEndReply(m.serial, "InvalidChannel", CapZero))
    ELSE
      LET b0 == Chk(b, other.st = "C", "Channel::claim_* unreachable (other end not claimed)") IN
      IF b0.panic # "" THEN Ok(b0) ELSE
      LET ch2 == IF m.end = "Sender"
                   THEN [ch EXCEPT !.snd = EndC(c, other.cap)]
                   ELSE [ch EXCEPT !.rcv = EndC(c, m.cap), !.snd.cap = m.cap]
          b1 == [b0 EXCEPT !.chans[k] = ch2]
          b2 == IF m.end = "Sender"
                  THEN Chk([b1 EXCEPT !.conns[c].senders = @ \cup {k}], k \notin b1.conns[c].senders, "ConnectionState::add_sender debug_assert")
                  ELSE Chk([b1 EXCEPT !.conns[c].receivers = @ \cup {k}], k \notin b1.conns[c].receivers, "ConnectionState::add_receiver debug_assert")
          reply == IF m.end = "Sender" THEN M_ClaimChannelEndReply(m.serial, "SenderClaimed", other.cap)
                                       ELSE M_ClaimChannelEndReply(m.serial, "ReceiverClaimed", CapZero)
          b3 == Send(b2, c, reply, 0)
          replyOk == SendOk(b2, c)
          b4 == Chk(b3, other.owner \in DOMAIN b3.conns, "claim_channel_end: conns.get_mut(other) expect")
      IN IF b4.panic # "" THEN Ok(b4) ELSE
      LET b5 == Send(b4, other.owner, M_ChannelEndClaimed(k, m.end, IF m.end = "Sender" THEN CapZero ELSE m.cap), 0)
          b6 == IF SendOk(b4, other.owner) THEN b5 ELSE PushRemoveConn(b5, other.owner, FALSE)
      IN IF replyOk THEN Ok(b6) ELSE Err(b6)       \* the reply's failure is returned after both sends

H_AddChannelCapacity(b, c, m) ==
  IF m.cookie \notin DOMAIN b.chans THEN Ok(b)
  ELSE
    LET k == m.cookie  ch == b.chans[k] IN
    IF U!IsZero(m.cap) THEN Ok(b)
    ELSE IF ~(ch.rcv.st = "C" /\ ch.rcv.owner = c) THEN Ok(b)
    ELSE
      LET sum == U!Add(ch.rcv.cap, m.cap) IN
      IF U!Overflows(sum) THEN Ok(RemoveChannelEnd(b, k, "Receiver", c))         \* checked_add failed
      ELSE
        LET ch1 == [ch EXCEPT !.rcv.cap = sum] IN
        IF ch1.snd.st # "C" THEN Ok([b EXCEPT !.chans[k] = ch1])
        ELSE IF U!Leq(ch1.snd.cap, LOW)
          THEN LET b0 == Chk(b, U!Gt(sum, ch1.snd.cap), "Channel::add_capacity debug_assert(receiver > sender)")
                   diff == U!Sub(sum, ch1.snd.cap)
                   b1 == [b0 EXCEPT !.chans[k] = [ch1 EXCEPT !.snd.cap = sum]]
                   sender == ch1.snd.owner
               IN IF b0.panic # "" THEN Ok(b0)
                  ELSE IF sender \notin DOMAIN b1.conns THEN Ok(b1)
                  ELSE LET b2 == Send(b1, sender, M_AddChannelCapacity(k, diff), 0) IN
                       Ok(IF SendOk(b1, sender) THEN b2 ELSE PushRemoveConn(b2, sender, FALSE))
          ELSE Ok([b EXCEPT !.chans[k] = ch1])

H_SendItem(b, c, m) ==
  IF Gone(b, c) THEN Ok(b)
  ELSE IF m.cookie \notin DOMAIN b.chans THEN Ok(b)
  ELSE
    LET k == m.cookie  ch == b.chans[k] IN
    IF ~(ch.snd.st = "C" /\ ch.snd.owner = c) THEN Ok(b)                         \* InvalidSender
    ELSE IF ch.rcv.st = "U" THEN                                                  \* ReceiverUnclaimed: close receiver first
      Ok(RemoveChannelEnd(RemoveChannelEnd(b, k, "Receiver", -1), k, "Sender", c))
    ELSE IF ch.rcv.st = "X" THEN Ok(b)                                            \* ReceiverClosed
    ELSE IF U!IsZero(ch.snd.cap) THEN                                             \* CapacityExhausted
      Ok(RemoveChannelEnd(Chk(b, U!IsZero(ch.rcv.cap), "Channel::send_item debug_assert(receiver_capacity == 0)"), k, "Sender", c))
    ELSE
      LET b0 == Chk(b, ~U!IsZero(ch.rcv.cap), "Channel::send_item receiver_capacity -= 1 underflow") IN
      IF b0.panic # "" THEN Ok(b0) ELSE
      LET sc == U!Dec(ch.snd.cap)  rc == U!Dec(ch.rcv.cap)
          topup == U!Leq(sc, LOW) /\ U!Gt(rc, sc)
          diff == IF topup THEN U!Sub(rc, sc) ELSE CapZero
          ch2 == [ch EXCEPT !.snd.cap = IF topup THEN rc ELSE sc, !.rcv.cap = rc]
          b1 == [b0 EXCEPT !.chans[k] = ch2]
          receiver == ch.rcv.owner
      IN IF receiver \notin DOMAIN b1.conns THEN Ok(b1)
         ELSE
           LET b2 == Send(b1, receiver, M_ItemReceived(k, m.val), Ver(b1, c))
               b3 == IF SendOk(b1, receiver) THEN b2 ELSE PushRemoveConn(b2, receiver, FALSE)
           IN IF topup THEN ReplyTail(b3, c, M_AddChannelCapacity(k, diff)) ELSE Ok(b3)

H_Sync(b, c, m) == IF Gone(b, c) THEN Ok(b) ELSE ReplyTail(b, c, M_SyncReply(m.serial))

\* --- bus listeners (broker.rs, bus_listener.rs) ---
IsSpecificSvcFilter(f) == f.ft = "svc" /\ f.o # 0 /\ f.s # 0
AnyObjectFilter == [ft |-> "obj", o |-> 0, s |-> 0]
FMatchesObj(f, ouuid) == f.ft = "obj" /\ (f.o = 0 \/ f.o = ouuid)
FMatchesSvc(f, ouuid, suuid) == f.ft = "svc" /\ (f.o = 0 \/ f.o = ouuid) /\ (f.s = 0 \/ f.s = suuid)
\* BusListener::matches_object / matches_service / matches_new_event
LMatchesObject(l, ouuid) == l.allObjs \/ \E f \in l.filters : FMatchesObj(f, ouuid)
LMatchesService(l, ouuid, suuid) == \E f \in l.filters : FMatchesSvc(f, ouuid, suuid)
LMatchesNew(l, isObj, ouuid, suuid) ==
  /\ l.scope \in {"New", "All"}
  /\ \E f \in l.filters : IF isObj THEN FMatchesObj(f, ouuid) ELSE FMatchesSvc(f, ouuid, suuid)

H_CreateBusListener(b, c, m, k) ==
  IF Gone(b, c) THEN Ok(b)
  ELSE LET b1 == Send(b, c, M_CreateBusListenerReply(m.serial, k), 0) IN
       IF ~SendOk(b, c) THEN Err(b1)
       ELSE LET b2 == Chk([b1 EXCEPT !.stats.lsts = @ + 1, !.conns[c].listeners = @ \cup {k}],
                             k \notin b1.conns[c].listeners, "ConnectionState::add_bus_listener debug_assert") IN
            Ok([b2 EXCEPT !.lsts = Put(@, k, [conn |-> c, filters |-> {}, scope |-> "None", allObjs |-> FALSE, specificSvcs |-> TRUE])])

H_DestroyBusListener(b, c, m) ==
  IF Gone(b, c) THEN Ok(b)
  ELSE IF m.cookie \notin DOMAIN b.lsts THEN ReplyTail(b, c, M_DestroyBusListenerReply(m.serial, "InvalidBusListener"))
  ELSE IF b.lsts[m.cookie].conn = c
    THEN LET b1 == Send(b, c, M_DestroyBusListenerReply(m.serial, "Ok"), 0) IN
         IF ~SendOk(b, c) THEN Err(b1) ELSE Ok(RemoveBusListener(b1, m.cookie))
    ELSE ReplyTail(b, c, M_DestroyBusListenerReply(m.serial, "InvalidBusListener"))

OwnsLst(b, c, L) == L \in DOMAIN b.lsts /\ b.lsts[L].conn = c

H_AddFilter(b, c, m) ==
  IF ~OwnsLst(b, c, m.cookie) THEN Ok(b)
  ELSE Ok([b EXCEPT !.lsts[m.cookie] =
             [@ EXCEPT !.filters = @ \cup {m.filter},
                       !.allObjs = @ \/ (m.filter = AnyObjectFilter),                      \* |=
                       !.specificSvcs = @ /\ IsSpecificSvcFilter(m.filter)]])                \* &=

H_RemoveFilter(b, c, m) ==
  IF ~OwnsLst(b, c, m.cookie) THEN Ok(b)
  ELSE LET fs == b.lsts[m.cookie].filters \ {m.filter} IN
       Ok([b EXCEPT !.lsts[m.cookie] =
             [@ EXCEPT !.filters = fs,
                       !.allObjs = AnyObjectFilter \in fs,
                       !.specificSvcs = \A f \in fs : IsSpecificSvcFilter(f)]])

H_ClearFilters(b, c, m) ==
  IF ~OwnsLst(b, c, m.cookie) THEN Ok(b)
  ELSE Ok([b EXCEPT !.lsts[m.cookie] = [@ EXCEPT !.filters = {}, !.allObjs = FALSE, !.specificSvcs = TRUE]])

\* start_bus_listener: every send is `?`: the first failed one ends the handler with Err
SendAllOrErr(b, c, msgs) ==       \* msgs: a sequence; returns [b, err]
  LET ok == SendOk(b, c) IN
  IF msgs = <<>> THEN Ok(b)
  ELSE IF ok THEN Ok([b EXCEPT !.out = @ \o [i \in 1..Len(msgs) |-> [c |-> c, ok |-> TRUE, from |-> 0, m |-> msgs[i]]]])
  ELSE Err(Send(b, c, msgs[1], 0))

H_StartBusListener(b, c, m) ==
  IF Gone(b, c) THEN Ok(b)
  ELSE IF m.cookie \notin DOMAIN b.lsts THEN ReplyTail(b, c, M_StartBusListenerReply(m.serial, "InvalidBusListener"))
  ELSE IF b.lsts[m.cookie].conn # c THEN ReplyTail(b, c, M_StartBusListenerReply(m.serial, "InvalidBusListener"))
  ELSE IF b.lsts[m.cookie].scope # "None" THEN ReplyTail(b, c, M_StartBusListenerReply(m.serial, "AlreadyStarted"))
  ELSE
    LET L == m.cookie
        b1 == [b EXCEPT !.lsts[L].scope = m.scope]                      \* BusListener::start precedes the reply
        l == b1.lsts[L]
        b2 == Send(b1, c, M_StartBusListenerReply(m.serial, "Ok"), 0) IN
    IF ~SendOk(b1, c) THEN Err(b2)
    ELSE IF m.scope = "New" THEN Ok(b2)
    ELSE
      LET \* specific_objects(): the specific path when matches_all_objects is false
          panicObj == ~l.allObjs /\ AnyObjectFilter \in l.filters
          objCookies ==
            IF ~l.allObjs
              THEN {b2.objs[f.o].cookie : f \in {f \in l.filters : f.ft = "obj" /\ f.o # 0 /\ f.o \in DOMAIN b2.objs}}
              ELSE {o \in DOMAIN b2.objUuids : LMatchesObject(l, b2.objUuids[o])}
          \* specific_services(): the specific path when matches_specific_services is true
          panicSvc == l.specificSvcs /\ \E f \in l.filters : f.ft = "svc" /\ ~IsSpecificSvcFilter(f)
          svcCookies ==
            IF l.specificSvcs
              THEN {b2.svcs[<<f.o, f.s>>].cookie : f \in {f \in l.filters : IsSpecificSvcFilter(f) /\ <<f.o, f.s>> \in DOMAIN b2.svcs}}
              ELSE {k \in DOMAIN b2.svcUuids : LMatchesService(l, b2.svcUuids[k].ouuid, b2.svcUuids[k].suuid)}
          b3 == Chk(Chk(b2, ~panicObj, "BusListener::specific_objects unreachable"), ~panicSvc, "BusListener::specific_services unreachable")
          objMsgs == [i \in 1..Cardinality(objCookies) |->
                        LET o == SetToSeq(objCookies)[i] IN M_EmitBusEvent(L, "ObjectCreated", b3.objUuids[o], o, 0, 0)]
          svcMsgs == [i \in 1..Cardinality(svcCookies) |->
                        LET k == SetToSeq(svcCookies)[i]  ix == b3.svcUuids[k] IN
                        M_EmitBusEvent(L, "ServiceCreated", ix.ouuid, ix.ocookie, ix.suuid, k)]
      IN IF b3.panic # "" THEN Ok(b3)
         ELSE SendAllOrErr(b3, c, objMsgs \o svcMsgs \o <<M_BusListenerCurrentFinished(L)>>)

H_StopBusListener(b, c, m) ==
  IF Gone(b, c) THEN Ok(b)
  ELSE IF m.cookie \notin DOMAIN b.lsts THEN ReplyTail(b, c, M_StopBusListenerReply(m.serial, "InvalidBusListener"))
  ELSE IF b.lsts[m.cookie].conn # c THEN ReplyTail(b, c, M_StopBusListenerReply(m.serial, "InvalidBusListener"))
  ELSE IF b.lsts[m.cookie].scope # "None"
    THEN ReplyTail([b EXCEPT !.lsts[m.cookie].scope = "None"], c, M_StopBusListenerReply(m.serial, "Ok"))
    ELSE ReplyTail(b, c, M_StopBusListenerReply(m.serial, "NotStarted"))


\* --- introspection (broker.rs register_introspection ... remove_introspection_conn;
\*     introspection_database.rs).  `pick.conn` resolves query_random_conn (TypeId -> connection),
\*     `pick.order` the hash order in which remove_conn visits the entries it re-queries. ---
NewIntroEntry == [conns |-> {}, cached |-> FALSE, val |-> 0, qconn |-> -1, qserial |-> 0, pending |-> <<>>]

\* IntrospectionEntry::remove_conn: returns the entry and whether it is retained
EntryRemoveConn(e, c) ==
  LET e1 == IF e.qconn = c THEN [e EXCEPT !.qconn = -1, !.qserial = 0] ELSE e
      e2 == [e1 EXCEPT !.pending = SelectSeq(@, LAMBDA p : p.conn # c)] IN
  IF c \in e2.conns
    THEN LET cs == e2.conns \ {c} IN [e |-> [e2 EXCEPT !.conns = cs], retain |-> cs # {}]
    ELSE [e |-> e2, retain |-> TRUE]

\* a new query for type `tid`: fresh serial, random registered connection, send (failure => remove_conn)
StartQuery(b0, tid, pick) ==
  LET serial == FreeSerial(DOMAIN b0.queryIntro, b0.nextQSerial)
      x == pick.conn[tid]
      b1 == Chk(b0, x \in b0.intro[tid].conns, "query_random_conn: pick outside the registered connections")
      b2 == Chk(b1, b1.intro[tid].qconn = -1, "IntrospectionEntry::query_random_conn debug_assert(queried.is_none())")
      b3 == [b2 EXCEPT !.queryIntro = Put(@, serial, tid), !.nextQSerial = IF serial = SerialWrap THEN 0 ELSE serial + 1,
                       !.intro[tid].qconn = x, !.intro[tid].qserial = serial]
      b4 == Chk(b3, x \in DOMAIN b3.conns, "query_introspection: conns.get(conn_id) expect")
  IN IF b4.panic # "" THEN b4
     ELSE LET b5 == Send(b4, x, M_QueryIntrospection(serial, tid), 0) IN
          IF SendOk(b4, x) THEN b5 ELSE PushRemoveConn(b5, x, FALSE)

\* answers all `pending` queries; `expect` selects the handler variant that requires the connection to exist
AnswerPending(b0, pending, res, val, expect) ==
  FoldLeft(LAMBDA acc, p :
             IF p.conn \notin DOMAIN acc.conns
               THEN (IF expect THEN Chk(acc, FALSE, "query_introspection_reply: conns.get(pending) expect") ELSE acc)
               ELSE LET a1 == Send(acc, p.conn, M_QueryIntrospectionReply(p.serial, res, val), 0) IN
                    IF SendOk(acc, p.conn) THEN a1 ELSE PushRemoveConn(a1, p.conn, FALSE),
           b0, pending)

H_RegisterIntrospection(b, c, m) ==
  IF Gone(b, c) THEN Ok(b)
  ELSE IF Ver(b, c) < 17 THEN Err(b)
  ELSE IF ~m.ok THEN Err(b)
  ELSE Ok(FoldLeft(LAMBDA acc, t :
                     LET e == IF t \in DOMAIN acc.intro THEN acc.intro[t] ELSE NewIntroEntry IN
                     [acc EXCEPT !.intro = Put(@, t, [e EXCEPT !.conns = @ \cup {c}])],
                   b, m.tids))

H_QueryIntrospection(b, c, m, pick) ==
  IF Gone(b, c) THEN Ok(b)
  ELSE IF Ver(b, c) < 17 THEN Err(b)
  ELSE IF m.tid \notin DOMAIN b.intro THEN ReplyTail(b, c, M_QueryIntrospectionReply(m.serial, "Unavailable", 0))
  ELSE LET e == b.intro[m.tid] IN
       IF e.cached THEN ReplyTail(b, c, M_QueryIntrospectionReply(m.serial, "Ok", e.val))
       ELSE LET b1 == [b EXCEPT !.intro[m.tid].pending = Append(@, [conn |-> c, serial |-> m.serial])] IN
            Ok(IF e.qconn = -1 THEN StartQuery(b1, m.tid, pick) ELSE b1)

H_QueryIntrospectionReply(b, c, m, pick) ==
  IF Gone(b, c) THEN Ok(b)
  ELSE IF Ver(b, c) < 17 THEN Err(b)
  ELSE IF m.serial \notin DOMAIN b.queryIntro THEN Err(b)
  ELSE
    LET tid == b.queryIntro[m.serial]
        b0 == Chk(b, tid \in DOMAIN b.intro, "IntrospectionDatabase::query_replied panic(inconsistent state)") IN
    IF b0.panic # "" THEN Ok(b0) ELSE
    LET e == b0.intro[tid] IN
    IF e.qconn # c THEN Err(b0)                             \* query_replied returned None
    ELSE
      LET b1 == Chk(Chk(b0, e.qserial = m.serial, "IntrospectionEntry::query_replied debug_assert_eq(serial)"),
                    ~e.cached, "IntrospectionEntry::query_replied debug_assert(introspection.is_none())")
          e1 == [e EXCEPT !.qconn = -1, !.qserial = 0]
          b2 == [b1 EXCEPT !.queryIntro = Del(@, {m.serial})] IN
      IF m.res = "Ok"
        THEN Ok(AnswerPending([b2 EXCEPT !.intro[tid] = [e1 EXCEPT !.pending = <<>>, !.cached = TRUE, !.val = m.val]],
                              e1.pending, "Ok", m.val, TRUE))
        ELSE LET r == EntryRemoveConn(e1, c) IN
             IF r.retain THEN Ok(StartQuery([b2 EXCEPT !.intro[tid] = r.e], tid, pick))
             ELSE Ok(AnswerPending([b2 EXCEPT !.intro = Del(@, {tid})], r.e.pending, "Unavailable", 0, TRUE))

\* remove_introspection_conn (end of shutdown_connection)
RemoveIntrospectionConn(b0, c, pick) ==
  LET step(acc, tid) ==
        LET e == acc.b.intro[tid]
            was == e.qconn # -1
            r == EntryRemoveConn(e, c)
            lostQuery == was /\ r.e.qconn = -1
            b1 == IF r.retain THEN [acc.b EXCEPT !.intro[tid] = IF lostQuery /\ ~r.retain THEN r.e ELSE r.e]
                              ELSE [acc.b EXCEPT !.intro = Del(@, {tid})]
        IN [b |-> b1,
            res |-> IF lostQuery THEN Append(acc.res, [serial |-> e.qserial, tid |-> tid, cont |-> r.retain, pending |-> IF r.retain THEN <<>> ELSE r.e.pending])
                                 ELSE acc.res]
      a == SFold(step, [b |-> b0, res |-> <<>>], DOMAIN b0.intro)
      \* pending queries of retained entries stay; of removed entries they are answered below
      \* HashMap::retain visits the entries in hash order: re-queries happen in the order `pick.order`
      inOrder == SelectSeq(pick.order, LAMBDA t : \E i \in 1..Len(a.res) : a.res[i].tid = t)
      ordered == [i \in 1..Len(inOrder) |-> a.res[CHOOSE j \in 1..Len(a.res) : a.res[j].tid = inOrder[i]]]
                 \o SelectSeq(a.res, LAMBDA x : \A i \in 1..Len(pick.order) : pick.order[i] # x.tid)
  IN FoldLeft(LAMBDA acc, x :
                LET a1 == Chk(acc, x.serial \in DOMAIN acc.queryIntro, "remove_introspection_conn: query_introspection.remove expect")
                    a2 == [a1 EXCEPT !.queryIntro = Del(@, {x.serial})] IN
                IF a1.panic # "" THEN a1
                ELSE IF x.cont THEN (IF x.tid \in DOMAIN a2.intro THEN StartQuery(a2, x.tid, pick) ELSE a2)
                ELSE AnswerPending(a2, x.pending, "Unavailable", 0, FALSE),
              a.b, ordered)

\* ---------------------------------------------------------------------------------------------
\* handle_message: dispatch; every broker-to-client kind and the handshake kinds are Err
HandleMessage(b, c, m, k, pick) ==
  CASE m.k = "CreateObject" -> H_CreateObject(b, c, m, k)
    [] m.k = "DestroyObject" -> H_DestroyObject(b, c, m)
    [] m.k = "CreateService" -> H_CreateService(b, c, m, k)
    [] m.k = "CreateService2" -> H_CreateService2(b, c, m, k)
    [] m.k = "DestroyService" -> H_DestroyService(b, c, m)
    [] m.k = "CallFunction" -> H_CallFunction(b, c, m)
    [] m.k = "CallFunction2" -> H_CallFunction2(b, c, m)
    [] m.k = "CallFunctionReply" -> H_CallFunctionReply(b, c, m)
    [] m.k = "AbortFunctionCall" -> H_AbortFunctionCall(b, c, m)
    [] m.k = "SubscribeEvent" -> H_SubscribeEvent(b, c, m)
    [] m.k = "UnsubscribeEvent" -> H_UnsubscribeEvent(b, c, m)
    [] m.k = "EmitEvent" -> H_EmitEvent(b, c, m)
    [] m.k = "QueryServiceVersion" -> H_QueryServiceVersion(b, c, m)
    [] m.k = "QueryServiceInfo" -> H_QueryServiceInfo(b, c, m, k)
    [] m.k = "SubscribeService" -> H_SubscribeService(b, c, m)
    [] m.k = "UnsubscribeService" -> H_UnsubscribeService(b, c, m)
    [] m.k = "SubscribeAllEvents" -> H_SubscribeAllEvents(b, c, m)
    [] m.k = "UnsubscribeAllEvents" -> H_UnsubscribeAllEvents(b, c, m)
    [] m.k = "CreateChannel" -> H_CreateChannel(b, c, m, k)
    [] m.k = "CloseChannelEnd" -> H_CloseChannelEnd(b, c, m)
    [] m.k = "ClaimChannelEnd" -> H_ClaimChannelEnd(b, c, m)
    [] m.k = "AddChannelCapacity" -> H_AddChannelCapacity(b, c, m)
    [] m.k = "SendItem" -> H_SendItem(b, c, m)
    [] m.k = "Sync" -> H_Sync(b, c, m)
    [] m.k = "CreateBusListener" -> H_CreateBusListener(b, c, m, k)
    [] m.k = "DestroyBusListener" -> H_DestroyBusListener(b, c, m)
    [] m.k = "AddBusListenerFilter" -> H_AddFilter(b, c, m)
    [] m.k = "RemoveBusListenerFilter" -> H_RemoveFilter(b, c, m)
    [] m.k = "ClearBusListenerFilters" -> H_ClearFilters(b, c, m)
    [] m.k = "StartBusListener" -> H_StartBusListener(b, c, m)
    [] m.k = "StopBusListener" -> H_StopBusListener(b, c, m)
    [] m.k = "RegisterIntrospection" -> H_RegisterIntrospection(b, c, m)
    [] m.k = "QueryIntrospection" -> H_QueryIntrospection(b, c, m, pick)
    [] m.k = "QueryIntrospectionReply" -> H_QueryIntrospectionReply(b, c, m, pick)
    [] OTHER -> Err(b)

\* shutdown_connection
ShutdownConnection(b0, c, sd, pick) ==
  IF c \notin DOMAIN b0.conns THEN b0
  ELSE
    LET cs == b0.conns[c]
        b1 == [b0 EXCEPT !.conns = Del(@, {c})]
        \* the Shutdown goes to the removed ConnectionState; errors are ignored
        b2 == IF sd THEN [b1 EXCEPT !.out = Append(@, [c |-> c, ok |-> c \in b1.alive, from |-> 0, m |-> M_Shutdown])] ELSE b1
        b3 == SFold(LAMBDA acc, L : RemoveBusListener(acc, L), b2, cs.listeners)
        b4 == SFold(LAMBDA acc, o : RemoveObject(acc, o), b3, cs.objects)
        evPairs == UNION {{<<k, e>> : e \in cs.events[k]} : k \in DOMAIN cs.events}
        b5 == SFold(LAMBDA acc, p : RemoveEventSubscription(acc, c, p[1], p[2]), b4, evPairs)
        b6 == SFold(LAMBDA acc, k : RemoveAllEventsSubscription(acc, c, k), b5, cs.allEvents)
        b7 == SFold(LAMBDA acc, k : RemoveSubscription(acc, c, k), b6, cs.subs)
        b8 == SFold(LAMBDA acc, k : RemoveChannelEnd(acc, k, "Sender", c), b7, cs.senders)
        b9 == SFold(LAMBDA acc, k : RemoveChannelEnd(acc, k, "Receiver", c), b8, cs.receivers)
        b10 == SFold(LAMBDA acc, s : Push(acc, "abortCall", [serial |-> cs.calls[s].bs, callee |-> cs.calls[s].callee]), b9, DOMAIN cs.calls)
        b11 == [b10 EXCEPT !.stats.conns = IF @ > 0 THEN @ - 1 ELSE 0]
    IN RemoveIntrospectionConn(b11, c, pick)

\* emit_bus_event: once per connection (dups), failures collected into remove_conns
EmitBusEvent(b0, isObj, be, ouuid, ocookie, suuid, scookie) ==
  LET targets == {b0.lsts[L].conn : L \in {L \in DOMAIN b0.lsts : LMatchesNew(b0.lsts[L], isObj, ouuid, suuid)}} IN
  SFold(LAMBDA acc, x :
          IF x \notin DOMAIN acc.conns THEN acc
          ELSE LET a1 == Send(acc, x, M_EmitBusEvent(0, be, ouuid, ocookie, suuid, scookie), 0) IN
               IF SendOk(acc, x) THEN a1 ELSE PushRemoveConn(a1, x, FALSE),
        b0, targets)

\* abort_call
AbortCall(b0, serial, callee) ==
  IF serial \notin DOMAIN b0.calls THEN b0
  ELSE IF b0.calls[serial].aborted THEN b0
  ELSE
    LET call == b0.calls[serial]
        b1 == [b0 EXCEPT !.calls[serial].aborted = TRUE]
        b2 == IF callee \in DOMAIN b1.conns /\ Ver(b1, callee) >= 16
                THEN LET s == Send(b1, callee, M_AbortFunctionCall(serial), 0) IN
                     IF SendOk(b1, callee) THEN s ELSE PushRemoveConn(s, callee, FALSE)
                ELSE b1
    IN IF call.caller \in DOMAIN b2.conns
         THEN LET b3 == Chk([b2 EXCEPT !.conns[call.caller].calls = Del(@, {call.cs})],
                               call.cs \in DOMAIN b2.conns[call.caller].calls, "ConnectionState::remove_call debug_assert (abort_call)")
                  b4 == Send(b3, call.caller, M_CallFunctionReply(call.cs, "Aborted", 0), 0)
              IN IF SendOk(b3, call.caller) THEN b4 ELSE PushRemoveConn(b4, call.caller, FALSE)
         ELSE b2

\* handle_event
HandleEvent(b0, ev, k, pick) ==
  LET b == [b0 EXCEPT !.out = <<>>] IN
  CASE ev.t = "new" ->
         LET b1 == Chk(b, ev.c \notin DOMAIN b.conns, "handle_event: NewConnection dup debug_assert") IN
         [b1 EXCEPT !.conns = Put(@, ev.c, NewConnState(ev.ver)), !.stats.conns = @ + 1]
    [] ev.t = "shut" -> PushRemoveConn(b, ev.c, FALSE)
    [] ev.t = "msg" -> LET r == HandleMessage(b, ev.c, ev.m, k, pick) IN
                       IF r.err THEN PushRemoveConn(r.b, ev.c, FALSE) ELSE r.b
    [] ev.t = "sdb" -> [SFold(LAMBDA acc, x : PushRemoveConn(acc, x, TRUE), b, DOMAIN b.conns) EXCEPT !.shutdownNow = TRUE]
    [] ev.t = "sdi" -> [b EXCEPT !.shutdownIdle = TRUE]
    [] ev.t = "sdc" -> PushRemoveConn(b, ev.c, TRUE)
    [] OTHER -> b

\* process_loop_result: the highest-priority non-empty list
WorkLeft(b) == \E i \in 1..Len(WorkOrder) : b.work[WorkOrder[i]] # EmptyFn
TopClass(b) == WorkOrder[CHOOSE i \in 1..Len(WorkOrder) :
                   b.work[WorkOrder[i]] # EmptyFn /\ \A j \in 1..(i - 1) : b.work[WorkOrder[j]] = EmptyFn]

\* processing of one popped item `w` of class `cl`
ProcessWork(b0, cl, w, pick) ==
  LET b == [b0 EXCEPT !.out = <<>>, !.work[cl] = BagDel(@, w)] IN
  CASE cl = "removeConn" -> ShutdownConnection(b, w.c, w.sd, pick)
    [] cl = "unsubscribeEvent" ->
         IF w.c \notin DOMAIN b.conns THEN b
         ELSE LET s == Send(b, w.c, M_UnsubscribeEvent(w.svc, w.ev), 0) IN
              IF SendOk(b, w.c) THEN s ELSE PushRemoveConn(s, w.c, FALSE)
    [] cl = "unsubscribeAllEvents" ->
         IF w.c \notin DOMAIN b.conns THEN b
         ELSE LET s == Send(b, w.c, M_UnsubscribeAllEvents(w.svc), 0) IN
              IF SendOk(b, w.c) THEN s ELSE PushRemoveConn(s, w.c, FALSE)
    [] cl = "serviceDestroyed" ->
         IF w.c \notin DOMAIN b.conns THEN b
         ELSE LET s == Send(b, w.c, M_ServiceDestroyed(w.svc), 0) IN
              IF SendOk(b, w.c) THEN s ELSE PushRemoveConn(s, w.c, FALSE)
    [] cl = "removeCall" ->
         IF w.c \notin DOMAIN b.conns THEN b
         ELSE LET b1 == Chk([b EXCEPT !.conns[w.c].calls = Del(@, {w.serial})],
                               w.serial \in DOMAIN b.conns[w.c].calls, "ConnectionState::remove_call debug_assert (remove_function_call)")
                  s == Send(b1, w.c, M_CallFunctionReply(w.serial, w.res, 0), 0) IN
              IF SendOk(b1, w.c) THEN s ELSE PushRemoveConn(s, w.c, FALSE)
    [] cl = "objCreated" -> EmitBusEvent(b, TRUE, "ObjectCreated", w.ouuid, w.ocookie, 0, 0)
    [] cl = "svcCreated" -> EmitBusEvent(b, FALSE, "ServiceCreated", w.ouuid, w.ocookie, w.suuid, w.scookie)
    [] cl = "svcDestroyed" -> EmitBusEvent(b, FALSE, "ServiceDestroyed", w.ouuid, w.ocookie, w.suuid, w.scookie)
    [] cl = "objDestroyed" -> EmitBusEvent(b, TRUE, "ObjectDestroyed", w.ouuid, w.ocookie, 0, 0)
    [] cl = "abortCall" -> AbortCall(b, w.serial, w.callee)

\* the work record of the trace for item `w` of class `cl`
WorkRec(cl, w, out) ==
  LET isBe == cl \in {"objCreated", "svcCreated", "svcDestroyed", "objDestroyed"}
      isSvcBe == cl \in {"svcCreated", "svcDestroyed"} IN
  [t |-> "work", w |-> cl,
   c |-> IF cl = "abortCall" THEN w.callee ELSE IF isBe THEN -1 ELSE w.c,
   svc |-> IF cl \in {"unsubscribeEvent", "unsubscribeAllEvents", "serviceDestroyed"} THEN w.svc ELSE 0,
   ev |-> IF cl = "unsubscribeEvent" THEN w.ev ELSE 0,
   serial |-> IF cl \in {"removeCall", "abortCall"} THEN w.serial ELSE 0,
   res |-> IF cl = "removeCall" THEN w.res ELSE "",
   sd |-> IF cl = "removeConn" THEN w.sd ELSE FALSE,
   be |-> CASE cl = "objCreated" -> "ObjectCreated" [] cl = "svcCreated" -> "ServiceCreated"
            [] cl = "svcDestroyed" -> "ServiceDestroyed" [] cl = "objDestroyed" -> "ObjectDestroyed" [] OTHER -> "",
   ouuid |-> IF isBe THEN w.ouuid ELSE 0, ocookie |-> IF isBe THEN w.ocookie ELSE 0,
   suuid |-> IF isSvcBe THEN w.suuid ELSE 0, scookie |-> IF isSvcBe THEN w.scookie ELSE 0,
   out |-> out]

\* the state dump of the idle record, in the trace's shape (sequences)
EndDump(e) == [st |-> CASE e.st = "U" -> "Unclaimed" [] e.st = "C" -> "Claimed" [] OTHER -> "Closed", owner |-> e.owner, cap |-> e.cap]
Dump(b) ==
  [ conns |-> [i \in 1..Cardinality(DOMAIN b.conns) |->
                 LET c == SetToSeq(DOMAIN b.conns)[i]  cs == b.conns[c] IN
                 [id |-> c, ver |-> cs.ver, objects |-> SetToSeq(cs.objects), allEvents |-> SetToSeq(cs.allEvents),
                  subs |-> SetToSeq(cs.subs), senders |-> SetToSeq(cs.senders), receivers |-> SetToSeq(cs.receivers),
                  listeners |-> SetToSeq(cs.listeners),
                  events |-> [j \in 1..Cardinality(DOMAIN cs.events) |->
                                LET k == SetToSeq(DOMAIN cs.events)[j] IN [svc |-> k, evs |-> SetToSeq(cs.events[k])]],
                  calls |-> [j \in 1..Cardinality(DOMAIN cs.calls) |->
                                LET s == SetToSeq(DOMAIN cs.calls)[j] IN [cs |-> s, bs |-> cs.calls[s].bs, callee |-> cs.calls[s].callee]]]],
    objUuids |-> [i \in 1..Cardinality(DOMAIN b.objUuids) |->
                    LET o == SetToSeq(DOMAIN b.objUuids)[i] IN [cookie |-> o, uuid |-> b.objUuids[o]]],
    objs |-> [i \in 1..Cardinality(DOMAIN b.objs) |->
                LET u == SetToSeq(DOMAIN b.objs)[i] IN
                [uuid |-> u, conn |-> b.objs[u].conn, cookie |-> b.objs[u].cookie, svcs |-> SetToSeq(b.objs[u].svcs)]],
    svcUuids |-> [i \in 1..Cardinality(DOMAIN b.svcUuids) |->
                    LET k == SetToSeq(DOMAIN b.svcUuids)[i]  ix == b.svcUuids[k] IN
                    [cookie |-> k, ouuid |-> ix.ouuid, ocookie |-> ix.ocookie, suuid |-> ix.suuid, ver |-> ix.ver, tid |-> ix.tid, sa |-> ix.sa]],
    svcs |-> [i \in 1..Cardinality(DOMAIN b.svcs) |->
                LET key == SetToSeq(DOMAIN b.svcs)[i]  s == b.svcs[key] IN
                [cookie |-> s.cookie, ouuid |-> key[1], suuid |-> key[2], ocookie |-> s.ocookie, calls |-> SetToSeq(s.calls),
                 events |-> [j \in 1..Cardinality(DOMAIN s.events) |->
                               LET e == SetToSeq(DOMAIN s.events)[j] IN [ev |-> e, conns |-> SetToSeq(s.events[e])]],
                 allEvents |-> SetToSeq(s.allEvents), subs |-> SetToSeq(s.subs)]],
    calls |-> [i \in 1..Cardinality(DOMAIN b.calls) |->
                 LET s == SetToSeq(DOMAIN b.calls)[i]  cl == b.calls[s] IN
                 [bs |-> s, cs |-> cl.cs, caller |-> cl.caller, ouuid |-> cl.ouuid, suuid |-> cl.suuid, aborted |-> cl.aborted]],
    chans |-> [i \in 1..Cardinality(DOMAIN b.chans) |->
                 LET k == SetToSeq(DOMAIN b.chans)[i] IN [cookie |-> k, snd |-> EndDump(b.chans[k].snd), rcv |-> EndDump(b.chans[k].rcv)]],
    lsts |-> [i \in 1..Cardinality(DOMAIN b.lsts) |->
                LET L == SetToSeq(DOMAIN b.lsts)[i]  l == b.lsts[L] IN
                [cookie |-> L, conn |-> l.conn, filters |-> SetToSeq(l.filters), scope |-> l.scope,
                 allObjs |-> l.allObjs, specificSvcs |-> l.specificSvcs]],
    intro |-> [i \in 1..Cardinality(DOMAIN b.intro) |->
                 LET t == SetToSeq(DOMAIN b.intro)[i]  e == b.intro[t] IN
                 [tid |-> t, conns |-> SetToSeq(e.conns), indexOk |-> TRUE, cached |-> e.cached, qconn |-> e.qconn,
                  qserial |-> e.qserial, pending |-> e.pending]],
    queryIntro |-> [i \in 1..Cardinality(DOMAIN b.queryIntro) |->
                      LET q == SetToSeq(DOMAIN b.queryIntro)[i] IN [serial |-> q, tid |-> b.queryIntro[q]]],
    shutdownNow |-> b.shutdownNow, shutdownIdle |-> b.shutdownIdle,
    stats |-> [conns |-> b.stats.conns, objs |-> b.stats.objs, svcs |-> b.stats.svcs, chans |-> b.stats.chans,
               lsts |-> b.stats.lsts, intros |-> Cardinality(DOMAIN b.intro)] ]

\* ---------------------------------------------------------------------------------------------
\* structural invariants (also what the C09 clauses of the observer see through the dump)
CookieIndexes(b) ==
  /\ \A o \in DOMAIN b.objUuids : b.objUuids[o] \in DOMAIN b.objs /\ b.objs[b.objUuids[o]].cookie = o
  /\ \A u \in DOMAIN b.objs : b.objs[u].cookie \in DOMAIN b.objUuids /\ b.objUuids[b.objs[u].cookie] = u
  /\ \A k \in DOMAIN b.svcUuids : <<b.svcUuids[k].ouuid, b.svcUuids[k].suuid>> \in DOMAIN b.svcs
                                  /\ b.svcs[<<b.svcUuids[k].ouuid, b.svcUuids[k].suuid>>].cookie = k
  /\ \A key \in DOMAIN b.svcs : b.svcs[key].cookie \in DOMAIN b.svcUuids
  /\ \A k \in DOMAIN b.svcUuids : b.svcUuids[k].ouuid \in DOMAIN b.objs /\ k \in b.objs[b.svcUuids[k].ouuid].svcs
MirrorsAgree(b) ==
  /\ \A key \in DOMAIN b.svcs : LET s == b.svcs[key] IN
       /\ \A e \in DOMAIN s.events : s.events[e] # {} /\ \A x \in s.events[e] :
            x \in DOMAIN b.conns /\ s.cookie \in DOMAIN b.conns[x].events /\ e \in b.conns[x].events[s.cookie]
       /\ \A x \in s.allEvents : x \in DOMAIN b.conns /\ s.cookie \in b.conns[x].allEvents
       /\ \A x \in s.subs : x \in DOMAIN b.conns /\ s.cookie \in b.conns[x].subs
  /\ \A x \in DOMAIN b.conns : LET cs == b.conns[x] IN
       /\ \A k \in DOMAIN cs.events : cs.events[k] # {} /\ k \in DOMAIN b.svcUuids
            /\ \A e \in cs.events[k] : LET ix == b.svcUuids[k] IN
                 e \in DOMAIN b.svcs[<<ix.ouuid, ix.suuid>>].events /\ x \in b.svcs[<<ix.ouuid, ix.suuid>>].events[e]
       /\ \A k \in cs.subs : k \in DOMAIN b.svcUuids
       \* all_events may keep cookies of destroyed services (StaleAllEvents); live ones must agree
       /\ \A k \in cs.allEvents : k \in DOMAIN b.svcUuids =>
            LET ix == b.svcUuids[k] IN x \in b.svcs[<<ix.ouuid, ix.suuid>>].allEvents
       /\ \A o \in cs.objects : o \in DOMAIN b.objUuids /\ b.objs[b.objUuids[o]].conn = x
       /\ \A k \in cs.senders : k \in DOMAIN b.chans /\ b.chans[k].snd.st = "C" /\ b.chans[k].snd.owner = x
       /\ \A k \in cs.receivers : k \in DOMAIN b.chans /\ b.chans[k].rcv.st = "C" /\ b.chans[k].rcv.owner = x
       /\ \A L \in cs.listeners : L \in DOMAIN b.lsts /\ b.lsts[L].conn = x
OwnersLive(b) ==
  /\ \A u \in DOMAIN b.objs : b.objs[u].conn \in DOMAIN b.conns /\ b.objs[u].cookie \in b.conns[b.objs[u].conn].objects
  /\ \A L \in DOMAIN b.lsts : b.lsts[L].conn \in DOMAIN b.conns
  /\ \A k \in DOMAIN b.chans :
       /\ b.chans[k].snd.st = "C" => b.chans[k].snd.owner \in DOMAIN b.conns /\ k \in b.conns[b.chans[k].snd.owner].senders
       /\ b.chans[k].rcv.st = "C" => b.chans[k].rcv.owner \in DOMAIN b.conns /\ k \in b.conns[b.chans[k].rcv.owner].receivers
       /\ b.chans[k].snd.st = "C" \/ b.chans[k].rcv.st = "C"
CallsIndexed(b) ==
  /\ \A s \in DOMAIN b.calls : LET cl == b.calls[s] IN
       /\ <<cl.ouuid, cl.suuid>> \in DOMAIN b.svcs /\ s \in b.svcs[<<cl.ouuid, cl.suuid>>].calls
       /\ ~cl.aborted => cl.caller \in DOMAIN b.conns /\ cl.cs \in DOMAIN b.conns[cl.caller].calls
                         /\ b.conns[cl.caller].calls[cl.cs].bs = s
  /\ \A key \in DOMAIN b.svcs : b.svcs[key].calls \subseteq DOMAIN b.calls
  /\ \A x \in DOMAIN b.conns : \A cs \in DOMAIN b.conns[x].calls :
       LET cd == b.conns[x].calls[cs] IN cd.bs \in DOMAIN b.calls /\ b.calls[cd.bs].caller = x /\ ~b.calls[cd.bs].aborted
CreditOrder(b) ==
  \A k \in DOMAIN b.chans : LET ch == b.chans[k] IN
    (ch.snd.st = "C" /\ ch.rcv.st = "C") =>
       /\ U!Leq(ch.snd.cap, ch.rcv.cap)
       /\ ~U!Overflows(ch.rcv.cap)
ListenerFlags(b) ==
  \A L \in DOMAIN b.lsts : LET l == b.lsts[L] IN
    /\ l.allObjs = (AnyObjectFilter \in l.filters)
    /\ l.specificSvcs => \A f \in l.filters : f.ft = "svc" => IsSpecificSvcFilter(f)
StatsExact(b) ==
  /\ b.stats.conns = Cardinality(DOMAIN b.conns) /\ b.stats.objs = Cardinality(DOMAIN b.objs)
  /\ b.stats.svcs = Cardinality(DOMAIN b.svcs) /\ b.stats.chans = Cardinality(DOMAIN b.chans)
  /\ b.stats.lsts = Cardinality(DOMAIN b.lsts)
IntroConsistent(b) ==
  /\ \A t \in DOMAIN b.intro : LET e == b.intro[t] IN
       /\ e.conns # {} /\ e.conns \subseteq DOMAIN b.conns
       /\ e.qconn # -1 => (e.qconn \in e.conns /\ e.qserial \in DOMAIN b.queryIntro /\ b.queryIntro[e.qserial] = t /\ ~e.cached)
       /\ \A i \in 1..Len(e.pending) : e.pending[i].conn \in DOMAIN b.conns
       /\ e.pending # <<>> => (e.qconn # -1 /\ ~e.cached)
  /\ \A q \in DOMAIN b.queryIntro : b.queryIntro[q] \in DOMAIN b.intro /\ b.intro[b.queryIntro[q]].qserial = q
                                     /\ b.intro[b.queryIntro[q]].qconn # -1
\* at a step boundary (work lists empty) everything holds at once
Consistent(b) == CookieIndexes(b) /\ MirrorsAgree(b) /\ OwnersLive(b) /\ CallsIndexed(b) /\ CreditOrder(b) /\ StatsExact(b) /\ IntroConsistent(b)
=============================================================================
