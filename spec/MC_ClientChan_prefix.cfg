SPECIFICATION Spec
CONSTANTS
  B = 4
  Clients = {0, 1}
  AppBudget = 6
  MaxCreates = 1
  AssertRegisteredOnClose = TRUE
INVARIANTS NoUnexpectedNoPanic BrokerNoPanic NobodyClosed Agreement
CHECK_DEADLOCK FALSE
