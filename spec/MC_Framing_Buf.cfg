SPECIFICATION Spec
CONSTANTS
  Machine = "buf"
  InSeqs <- Msgs3
  OutSeqs <- Msgs3
  Modes = {"free"}
  MinReserve = 4
  MaxReserve = 6
  Slack = 0
  Boundary = 8
  ChunkMode = "all"
  MaxChunks = 0
  Bounded = FALSE
  MaxCalls = 0
  MaxFaults = 0
  Emit = FALSE
INVARIANTS ObsOk BufInv
CHECK_DEADLOCK FALSE
