-------------------------- MODULE MC_ListenerApi --------------------------
(* Generator of the behaviours that listener-replay performs through the real BusListener API. *)
EXTENDS ListenerApi, Json
CONSTANTS MaxOps, MaxCookie, PrefixSel
MCFilters == {[ft |-> "obj", o |-> 0, s |-> 0], [ft |-> "obj", o |-> 1, s |-> 0],
              [ft |-> "svc", o |-> 0, s |-> 0], [ft |-> "svc", o |-> 1, s |-> 0], [ft |-> "svc", o |-> 0, s |-> 1]}
VARIABLES b, hist
vars == <<b, hist>>
Fresh == Cardinality(b.used) + 1
NoF == [ft |-> "", o |-> 0, s |-> 0]
Op(op, o, s, c, l, f, scope) == [op |-> op, o |-> o, s |-> s, c |-> c, l |-> l, f |-> f, scope |-> scope]
Ops == {Op("co", o, 0, Fresh, 0, NoF, "") : o \in ObjU} \cup {Op("do", o, 0, 0, 0, NoF, "") : o \in ObjU}
       \cup {Op("cs", o, s, Fresh, 0, NoF, "") : o \in ObjU, s \in SvcU} \cup {Op("ds", o, s, 0, 0, NoF, "") : o \in ObjU, s \in SvcU}
       \cup {Op(x, 0, 0, 0, l, f, "") : x \in {"ladd", "lrem"}, l \in Lst, f \in Filters}
       \cup {Op(x, 0, 0, 0, l, NoF, "") : x \in {"lclear", "lstop", "ldestroy"}, l \in Lst}
       \cup {Op("lstart", 0, 0, 0, l, NoF, sc) : l \in Lst, sc \in {"current", "new", "all"}}
\* scripted prefixes (performed by the driver like any other operation)
F(i) == CASE i = 1 -> [ft |-> "obj", o |-> 0, s |-> 0] [] i = 2 -> [ft |-> "obj", o |-> 1, s |-> 0]
          [] i = 3 -> [ft |-> "svc", o |-> 0, s |-> 0] [] i = 4 -> [ft |-> "svc", o |-> 1, s |-> 0] [] OTHER -> [ft |-> "svc", o |-> 0, s |-> 1]
Prefix == CASE PrefixSel = "two" ->      \* listener 1: object 1 only, started (all); listener 2: any object, started (new)
                 << Op("ladd", 0, 0, 0, 1, F(2), ""), Op("ladd", 0, 0, 0, 2, F(1), ""),
                    Op("lstart", 0, 0, 0, 1, NoF, "all"), Op("lstart", 0, 0, 0, 2, NoF, "new") >>
            [] PrefixSel = "svc" ->      \* object 1 with service 1 exists; listener 1: services of object 1; listener 2: any service, both idle
                 << Op("co", 1, 0, 1, 0, NoF, ""), Op("cs", 1, 1, 2, 0, NoF, ""),
                    Op("ladd", 0, 0, 0, 1, F(4), ""), Op("ladd", 0, 0, 0, 2, F(3), "") >>
            [] OTHER -> << >>
RECURSIVE Run(_, _)
Run(bb, i) == IF i > Len(Prefix) THEN bb ELSE Run(Do(bb, Prefix[i]), i + 1)
Init == b = Run(LInit, 1) /\ hist = Prefix
Next == \E op \in Ops : /\ Enabled(b, op) /\ (op.c # 0 => op.c <= MaxCookie) /\ Len(hist) < Len(Prefix) + MaxOps
                        /\ b' = Do(b, op) /\ hist' = Append(hist, op)
Spec == Init /\ [][Next]_vars
Emit == Len(hist) = Len(Prefix) + MaxOps => PrintT(<<"REPLAY", ToJson(hist)>>)
=============================================================================
