-------------------------- MODULE Trace_ValueCodec --------------------------
(* Validation of records produced by the REAL value codec (harness/crates/codec-driver) against
   the reference ValueCodec.tla.  One record per state; env TRACE = ndjson file, PROP = C01 | C07 | C13.

   Record kinds
     t = "verdict"  one input and what every real walker did with it (codec-verdicts)
     t = "enc"      bytes produced by the real encoder + the reference encoding of the same value
     t = "conv"     an input and what the real converter made of it (codec-vectors, mode c13)

   Property level findings are printed as <<"VIOLATION-AT", index, prop, why>>, conformance level
   ones (the real code differs from the reference where the property statement is silent) as
   <<"DRIFT-AT", index, prop, what>>.  The fold never stops; the postcondition establishes that
   every record was consumed. *)
EXTENDS ValueCodec, TLC, Json, IOUtils

\* the trace is read once (register 1): TLC does not cache definitions that depend on IOEnv
ASSUME TLCSet(1, ndJsonDeserialize(IOEnv.TRACE)) /\ TLCSet(2, IOEnv.PROP)
Rec == TLCGet(1)
Prop == TLCGet(2)

\* Peak allocation allowed for an input of n bytes.  On the unchanged tree the measured maximum is 183
\* bytes per input byte (Vec1 of 300 `None`: a Vec<Value> with 72-byte elements while it doubles; the
\* arithmetic worst case of that growth is 216 per byte, of a HashMap<u8, Value> about 140), so the
\* bound leaves a factor > 2; a length field trusted for a pre-allocation exceeds it by orders of magnitude.
AllocBound(n) == 512 * n + 16384

V(l, why) == PrintT(<<"VIOLATION-AT", l, Prop, why>>)
D(l, what) == PrintT(<<"DRIFT-AT", l, Prop, what>>)
\* Need(cond, report): report is evaluated (printed) when cond is false; always TRUE
Need(cond, report) == IF cond THEN TRUE ELSE report

SkipPaths(r) == <<<<"skip", r.skip>>, <<"len", r.len>>, <<"split", r.split>>, <<"opaque", r.opaque>>>>

C07Verdict(l, r) ==
  LET x == r.in  n == Len(x)
      rd == Dec(x, 1)  rk == Skip(x, 1)  kd == Kind(x)
      paths == SkipPaths(r)
  IN
  /\ \A i \in 1..4 : Need(paths[i][2].r # "panic", V(l, "panic in the skip path " \o paths[i][1]))
  /\ Need(r.dec.r # "panic", V(l, "panic in deserialize_as_value"))
  /\ Need(r.kind.r # "panic", V(l, "panic in kind()"))
  /\ Need(r.conv.r # "panic" /\ r.keep # "panic", V(l, "panic in convert()"))
  /\ Need(r.capture.r # "panic", V(l, "panic while capturing unknown fields / variant"))
  \* decodable => skippable, same length
  /\ r.dec.r = "ok" =>
       \A i \in 1..4 : Need(paths[i][2].r = "ok" /\ paths[i][2].n = r.dec.n,
                            V(l, "real decode ok(n) but skip path " \o paths[i][1] \o " gave " \o paths[i][2].r
                                 \o (IF paths[i][2].r = "ok" THEN " with another length" ELSE "")))
  \* skippable => decodable with the same length, or the only defect is invalid UTF-8
  /\ \A i \in 1..4 :
       paths[i][2].r = "ok" =>
         Need(\/ r.dec.r = "ok" /\ r.dec.n = paths[i][2].n
              \/ r.dec.r = "ok" /\ r.dec.n # paths[i][2].n       \* already reported by the clause above
              \/ r.dec.r = "invalid" /\ rd.e = "utf8",
              V(l, "real skip path " \o paths[i][1] \o " ok(n) but real decode gave " \o r.dec.r \o " which is not a UTF-8 error"))
  /\ \A i \in 1..4 : Need(paths[i][2].r # "ok" \/ paths[i][2].n >= 0,
                          V(l, "skip path " \o paths[i][1] \o " reports a length / bytes that are not a prefix of the input"))
  \* captured opaque sub-values
  \* (C07 binds capture to decoding only "whenever full decoding succeeds": an input that does not decode -- e.g.
  \* a struct whose duplicate field id hides an ill-formed field from the capture map -- is not judged)
  /\ Need(r.dec.r # "ok" \/ r.capture.r # "diff", V(l, "captured opaque sub-value does not re-decode to the same value: " \o r.capture.d))
  \* allocation
  /\ Need(r.alloc.dec <= AllocBound(n), V(l, "peak allocation of decoding exceeds 512*len+16384"))
  /\ Need(r.alloc.skip <= AllocBound(n), V(l, "peak allocation of skipping exceeds 512*len+16384"))
  \* conformance with the reference
  /\ Need((r.dec.r = "ok") = rd.ok /\ (rd.ok => r.dec.n = rd.n), D(l, "decode verdict: real " \o r.dec.r \o " reference " \o rd.e))
  /\ \A i \in 1..4 : Need((paths[i][2].r = "ok") = rk.ok /\ (rk.ok /\ paths[i][2].r = "ok" => paths[i][2].n = rk.n),
                          D(l, "skip verdict (" \o paths[i][1] \o "): real " \o paths[i][2].r \o " reference " \o rk.e))
  /\ Need((r.kind.r = "ok") = kd.ok /\ (kd.ok => r.kind.n = kd.k), D(l, "kind(): real " \o r.kind.r \o " reference " \o kd.e))
  /\ Need(r.dec.r = "ok" \/ rd.ok \/ r.dec.r = rd.e \/ (r.dec.r = "invalid" /\ rd.e = "utf8"),
          D(l, "error class of decode: real " \o r.dec.r \o " reference " \o rd.e))
  /\ Need(r.skip.r = "ok" \/ rk.ok \/ r.skip.r = rk.e, D(l, "error class of skip: real " \o r.skip.r \o " reference " \o rk.e))

C13Verdict(l, r) ==
  LET x == r.in  n == Len(x)
      rk == Skip(x, 1)  rc == ConvWalk(x)
      wellformed == rk.ok /\ rk.n = n                       \* the input is exactly one value (UTF-8 aside)
      ko == IF r.conv.r = "ok" THEN Skip(r.conv.out, 1) ELSE [ok |-> FALSE, e |-> "na"]
  IN
  /\ Need(r.conv.r # "panic" /\ r.keep # "panic" /\ r.conv.same # "panic" /\ r.conv.idem # "panic", V(l, "panic in convert()"))
  /\ Need(r.keep = "same", V(l, "conversion to the same epoch did not return the input unchanged: " \o r.keep))
  /\ wellformed => Need(r.conv.r = "ok", V(l, "conversion of a well-formed value failed with " \o r.conv.r))
  /\ (r.dec.r = "ok" /\ r.dec.n = n /\ r.conv.r = "ok") =>
       /\ Need(r.conv.same = "same", V(l, "the converted value does not decode to the same value: " \o r.conv.same))
       /\ Need(r.conv.idem = "same", V(l, "converting twice differs from converting once: " \o r.conv.idem))
  /\ r.conv.r = "ok" =>
       /\ Need(r.conv.kind >= 0 /\ r.conv.kind < 43, V(l, "the converted value still has a 1.20 kind at the top"))
       /\ Need(~ko.ok \/ ~ko.v2, V(l, "the converted value still contains a 1.20 container encoding"))
       /\ Need(ko.ok /\ ko.n = Len(r.conv.out), D(l, "the reference cannot walk the real converter's output: " \o ko.e))
       /\ Need(r.conv.same \in {"same", "both-fail", "diff"} \/ (r.dec.r = "ok" /\ r.dec.n = n),
               D(l, "conversion changed decodability: " \o r.conv.same))
  \* conformance with the reference
  /\ Need((r.conv.r = "ok") = rc.ok, D(l, "convert verdict: real " \o r.conv.r \o " reference " \o rc.e))
  /\ (r.conv.r = "ok" /\ rc.ok) => Need(r.conv.out = rc.b, D(l, "converted bytes differ from the reference's"))
  /\ Need(r.conv.r = "ok" \/ rc.ok \/ r.conv.r = rc.e, D(l, "error class of convert: real " \o r.conv.r \o " reference " \o rc.e))

EncRecord(l, r) ==
  LET a == Dec(r.in, 1)  b == Dec(r.ref, 1) IN
  /\ Need(a.ok /\ a.n = Len(r.in), D(l, "the reference decoder rejects the real encoder's bytes: " \o a.e))
  /\ (a.ok /\ b.ok) => Need(a.value = b.value, D(l, "the real encoder's bytes denote another value than the reference encoding"))
  /\ Need(Skip(r.in, 1).ok /\ Skip(r.in, 1).n = Len(r.in), D(l, "the reference skipper rejects the real encoder's bytes"))

ConvRecord(l, r) ==
  LET ko == Skip(r.out, 1)  rc == ConvWalk(r.in)  a == Dec(r.in, 1)  b == Dec(r.out, 1) IN
  /\ Need(~ko.ok \/ ~ko.v2, V(l, "the converted value still contains a 1.20 container encoding"))
  /\ Need(ko.ok /\ ko.n = Len(r.out), D(l, "the reference cannot walk the real converter's output: " \o ko.e))
  /\ Need(rc.ok /\ rc.b = r.out, D(l, "converted bytes differ from the reference's"))
  /\ (a.ok /\ b.ok) => Need(a.value = b.value, D(l, "by the reference, the converted bytes denote another value"))

Judge(l, r) ==
  CASE r.t = "verdict" /\ Prop = "C07" -> C07Verdict(l, r)
    [] r.t = "verdict" /\ Prop = "C13" -> C13Verdict(l, r)
    [] r.t = "enc" -> EncRecord(l, r)
    [] r.t = "conv" -> ConvRecord(l, r)
    [] OTHER -> TRUE

VARIABLE l
Init == l = 1
\* (Judge is evaluated as an expression, inside IF: in action position TLC would split its disjunctions)
Next == /\ l <= Len(Rec)
        /\ l' = l + (IF Judge(l, Rec[l]) THEN 1 ELSE 1)
Spec == Init /\ [][Next]_l

Accepted == \/ TLCGet("stats").diameter - 1 = Len(Rec)
            \/ Print(<<"TRACE-NOT-CONSUMED", TLCGet("stats").diameter - 1, Len(Rec)>>, FALSE)
=============================================================================
