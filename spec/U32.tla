------------------------------- MODULE U32 -------------------------------
(* Unsigned arithmetic that TLC (32-bit signed integers) can do on values up to and beyond
   u32::MAX.  A number is a pair <<hi, lo>> in base B with 0 <= lo < B; hi is an ordinary TLC
   natural, so values up to B * 2^31 are representable.  In model checking B is small (4: values
   0..15 fill a "u32" of two base-4 digits, overflow at 16); in trace validation B = 65536 and the
   trace writer splits every u32 into the two limbs. *)
EXTENDS Naturals

CONSTANT B                       \* base of a limb

Zero == <<0, 0>>
One  == <<0, 1>>
Max  == <<B - 1, B - 1>>         \* "u32::MAX" of this base

IsZero(a) == a[1] = 0 /\ a[2] = 0
Norm(hi, lo) == <<hi + (lo \div B), lo % B>>
Add(a, b) == Norm(a[1] + b[1], a[2] + b[2])
Leq(a, b) == a[1] < b[1] \/ (a[1] = b[1] /\ a[2] <= b[2])
Lt(a, b)  == a[1] < b[1] \/ (a[1] = b[1] /\ a[2] < b[2])
Gt(a, b)  == Lt(b, a)
Overflows(a) == Gt(a, Max)       \* does not fit the machine word
Dec(a) == IF a[2] > 0 THEN <<a[1], a[2] - 1>> ELSE <<a[1] - 1, B - 1>>     \* requires ~IsZero(a)
\* a - b for b <= a
Sub(a, b) == IF a[2] >= b[2] THEN <<a[1] - b[1], a[2] - b[2]>>
                             ELSE <<a[1] - b[1] - 1, a[2] + B - b[2]>>
FromNat(n) == <<n \div B, n % B>>
ToNat(a) == a[1] * B + a[2]      \* only for small values
Seq2(a) == <<a[1], a[2]>>        \* JSON arrays arrive as sequences already; identity helper
=============================================================================
