SPECIFICATION Spec
CONSTANTS
  Thorough = FALSE
  Seed0 = 1
  Emit = TRUE
  Part = "all"
INVARIANT Theorems
CHECK_DEADLOCK FALSE
