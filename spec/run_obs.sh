#!/bin/sh
# usage: run_obs.sh trace.ndjson  -> prints the decisive lines
TRACE=$1 JAVA_TOOL_OPTIONS="-Xss1g -Dtlc2.tool.queue.IStateQueue=StateDeque" timeout 900 tlc -workers 1 -metadir /tmp/vw/tlc/$$ -cleanup -noGenerateSpecTE -config /verif/spec/Trace_Obs.cfg /verif/spec/Trace_Obs.tla 2>&1 | grep -E -A4 "VIOLATION-AT|NOT-CONSUMED|Error:|states generated" | grep -v "^State\|^/\\\\" | head -${2:-12}
