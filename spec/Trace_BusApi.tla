---------------------------- MODULE Trace_BusApi ----------------------------
(* Validates what real clients observed (log of `api-replay`, env TRACE) against BusApi.tla: every
   logged step must be the operation of the specification with exactly the specification's
   observable outcome.  Findings are printed as <<"VIOLATION-AT", index, property, why>> (C04 for
   event delivery, C02 for call outcomes, C06 otherwise); the rest of that run is skipped. *)
EXTENDS BusApi, Json, IOUtils

Rec == ndJsonDeserialize(IOEnv.TRACE)
VARIABLES l, b, ok
vars == <<l, b, ok>>

Range(q) == {q[i] : i \in 1..Len(q)}
LoggedEvents(r, c) == LET m == {e \in Range(r.events) : e.c = c} IN
                      IF m = {} THEN <<>> ELSE LET it == (CHOOSE e \in m : TRUE).items IN [i \in 1..Len(it) |-> <<it[i].ev, it[i].k>>]
LoggedResults(r) == {[t |-> x.t, c |-> x.c, res |-> x.res, val |-> x.val] : x \in Range(r.results)}
No(p, w, b2) == [ok |-> FALSE, b |-> b2, prop |-> p, why |-> w]

Judge(r) ==
  LET op == [op |-> r.op, c |-> r.c, ev |-> r.ev, how |-> r.how] IN
  IF ~Enabled(b, op) THEN No("DRIFT", "the specification does not allow this operation here: " \o r.op, b)
  ELSE LET b2 == Do(b, op)
           expectRes == IF r.op \in {"sub", "unsub", "suball", "unsuball"} THEN SubRes(b) ELSE "ok" IN
       IF r.res # expectRes THEN No("C06", "the operation " \o r.op \o " returned " \o r.res \o " instead of " \o expectRes, b2)
       ELSE IF r.op = "serve" /\ r.served # Head(b.queue).t THEN No("C02", "the owner was handed the calls in a different order than they were made", b2)
       ELSE IF \E c \in Users : LoggedEvents(r, c) # b2.obs.events[c]
         THEN No("C04", "a proxy received " \o ToString(LoggedEvents(r, CHOOSE c \in Users : LoggedEvents(r, c) # b2.obs.events[c]))
                        \o " instead of " \o ToString(b2.obs.events[CHOOSE c \in Users : LoggedEvents(r, c) # b2.obs.events[c]])
                        \o " (events reach exactly the proxies subscribed to them)", b2)
       ELSE IF Range(r.ended) # b2.obs.ended THEN No("C04", "the event streams that ended are not those of the destroyed service", b2)
       ELSE IF LoggedResults(r) # b2.obs.results
         THEN No("C02+C06", "calls resolved with " \o ToString(LoggedResults(r)) \o " instead of " \o ToString(b2.obs.results), b2)
       ELSE [ok |-> TRUE, b |-> b2, prop |-> "", why |-> ""]

Init == l = 1 /\ b = BInit /\ ok = TRUE
Next ==
  /\ l <= Len(Rec)
  /\ LET r == Rec[l] IN
     CASE r.t = "reset" -> b' = BInit /\ ok' = TRUE
       [] r.t = "step" /\ ok ->
            LET j == Judge(r) IN
            /\ b' = j.b /\ ok' = j.ok
            /\ ~j.ok => IF j.prop = "DRIFT" THEN PrintT(<<"DRIFT-AT", l, j.why>>) ELSE PrintT(<<"VIOLATION-AT", l, j.prop, j.why>>)
       [] r.t = "panic" /\ ok -> /\ UNCHANGED b /\ ok' = FALSE
                                 /\ PrintT(<<"VIOLATION-AT", l, "C06", "a task panicked: " \o r.msg>>)
       [] r.t = "incomplete" /\ ok -> /\ UNCHANGED b /\ ok' = FALSE
                                      /\ PrintT(<<"VIOLATION-AT", l, "C06", "the scripted operations did not complete (an awaited operation hangs)">>)
       [] OTHER -> UNCHANGED <<b, ok>>
  /\ l' = l + 1
Spec == Init /\ [][Next]_vars
Accepted == \/ TLCGet("stats").diameter - 1 = Len(Rec)
            \/ Print(<<"TRACE-NOT-CONSUMED", TLCGet("stats").diameter - 1, Len(Rec)>>, FALSE)
=============================================================================
