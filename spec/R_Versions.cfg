SPECIFICATION RSpec
CONSTANTS
  B = 4
  Conns = {0, 1}
  Versions = {14, 17, 20}
  ObjUuids = {101, 102}
  SvcUuids = {201}
  Events = {0}
  Fns = {0}
  CSerials = {0}
  Payloads = {1, 9}
  TypeIds = {301}
  Caps <- CapsOne
  MaxCookie = 3
  InqBound = 2
  Kinds = {"AbortFunctionCall", "CreateService2", "QueryServiceInfo", "SubscribeService", "UnsubscribeService", "SubscribeAllEvents", "UnsubscribeAllEvents", "CallFunction2", "CallFunction", "CallFunctionReply", "EmitEvent", "SubscribeEvent"}
  Faults = {}
  WrongKinds = {}
  MsgBudget = 2
  InitSerial = 0
  Senders = {0, 1}
  PoolKinds = {"live", "dead", "never"}
  ScriptSel = "svc"
  V0 = 14
  V1 = 20

  FaultBudget = 1
INVARIANTS Emit
CHECK_DEADLOCK FALSE
