----------------------------- MODULE ClientStop -----------------------------
(* The client's run loop around a stop (aldrin/src/client.rs run / drain_transport,
   client/select.rs): one poll of `Client::run` performs select() steps until a select finds no
   ready source and returns Pending -- only then can any other task (the broker, the application)
   run.  Sources, in the rotation of select.rs: Transport (a message has arrived), Handle (a request
   of the application), AbortFunctionCall (the reply future of a pending call was dropped),
   TransportFlushed.

   Checked: a poll always ends (NoSpin: the number of select() steps since the last Pending is
   bounded), and once the stop is complete the run future returns (Returns).

   AsIs = TRUE is the drain loop before /repo b29ecdd: it ignored the AbortFunctionCall source, the
   call stayed Pending and was reported ready again by every select -- NoSpin fails (the poll never
   ends on a single-threaded executor; MC_ClientStop_asis.cfg).  AsIs = FALSE marks the call aborted
   (the repair): both properties hold (MC_ClientStop.cfg). *)
EXTENDS Naturals, FiniteSets

CONSTANTS Calls,        \* serials of calls that may be pending
          AsIs,         \* the drain loop ignores AbortFunctionCall
          MaxSpin       \* bound that stands for "for ever" in NoSpin

VARIABLES mode,         \* "run" | "drain" | "done"
          call,         \* serial -> "none" | "pending" | "dropped" (reply future dropped, still Pending in the map) | "aborted"
          inbox,        \* messages that have arrived: subset of {"shutdown"}
          reqs,         \* requests of the application: subset of {"shutdown"}
          flush,        \* the transport has unflushed output
          waitSd,       \* drain: still waiting for the broker's Shutdown
          spin          \* select() steps since the last Pending
vars == <<mode, call, inbox, reqs, flush, waitSd, spin>>

Init == /\ mode = "run" /\ call \in [Calls -> {"none", "pending"}] /\ inbox = {} /\ reqs = {} /\ flush = FALSE
        /\ waitSd = FALSE /\ spin = 0

AbortReady == \E s \in Calls : call[s] = "dropped"
Ready == inbox # {} \/ reqs # {} \/ AbortReady \/ flush

\* ---- the environment runs only while the client is parked (spin = 0 after a Pending) ----
AppDropsReply == /\ spin = 0 /\ mode # "done"
                 /\ \E s \in Calls : call[s] = "pending" /\ call' = [call EXCEPT ![s] = "dropped"]
                 /\ UNCHANGED <<mode, inbox, reqs, flush, waitSd, spin>>
AppRequestsShutdown == /\ spin = 0 /\ mode = "run" /\ reqs' = reqs \cup {"shutdown"}
                       /\ UNCHANGED <<mode, call, inbox, flush, waitSd, spin>>
BrokerAnswersShutdown == /\ spin = 0 /\ mode = "drain" /\ waitSd /\ ~flush /\ inbox' = inbox \cup {"shutdown"}
                         /\ UNCHANGED <<mode, call, reqs, flush, waitSd, spin>>

\* ---- one select() step of the client ----
Step(next) == spin' = spin + 1 /\ next
SelTransport == /\ inbox # {} /\ mode = "drain"
                /\ Step(/\ inbox' = {} /\ waitSd' = FALSE /\ UNCHANGED <<mode, call, reqs, flush>>)
SelHandle == /\ reqs # {} /\ mode = "run"
             \* the shutdown request: the client sends its own Shutdown and starts to drain
             /\ Step(/\ reqs' = {} /\ mode' = "drain" /\ flush' = TRUE /\ waitSd' = TRUE /\ UNCHANGED <<call, inbox>>)
SelAbort == /\ AbortReady
            /\ \E s \in Calls : call[s] = "dropped" /\
                 Step(IF mode = "drain" /\ AsIs
                        THEN UNCHANGED <<mode, call, inbox, reqs, flush, waitSd>>          \* ignored: stays ready
                        ELSE /\ call' = [call EXCEPT ![s] = "aborted"]
                             /\ flush' = (flush \/ mode = "run")                           \* run: AbortFunctionCall is sent
                             /\ UNCHANGED <<mode, inbox, reqs, waitSd>>)
SelFlushed == /\ flush /\ Step(/\ flush' = FALSE /\ UNCHANGED <<mode, call, inbox, reqs, waitSd>>)
\* no source is ready: select returns Pending, the poll ends
Pending == /\ ~Ready /\ spin > 0 /\ mode # "done" /\ spin' = 0 /\ UNCHANGED <<mode, call, inbox, reqs, flush, waitSd>>
\* the drain loop's condition fails: run returns
Return == /\ mode = "drain" /\ ~waitSd /\ ~flush /\ mode' = "done" /\ spin' = 0
          /\ UNCHANGED <<call, inbox, reqs, flush, waitSd>>

ClientStep == SelTransport \/ SelHandle \/ SelAbort \/ SelFlushed \/ Pending \/ Return
Next == AppDropsReply \/ AppRequestsShutdown \/ BrokerAnswersShutdown \/ ClientStep
Spec == Init /\ [][Next]_vars /\ WF_vars(ClientStep) /\ WF_vars(BrokerAnswersShutdown)

NoSpin == spin <= MaxSpin
\* once a shutdown was requested the run future returns
Returns == (reqs # {}) ~> (mode = "done")
=============================================================================
