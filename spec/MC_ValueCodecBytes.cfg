SPECIFICATION Spec
CONSTANTS
  MaxLen = 4
  Alphabet = {0, 1, 2, 3, 13, 14, 17, 18, 19, 27, 29, 39, 40, 41, 43, 44, 45, 53, 55, 65, 66, 195, 252, 255}
INVARIANT Theorems
CHECK_DEADLOCK FALSE
