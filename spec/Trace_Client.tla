---------------------------- MODULE Trace_Client ----------------------------
(* Folds Obs_Client over a client-level event log (env TRACE); see Trace_Obs.tla for the idiom. *)
EXTENDS Obs_Client, TLC, Json, IOUtils

Rec == ndJsonDeserialize(IOEnv.TRACE)
VARIABLES l, obs
vars == <<l, obs>>
Init == l = 1 /\ obs = CInit
Next == /\ l <= Len(Rec)
        /\ LET o2 == CStep(obs, Rec[l]) IN
             /\ obs' = o2
             /\ (obs.ok /\ ~o2.ok) => PrintT(<<"VIOLATION-AT", l, o2.prop, o2.why>>)
        /\ l' = l + 1
Spec == Init /\ [][Next]_vars
Accepted == \/ TLCGet("stats").diameter - 1 = Len(Rec)
            \/ Print(<<"TRACE-NOT-CONSUMED", TLCGet("stats").diameter - 1, Len(Rec)>>, FALSE)
=============================================================================
