//! msg-vectors: replays the TLC-enumerated message vectors of spec/MessageCodec_MC.tla on the real
//! message codec, mutates the resulting frames, and records the real parser's verdicts for
//! validation by TLC (spec/MessageCodec_Trace.tla).
//!
//!   msg-vectors run --vectors F --seed N [--verdicts OUT] [--p-acc X] [--p-rej Y]
//!                   [--p-aimed Z] [--random-per-vector R] [--random-frames N] [--batch B]
//!                   [--extra-frames FILE.json]
//!   msg-vectors replay --file REPLAY.json
//!
//! Property level (reported as "violations"; the statement of C08):
//!   V1 serialize_message(m) fails or panics for an enumerated message
//!   V2 its length prefix differs from its length
//!   V3 deserialize_message(serialize_message(m)) is not m with identical payload bytes
//!   V4 the real parser panics on some frame
//!   V5 it accepts a frame whose prefix differs from its length
//!   V6 it accepts a frame whose kind byte is unknown (>= 63)
//!   V7 it accepts a valid frame with bytes appended (prefix adjusted): bytes left over
//!   V8 something it accepts does not re-serialise to a frame that parses to the same message
//!   V9 it does not accept the reference encoding EncMsg(m) as m
//! Conformance level ("drifts"): the real encoder's bytes differ from EncMsg(m).  All other
//! reference/implementation comparisons on mutated frames are made by TLC on the verdict file.
//!
//! The last stdout line is a JSON summary.

use aldrin_core::message::{Message, MessageOps};
use msgcodec_driver::*;
use serde_json::{json, Value};
use std::collections::{BTreeMap, HashSet};
use std::io::{BufRead, BufReader, BufWriter, Write};

fn bytes_of(v: &Value) -> Result<Vec<u8>, String> {
    v.as_array()
        .ok_or("not an array")?
        .iter()
        .map(|x| {
            x.as_u64()
                .filter(|b| *b < 256)
                .map(|b| b as u8)
                .ok_or_else(|| "not a byte".to_string())
        })
        .collect()
}

struct Vector {
    k: u8,
    val: Vec<u8>,
    fs: Vec<Vec<u8>>,
    enc: Vec<u8>,
    /// (offset, length, type 0 vi / 1 uu / 2 disc, number of alternatives)
    cells: Vec<(usize, usize, u8, usize)>,
    raw: Value,
}

fn parse_vector(line: &str) -> Result<Vector, String> {
    let raw: Value = serde_json::from_str(line).map_err(|e| e.to_string())?;
    let k = raw["k"].as_u64().ok_or("k")? as u8;
    let val = bytes_of(&raw["val"])?;
    let fs = raw["fs"]
        .as_array()
        .ok_or("fs")?
        .iter()
        .map(bytes_of)
        .collect::<Result<Vec<_>, _>>()?;
    let enc = bytes_of(&raw["enc"])?;
    let mut cells = vec![];
    for c in raw["cells"].as_array().ok_or("cells")? {
        let c = c.as_array().ok_or("cell")?;
        let g = |i: usize| c.get(i).and_then(|x| x.as_u64()).ok_or("cell entry");
        cells.push((g(0)? as usize, g(1)? as usize, g(2)? as u8, g(3)? as usize));
    }
    Ok(Vector {
        k,
        val,
        fs,
        enc,
        cells,
        raw,
    })
}

#[derive(Default)]
struct Findings {
    count: u64,
    by_why: BTreeMap<String, u64>,
    first: Vec<Value>,
}

impl Findings {
    fn add(&mut self, why: &str, case: Value) {
        self.count += 1;
        let n = self.by_why.entry(why.to_string()).or_insert(0);
        *n += 1;
        if *n == 1 && self.first.len() < 12 {
            self.first.push(json!({"why": why, "case": case}));
        }
    }
}

struct Ctx {
    rng: Rng,
    viol: Findings,
    drift: Findings,
    out: Option<BufWriter<std::fs::File>>,
    batch: usize,
    b_fr: Vec<Value>,
    b_ok: Vec<Value>,
    b_rs: Vec<Value>,
    b_tg: Vec<Value>,
    p_acc: f64,
    p_rej: f64,
    p_aimed: f64,
    frames: u64,
    accepted: u64,
    accepted_by_tag: BTreeMap<String, u64>,
    frames_by_tag: BTreeMap<String, u64>,
    recorded: u64,
    batches: u64,
    panics: u64,
}

impl Ctx {
    fn flush(&mut self) {
        if self.b_fr.is_empty() {
            return;
        }
        if let Some(out) = self.out.as_mut() {
            let rec = json!({"fr": std::mem::take(&mut self.b_fr), "ok": std::mem::take(&mut self.b_ok),
                             "rs": std::mem::take(&mut self.b_rs), "tg": std::mem::take(&mut self.b_tg)});
            writeln!(out, "{}", rec).expect("write verdicts");
            self.batches += 1;
        }
    }

    fn record(&mut self, frame: &[u8], ok: bool, rs: &[u8], tag: &str, force: bool) {
        if self.out.is_none() {
            return;
        }
        // aimed mutants (force) are sampled with p_aimed, the bulk ones by outcome
        let p = if force { self.p_aimed } else if ok { self.p_acc } else { self.p_rej };
        if p < 1.0 && !self.rng.chance(p) {
            return;
        }
        self.b_fr.push(json!(frame));
        self.b_ok.push(json!(if ok { 1 } else { 0 }));
        self.b_rs.push(json!(rs));
        self.b_tg.push(json!(tag));
        self.recorded += 1;
        if self.b_fr.len() >= self.batch {
            self.flush();
        }
    }

    /// All frame-level oracles on one frame.  Returns whether the real parser accepted it.
    fn judge_frame(&mut self, frame: &[u8], tag: &str, force_record: bool) -> bool {
        self.frames += 1;
        *self.frames_by_tag.entry(tag.to_string()).or_insert(0) += 1;
        let case = || json!({"kind": "frame", "frame": frame, "tag": tag});
        let m = match real_parse(frame) {
            Ran::Panic(p) => {
                self.panics += 1;
                self.viol.add(&format!("V4 real parser panicked: {}", first_line(&p)), case());
                return false;
            }
            Ran::Err(_) => {
                self.record(frame, false, &[], tag, force_record);
                return false;
            }
            Ran::Ok(m) => m,
        };
        self.accepted += 1;
        *self.accepted_by_tag.entry(tag.to_string()).or_insert(0) += 1;
        if !prefix_matches(frame) {
            self.viol.add("V5 real parser accepted a frame whose length prefix differs from its length", case());
        }
        if frame.len() >= 5 && frame[4] >= NUM_KINDS {
            self.viol.add("V6 real parser accepted a frame with an unknown kind", case());
        }
        if tag == "append" {
            self.viol.add("V7 real parser accepted a valid frame with bytes appended (bytes left over)", case());
        }
        let mut rs = vec![];
        match real_serialize(&m) {
            Ran::Panic(p) => {
                self.panics += 1;
                self.viol.add(&format!("V8 re-serialising an accepted message panicked: {}", first_line(&p)), case());
            }
            Ran::Err(e) => self.viol.add(&format!("V8 re-serialising an accepted message failed: {e}"), case()),
            Ran::Ok(r) => {
                if !prefix_matches(&r) {
                    self.viol.add("V8 re-serialised frame has a wrong length prefix", case());
                }
                match real_parse(&r) {
                    Ran::Ok(m2) if same(&m2, &m) => {}
                    Ran::Ok(_) => self.viol.add("V8 re-serialised frame parses to a different message", case()),
                    Ran::Err(e) => self.viol.add(&format!("V8 re-serialised frame is rejected: {e}"), case()),
                    Ran::Panic(p) => {
                        self.panics += 1;
                        self.viol.add(&format!("V4 real parser panicked on a re-serialised frame: {}", first_line(&p)), case());
                    }
                }
                rs = r;
            }
        }
        self.record(frame, true, &rs, tag, force_record);
        true
    }
}

fn first_line(s: &str) -> String {
    // numbers are replaced so that one defect yields one reason
    let mut out = String::new();
    for c in s.lines().next().unwrap_or("").chars().take(160) {
        let c = if c.is_ascii_digit() { '#' } else { c };
        if !(c == '#' && out.ends_with('#')) {
            out.push(c);
        }
    }
    out
}

fn fix_prefix(mut x: Vec<u8>) -> Vec<u8> {
    if x.len() >= 4 {
        let n = (x.len() as u32).to_le_bytes();
        x[..4].copy_from_slice(&n);
    }
    x
}

const INTERESTING: [u8; 14] = [0, 1, 2, 3, 5, 6, 62, 63, 250, 251, 252, 253, 254, 255];

/// Structured and random mutants of a valid frame `s`; `cells` may be empty (then no aimed ones).
fn mutate(ctx: &mut Ctx, s: &[u8], cells: &[(usize, usize, u8, usize)], has_value: bool, randoms: usize) {
    let n = s.len();
    // length prefix
    for p in 0..4.min(n) {
        for d in [1u8, 255, 128] {
            let mut x = s.to_vec();
            x[p] = x[p].wrapping_add(d);
            ctx.judge_frame(&x, "prefix", false);
        }
    }
    // kind
    if n >= 5 {
        for k2 in 0..=255u8 {
            if k2 != s[4] {
                let mut x = s.to_vec();
                x[4] = k2;
                ctx.judge_frame(&x, if k2 >= NUM_KINDS { "kind-unknown" } else { "kind-known" }, false);
            }
        }
    }
    // discriminants and varints (aimed with the reference's cell map)
    for &(off, len, t, na) in cells {
        if off + len > n {
            continue;
        }
        if t == 2 {
            for d in [na as u8, na as u8 + 1, 128, 255] {
                let mut x = s.to_vec();
                x[off] = d;
                ctx.judge_frame(&x, "disc-undef", true);
            }
            for d in 0..na as u8 {
                if d != s[off] {
                    let mut x = s.to_vec();
                    x[off] = d;
                    ctx.judge_frame(&x, "disc-alt", true);
                }
            }
        } else if t == 0 {
            // the same number in every wider varint form
            let mut v = [0u8; 4];
            let minw;
            if s[off] > 251 {
                let w = (s[off] - 251) as usize;
                if w + 1 != len {
                    continue;
                }
                v[..w].copy_from_slice(&s[off + 1..off + 1 + w]);
                minw = w;
            } else {
                v[0] = s[off];
                minw = 1;
            }
            for w in minw..=4 {
                let mut x = s[..off].to_vec();
                x.push(251 + w as u8);
                x.extend_from_slice(&v[..w]);
                x.extend_from_slice(&s[off + len..]);
                ctx.judge_frame(&fix_prefix(x), "vi-wide", true);
            }
            // and a varint prefix announcing more bytes than the canonical form
            for b in [252u8, 253, 254, 255] {
                let mut x = s.to_vec();
                x[off] = b;
                ctx.judge_frame(&x, "vi-prefix", false);
            }
        }
    }
    // append / remove a cell
    for b in [0u8, 1, 255] {
        let mut x = s.to_vec();
        x.push(b);
        ctx.judge_frame(&x, "append-nofix", false);
        ctx.judge_frame(&fix_prefix(x), "append", true);
    }
    {
        let mut x = s.to_vec();
        let extra = 2 + ctx.rng.below(7) as usize;
        for _ in 0..extra {
            let b = if ctx.rng.chance(0.5) {
                INTERESTING[ctx.rng.below(INTERESTING.len() as u64) as usize]
            } else {
                ctx.rng.below(256) as u8
            };
            x.push(b);
        }
        ctx.judge_frame(&fix_prefix(x), "append", true);
    }
    if n >= 1 {
        ctx.judge_frame(&s[..n - 1], "remove-nofix", false);
        ctx.judge_frame(&fix_prefix(s[..n - 1].to_vec()), "remove", true);
    }
    // every truncation, prefix adjusted
    for l in 0..n {
        ctx.judge_frame(&fix_prefix(s[..l].to_vec()), "truncate", false);
    }
    // value length
    if has_value && n >= 9 {
        let mut x = s.to_vec();
        x[5..9].copy_from_slice(&[0, 0, 0, 0]);
        ctx.judge_frame(&x, "vlen-zero", true);
        for d in [1u8, 255] {
            let mut x = s.to_vec();
            x[5] = x[5].wrapping_add(d);
            ctx.judge_frame(&x, "vlen", true);
        }
        let mut x = s.to_vec();
        x[8] = 0x80;
        ctx.judge_frame(&x, "vlen-huge", false);
        // the value cut out altogether (valueLen = 0, prefix adjusted)
        let vl = u32::from_le_bytes([s[5], s[6], s[7], s[8]]) as usize;
        if 9 + vl <= n {
            let mut x = s[..5].to_vec();
            x.extend_from_slice(&[0, 0, 0, 0]);
            x.extend_from_slice(&s[9 + vl..]);
            ctx.judge_frame(&fix_prefix(x), "value-empty", true);
        }
    }
    // every single byte from the kind on
    for p in 4..n {
        for d in [1u8, 0x80] {
            let mut x = s.to_vec();
            x[p] = if d == 1 { x[p].wrapping_add(1) } else { x[p] ^ 0x80 };
            ctx.judge_frame(&x, "byte", false);
        }
    }
    // seeded random mutations (1..3 edits)
    for _ in 0..randoms {
        let mut x = s.to_vec();
        let edits = 1 + ctx.rng.below(3);
        let mut keep_prefix = true;
        for _ in 0..edits {
            if x.is_empty() {
                break;
            }
            let p = ctx.rng.below(x.len() as u64) as usize;
            match ctx.rng.below(7) {
                0 => x[p] ^= 1 << ctx.rng.below(8),
                1 => x[p] = ctx.rng.below(256) as u8,
                2 => x[p] = INTERESTING[ctx.rng.below(INTERESTING.len() as u64) as usize],
                3 => {
                    x.insert(p, INTERESTING[ctx.rng.below(INTERESTING.len() as u64) as usize]);
                }
                4 => {
                    x.remove(p);
                }
                5 => {
                    let q = ctx.rng.below(x.len() as u64) as usize;
                    x.swap(p, q);
                }
                _ => {
                    let l = ctx.rng.below(x.len() as u64 + 1) as usize;
                    x.truncate(l);
                }
            }
        }
        if ctx.rng.chance(0.1) {
            keep_prefix = false;
        }
        let x = if keep_prefix { fix_prefix(x) } else { x };
        ctx.judge_frame(&x, "random", false);
    }
}

/// A frame that is not derived from a valid one: random bytes shaped like a frame.
fn random_frame(rng: &mut Rng) -> Vec<u8> {
    let len = rng.below(72) as usize;
    let mut x: Vec<u8> = (0..len)
        .map(|_| match rng.below(4) {
            0 => rng.below(256) as u8,
            1 => rng.below(7) as u8,
            _ => INTERESTING[rng.below(INTERESTING.len() as u64) as usize],
        })
        .collect();
    if rng.chance(0.9) {
        x = fix_prefix(x);
    }
    if x.len() >= 5 && rng.chance(0.9) {
        x[4] = rng.below(NUM_KINDS as u64 + 2) as u8;
    }
    if x.len() >= 10 && rng.chance(0.7) {
        // a plausible value length for the value-carrying kinds
        let max = (x.len() - 9) as u64;
        let vl = 1 + rng.below(max.min(6));
        x[5..9].copy_from_slice(&(vl as u32).to_le_bytes());
    }
    x
}

fn signature(v: &Vector) -> String {
    // kind, the chosen alternatives, the encoded width of every varint, the payload length class
    let mut s = format!("{}", v.k);
    for (c, (_, len, t, _)) in v.fs.iter().zip(v.cells.iter()) {
        match t {
            2 => s.push_str(&format!("/d{}", c[0])),
            0 => s.push_str(&format!("/w{}", len)),
            _ => s.push_str("/u"),
        }
    }
    s.push_str(&format!("/p{}", v.val.len().min(3)));
    s
}

/// The vector-level oracles.  Returns the real frame if there is one.
fn judge_vector(ctx: &mut Ctx, v: &Vector, agree: &mut u64, roundtrip: &mut u64) -> Result<Option<(Vec<u8>, bool)>, String> {
    let case = || json!({"kind": "vector", "vector": v.raw});
    let m = build(v.k, &v.val, &v.fs).map_err(|e| format!("cannot build vector {}: {e}", v.raw))?;
    let has_value = m.kind().has_value();
    let s = match real_serialize(&m) {
        Ran::Ok(s) => s,
        Ran::Err(e) => {
            ctx.viol.add(&format!("V1 serialize_message failed: {e}"), case());
            return Ok(None);
        }
        Ran::Panic(p) => {
            ctx.panics += 1;
            ctx.viol.add(&format!("V1 serialize_message panicked: {}", first_line(&p)), case());
            return Ok(None);
        }
    };
    if !prefix_matches(&s) {
        ctx.viol.add("V2 length prefix of the serialized message differs from its length", case());
    }
    let mut ok = true;
    match real_parse(&s) {
        Ran::Ok(m2) => {
            if m2 != m {
                ok = false;
                ctx.viol.add("V3 parsing the serialized message yields a different message", case());
            } else if payload(&m2) != payload(&m) || (m.value().is_some() && payload(&m2).as_deref() != Some(&v.val[..])) {
                ok = false;
                ctx.viol.add("V3 parsing the serialized message yields a different payload", case());
            }
        }
        Ran::Err(e) => {
            ok = false;
            ctx.viol.add(&format!("V3 the serialized message is rejected by the parser: {e}"), case());
        }
        Ran::Panic(p) => {
            ok = false;
            ctx.panics += 1;
            ctx.viol.add(&format!("V4 real parser panicked on a serialized message: {}", first_line(&p)), case());
        }
    }
    if ok {
        *roundtrip += 1;
    }
    if s == v.enc {
        *agree += 1;
    } else {
        ctx.drift.add("real encoder output differs from EncMsg(m)", case());
        // what other peers send: the reference encoding must be accepted as m
        match real_parse(&v.enc) {
            Ran::Ok(m3) if same(&m3, &m) => {}
            Ran::Ok(_) => ctx.viol.add("V9 the reference encoding EncMsg(m) is accepted as a different message", case()),
            Ran::Err(e) => ctx.viol.add(&format!("V9 the reference encoding EncMsg(m) is rejected: {e}"), case()),
            Ran::Panic(p) => {
                ctx.panics += 1;
                ctx.viol.add(&format!("V4 real parser panicked on EncMsg(m): {}", first_line(&p)), case());
            }
        }
    }
    Ok(Some((s, has_value)))
}

fn arg<'a>(args: &'a [String], name: &str) -> Option<&'a str> {
    args.iter().position(|a| a == name).and_then(|i| args.get(i + 1)).map(|s| s.as_str())
}

fn summary(ctx: &Ctx, extra: Value) -> Value {
    let mut s = json!({
        "frames": ctx.frames, "accepted_frames": ctx.accepted, "verdict_records": ctx.recorded,
        "verdict_batches": ctx.batches, "panics": ctx.panics,
        "frames_by_tag": ctx.frames_by_tag, "accepted_by_tag": ctx.accepted_by_tag,
        "violation_count": ctx.viol.count, "violations_by_why": ctx.viol.by_why, "violations": ctx.viol.first,
        "drift_count": ctx.drift.count, "drifts_by_why": ctx.drift.by_why, "drifts": ctx.drift.first,
    });
    for (k, v) in extra.as_object().unwrap() {
        s[k] = v.clone();
    }
    s
}

fn main() {
    std::panic::set_hook(Box::new(|_| {}));
    let args: Vec<String> = std::env::args().collect();
    let mode = args.get(1).map(|s| s.as_str()).unwrap_or("");
    let seed: u64 = arg(&args, "--seed").and_then(|s| s.parse().ok()).unwrap_or(1);
    let mut ctx = Ctx {
        rng: Rng(seed.wrapping_mul(0xA24B_AED4_963E_E407) ^ 0xC08),
        viol: Findings::default(),
        drift: Findings::default(),
        out: None,
        batch: arg(&args, "--batch").and_then(|s| s.parse().ok()).unwrap_or(250),
        b_fr: vec![],
        b_ok: vec![],
        b_rs: vec![],
        b_tg: vec![],
        p_acc: arg(&args, "--p-acc").and_then(|s| s.parse().ok()).unwrap_or(1.0),
        p_rej: arg(&args, "--p-rej").and_then(|s| s.parse().ok()).unwrap_or(0.05),
        p_aimed: arg(&args, "--p-aimed").and_then(|s| s.parse().ok()).unwrap_or(1.0),
        frames: 0,
        accepted: 0,
        accepted_by_tag: BTreeMap::new(),
        frames_by_tag: BTreeMap::new(),
        recorded: 0,
        batches: 0,
        panics: 0,
    };
    if let Some(p) = arg(&args, "--verdicts") {
        ctx.out = Some(BufWriter::new(std::fs::File::create(p).expect("create verdict file")));
    }
    match mode {
        "run" => {
            let path = arg(&args, "--vectors").expect("--vectors");
            let randoms: usize = arg(&args, "--random-per-vector").and_then(|s| s.parse().ok()).unwrap_or(20);
            let random_frames: u64 = arg(&args, "--random-frames").and_then(|s| s.parse().ok()).unwrap_or(100_000);
            let f = BufReader::new(std::fs::File::open(path).expect("open vectors"));
            let (mut n, mut agree, mut roundtrip) = (0u64, 0u64, 0u64);
            let mut kinds = HashSet::new();
            let mut sigs = HashSet::new();
            let mut samples = vec![];
            for line in f.lines() {
                let line = line.expect("read vectors");
                if line.trim().is_empty() {
                    continue;
                }
                let v = match parse_vector(&line) {
                    Ok(v) => v,
                    Err(e) => {
                        eprintln!("bad vector line: {e}");
                        std::process::exit(3);
                    }
                };
                n += 1;
                kinds.insert(v.k);
                if sigs.insert(signature(&v)) && samples.len() < 6 && (sigs.len() % 97 == 1) {
                    samples.push(json!({"k": v.k, "name": v.raw["name"], "fs": v.fs, "val_len": v.val.len(), "enc": v.enc}));
                }
                match judge_vector(&mut ctx, &v, &mut agree, &mut roundtrip) {
                    Err(e) => {
                        eprintln!("{e}");
                        std::process::exit(3);
                    }
                    Ok(None) => {}
                    Ok(Some((s, has_value))) => {
                        ctx.judge_frame(&s, "valid", true);
                        let cells = if s == v.enc { &v.cells[..] } else { &[] };
                        mutate(&mut ctx, &s, cells, has_value, randoms);
                    }
                }
            }
            // frames given by the caller (the golden vectors of the repository's own tests)
            let mut golden = 0u64;
            let mut golden_same = 0u64;
            if let Some(p) = arg(&args, "--extra-frames") {
                let frames: Value = serde_json::from_reader(std::fs::File::open(p).expect("open extra frames")).expect("extra frames json");
                let keep = ctx.p_aimed;
                ctx.p_aimed = 1.0;
                for f in frames.as_array().expect("extra frames: array") {
                    let f = bytes_of(f).expect("extra frame");
                    golden += 1;
                    if ctx.judge_frame(&f, "golden", true) {
                        if let Ran::Ok(m) = real_parse(&f) {
                            if let Ran::Ok(r) = real_serialize(&m) {
                                if r == f {
                                    golden_same += 1;
                                }
                            }
                        }
                    }
                }
                ctx.p_aimed = keep;
            }
            for _ in 0..random_frames {
                let x = random_frame(&mut ctx.rng);
                ctx.judge_frame(&x, "rand-frame", false);
            }
            ctx.flush();
            if let Some(out) = ctx.out.as_mut() {
                out.flush().expect("flush verdicts");
            }
            let s = summary(&ctx, json!({"vectors": n, "byte_agreement": agree, "roundtrip_ok": roundtrip,
                "kinds": kinds.len(), "distinct_signatures": sigs.len(), "samples": samples,
                "golden": golden, "golden_reserialise_identical": golden_same}));
            println!("{}", s);
        }
        "replay" => {
            let path = arg(&args, "--file").expect("--file");
            let payload: Value = serde_json::from_reader(std::fs::File::open(path).expect("open replay")).expect("replay json");
            let case = &payload["case"];
            match case["kind"].as_str() {
                Some("vector") => {
                    let v = parse_vector(&case["vector"].to_string()).expect("vector in replay file");
                    let (mut a, mut r) = (0, 0);
                    match judge_vector(&mut ctx, &v, &mut a, &mut r) {
                        Err(e) => {
                            eprintln!("{e}");
                            std::process::exit(3);
                        }
                        Ok(None) => {}
                        Ok(Some((s, has_value))) => {
                            ctx.judge_frame(&s, "valid", true);
                            let cells = if s == v.enc { &v.cells[..] } else { &[] };
                            mutate(&mut ctx, &s, cells, has_value, 20);
                        }
                    }
                }
                Some("frame") => {
                    let frame = bytes_of(&case["frame"]).expect("frame in replay file");
                    let tag = case["tag"].as_str().unwrap_or("replay").to_string();
                    ctx.judge_frame(&frame, &tag, true);
                }
                _ => {
                    eprintln!("replay file without a case");
                    std::process::exit(3);
                }
            }
            ctx.flush();
            println!("{}", summary(&ctx, json!({})));
        }
        _ => {
            eprintln!("usage: msg-vectors run --vectors F --seed N [--verdicts OUT] ... | replay --file F");
            std::process::exit(3);
        }
    }
    // keep Message/MessageOps in scope for readers: the oracles above are about these two functions
    let _ = |m: Message| m.serialize_message();
}
