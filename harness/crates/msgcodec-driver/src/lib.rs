//! C08 driver library: builds real `aldrin_core::message::Message` values from the abstract
//! messages enumerated by TLC (spec/MessageCodec.tla: `[k, val, fs]`, `fs` = flat sequence of
//! cells: `[d]` discriminant, 4 little-endian bytes of a u32, 16 bytes of a uuid) and runs the real
//! codec under `catch_unwind`.  No reference decoder lives here: the reference is the TLA+ module;
//! this crate only executes the real code and moves data.

use aldrin_core::message::*;
use aldrin_core::{
    BusEvent, BusListenerCookie, BusListenerFilter, BusListenerScope, BusListenerServiceFilter,
    ChannelCookie, ChannelEnd, ChannelEndWithCapacity, ObjectCookie, ObjectId, ObjectUuid,
    SerializedValue, ServiceCookie, ServiceId, ServiceUuid, TypeId,
};
use bytes::BytesMut;
use std::panic::{catch_unwind, AssertUnwindSafe};
use uuid::Uuid;

/// Number of message kinds (core/src/message/kind.rs: 0..=62).
pub const NUM_KINDS: u8 = 63;

/// A `SerializedValue` with arbitrary content, obtained through the public API by parsing a
/// hand-assembled SendItem frame (same recipe as broker-drivers' `raw_value`).
pub fn raw_value(content: &[u8]) -> Result<SerializedValue, String> {
    if content.is_empty() {
        return Err("empty value".into());
    }
    let total = 4 + 1 + 4 + content.len() + 16;
    let mut buf = BytesMut::with_capacity(total);
    buf.extend_from_slice(&(total as u32).to_le_bytes());
    buf.extend_from_slice(&[27u8]); // MessageKind::SendItem
    buf.extend_from_slice(&(content.len() as u32).to_le_bytes());
    buf.extend_from_slice(content);
    buf.extend_from_slice(&[0u8; 16]);
    match catch_unwind(AssertUnwindSafe(|| SendItem::deserialize_message(buf))) {
        Ok(Ok(m)) => Ok(m.value),
        Ok(Err(e)) => Err(format!("cannot build raw value: {e:?}")),
        Err(_) => Err("cannot build raw value: panic".into()),
    }
}

struct Cells<'a> {
    cells: &'a [Vec<u8>],
    pos: usize,
}

impl<'a> Cells<'a> {
    fn next(&mut self, len: usize) -> Result<&'a [u8], String> {
        let c = self
            .cells
            .get(self.pos)
            .ok_or_else(|| format!("cell {} missing", self.pos))?;
        if c.len() != len {
            return Err(format!("cell {} has {} bytes, expected {}", self.pos, c.len(), len));
        }
        self.pos += 1;
        Ok(c)
    }
    fn vi(&mut self) -> Result<u32, String> {
        let c = self.next(4)?;
        Ok(u32::from_le_bytes([c[0], c[1], c[2], c[3]]))
    }
    fn uu(&mut self) -> Result<Uuid, String> {
        let c = self.next(16)?;
        let mut b = [0u8; 16];
        b.copy_from_slice(c);
        Ok(Uuid::from_bytes(b))
    }
    fn d(&mut self) -> Result<u8, String> {
        Ok(self.next(1)?[0])
    }
    fn opt_vi(&mut self) -> Result<Option<u32>, String> {
        match self.d()? {
            0 => Ok(None),
            1 => Ok(Some(self.vi()?)),
            d => Err(format!("option discriminant {d}")),
        }
    }
    fn end(&mut self) -> Result<ChannelEnd, String> {
        match self.d()? {
            0 => Ok(ChannelEnd::Sender),
            1 => Ok(ChannelEnd::Receiver),
            d => Err(format!("channel end discriminant {d}")),
        }
    }
    fn end_cap(&mut self) -> Result<ChannelEndWithCapacity, String> {
        match self.d()? {
            0 => Ok(ChannelEndWithCapacity::Sender),
            1 => Ok(ChannelEndWithCapacity::Receiver(self.vi()?)),
            d => Err(format!("channel end discriminant {d}")),
        }
    }
    fn filter(&mut self) -> Result<BusListenerFilter, String> {
        Ok(match self.d()? {
            0 => BusListenerFilter::Object(None),
            1 => BusListenerFilter::Object(Some(ObjectUuid(self.uu()?))),
            2 => BusListenerFilter::Service(BusListenerServiceFilter {
                object: None,
                service: None,
            }),
            3 => BusListenerFilter::Service(BusListenerServiceFilter {
                object: Some(ObjectUuid(self.uu()?)),
                service: None,
            }),
            4 => BusListenerFilter::Service(BusListenerServiceFilter {
                object: None,
                service: Some(ServiceUuid(self.uu()?)),
            }),
            5 => {
                let object = Some(ObjectUuid(self.uu()?));
                let service = Some(ServiceUuid(self.uu()?));
                BusListenerFilter::Service(BusListenerServiceFilter { object, service })
            }
            d => return Err(format!("filter discriminant {d}")),
        })
    }
    fn object_id(&mut self) -> Result<ObjectId, String> {
        let uuid = ObjectUuid(self.uu()?);
        let cookie = ObjectCookie(self.uu()?);
        Ok(ObjectId::new(uuid, cookie))
    }
    fn service_id(&mut self) -> Result<ServiceId, String> {
        let object = self.object_id()?;
        let uuid = ServiceUuid(self.uu()?);
        let cookie = ServiceCookie(self.uu()?);
        Ok(ServiceId::new(object, uuid, cookie))
    }
    fn finish(&self) -> Result<(), String> {
        if self.pos == self.cells.len() {
            Ok(())
        } else {
            Err(format!("{} cells left over", self.cells.len() - self.pos))
        }
    }
}

macro_rules! plain_enum {
    ($d:expr, $what:literal, $($n:literal => $v:expr),+) => {
        match $d { $($n => $v,)+ d => return Err(format!(concat!($what, " discriminant {}"), d)) }
    };
}

/// Builds the real message for the abstract message `(k, val, fs)`.
pub fn build(k: u8, val: &[u8], fs: &[Vec<u8>]) -> Result<Message, String> {
    let mut c = Cells { cells: fs, pos: 0 };
    let value = || raw_value(val);
    let no_value = || -> Result<(), String> {
        if val.is_empty() {
            Ok(())
        } else {
            Err("value given for an alternative without value".to_string())
        }
    };
    let m: Message = match k {
        0 => Connect {
            version: c.vi()?,
            value: value()?,
        }
        .into(),
        1 => match c.d()? {
            0 => ConnectReply::Ok(value()?),
            1 => {
                no_value()?;
                ConnectReply::IncompatibleVersion(c.vi()?)
            }
            2 => ConnectReply::Rejected(value()?),
            d => return Err(format!("ConnectReply discriminant {d}")),
        }
        .into(),
        2 => Shutdown.into(),
        3 => CreateObject {
            serial: c.vi()?,
            uuid: ObjectUuid(c.uu()?),
        }
        .into(),
        4 => CreateObjectReply {
            serial: c.vi()?,
            result: match c.d()? {
                0 => CreateObjectResult::Ok(ObjectCookie(c.uu()?)),
                1 => CreateObjectResult::DuplicateObject,
                d => return Err(format!("CreateObjectReply discriminant {d}")),
            },
        }
        .into(),
        5 => DestroyObject {
            serial: c.vi()?,
            cookie: ObjectCookie(c.uu()?),
        }
        .into(),
        6 => DestroyObjectReply {
            serial: c.vi()?,
            result: plain_enum!(c.d()?, "DestroyObjectResult",
                0 => DestroyObjectResult::Ok,
                1 => DestroyObjectResult::InvalidObject,
                2 => DestroyObjectResult::ForeignObject),
        }
        .into(),
        7 => CreateService {
            serial: c.vi()?,
            object_cookie: ObjectCookie(c.uu()?),
            uuid: ServiceUuid(c.uu()?),
            version: c.vi()?,
        }
        .into(),
        8 => CreateServiceReply {
            serial: c.vi()?,
            result: match c.d()? {
                0 => CreateServiceResult::Ok(ServiceCookie(c.uu()?)),
                1 => CreateServiceResult::DuplicateService,
                2 => CreateServiceResult::InvalidObject,
                3 => CreateServiceResult::ForeignObject,
                d => return Err(format!("CreateServiceReply discriminant {d}")),
            },
        }
        .into(),
        9 => DestroyService {
            serial: c.vi()?,
            cookie: ServiceCookie(c.uu()?),
        }
        .into(),
        10 => DestroyServiceReply {
            serial: c.vi()?,
            result: plain_enum!(c.d()?, "DestroyServiceResult",
                0 => DestroyServiceResult::Ok,
                1 => DestroyServiceResult::InvalidService,
                2 => DestroyServiceResult::ForeignObject),
        }
        .into(),
        11 => CallFunction {
            serial: c.vi()?,
            service_cookie: ServiceCookie(c.uu()?),
            function: c.vi()?,
            value: value()?,
        }
        .into(),
        12 => {
            let serial = c.vi()?;
            let d = c.d()?;
            let result = match d {
                0 => CallFunctionResult::Ok(value()?),
                1 => CallFunctionResult::Err(value()?),
                2 => CallFunctionResult::Aborted,
                3 => CallFunctionResult::InvalidService,
                4 => CallFunctionResult::InvalidFunction,
                5 => CallFunctionResult::InvalidArgs,
                d => return Err(format!("CallFunctionReply discriminant {d}")),
            };
            if d >= 2 {
                no_value()?;
            }
            CallFunctionReply { serial, result }.into()
        }
        13 => SubscribeEvent {
            serial: c.opt_vi()?,
            service_cookie: ServiceCookie(c.uu()?),
            event: c.vi()?,
        }
        .into(),
        14 => SubscribeEventReply {
            serial: c.vi()?,
            result: plain_enum!(c.d()?, "SubscribeEventResult",
                0 => SubscribeEventResult::Ok,
                1 => SubscribeEventResult::InvalidService),
        }
        .into(),
        15 => UnsubscribeEvent {
            service_cookie: ServiceCookie(c.uu()?),
            event: c.vi()?,
        }
        .into(),
        16 => EmitEvent {
            service_cookie: ServiceCookie(c.uu()?),
            event: c.vi()?,
            value: value()?,
        }
        .into(),
        17 => QueryServiceVersion {
            serial: c.vi()?,
            cookie: ServiceCookie(c.uu()?),
        }
        .into(),
        18 => QueryServiceVersionReply {
            serial: c.vi()?,
            result: match c.d()? {
                0 => QueryServiceVersionResult::Ok(c.vi()?),
                1 => QueryServiceVersionResult::InvalidService,
                d => return Err(format!("QueryServiceVersionReply discriminant {d}")),
            },
        }
        .into(),
        19 => CreateChannel {
            serial: c.vi()?,
            end: c.end_cap()?,
        }
        .into(),
        20 => CreateChannelReply {
            serial: c.vi()?,
            cookie: ChannelCookie(c.uu()?),
        }
        .into(),
        21 => CloseChannelEnd {
            serial: c.vi()?,
            cookie: ChannelCookie(c.uu()?),
            end: c.end()?,
        }
        .into(),
        22 => CloseChannelEndReply {
            serial: c.vi()?,
            result: plain_enum!(c.d()?, "CloseChannelEndResult",
                0 => CloseChannelEndResult::Ok,
                1 => CloseChannelEndResult::InvalidChannel,
                2 => CloseChannelEndResult::ForeignChannel),
        }
        .into(),
        23 => ChannelEndClosed {
            cookie: ChannelCookie(c.uu()?),
            end: c.end()?,
        }
        .into(),
        24 => ClaimChannelEnd {
            serial: c.vi()?,
            cookie: ChannelCookie(c.uu()?),
            end: c.end_cap()?,
        }
        .into(),
        25 => ClaimChannelEndReply {
            serial: c.vi()?,
            result: match c.d()? {
                0 => ClaimChannelEndResult::SenderClaimed(c.vi()?),
                1 => ClaimChannelEndResult::ReceiverClaimed,
                2 => ClaimChannelEndResult::InvalidChannel,
                3 => ClaimChannelEndResult::AlreadyClaimed,
                d => return Err(format!("ClaimChannelEndReply discriminant {d}")),
            },
        }
        .into(),
        26 => ChannelEndClaimed {
            cookie: ChannelCookie(c.uu()?),
            end: c.end_cap()?,
        }
        .into(),
        27 => SendItem {
            cookie: ChannelCookie(c.uu()?),
            value: value()?,
        }
        .into(),
        28 => ItemReceived {
            cookie: ChannelCookie(c.uu()?),
            value: value()?,
        }
        .into(),
        29 => AddChannelCapacity {
            cookie: ChannelCookie(c.uu()?),
            capacity: c.vi()?,
        }
        .into(),
        30 => Sync { serial: c.vi()? }.into(),
        31 => SyncReply { serial: c.vi()? }.into(),
        32 => ServiceDestroyed {
            service_cookie: ServiceCookie(c.uu()?),
        }
        .into(),
        33 => CreateBusListener { serial: c.vi()? }.into(),
        34 => CreateBusListenerReply {
            serial: c.vi()?,
            cookie: BusListenerCookie(c.uu()?),
        }
        .into(),
        35 => DestroyBusListener {
            serial: c.vi()?,
            cookie: BusListenerCookie(c.uu()?),
        }
        .into(),
        36 => DestroyBusListenerReply {
            serial: c.vi()?,
            result: plain_enum!(c.d()?, "DestroyBusListenerResult",
                0 => DestroyBusListenerResult::Ok,
                1 => DestroyBusListenerResult::InvalidBusListener),
        }
        .into(),
        37 => AddBusListenerFilter {
            cookie: BusListenerCookie(c.uu()?),
            filter: c.filter()?,
        }
        .into(),
        38 => RemoveBusListenerFilter {
            cookie: BusListenerCookie(c.uu()?),
            filter: c.filter()?,
        }
        .into(),
        39 => ClearBusListenerFilters {
            cookie: BusListenerCookie(c.uu()?),
        }
        .into(),
        40 => StartBusListener {
            serial: c.vi()?,
            cookie: BusListenerCookie(c.uu()?),
            scope: plain_enum!(c.d()?, "BusListenerScope",
                0 => BusListenerScope::Current,
                1 => BusListenerScope::New,
                2 => BusListenerScope::All),
        }
        .into(),
        41 => StartBusListenerReply {
            serial: c.vi()?,
            result: plain_enum!(c.d()?, "StartBusListenerResult",
                0 => StartBusListenerResult::Ok,
                1 => StartBusListenerResult::InvalidBusListener,
                2 => StartBusListenerResult::AlreadyStarted),
        }
        .into(),
        42 => StopBusListener {
            serial: c.vi()?,
            cookie: BusListenerCookie(c.uu()?),
        }
        .into(),
        43 => StopBusListenerReply {
            serial: c.vi()?,
            result: plain_enum!(c.d()?, "StopBusListenerResult",
                0 => StopBusListenerResult::Ok,
                1 => StopBusListenerResult::InvalidBusListener,
                2 => StopBusListenerResult::NotStarted),
        }
        .into(),
        44 => {
            let cookie = match c.d()? {
                0 => None,
                1 => Some(BusListenerCookie(c.uu()?)),
                d => return Err(format!("EmitBusEvent cookie discriminant {d}")),
            };
            let event = match c.d()? {
                0 => BusEvent::ObjectCreated(c.object_id()?),
                1 => BusEvent::ObjectDestroyed(c.object_id()?),
                2 => BusEvent::ServiceCreated(c.service_id()?),
                3 => BusEvent::ServiceDestroyed(c.service_id()?),
                d => return Err(format!("BusEvent discriminant {d}")),
            };
            EmitBusEvent { cookie, event }.into()
        }
        45 => BusListenerCurrentFinished {
            cookie: BusListenerCookie(c.uu()?),
        }
        .into(),
        46 => Connect2 {
            major_version: c.vi()?,
            minor_version: c.vi()?,
            value: value()?,
        }
        .into(),
        47 => ConnectReply2 {
            result: match c.d()? {
                0 => ConnectResult::Ok(c.vi()?),
                1 => ConnectResult::Rejected,
                2 => ConnectResult::IncompatibleVersion,
                d => return Err(format!("ConnectReply2 discriminant {d}")),
            },
            value: value()?,
        }
        .into(),
        48 => AbortFunctionCall { serial: c.vi()? }.into(),
        49 => RegisterIntrospection { value: value()? }.into(),
        50 => QueryIntrospection {
            serial: c.vi()?,
            type_id: TypeId(c.uu()?),
        }
        .into(),
        51 => {
            let serial = c.vi()?;
            let result = match c.d()? {
                0 => QueryIntrospectionResult::Ok(value()?),
                1 => {
                    no_value()?;
                    QueryIntrospectionResult::Unavailable
                }
                d => return Err(format!("QueryIntrospectionReply discriminant {d}")),
            };
            QueryIntrospectionReply { serial, result }.into()
        }
        52 => CreateService2 {
            serial: c.vi()?,
            object_cookie: ObjectCookie(c.uu()?),
            uuid: ServiceUuid(c.uu()?),
            value: value()?,
        }
        .into(),
        53 => QueryServiceInfo {
            serial: c.vi()?,
            cookie: ServiceCookie(c.uu()?),
        }
        .into(),
        54 => {
            let serial = c.vi()?;
            let result = match c.d()? {
                0 => QueryServiceInfoResult::Ok(value()?),
                1 => {
                    no_value()?;
                    QueryServiceInfoResult::InvalidService
                }
                d => return Err(format!("QueryServiceInfoReply discriminant {d}")),
            };
            QueryServiceInfoReply { serial, result }.into()
        }
        55 => SubscribeService {
            serial: c.vi()?,
            service_cookie: ServiceCookie(c.uu()?),
        }
        .into(),
        56 => SubscribeServiceReply {
            serial: c.vi()?,
            result: plain_enum!(c.d()?, "SubscribeServiceResult",
                0 => SubscribeServiceResult::Ok,
                1 => SubscribeServiceResult::InvalidService),
        }
        .into(),
        57 => UnsubscribeService {
            service_cookie: ServiceCookie(c.uu()?),
        }
        .into(),
        58 => SubscribeAllEvents {
            serial: c.opt_vi()?,
            service_cookie: ServiceCookie(c.uu()?),
        }
        .into(),
        59 => SubscribeAllEventsReply {
            serial: c.vi()?,
            result: plain_enum!(c.d()?, "SubscribeAllEventsResult",
                0 => SubscribeAllEventsResult::Ok,
                1 => SubscribeAllEventsResult::InvalidService,
                2 => SubscribeAllEventsResult::NotSupported),
        }
        .into(),
        60 => UnsubscribeAllEvents {
            serial: c.opt_vi()?,
            service_cookie: ServiceCookie(c.uu()?),
        }
        .into(),
        61 => UnsubscribeAllEventsReply {
            serial: c.vi()?,
            result: plain_enum!(c.d()?, "UnsubscribeAllEventsResult",
                0 => UnsubscribeAllEventsResult::Ok,
                1 => UnsubscribeAllEventsResult::InvalidService,
                2 => UnsubscribeAllEventsResult::NotSupported),
        }
        .into(),
        62 => CallFunction2 {
            serial: c.vi()?,
            service_cookie: ServiceCookie(c.uu()?),
            function: c.vi()?,
            version: c.opt_vi()?,
            value: value()?,
        }
        .into(),
        k => return Err(format!("unknown kind {k}")),
    };
    c.finish()?;
    if m.value().is_none() {
        no_value()?;
    }
    Ok(m)
}

/// Outcome of running a piece of the real code.
pub enum Ran<T> {
    Ok(T),
    Err(String),
    Panic(String),
}

fn panic_text(p: Box<dyn std::any::Any + Send>) -> String {
    if let Some(s) = p.downcast_ref::<&str>() {
        s.to_string()
    } else if let Some(s) = p.downcast_ref::<String>() {
        s.clone()
    } else {
        "panic".to_string()
    }
}

pub fn real_serialize(m: &Message) -> Ran<Vec<u8>> {
    let m = m.clone();
    match catch_unwind(AssertUnwindSafe(move || m.serialize_message())) {
        Ok(Ok(b)) => Ran::Ok(b.to_vec()),
        Ok(Err(e)) => Ran::Err(format!("{e:?}")),
        Err(p) => Ran::Panic(panic_text(p)),
    }
}

pub fn real_parse(frame: &[u8]) -> Ran<Message> {
    let buf = BytesMut::from(frame);
    match catch_unwind(AssertUnwindSafe(move || Message::deserialize_message(buf))) {
        Ok(Ok(m)) => Ran::Ok(m),
        Ok(Err(e)) => Ran::Err(format!("{e:?}")),
        Err(p) => Ran::Panic(panic_text(p)),
    }
}

/// The payload bytes of a message (None if it carries none).
pub fn payload(m: &Message) -> Option<Vec<u8>> {
    m.value().map(|v| {
        let b: &[u8] = v.as_ref();
        b.to_vec()
    })
}

/// Equality "equal message with identical payload".
pub fn same(a: &Message, b: &Message) -> bool {
    a == b && payload(a) == payload(b)
}

pub fn prefix_matches(frame: &[u8]) -> bool {
    frame.len() >= 4
        && u32::from_le_bytes([frame[0], frame[1], frame[2], frame[3]]) as usize == frame.len()
}

/// splitmix64
pub struct Rng(pub u64);

impl Rng {
    pub fn next(&mut self) -> u64 {
        self.0 = self.0.wrapping_add(0x9E37_79B9_7F4A_7C15);
        let mut z = self.0;
        z = (z ^ (z >> 30)).wrapping_mul(0xBF58_476D_1CE4_E5B9);
        z = (z ^ (z >> 27)).wrapping_mul(0x94D0_49BB_1331_11EB);
        z ^ (z >> 31)
    }
    pub fn below(&mut self, n: u64) -> u64 {
        if n == 0 {
            0
        } else {
            self.next() % n
        }
    }
    pub fn chance(&mut self, p: f64) -> bool {
        (self.next() >> 11) as f64 / ((1u64 << 53) as f64) < p
    }
}
