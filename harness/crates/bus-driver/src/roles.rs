//! Application roles: closed programs over the public client API. Every blocking wait of a role
//! has an enabling action that some role of the same program is certain to perform, so at
//! quiescence every role must have finished (DESIGN 6, C06).

use crate::{err_class, select2, yields, Either, Latch, Log, Mailbox};
use aldrin::low_level::{Proxy, Service, ServiceInfo, UnboundReceiver, UnboundSender};
use aldrin::{Error, Handle, Object};
use aldrin_core::{ChannelCookie, ObjectUuid, ServiceId, ServiceUuid};
use serde_json::json;
use std::cell::{Cell, RefCell};
use std::future::Future;
use std::rc::Rc;
use std::task::{Poll, Waker};
use uuid::Uuid;
use vcore::rng::Rng;

/// Set-once value many tasks can wait for.
pub struct Slot<T: Clone> {
    v: RefCell<Option<T>>,
    wakers: RefCell<Vec<Waker>>,
}

impl<T: Clone> Slot<T> {
    pub fn new() -> Rc<Self> {
        Rc::new(Self {
            v: RefCell::new(None),
            wakers: RefCell::new(Vec::new()),
        })
    }

    pub fn set(&self, v: T) {
        if self.v.borrow().is_none() {
            *self.v.borrow_mut() = Some(v);
        }
        for w in self.wakers.borrow_mut().drain(..) {
            w.wake();
        }
    }

    pub fn get(self: &Rc<Self>) -> impl Future<Output = T> + '_ {
        std::future::poll_fn(move |cx| match self.v.borrow().clone() {
            Some(v) => Poll::Ready(v),
            None => {
                self.wakers.borrow_mut().push(cx.waker().clone());
                Poll::Pending
            }
        })
    }
}

#[derive(Clone)]
pub struct Ctx {
    pub name: String,
    pub cl: usize,
    pub handle: Handle,
    pub log: Log,
    pub rng: Rc<RefCell<Rng>>,
    pub tokens: Rc<Cell<u32>>,
}

impl Ctx {
    pub fn below(&self, n: u64) -> u64 {
        self.rng.borrow_mut().below(n)
    }

    pub fn chance(&self, a: u64, b: u64) -> bool {
        self.rng.borrow_mut().chance(a, b)
    }

    pub fn token(&self) -> u32 {
        let t = self.tokens.get() + 1;
        self.tokens.set(t);
        t
    }

    pub async fn jitter(&self) {
        let n = self.below(4);
        yields(n).await;
    }
}

pub fn obj_uuid(i: u64) -> ObjectUuid {
    ObjectUuid(Uuid::from_u128(0x0b1ec7_0000 + i as u128))
}

pub fn svc_uuid(i: u64) -> ServiceUuid {
    ServiceUuid(Uuid::from_u128(0x5e1ce_0000 + i as u128))
}

fn res_str<T>(r: &Result<T, Error>) -> String {
    match r {
        Ok(_) => "ok".into(),
        Err(e) => format!("err:{}", err_class(e)),
    }
}

macro_rules! op {
    ($ctx:expr, $op:expr, $detail:expr, $fut:expr) => {{
        let id = $ctx.log.start(&$ctx.name, $op, $detail);
        let r = $fut.await;
        $ctx.log.ret(&$ctx.name, $op, id, &res_str(&r), json!({}));
        r
    }};
}

/// What a server publishes: its service id, or None if it could not create it.
pub type ServiceSlot = Rc<Slot<Option<ServiceId>>>;

/// Server: creates an object with a service, answers calls until all its clients are done, emits
/// events now and then, finally destroys or drops everything.
pub async fn server(ctx: Ctx, obj: u64, svc: u64, slot: ServiceSlot, clients_left: Rc<Latch>, subscribe_all: bool, emits: u64) {
    ctx.jitter().await;
    let object: Object = match op!(ctx, "create_object", json!({"uuid": obj}), ctx.handle.create_object(obj_uuid(obj))) {
        Ok(o) => o,
        Err(_) => {
            slot.set(None);
            return;
        }
    };
    let _ = subscribe_all;
    let info = ServiceInfo::new(1);
    let mut service: Service = match op!(ctx, "create_service", json!({"uuid": svc}), object.create_service(svc_uuid(svc), info)) {
        Ok(s) => s,
        Err(_) => {
            slot.set(None);
            return;
        }
    };
    let id = service.id();
    slot.set(Some(id));
    #[allow(unused_assignments)]
    let mut seq = 0u32;
    loop {
        let next = select2(service.next_call(), clients_left.wait_zero()).await;
        let call = match next {
            Either::Left(Some(call)) => call,
            Either::Left(None) => break,
            Either::Right(()) => break,
        };
        let t: u32 = call.deserialize().unwrap_or(0);
        let nonce = ctx.below(1_000_000) as u32;
        let how = ctx.below(10);
        ctx.log.fact(&ctx.name, "served", json!({"t": t, "n": nonce, "how": how}));
        ctx.jitter().await;
        let _ = match how {
            0..=4 => call.ok((t, nonce)),
            5 => call.err((t, nonce)),
            6 => call.abort(),
            7 => call.invalid_function(),
            8 => call.invalid_args(),
            _ => {
                drop(call);
                Ok(())
            }
        };
        if ctx.chance(1, 2) {
            seq = ctx.token();
            let ev = ctx.below(2) as u32;
            ctx.log.fact(&ctx.name, "emit", json!({"srv": svc, "ev": ev, "k": seq, "cl": ctx.cl, "svcCookie": id.cookie.0.to_string()}));
            let _ = service.emit(ev, seq);
        }
    }
    // more events while subscribers come and go (spread over time), then the end
    for _ in 0..emits {
        seq = ctx.token();
        let ev = ctx.below(2) as u32;
        ctx.log.fact(&ctx.name, "emit", json!({"srv": svc, "ev": ev, "k": seq, "cl": ctx.cl, "svcCookie": id.cookie.0.to_string()}));
        let _ = service.emit(ev, seq);
        ctx.jitter().await;
        if ctx.chance(1, 2) {
            crate::yields(ctx.below(12)).await;
        }
    }
    match ctx.below(4) {
        0 => {
            let _ = op!(ctx, "destroy_service", json!({}), service.destroy());
        }
        1 => {
            let _ = op!(ctx, "destroy_object", json!({}), object.destroy());
        }
        2 => {
            drop(service);
            drop(object);
        }
        _ => {
            drop(object);
            ctx.jitter().await;
            drop(service);
        }
    }
}

/// Caller: waits for the server's service, makes `n` calls with unique tokens, awaits or aborts them.
pub async fn caller(ctx: Ctx, slot: ServiceSlot, clients_left: Rc<Latch>, n: u64) {
    let id = slot.get().await;
    if let Some(id) = id {
        ctx.jitter().await;
        if let Ok(proxy) = op!(ctx, "create_proxy", json!({}), Proxy::new(&ctx.handle, id)) {
            for _ in 0..n {
                let t = ctx.token();
                let reply = proxy.call(ctx.below(3) as u32, t, None);
                match ctx.below(5) {
                    0 => {
                        ctx.log.fact(&ctx.name, "call_dropped", json!({"t": t}));
                        drop(reply);
                    }
                    1 => {
                        ctx.jitter().await;
                        ctx.log.fact(&ctx.name, "call_dropped", json!({"t": t}));
                        drop(reply);
                    }
                    _ => {
                        let opid = ctx.log.start(&ctx.name, "call", json!({"t": t}));
                        let r = reply.await;
                        let (res, d) = match &r {
                            Ok(rep) => {
                                let (cls, v) = match rep.args() {
                                    Ok(v) => ("ok", v.deserialize::<(u32, u32)>().ok()),
                                    Err(v) => ("errval", v.deserialize::<(u32, u32)>().ok()),
                                };
                                (cls.to_string(), json!({"t": t, "rt": v.map(|x| x.0 as i64).unwrap_or(-1), "n": v.map(|x| x.1 as i64).unwrap_or(-1)}))
                            }
                            Err(e) => (format!("err:{}", err_class(e)), json!({"t": t})),
                        };
                        ctx.log.ret(&ctx.name, "call", opid, &res, d);
                    }
                }
                ctx.jitter().await;
            }
        }
    }
    clients_left.add(-1);
}

/// Subscriber: subscribes to one event (or all), reads events until the stream ends or `k` were
/// seen, then unsubscribes.
pub async fn subscriber(ctx: Ctx, srv: u64, slot: ServiceSlot, all: bool, ev: u32, k: u64) {
    let Some(id) = slot.get().await else { return };
    ctx.jitter().await;
    let Ok(mut proxy) = op!(ctx, "create_proxy", json!({}), Proxy::new(&ctx.handle, id)) else { return };
    let sub = if all {
        op!(ctx, "subscribe_all", json!({}), proxy.subscribe_all())
    } else {
        op!(ctx, "subscribe", json!({"ev": ev}), proxy.subscribe(ev))
    };
    if sub.is_err() {
        return;
    }
    ctx.log.fact(&ctx.name, "subscribed", json!({"srv": srv, "all": all, "ev": ev}));
    let mut seen = 0;
    let opid = ctx.log.start(&ctx.name, "events", json!({}));
    while seen < k {
        match proxy.next_event().await {
            Some(e) => {
                seen += 1;
                let v: Option<u32> = e.deserialize().ok();
                ctx.log.fact(&ctx.name, "event", json!({"srv": srv, "all": all, "sub": ev, "ev": e.id(), "k": v.map(|x| x as i64).unwrap_or(-1)}));
            }
            None => break,
        }
    }
    ctx.log.ret(&ctx.name, "events", opid, "ok", json!({"seen": seen, "want": k, "srv": srv, "all": all, "sub": ev}));
    if ctx.chance(1, 2) {
        let _ = if all {
            op!(ctx, "unsubscribe_all", json!({}), proxy.unsubscribe_all())
        } else {
            op!(ctx, "unsubscribe", json!({"ev": ev}), proxy.unsubscribe(ev))
        };
    }
}

#[derive(Clone, Copy, Debug)]
pub enum Offer {
    /// the creator holds the sender; the peer gets the receiver end
    PeerReceives(ChannelCookie),
    /// the creator holds the receiver; the peer gets the sender end
    PeerSends(ChannelCookie),
    Nothing,
}

/// Channel creator: creates a channel claiming one end, hands the other to the peer, establishes,
/// then produces or consumes; may close or drop early.
///
/// `gone` is the out-of-band word of the peer role that it will not claim the unclaimed end (it
/// closed or dropped it, or its client is dead): an unclaimed end belongs to nobody, so if the
/// peer's client died before claiming it the broker has nobody to report and the creator would
/// wait for ever -- as a real application would, without a timeout of its own.
pub async fn chan_creator(ctx: Ctx, mail: Rc<Mailbox<Offer>>, creator_sends: bool, cap: u32, items: u32, gone: Rc<Slot<()>>) {
    ctx.jitter().await;
    if creator_sends {
        let r = op!(ctx, "create_channel_claim_sender", json!({}), ctx.handle.create_low_level_channel().claim_sender());
        let Ok((mut pending, unclaimed)) = r else {
            mail.push(Offer::Nothing);
            return;
        };
        let cookie = unclaimed.cookie();
        mail.push(Offer::PeerReceives(unclaimed.unbind().cookie()));
        debug_assert!(cookie == pending.cookie());
        if ctx.chance(1, 8) {
            let _ = op!(ctx, "pending_close", json!({}), pending.close());
            return;
        }
        if ctx.chance(1, 10) {
            drop(pending);
            return;
        }
        let id = ctx.log.start(&ctx.name, "establish_sender", json!({}));
        let r = match select2(pending.establish(), gone.get()).await {
            Either::Left(r) => r,
            Either::Right(()) => {
                ctx.log.ret(&ctx.name, "establish_sender", id, "abandoned", json!({}));
                return;
            }
        };
        ctx.log.ret(&ctx.name, "establish_sender", id, &res_str(&r), json!({}));
        let Ok(sender) = r else { return };
        produce(&ctx, sender, items).await;
    } else {
        let r = op!(ctx, "create_channel_claim_receiver", json!({"cap": cap}), ctx.handle.create_low_level_channel().claim_receiver(cap));
        let Ok((unclaimed, mut pending)) = r else {
            mail.push(Offer::Nothing);
            return;
        };
        mail.push(Offer::PeerSends(unclaimed.unbind().cookie()));
        if ctx.chance(1, 8) {
            let _ = op!(ctx, "pending_close", json!({}), pending.close());
            return;
        }
        if ctx.chance(1, 10) {
            drop(pending);
            return;
        }
        let id = ctx.log.start(&ctx.name, "establish_receiver", json!({}));
        let r = match select2(pending.establish(), gone.get()).await {
            Either::Left(r) => r,
            Either::Right(()) => {
                ctx.log.ret(&ctx.name, "establish_receiver", id, "abandoned", json!({}));
                return;
            }
        };
        ctx.log.ret(&ctx.name, "establish_receiver", id, &res_str(&r), json!({}));
        let Ok(receiver) = r else { return };
        consume(&ctx, receiver).await;
    }
}

/// Channel peer: receives the unclaimed end and claims, closes or drops it.
pub async fn chan_peer(ctx: Ctx, mail: Rc<Mailbox<Offer>>, cap: u32, items: u32, gone: Rc<Slot<()>>) {
    let offer = mail.pop().await;
    ctx.jitter().await;
    match offer {
        Offer::Nothing => {}
        Offer::PeerReceives(cookie) => {
            let unclaimed = UnboundReceiver::new(cookie).bind(ctx.handle.clone());
            match ctx.below(8) {
                0 => {
                    let mut u = unclaimed;
                    let _ = op!(ctx, "unclaimed_close", json!({}), u.close());
                    gone.set(());
                }
                1 => {
                    drop(unclaimed);
                    gone.set(());
                }
                _ => match op!(ctx, "claim_receiver", json!({"cap": cap}), unclaimed.claim(cap)) {
                    Ok(receiver) => consume(&ctx, receiver).await,
                    Err(_) => gone.set(()),
                },
            }
        }
        Offer::PeerSends(cookie) => {
            let unclaimed = UnboundSender::new(cookie).bind(ctx.handle.clone());
            match ctx.below(8) {
                0 => {
                    let mut u = unclaimed;
                    let _ = op!(ctx, "unclaimed_close", json!({}), u.close());
                    gone.set(());
                }
                1 => {
                    drop(unclaimed);
                    gone.set(());
                }
                _ => match op!(ctx, "claim_sender", json!({}), unclaimed.claim()) {
                    Ok(sender) => produce(&ctx, sender, items).await,
                    Err(_) => gone.set(()),
                },
            }
        }
    }
}

async fn produce(ctx: &Ctx, mut sender: aldrin::low_level::Sender, items: u32) {
    let chan = ctx.token();
    ctx.log.fact(&ctx.name, "producer", json!({"chan": chan, "cookie": sender.cookie().0.to_string()}));
    for k in 1..=items {
        let id = ctx.log.start(&ctx.name, "send_item", json!({"chan": chan, "k": k}));
        let r = sender.send_item(k).await;
        ctx.log.ret(&ctx.name, "send_item", id, &res_str(&r), json!({"chan": chan, "k": k}));
        if r.is_err() {
            return;
        }
        ctx.jitter().await;
        if ctx.chance(1, 25) {
            break;
        }
    }
    if ctx.chance(1, 2) {
        let _ = op!(ctx, "sender_close", json!({}), sender.close());
    }
}

async fn consume(ctx: &Ctx, mut receiver: aldrin::low_level::Receiver) {
    ctx.log.fact(&ctx.name, "consumer", json!({"cookie": receiver.cookie().0.to_string()}));
    let stop_after = if ctx.chance(1, 6) { ctx.below(4) } else { u64::MAX };
    let mut n = 0;
    loop {
        if n >= stop_after {
            break;
        }
        let id = ctx.log.start(&ctx.name, "next_item", json!({}));
        let r = receiver.next_item::<u32>().await;
        match &r {
            Ok(Some(k)) => {
                n += 1;
                ctx.log.ret(&ctx.name, "next_item", id, "ok", json!({"k": k, "cookie": receiver.cookie().0.to_string()}));
            }
            Ok(None) => {
                ctx.log.ret(&ctx.name, "next_item", id, "end", json!({"cookie": receiver.cookie().0.to_string()}));
                break;
            }
            Err(e) => {
                ctx.log.ret(&ctx.name, "next_item", id, &format!("err:{}", err_class(e)), json!({}));
                break;
            }
        }
        if ctx.chance(1, 3) {
            ctx.jitter().await;
        }
    }
    if ctx.chance(1, 2) {
        let _ = op!(ctx, "receiver_close", json!({}), receiver.close());
    }
}

/// Chaos: broker-only operations in random order on a small pool of uuids; values are dropped at
/// random points. Every await here is answered by the broker alone.
pub async fn chaos(ctx: Ctx, steps: u64) {
    let mut objects: Vec<Object> = Vec::new();
    let mut services: Vec<Service> = Vec::new();
    let mut listeners: Vec<aldrin::BusListener> = Vec::new();
    for _ in 0..steps {
        ctx.jitter().await;
        match ctx.below(12) {
            0 | 1 => {
                let u = ctx.below(3);
                if let Ok(o) = op!(ctx, "create_object", json!({"uuid": 100 + u}), ctx.handle.create_object(obj_uuid(100 + u))) {
                    objects.push(o);
                }
            }
            2 => {
                if !objects.is_empty() {
                    let i = ctx.below(objects.len() as u64) as usize;
                    let u = ctx.below(2);
                    let info = ServiceInfo::new(1);
                    if let Ok(s) = op!(ctx, "create_service", json!({"uuid": 100 + u}), objects[i].create_service(svc_uuid(100 + u), info)) {
                        services.push(s);
                    }
                }
            }
            3 => {
                if !objects.is_empty() {
                    let i = ctx.below(objects.len() as u64) as usize;
                    let o = objects.swap_remove(i);
                    if ctx.chance(1, 2) {
                        let _ = op!(ctx, "destroy_object", json!({}), o.destroy());
                    }
                    drop(o);
                }
            }
            4 => {
                if !services.is_empty() {
                    let i = ctx.below(services.len() as u64) as usize;
                    let s = services.swap_remove(i);
                    if ctx.chance(1, 2) {
                        let _ = op!(ctx, "destroy_service", json!({}), s.destroy());
                    }
                    drop(s);
                }
            }
            5 => {
                let _ = op!(ctx, "sync_broker", json!({}), ctx.handle.sync_broker());
            }
            6 => {
                if let Ok(l) = op!(ctx, "create_bus_listener", json!({}), ctx.handle.create_bus_listener()) {
                    listeners.push(l);
                }
            }
            7 => {
                if !listeners.is_empty() {
                    let i = ctx.below(listeners.len() as u64) as usize;
                    let f = match ctx.below(4) {
                        0 => aldrin_core::BusListenerFilter::any_object(),
                        1 => aldrin_core::BusListenerFilter::object(obj_uuid(100 + ctx.below(3))),
                        2 => aldrin_core::BusListenerFilter::any_object_any_service(),
                        _ => aldrin_core::BusListenerFilter::specific_object_and_service(obj_uuid(100 + ctx.below(3)), svc_uuid(100)),
                    };
                    let _ = listeners[i].add_filter(f);
                }
            }
            8 => {
                if !listeners.is_empty() {
                    let i = ctx.below(listeners.len() as u64) as usize;
                    let scope = *ctx.rng.borrow_mut().pick(&[
                        aldrin_core::BusListenerScope::Current,
                        aldrin_core::BusListenerScope::New,
                        aldrin_core::BusListenerScope::All,
                    ]);
                    let _ = op!(ctx, "listener_start", json!({}), listeners[i].start(scope));
                }
            }
            9 => {
                if !listeners.is_empty() {
                    let i = ctx.below(listeners.len() as u64) as usize;
                    let _ = op!(ctx, "listener_stop", json!({}), listeners[i].stop());
                }
            }
            10 => {
                if !listeners.is_empty() {
                    let i = ctx.below(listeners.len() as u64) as usize;
                    let mut l = listeners.swap_remove(i);
                    if ctx.chance(1, 2) {
                        let _ = op!(ctx, "listener_destroy", json!({}), l.destroy());
                    }
                    drop(l);
                }
            }
            _ => {
                // a channel whose ends are dropped or closed without a peer
                if ctx.chance(1, 2) {
                    if let Ok((p, u)) = op!(ctx, "create_channel_claim_sender", json!({}), ctx.handle.create_low_level_channel().claim_sender()) {
                        if ctx.chance(1, 2) {
                            drop(u);
                            ctx.jitter().await;
                            drop(p);
                        } else {
                            drop(p);
                            // claiming the other end of a channel whose creator end is gone
                            let _ = op!(ctx, "claim_receiver", json!({"cap": 1}), u.claim(1));
                        }
                    }
                } else if let Ok((u, p)) = op!(ctx, "create_channel_claim_receiver", json!({"cap": 2}), ctx.handle.create_low_level_channel().claim_receiver(2)) {
                    if ctx.chance(1, 2) {
                        drop(p);
                        let _ = op!(ctx, "claim_sender", json!({}), u.claim());
                    } else {
                        drop(u);
                        drop(p);
                    }
                }
            }
        }
    }
}


/// Battery (C15): holds one value of every kind on the victim client, waits until the driver says
/// the termination cause has happened (`true`) or will not happen (`false`), then starts one
/// operation on each value. Every operation must return.
pub async fn battery(ctx: Ctx, other: Option<ServiceSlot>, fault: Rc<Slot<bool>>) {
    let h = ctx.handle.clone();
    let object = op!(ctx, "create_object", json!({"uuid": 200}), h.create_object(obj_uuid(200))).ok();
    let mut service = match &object {
        Some(o) => op!(ctx, "create_service", json!({"uuid": 200}), o.create_service(svc_uuid(200), ServiceInfo::new(1))).ok(),
        None => None,
    };
    let mut own_proxy = match &service {
        Some(s) => op!(ctx, "create_proxy", json!({}), Proxy::new(&h, s.id())).ok(),
        None => None,
    };
    let other_proxy = match other {
        Some(slot) => match slot.get().await {
            Some(id) => op!(ctx, "create_proxy", json!({}), Proxy::new(&h, id)).ok(),
            None => None,
        },
        None => None,
    };
    let pending_call = other_proxy.as_ref().map(|p| p.call(0, ctx.token(), None));
    let mut chan = None;
    if let Ok((pending, unclaimed)) = op!(ctx, "create_channel_claim_sender", json!({}), h.create_low_level_channel().claim_sender()) {
        if let Ok(receiver) = op!(ctx, "claim_receiver", json!({"cap": 4}), unclaimed.claim(4)) {
            if let Ok(sender) = op!(ctx, "establish_sender", json!({}), pending.establish()) {
                chan = Some((sender, receiver));
            }
        }
    }
    let mut listener = op!(ctx, "create_bus_listener", json!({}), h.create_bus_listener()).ok();
    if let Some(l) = listener.as_mut() {
        let _ = l.add_filter(aldrin_core::BusListenerFilter::any_object());
        let _ = op!(ctx, "listener_start", json!({}), l.start(aldrin_core::BusListenerScope::New));
    }
    let scope = op!(ctx, "create_lifetime_scope", json!({}), h.create_lifetime_scope()).ok();

    let happened = fault.get().await;
    ctx.log.fact(&ctx.name, "battery", json!({"happened": happened}));

    let _ = op!(ctx, "sync_client", json!({}), h.sync_client());
    let _ = op!(ctx, "sync_broker", json!({}), h.sync_broker());
    let _ = op!(ctx, "create_object", json!({"uuid": 201}), h.create_object(obj_uuid(201)));
    if let Some(o) = &object {
        let _ = op!(ctx, "create_service", json!({"uuid": 201}), o.create_service(svc_uuid(201), ServiceInfo::new(1)));
    }
    if let Some(p) = own_proxy.as_mut() {
        let _ = op!(ctx, "subscribe", json!({"ev": 0}), p.subscribe(0));
        if happened {
            let id = ctx.log.start(&ctx.name, "own_call", json!({}));
            let r = p.call(0, 0u32, None).await;
            ctx.log.ret(&ctx.name, "own_call", id, if r.is_ok() { "ok" } else { "err" }, json!({}));
            let id = ctx.log.start(&ctx.name, "next_event", json!({}));
            let r = p.next_event().await;
            ctx.log.ret(&ctx.name, "next_event", id, if r.is_some() { "some" } else { "none" }, json!({}));
        }
    }
    if let Some(s) = service.as_mut() {
        if happened {
            let id = ctx.log.start(&ctx.name, "next_call", json!({}));
            let r = s.next_call().await;
            ctx.log.ret(&ctx.name, "next_call", id, if r.is_some() { "some" } else { "none" }, json!({}));
        }
        let _ = s.emit(0, 1u32);
    }
    if let Some(pc) = pending_call {
        let id = ctx.log.start(&ctx.name, "pending_call", json!({}));
        let r = pc.await;
        ctx.log.ret(&ctx.name, "pending_call", id, if r.is_ok() { "ok" } else { "err" }, json!({}));
    }
    if let Some((mut sender, mut receiver)) = chan {
        let id = ctx.log.start(&ctx.name, "send_item", json!({"chan": 0, "k": 1}));
        let r = sender.send_item(1u32).await;
        ctx.log.ret(&ctx.name, "send_item", id, &res_str(&r), json!({}));
        if happened || r.is_ok() {
            let id = ctx.log.start(&ctx.name, "battery_next_item", json!({}));
            let r = receiver.next_item::<u32>().await;
            ctx.log.ret(&ctx.name, "battery_next_item", id, if matches!(r, Ok(Some(_))) { "some" } else { "end" }, json!({}));
        }
        let _ = op!(ctx, "sender_close", json!({}), sender.close());
        let _ = op!(ctx, "receiver_close", json!({}), receiver.close());
    }
    if let Some(l) = listener.as_mut() {
        if happened {
            let id = ctx.log.start(&ctx.name, "listener_next_event", json!({}));
            let r = l.next_event().await;
            ctx.log.ret(&ctx.name, "listener_next_event", id, if r.is_some() { "some" } else { "none" }, json!({}));
        }
        let _ = op!(ctx, "listener_stop", json!({}), l.stop());
        let _ = op!(ctx, "listener_destroy", json!({}), l.destroy());
    }
    if let Some(sc) = scope {
        let _ = op!(ctx, "lifetime_end", json!({}), sc.end());
    }
    if let Some(o) = &object {
        let _ = op!(ctx, "destroy_object", json!({}), o.destroy());
    }
}

// ---------------------------------------------------------------------------------------------
// C12: well-formed values of every container shape cross the version boundary in both directions

/// Values whose encoding differs between the two epochs (vectors, byte strings, maps and sets of
/// every key width with small and large keys, structs), alone and nested.
pub fn battery_values() -> Vec<aldrin_core::Value> {
    use aldrin_core::{Bytes, Struct, Value};
    use std::collections::{HashMap, HashSet};
    let big64: u64 = 1 << 40;
    let mut vs = vec![
        Value::Vec(vec![Value::U8(1), Value::None, Value::String("x".into())]),
        Value::Bytes(Bytes::new(vec![1, 2, 3, 250, 255])),
        Value::U8Map(HashMap::from([(0, Value::U8(1)), (250, Value::None)])),
        Value::I8Map(HashMap::from([(-128, Value::U8(1)), (127, Value::None)])),
        Value::U16Map(HashMap::from([(3, Value::U8(1)), (300, Value::U8(2)), (65535, Value::None)])),
        Value::I16Map(HashMap::from([(-300, Value::U8(1)), (255, Value::None)])),
        Value::U32Map(HashMap::from([(3, Value::U8(1)), (248, Value::U8(2)), (1 << 20, Value::None)])),
        Value::I32Map(HashMap::from([(-(1 << 20), Value::U8(1)), (124, Value::None)])),
        Value::U64Map(HashMap::from([(3, Value::U8(1)), (248, Value::U8(2)), (big64, Value::None)])),
        Value::I64Map(HashMap::from([(-(1i64 << 40), Value::U8(1)), (7, Value::None)])),
        Value::StringMap(HashMap::from([("a".to_string(), Value::U8(1)), (String::new(), Value::None)])),
        Value::UuidMap(HashMap::from([(Uuid::from_u128(7), Value::U8(1))])),
        Value::U8Set(HashSet::from([0, 250])),
        Value::U16Set(HashSet::from([254, 255, 65535])),
        Value::U32Set(HashSet::from([248, 1 << 30])),
        Value::U64Set(HashSet::from([3, 248, big64])),
        Value::I64Set(HashSet::from([-(1i64 << 50), 5])),
        Value::StringSet(HashSet::from(["k".to_string()])),
        Value::Struct(Struct(HashMap::from([(1, Value::U8(1)), (300, Value::String("s".into()))]))),
        Value::Enum(Box::new(aldrin_core::Enum::new(70000, Value::U8(9)))),
    ];
    // nested: every shape inside a vector inside a map value inside Some
    let inner = vs.clone();
    vs.push(Value::Some(Box::new(Value::U64Map(HashMap::from([(big64 + 1, Value::Vec(inner))])))));
    vs
}

/// Echo server: answers every call with the value it received (decoded and encoded again by this
/// client), until `calls` calls were served or the callers are done.
pub async fn echo_server(ctx: Ctx, obj: u64, svc: u64, slot: ServiceSlot, callers_left: Rc<Latch>) {
    ctx.jitter().await;
    let Ok(object) = op!(ctx, "create_object", json!({"uuid": obj}), ctx.handle.create_object(obj_uuid(obj))) else {
        slot.set(None);
        return;
    };
    let Ok(mut service) = op!(ctx, "create_service", json!({"uuid": svc}), object.create_service(svc_uuid(svc), ServiceInfo::new(1))) else {
        slot.set(None);
        return;
    };
    slot.set(Some(service.id()));
    loop {
        let call = match select2(service.next_call(), callers_left.wait_zero()).await {
            Either::Left(Some(call)) => call,
            _ => break,
        };
        match call.deserialize::<aldrin_core::Value>() {
            Ok(v) => {
                let _ = call.ok(&v);
            }
            Err(_) => {
                ctx.log.fact(&ctx.name, "echo", json!({"i": -1, "ok": false, "why": "the callee could not decode the argument"}));
                let _ = call.invalid_args();
            }
        }
    }
    let _ = op!(ctx, "destroy_object", json!({}), object.destroy());
}

/// Echo caller: sends every battery value and requires the very same value back.
pub async fn echo_caller(ctx: Ctx, slot: ServiceSlot, callers_left: Rc<Latch>) {
    if let Some(id) = slot.get().await {
        ctx.jitter().await;
        if let Ok(proxy) = op!(ctx, "create_proxy", json!({}), Proxy::new(&ctx.handle, id)) {
            for (i, v) in battery_values().into_iter().enumerate() {
                let r = proxy.call(0, &v, None).await;
                let (ok, why) = match r {
                    Ok(rep) => match rep.args() {
                        Ok(x) => match x.deserialize::<aldrin_core::Value>() {
                            Ok(back) if back == v => (true, String::new()),
                            Ok(_) => (false, "the value came back changed".to_string()),
                            Err(e) => (false, format!("the reply does not decode: {e:?}")),
                        },
                        Err(_) => (false, "the callee answered with an error".to_string()),
                    },
                    Err(e) => (false, format!("the call failed: {}", err_class(&e))),
                };
                ctx.log.fact(&ctx.name, "echo", json!({"i": i, "ok": ok, "why": why}));
                if !ok {
                    break;
                }
                if ctx.chance(1, 3) {
                    ctx.jitter().await;
                }
            }
        }
    }
    callers_left.add(-1);
}
