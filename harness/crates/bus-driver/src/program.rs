//! Construction of a random closed program (shared by bus-programs and fault-sweep).

use crate::roles::{self, Ctx, Offer, Slot};
use crate::{Bus, Latch, Mailbox};
use std::cell::{Cell, RefCell};
use std::rc::Rc;
use vcore::rng::Rng;

pub fn mk_ctx(bus: &Bus, cl: usize, name: String, rng: &mut Rng, tokens: &Rc<Cell<u32>>) -> Ctx {
    Ctx {
        name,
        cl,
        handle: bus.clients[cl].handle.clone().unwrap(),
        log: bus.log.clone(),
        rng: Rc::new(RefCell::new(rng.fork())),
        tokens: tokens.clone(),
    }
}

/// Spawns the roles of a random program drawn from `prng`; returns the number of roles and the
/// service slots of the servers (index = server number).
pub fn spawn_program(bus: &mut Bus, prng: &mut Rng, mix: &str, tokens: &Rc<Cell<u32>>) -> (u64, Vec<roles::ServiceSlot>) {
    let mut slots = Vec::new();
    let n = bus.clients.len();
    let want = |what: &str| mix == "all" || mix == "versions" || mix.split(',').any(|m| m == what);
    let mut roles_n = 0;

    if n >= 2 {
        // servers with callers and subscribers
        if want("calls") || want("events") {
            let nservers = 1 + prng.below(2);
            for s in 0..nservers {
                let scl = prng.below(n as u64) as usize;
                let slot = Slot::new();
                slots.push(slot.clone());
                let ncallers = if want("calls") { 1 + prng.below(2) } else { 0 };
                let latch = Latch::new(ncallers as i64);
                let sub_all = prng.chance(1, 2);
                let ctx = mk_ctx(bus, scl, format!("c{scl}.server{s}"), prng, tokens);
                let emits = if want("events") { 3 + prng.below(8) } else { prng.below(3) };
                bus.spawn_app(ctx.name.clone(), roles::server(ctx, s, s, slot.clone(), latch.clone(), sub_all, emits));
                roles_n += 1;
                for c in 0..ncallers {
                    let ccl = prng.below(n as u64) as usize;
                    let ctx = mk_ctx(bus, ccl, format!("c{ccl}.caller{s}_{c}"), prng, tokens);
                    let calls = 1 + prng.below(4);
                    bus.spawn_app(ctx.name.clone(), roles::caller(ctx, slot.clone(), latch.clone(), calls));
                    roles_n += 1;
                }
                if want("events") {
                    for c in 0..prng.below(4) {
                        let ccl = prng.below(n as u64) as usize;
                        let ctx = mk_ctx(bus, ccl, format!("c{ccl}.sub{s}_{c}"), prng, tokens);
                        let all = prng.chance(2, 5);
                        let ev = prng.below(2) as u32;
                        let k = 1 + prng.below(4);
                        bus.spawn_app(ctx.name.clone(), roles::subscriber(ctx, s, slot.clone(), all, ev, k));
                        roles_n += 1;
                    }
                    if ncallers == 0 {
                        // the server still has to end: nobody holds the latch
                    }
                }
            }
        }
        // C12: an echo pair whose payloads are containers of every shape (only with "versions")
        if mix.split(',').any(|m| m == "versions") {
            let scl = prng.below(n as u64) as usize;
            let ccl = prng.below(n as u64) as usize;
            let slot = Slot::new();
            let latch = Latch::new(1);
            let ctx = mk_ctx(bus, scl, format!("c{scl}.echosrv"), prng, tokens);
            bus.spawn_app(ctx.name.clone(), roles::echo_server(ctx, 7, 7, slot.clone(), latch.clone()));
            let ctx = mk_ctx(bus, ccl, format!("c{ccl}.echo"), prng, tokens);
            bus.spawn_app(ctx.name.clone(), roles::echo_caller(ctx, slot, latch));
            roles_n += 2;
        }
        // channel pairs
        if want("channels") {
            for p in 0..prng.below(3) {
                let a = prng.below(n as u64) as usize;
                let b = prng.below(n as u64) as usize;
                let mail = Mailbox::<Offer>::new();
                let creator_sends = prng.chance(1, 2);
                let cap = *prng.pick(&[1u32, 1, 2, 3, 4, 5, 6, 16, u32::MAX]);
                let items = 1 + prng.below(20) as u32;
                let ctx = mk_ctx(bus, a, format!("c{a}.chanA{p}"), prng, tokens);
                let gone = Slot::new();
                bus.spawn_app(ctx.name.clone(), roles::chan_creator(ctx, mail.clone(), creator_sends, cap, items, gone.clone()));
                let ctx = mk_ctx(bus, b, format!("c{b}.chanB{p}"), prng, tokens);
                bus.spawn_app(ctx.name.clone(), roles::chan_peer(ctx, mail.clone(), cap, items, gone));
                roles_n += 2;
            }
        }
        if want("chaos") {
            for k in 0..prng.below(3) {
                let a = prng.below(n as u64) as usize;
                let ctx = mk_ctx(bus, a, format!("c{a}.chaos{k}"), prng, tokens);
                let steps = 3 + prng.below(12);
                bus.spawn_app(ctx.name.clone(), roles::chaos(ctx, steps));
                roles_n += 1;
            }
        }
    }

    if (mix == "all" || mix.split(',').any(|m| m == "discovery")) && n >= 2 {
        let done = Slot::new();
        let lifetime_mail = Mailbox::new();
        let ndisc = 1 + prng.below(2);
        let reports = Latch::new(ndisc as i64);
        let a = prng.below(n as u64) as usize;
        let ctx = mk_ctx(bus, a, format!("c{a}.churn"), prng, tokens);
        let steps = 4 + prng.below(14);
        bus.spawn_app(ctx.name.clone(), crate::discovery::churn(ctx, steps, done.clone(), lifetime_mail.clone(), reports.clone()));
        for d in 0..ndisc {
            let b = prng.below(n as u64) as usize;
            let ctx = mk_ctx(bus, b, format!("c{b}.disc{d}"), prng, tokens);
            bus.spawn_app(ctx.name.clone(), crate::discovery::discoverer(ctx, done.clone(), reports.clone()));
        }
        let b = prng.below(n as u64) as usize;
        let ctx = mk_ctx(bus, b, format!("c{b}.lifetime"), prng, tokens);
        bus.spawn_app(ctx.name.clone(), crate::discovery::lifetime_watcher(ctx, lifetime_mail.clone()));
        for f in 0..prng.below(3) {
            let b = prng.below(n as u64) as usize;
            let ctx = mk_ctx(bus, b, format!("c{b}.finder{f}"), prng, tokens);
            let wait = prng.chance(1, 2);
            bus.spawn_app(ctx.name.clone(), crate::discovery::finder(ctx, wait));
        }
        roles_n += 3 + ndisc;
    }
    (roles_n, slots)
}
