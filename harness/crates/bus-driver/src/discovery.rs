//! Roles for C19: a registry churner (the ground truth), a discoverer, a lifetime watcher and
//! finders. The churner is the only role that creates objects in its uuid range, so the set of
//! objects it holds is the truth once it is done.

use crate::roles::{obj_uuid, svc_uuid, Ctx, Slot};
use crate::{err_class, select2, Either, Latch, Mailbox};
use aldrin::low_level::{Service, ServiceInfo};
use aldrin::{Discoverer, LifetimeId, Object};
use aldrin_core::ObjectUuid;
use serde_json::json;
use std::rc::Rc;
use std::task::Poll;

pub const BASE: u64 = 300;

fn uidx(u: ObjectUuid) -> i64 {
    for i in 0..8 {
        if obj_uuid(BASE + i) == u {
            return (BASE + i) as i64;
        }
    }
    -1
}

struct Held {
    u: u64,
    object: Object,
    svcs: Vec<(u64, Service)>,
}

fn truth(ctx: &Ctx, held: &[Held]) {
    let objs: Vec<_> = held
        .iter()
        .map(|h| {
            let mut s: Vec<u64> = h.svcs.iter().map(|x| x.0).collect();
            s.sort();
            json!({"u": h.u, "cookie": h.object.id().cookie.0.to_string(), "svcs": s})
        })
        .collect();
    ctx.log.fact(&ctx.name, "truth", json!({"objs": objs}));
}

/// Registry churn on uuids BASE..BASE+2 with services BASE..BASE+1.
pub async fn churn(ctx: Ctx, steps: u64, done: Rc<Slot<()>>, lifetime_mail: Rc<Mailbox<Option<(LifetimeId, u64, String)>>>, reports: Rc<Latch>) {
    let mut held: Vec<Held> = Vec::new();
    let mut lifetime_given: Option<String> = None;
    let mut gave = false;
    for step in 0..steps {
        ctx.jitter().await;
        let choice = if step == 0 { 0 } else { ctx.below(7) };
        match choice {
            0 | 1 => {
                let u = if step == 0 { BASE } else { BASE + ctx.below(3) };
                if held.iter().all(|h| h.u != u) {
                    let id = ctx.log.start(&ctx.name, "create_object", json!({"uuid": u}));
                    let r = ctx.handle.create_object(obj_uuid(u)).await;
                    match r {
                        Ok(object) => {
                            let cookie = object.id().cookie.0.to_string();
                            ctx.log.ret(&ctx.name, "create_object", id, "ok", json!({"u": u, "cookie": cookie}));
                            if !gave {
                                gave = true;
                                lifetime_given = Some(cookie.clone());
                                lifetime_mail.push(Some((object.lifetime_id(), u, cookie)));
                            }
                            held.push(Held { u, object, svcs: vec![] });
                            truth(&ctx, &held);
                        }
                        Err(e) => ctx.log.ret(&ctx.name, "create_object", id, &format!("err:{}", err_class(&e)), json!({"u": u})),
                    }
                }
            }
            2 | 3 => {
                if !held.is_empty() {
                    let i = ctx.below(held.len() as u64) as usize;
                    let s = BASE + ctx.below(2);
                    if held[i].svcs.iter().all(|x| x.0 != s) {
                        let id = ctx.log.start(&ctx.name, "create_service", json!({"uuid": s}));
                        match held[i].object.create_service(svc_uuid(s), ServiceInfo::new(1)).await {
                            Ok(svc) => {
                                ctx.log.ret(&ctx.name, "create_service", id, "ok", json!({}));
                                held[i].svcs.push((s, svc));
                                truth(&ctx, &held);
                            }
                            Err(e) => ctx.log.ret(&ctx.name, "create_service", id, &format!("err:{}", err_class(&e)), json!({})),
                        }
                    }
                }
            }
            4 => {
                if !held.is_empty() {
                    let i = ctx.below(held.len() as u64) as usize;
                    if !held[i].svcs.is_empty() {
                        let j = ctx.below(held[i].svcs.len() as u64) as usize;
                        let (_, svc) = held[i].svcs.swap_remove(j);
                        let id = ctx.log.start(&ctx.name, "destroy_service", json!({}));
                        let r = svc.destroy().await;
                        ctx.log.ret(&ctx.name, "destroy_service", id, if r.is_ok() { "ok" } else { "err" }, json!({}));
                        truth(&ctx, &held);
                    }
                }
            }
            _ => {
                if !held.is_empty() {
                    let i = ctx.below(held.len() as u64) as usize;
                    let h = held.swap_remove(i);
                    let cookie = h.object.id().cookie.0.to_string();
                    ctx.log.fact(&ctx.name, "destroying", json!({"u": h.u, "cookie": cookie}));
                    let id = ctx.log.start(&ctx.name, "destroy_object", json!({"u": h.u}));
                    let r = h.object.destroy().await;
                    ctx.log.ret(&ctx.name, "destroy_object", id, if r.is_ok() { "ok" } else { "err" }, json!({"u": h.u, "cookie": cookie}));
                    drop(h);
                    truth(&ctx, &held);
                }
            }
        }
    }
    if !gave {
        lifetime_mail.push(None);
    }
    // the object whose lifetime is watched must end, so that the watcher's wait is enabled
    if let Some(cookie) = lifetime_given {
        if let Some(i) = held.iter().position(|h| h.object.id().cookie.0.to_string() == cookie) {
            let h = held.swap_remove(i);
            ctx.log.fact(&ctx.name, "destroying", json!({"u": h.u, "cookie": cookie}));
            let id = ctx.log.start(&ctx.name, "destroy_object", json!({"u": h.u}));
            let r = h.object.destroy().await;
            ctx.log.ret(&ctx.name, "destroy_object", id, if r.is_ok() { "ok" } else { "err" }, json!({"u": h.u, "cookie": cookie}));
            truth(&ctx, &held);
        }
    }
    // object BASE exists at the end, so that every wait_for_object(BASE) is enabled
    if held.iter().all(|h| h.u != BASE) {
        let id = ctx.log.start(&ctx.name, "create_object", json!({"uuid": BASE}));
        match ctx.handle.create_object(obj_uuid(BASE)).await {
            Ok(object) => {
                ctx.log.ret(&ctx.name, "create_object", id, "ok", json!({"u": BASE, "cookie": object.id().cookie.0.to_string()}));
                held.push(Held { u: BASE, object, svcs: vec![] });
            }
            Err(e) => ctx.log.ret(&ctx.name, "create_object", id, &format!("err:{}", err_class(&e)), json!({"u": BASE})),
        }
    }
    truth(&ctx, &held);
    let _ = ctx.handle.sync_broker().await;
    done.set(());
    // keep everything alive until the observers of the truth have reported
    reports.wait_zero().await;
    drop(held);
}

/// entry specs: (key, object uuid or 0 for any, required services)
pub fn entry_specs() -> Vec<(u32, u64, Vec<u64>)> {
    vec![
        (0, BASE, vec![]),
        (1, BASE + 1, vec![BASE]),
        (2, 0, vec![BASE]),
        (3, 0, vec![BASE, BASE + 1]),
        (4, BASE + 2, vec![BASE, BASE + 1]),
    ]
}

pub async fn discoverer(ctx: Ctx, done: Rc<Slot<()>>, reports: Rc<Latch>) {
    ctx.jitter().await;
    let mut b = Discoverer::<u32>::builder(&ctx.handle);
    let specs = entry_specs();
    for (key, obj, svcs) in &specs {
        let o = if *obj == 0 { None } else { Some(obj_uuid(*obj)) };
        b = b.add(*key, o, svcs.iter().map(|s| svc_uuid(*s)));
    }
    ctx.log.fact(
        &ctx.name,
        "dentries",
        json!({"entries": specs.iter().map(|(k, o, s)| json!({"key": k, "obj": o, "svcs": s})).collect::<Vec<_>>()}),
    );
    let id = ctx.log.start(&ctx.name, "discoverer_build", json!({}));
    let d = b.build().await;
    let Ok(mut d) = d else {
        ctx.log.ret(&ctx.name, "discoverer_build", id, "err", json!({}));
        reports.add(-1);
        return;
    };
    ctx.log.ret(&ctx.name, "discoverer_build", id, "ok", json!({}));
    let log_event = |ctx: &Ctx, e: aldrin::DiscovererEvent<u32>| {
        ctx.log.fact(
            &ctx.name,
            "devent",
            json!({"key": e.key(), "created": e.is_created(), "u": uidx(e.object_id().uuid), "cookie": e.object_id().cookie.0.to_string()}),
        );
    };
    loop {
        match select2(d.next_event(), done.get()).await {
            Either::Left(Some(e)) => log_event(&ctx, e),
            Either::Left(None) => break,
            Either::Right(()) => break,
        }
    }
    // everything the broker sent before this reply is queued at the client: drain without waiting
    let _ = ctx.handle.sync_broker().await;
    crate::yields(2).await;
    loop {
        let next = std::future::poll_fn(|cx| match d.poll_next_event(cx) {
            Poll::Ready(x) => Poll::Ready(Some(x)),
            Poll::Pending => Poll::Ready(None),
        })
        .await;
        match next {
            Some(Some(e)) => log_event(&ctx, e),
            _ => break,
        }
    }
    let mut entries = Vec::new();
    for (key, _, svcs) in &specs {
        let mut objs = Vec::new();
        for it in d.entry_iter(*key) {
            let oid = it.object_id();
            // service ids must be resolvable for every required service
            let sids: Vec<String> = svcs.iter().map(|s| it.service_id(svc_uuid(*s)).cookie.0.to_string()).collect();
            objs.push(json!({"u": uidx(oid.uuid), "cookie": oid.cookie.0.to_string(), "svcs": sids.len()}));
        }
        entries.push(json!({"key": key, "objs": objs}));
    }
    ctx.log.fact(&ctx.name, "dview", json!({"entries": entries}));
    reports.add(-1);
}

pub async fn lifetime_watcher(ctx: Ctx, mail: Rc<Mailbox<Option<(LifetimeId, u64, String)>>>) {
    let Some((id, u, cookie)) = mail.pop().await else { return };
    ctx.jitter().await;
    let opid = ctx.log.start(&ctx.name, "create_lifetime", json!({}));
    let Ok(mut lt) = ctx.handle.create_lifetime(id).await else {
        ctx.log.ret(&ctx.name, "create_lifetime", opid, "err", json!({}));
        return;
    };
    ctx.log.ret(&ctx.name, "create_lifetime", opid, "ok", json!({}));
    let opid = ctx.log.start(&ctx.name, "lifetime_ended", json!({"u": u, "cookie": cookie}));
    lt.ended().await;
    ctx.log.ret(&ctx.name, "lifetime_ended", opid, "ok", json!({"u": u, "cookie": cookie}));
}

pub async fn finder(ctx: Ctx, wait: bool) {
    ctx.jitter().await;
    if wait {
        let opid = ctx.log.start(&ctx.name, "wait_for_object", json!({"u": BASE}));
        let r = ctx.handle.wait_for_object(Some(obj_uuid(BASE)), Vec::<aldrin_core::ServiceUuid>::new()).await;
        match r {
            Ok((oid, _)) => ctx.log.ret(&ctx.name, "wait_for_object", opid, "ok", json!({"u": uidx(oid.uuid), "cookie": oid.cookie.0.to_string()})),
            Err(e) => ctx.log.ret(&ctx.name, "wait_for_object", opid, &format!("err:{}", err_class(&e)), json!({"u": -1, "cookie": ""})),
        }
    } else {
        let n = ctx.below(30);
        crate::yields(n).await;
        let opid = ctx.log.start(&ctx.name, "find_object", json!({"u": BASE}));
        let r = ctx.handle.find_object(Some(obj_uuid(BASE)), Vec::<aldrin_core::ServiceUuid>::new()).await;
        match r {
            Ok(Some((oid, _))) => ctx.log.ret(&ctx.name, "find_object", opid, "ok", json!({"u": uidx(oid.uuid), "cookie": oid.cookie.0.to_string()})),
            Ok(None) => ctx.log.ret(&ctx.name, "find_object", opid, "none", json!({"u": -1, "cookie": ""})),
            Err(e) => ctx.log.ret(&ctx.name, "find_object", opid, &format!("err:{}", err_class(&e)), json!({"u": -1, "cookie": ""})),
        }
    }
}
