//! bus-programs: seeded random closed programs of real clients against the real broker under seeded
//! random schedules. Writes the client-level event log (taps, API operations, outcomes) and the
//! broker hook trace, both as ndjson with `reset` records between runs.

use bus_driver::Bus;
use serde_json::json;
use std::cell::Cell;
use std::path::PathBuf;
use std::rc::Rc;
use vcore::exec::{install_panic_hook, RunOutcome};
use vcore::rng::Rng;
use vcore::trace::{build_trace, Namer};

struct Args {
    seed: u64,
    runs: u64,
    out_client: PathBuf,
    out_broker: PathBuf,
    schedules: u64,
    mix: String,
}

fn parse_args() -> Args {
    let mut a = Args {
        seed: 1,
        runs: 10,
        out_client: PathBuf::from("client.ndjson"),
        out_broker: PathBuf::from("broker.ndjson"),
        schedules: 1,
        mix: "all".into(),
    };
    let v: Vec<String> = std::env::args().collect();
    let mut i = 1;
    while i < v.len() {
        let val = v.get(i + 1).cloned().unwrap_or_default();
        match v[i].as_str() {
            "--seed" => a.seed = val.parse().unwrap(),
            "--runs" => a.runs = val.parse().unwrap(),
            "--out-client" => a.out_client = PathBuf::from(val),
            "--out-broker" => a.out_broker = PathBuf::from(val),
            "--schedules" => a.schedules = val.parse().unwrap(),
            "--mix" => a.mix = val,
            x => panic!("unknown argument {x}"),
        }
        i += 2;
    }
    a
}

const STEP_BOUND: u64 = 2_000_000;

fn one_run(program_seed: u64, schedule_seed: u64, mix: &str) -> (Vec<serde_json::Value>, Vec<vcore::trace::Item>, serde_json::Value) {
    // the program is drawn from program_seed only, the schedule from schedule_seed only
    let mut prng = Rng::new(program_seed);
    let mut srng = Rng::new(schedule_seed);
    let mut bus = Bus::new();
    let fifos = [None, Some(1), Some(2), Some(3), Some(16)];
    let nclients = 2 + prng.below(2) as usize;
    for _ in 0..nclients {
        let fifo = *prng.pick(&fifos);
        // mostly the latest version; with "versions" in the mix every client draws one of 1.14 .. 1.20
        let minor = if mix.split(',').any(|m| m == "versions") { Some(14 + prng.below(7) as u32) } else { None };
        bus.add_client3(&mut srng, fifo, None, None, minor);
    }
    let n = bus.clients.len();
    let tokens = Rc::new(Cell::new(0u32));
    let (roles_n, _slots) = bus_driver::program::spawn_program(&mut bus, &mut prng, mix, &tokens);

    let mut stuck = bus.run(&mut srng, STEP_BOUND) == RunOutcome::StepBound;
    let apps_unfinished = bus.apps_running();
    let panics_now: Vec<String> = bus.exec.panicked().iter().map(|p| format!("{}: {}", p.1, p.2)).collect();
    bus.log.push(json!({"t": "quiescent", "unfinished": apps_unfinished, "panics": panics_now}));

    // clean shutdown of every client (explicit or by dropping the last handle), then idle shutdown
    for i in 0..bus.clients.len() {
        if let Some(h) = bus.clients[i].handle.take() {
            if prng.chance(1, 2) {
                h.shutdown();
            }
            drop(h);
        }
    }
    if !apps_unfinished {
        // all role futures are finished, so no handle clones are left
    }
    bus.spawn_shutdown_idle();
    if bus.run(&mut srng, STEP_BOUND) == RunOutcome::StepBound {
        stuck = true;
    }
    let summary = json!({"clients": n, "roles": roles_n, "stuck": stuck, "unfinished": apps_unfinished,
        "panics": bus.exec.panicked().iter().map(|p| format!("{}: {}", p.1, p.2)).collect::<Vec<_>>()});
    let (lines, items) = bus.finish(stuck);
    (lines, items, summary)
}

fn main() {
    let args = parse_args();
    install_panic_hook();
    let mut rng = Rng::new(args.seed);
    let mut client_lines = Vec::new();
    let mut broker_lines = Vec::new();
    let mut flagged = Vec::new();
    let mut total_roles = 0;
    for run in 0..args.runs {
        let program_seed = rng.next_u64();
        for s in 0..args.schedules {
            let schedule_seed = program_seed ^ (0x9E37 * (s + 1));
            let (lines, items, summary) = one_run(program_seed, schedule_seed, &args.mix);
            client_lines.push(json!({"t": "reset", "run": run, "schedule": s}));
            client_lines.extend(lines);
            let mut namer = Namer::new();
            broker_lines.push(json!({"t": "reset", "run": run, "out": []}));
            broker_lines.extend(build_trace(&mut namer, &items));
            total_roles += summary["roles"].as_u64().unwrap_or(0);
            if summary["stuck"] == true || summary["unfinished"] == true || !summary["panics"].as_array().unwrap().is_empty() {
                flagged.push(json!({"run": run, "schedule": s, "summary": summary}));
            }
        }
    }
    vcore::write_ndjson(&args.out_client, &client_lines).expect("write");
    vcore::write_ndjson(&args.out_broker, &broker_lines).expect("write");
    println!(
        "{}",
        json!({"driver": "bus-programs", "seed": args.seed, "runs": args.runs, "schedules": args.schedules,
            "client_records": client_lines.len(), "broker_records": broker_lines.len(), "roles": total_roles, "flagged": flagged})
    );
}
