//! Specification -> implementation for bus listeners (C10 end to end): performs behaviours of
//! `MC_ListenerApi.tla` (one JSON array of operations per line) with the real client API -- an owner
//! client changes the registry, a second client owns two real `BusListener`s -- and logs, after every
//! operation (clients synchronised, listeners drained), the bus events each listener received and
//! whether it reports itself finished.  `Trace_ListenerApi.tla` checks every step.

use aldrin::low_level::{Service, ServiceInfo};
use aldrin::{BusListener, Handle, Object};
use aldrin_core::{BusEvent, BusListenerFilter, BusListenerScope, ObjectUuid, ServiceUuid};
use bus_driver::roles::{obj_uuid, svc_uuid};
use bus_driver::Bus;
use serde_json::{json, Value as J};
use std::cell::RefCell;
use std::collections::HashMap;
use std::io::BufRead;
use std::path::PathBuf;
use std::rc::Rc;
use std::task::Poll;
use uuid::Uuid;
use vcore::exec::{install_panic_hook, RunOutcome};
use vcore::rng::Rng;

const STEP_BOUND: u64 = 400_000;
const BASE: u64 = 800;
const LISTENERS: usize = 2;

fn ou(o: u64) -> ObjectUuid {
    obj_uuid(BASE + o)
}
fn su(s: u64) -> ServiceUuid {
    svc_uuid(BASE + s)
}
fn oidx(u: ObjectUuid) -> i64 {
    (1..=4).find(|&i| ou(i) == u).map(|i| i as i64).unwrap_or(-1)
}
fn sidx(u: ServiceUuid) -> i64 {
    (1..=4).find(|&i| su(i) == u).map(|i| i as i64).unwrap_or(-1)
}

#[derive(Default)]
struct Tok(HashMap<Uuid, i64>);
impl Tok {
    fn of(&mut self, u: Uuid) -> i64 {
        let n = self.0.len() as i64 + 1;
        *self.0.entry(u).or_insert(n)
    }
}

fn filter_of(f: &J) -> BusListenerFilter {
    let o = f["o"].as_u64().unwrap_or(0);
    let s = f["s"].as_u64().unwrap_or(0);
    if f["ft"] == "obj" {
        if o == 0 {
            BusListenerFilter::any_object()
        } else {
            BusListenerFilter::object(ou(o))
        }
    } else {
        match (o, s) {
            (0, 0) => BusListenerFilter::any_object_any_service(),
            (0, s) => BusListenerFilter::any_object_specific_service(su(s)),
            (o, 0) => BusListenerFilter::specific_object_any_service(ou(o)),
            (o, s) => BusListenerFilter::specific_object_and_service(ou(o), su(s)),
        }
    }
}

fn event_json(tok: &mut Tok, e: BusEvent) -> J {
    match e {
        BusEvent::ObjectCreated(id) => json!({"be": "oc", "o": oidx(id.uuid), "oc": tok.of(id.cookie.0), "s": 0, "sc": 0}),
        BusEvent::ObjectDestroyed(id) => json!({"be": "od", "o": oidx(id.uuid), "oc": tok.of(id.cookie.0), "s": 0, "sc": 0}),
        BusEvent::ServiceCreated(id) => json!({"be": "sc", "o": oidx(id.object_id.uuid), "oc": tok.of(id.object_id.cookie.0),
            "s": sidx(id.uuid), "sc": tok.of(id.cookie.0)}),
        BusEvent::ServiceDestroyed(id) => json!({"be": "sd", "o": oidx(id.object_id.uuid), "oc": tok.of(id.object_id.cookie.0),
            "s": sidx(id.uuid), "sc": tok.of(id.cookie.0)}),
    }
}

async fn script(owner: Handle, watcher: Handle, ops: Vec<J>, log: Rc<RefCell<Vec<J>>>) {
    let mut tok = Tok::default();
    let mut objects: HashMap<u64, Object> = HashMap::new();
    let mut services: HashMap<(u64, u64), Service> = HashMap::new();
    let mut listeners: Vec<Option<BusListener>> = Vec::new();
    for _ in 0..LISTENERS {
        listeners.push(Some(watcher.create_bus_listener().await.expect("listener")));
    }
    for op in ops {
        let name = op["op"].as_str().unwrap().to_string();
        let o = op["o"].as_u64().unwrap_or(0);
        let s = op["s"].as_u64().unwrap_or(0);
        let l = op["l"].as_u64().unwrap_or(0) as usize;
        let scope = op["scope"].as_str().unwrap_or("").to_string();
        let mut c = 0i64;
        let mut res = "ok".to_string();
        let r2s = |r: Result<(), aldrin::Error>| match r {
            Ok(()) => "ok".to_string(),
            Err(e) => bus_driver::err_class(&e),
        };
        match name.as_str() {
            "co" => match owner.create_object(ou(o)).await {
                Ok(obj) => {
                    c = tok.of(obj.id().cookie.0);
                    objects.insert(o, obj);
                }
                Err(e) => res = bus_driver::err_class(&e),
            },
            "do" => match objects.remove(&o) {
                Some(obj) => {
                    services.retain(|k, _| k.0 != o);
                    res = r2s(obj.destroy().await);
                }
                None => res = "noObject".into(),
            },
            "cs" => match objects.get(&o) {
                Some(obj) => match obj.create_service(su(s), ServiceInfo::new(1)).await {
                    Ok(svc) => {
                        c = tok.of(svc.id().cookie.0);
                        services.insert((o, s), svc);
                    }
                    Err(e) => res = bus_driver::err_class(&e),
                },
                None => res = "noObject".into(),
            },
            "ds" => match services.remove(&(o, s)) {
                Some(svc) => res = r2s(svc.destroy().await),
                None => res = "noService".into(),
            },
            "ladd" | "lrem" | "lclear" | "lstart" | "lstop" | "ldestroy" => match listeners[l - 1].as_mut() {
                Some(lst) => {
                    res = match name.as_str() {
                        "ladd" => r2s(lst.add_filter(filter_of(&op["f"]))),
                        "lrem" => r2s(lst.remove_filter(filter_of(&op["f"]))),
                        "lclear" => r2s(lst.clear_filters()),
                        "lstart" => r2s(lst
                            .start(match scope.as_str() {
                                "current" => BusListenerScope::Current,
                                "new" => BusListenerScope::New,
                                _ => BusListenerScope::All,
                            })
                            .await),
                        "lstop" => r2s(lst.stop().await),
                        _ => {
                            let r = r2s(lst.destroy().await);
                            listeners[l - 1] = None;
                            r
                        }
                    };
                }
                None => res = "noListener".into(),
            },
            other => panic!("listener-replay: operation {other} is not mapped"),
        }
        for _ in 0..2 {
            let _ = owner.sync_broker().await;
            let _ = watcher.sync_broker().await;
        }
        bus_driver::yields(2).await;
        let mut obs = Vec::new();
        for (i, slot) in listeners.iter_mut().enumerate() {
            let mut events = Vec::new();
            let mut finished = true;
            if let Some(lst) = slot.as_mut() {
                loop {
                    let next = std::future::poll_fn(|cx| match lst.poll_next_event(cx) {
                        Poll::Ready(x) => Poll::Ready(Some(x)),
                        Poll::Pending => Poll::Ready(None),
                    })
                    .await;
                    match next {
                        Some(Some(e)) => events.push(event_json(&mut tok, e)),
                        _ => break,
                    }
                }
                finished = lst.is_finished();
            }
            obs.push(json!({"l": i + 1, "events": events, "finished": finished}));
        }
        log.borrow_mut().push(json!({"t": "step", "op": name, "o": o, "s": s, "c": c, "l": l, "f": op["f"], "scope": scope, "res": res, "obs": obs}));
    }
}

fn one(ops: Vec<J>, seed: u64) -> (Vec<J>, J) {
    let mut rng = Rng::new(seed);
    let mut bus = Bus::new();
    let fifos = [None, Some(1), Some(2), Some(16)];
    for _ in 0..2 {
        let fifo = *rng.pick(&fifos);
        bus.add_client3(&mut rng, fifo, None, None, None);
    }
    let owner = bus.clients[0].handle.clone().expect("owner");
    let watcher = bus.clients[1].handle.clone().expect("watcher");
    let log: Rc<RefCell<Vec<J>>> = Rc::new(RefCell::new(Vec::new()));
    let n = ops.len();
    bus.spawn_app("script", script(owner, watcher, ops, log.clone()));
    let mut stuck = bus.run(&mut rng, STEP_BOUND) == RunOutcome::StepBound;
    let unfinished = bus.apps_running();
    for i in 0..bus.clients.len() {
        if let Some(h) = bus.clients[i].handle.take() {
            h.shutdown();
        }
    }
    bus.spawn_shutdown_idle();
    if bus.run(&mut rng, STEP_BOUND) == RunOutcome::StepBound {
        stuck = true;
    }
    let panics: Vec<String> = bus.exec.panicked().iter().map(|p| format!("{}: {}", p.1, p.2)).collect();
    let mut lines = log.borrow().clone();
    for p in &panics {
        lines.push(json!({"t": "panic", "msg": p}));
    }
    if stuck || unfinished || lines.iter().filter(|l| l["t"] == "step").count() != n {
        lines.push(json!({"t": "incomplete", "stuck": stuck, "unfinished": unfinished}));
    }
    let _ = bus.finish(stuck);
    (lines, json!({"steps": n, "stuck": stuck, "unfinished": unfinished, "panics": panics}))
}

fn main() {
    let mut input: Option<PathBuf> = None;
    let mut out: Option<PathBuf> = None;
    let mut seed = 1u64;
    let a: Vec<String> = std::env::args().collect();
    let mut k = 1;
    while k + 1 < a.len() {
        match a[k].as_str() {
            "--in" => input = Some(PathBuf::from(&a[k + 1])),
            "--out" => out = Some(PathBuf::from(&a[k + 1])),
            "--seed" => seed = a[k + 1].parse().expect("seed"),
            other => panic!("unknown argument {other}"),
        }
        k += 2;
    }
    install_panic_hook();
    let f = std::io::BufReader::new(std::fs::File::open(input.expect("--in")).expect("open"));
    let mut rng = Rng::new(seed);
    let mut lines = Vec::new();
    let (mut n, mut steps, mut flagged) = (0u64, 0u64, Vec::new());
    for line in f.lines() {
        let line = line.expect("read");
        if line.trim().is_empty() {
            continue;
        }
        let ops: Vec<J> = serde_json::from_str(&line).expect("behaviour json");
        let (l, summary) = one(ops, rng.next_u64());
        lines.push(json!({"t": "reset", "run": n}));
        lines.extend(l);
        steps += summary["steps"].as_u64().unwrap();
        if (summary["stuck"] == true || summary["unfinished"] == true || !summary["panics"].as_array().unwrap().is_empty()) && flagged.len() < 20 {
            flagged.push(json!({"run": n, "summary": summary}));
        }
        n += 1;
    }
    vcore::write_ndjson(&out.expect("--out"), &lines).expect("write trace");
    println!("{}", json!({"driver": "listener-replay", "behaviours": n, "steps": steps, "records": lines.len(), "flagged": flagged}));
}
