//! Specification -> implementation for C19: performs behaviours of `MC_Discovery.tla` (one JSON
//! array of operations per line) with the real client API on a real broker -- an owner client
//! creates and destroys objects and services, a second client runs a real `Discoverer` with the
//! entries of the model -- and logs, after every operation, the discoverer events that arrived and
//! the view every entry reports.  `Trace_Discovery.tla` then checks every logged step against
//! `Discovery.tla`.
//!
//! Operations: co/do (create/destroy object o), cs/ds (create/destroy service s of object o),
//! build/restart with scope all/current.  Cookies are logged as small integers by first appearance.

use aldrin::low_level::{Service, ServiceInfo};
use aldrin::{Discoverer, Handle, Lifetime, LifetimeId, Object};
use aldrin_core::{ObjectUuid, ServiceUuid};
use bus_driver::roles::{obj_uuid, svc_uuid};
use bus_driver::Bus;
use serde_json::{json, Value as J};
use std::cell::RefCell;
use std::collections::HashMap;
use std::io::BufRead;
use std::path::PathBuf;
use std::rc::Rc;
use std::task::Poll;
use uuid::Uuid;
use vcore::exec::{install_panic_hook, RunOutcome};
use vcore::rng::Rng;

const STEP_BOUND: u64 = 400_000;
const BASE: u64 = 700;

/// the entries of MC_Discovery.tla (MCEntryOf): key -> (object or 0, services)
fn entries() -> Vec<(u32, u64, Vec<u64>)> {
    vec![(0, 1, vec![]), (1, 2, vec![1]), (2, 0, vec![1]), (3, 0, vec![1, 2]), (4, 1, vec![1, 2]), (5, 0, vec![])]
}

fn ou(o: u64) -> ObjectUuid {
    obj_uuid(BASE + o)
}
fn su(s: u64) -> ServiceUuid {
    svc_uuid(BASE + s)
}
fn oidx(u: ObjectUuid) -> i64 {
    (1..=4).find(|&i| ou(i) == u).map(|i| i as i64).unwrap_or(-1)
}

#[derive(Default)]
struct Tok(HashMap<Uuid, i64>);
impl Tok {
    fn of(&mut self, u: Uuid) -> i64 {
        let n = self.0.len() as i64 + 1;
        *self.0.entry(u).or_insert(n)
    }
}

async fn build(h: &Handle, current: bool) -> Result<Discoverer<u32>, aldrin::Error> {
    let mut b = Discoverer::<u32>::builder(h);
    for (key, obj, svcs) in entries() {
        let o = if obj == 0 { None } else { Some(ou(obj)) };
        b = b.add(key, o, svcs.iter().map(|s| su(*s)));
    }
    if current {
        b.build_current_only().await
    } else {
        b.build().await
    }
}

async fn script(owner: Handle, watcher: Handle, ops: Vec<J>, log: Rc<RefCell<Vec<J>>>) {
    let mut tok = Tok::default();
    let mut objects: HashMap<u64, Object> = HashMap::new();
    let mut services: HashMap<(u64, u64), Service> = HashMap::new();
    let mut disc: Option<Discoverer<u32>> = None;
    // ids of every object ever created (model cookie token -> real id), and the lifetimes bound so far
    let mut ids: HashMap<(u64, i64), LifetimeId> = HashMap::new();
    let mut lifetimes: Vec<(u64, i64, Lifetime, bool)> = Vec::new();
    for op in ops {
        let name = op["op"].as_str().unwrap().to_string();
        let o = op["o"].as_u64().unwrap_or(0);
        let s = op["s"].as_u64().unwrap_or(0);
        let scope = op["scope"].as_str().unwrap_or("").to_string();
        let mut c = 0i64;
        let mut ok = true;
        match name.as_str() {
            "co" => match owner.create_object(ou(o)).await {
                Ok(obj) => {
                    c = tok.of(obj.id().cookie.0);
                    ids.insert((o, c), obj.lifetime_id());
                    objects.insert(o, obj);
                }
                Err(_) => ok = false,
            },
            "lt" => {
                c = op["c"].as_i64().unwrap_or(0);
                match ids.get(&(o, c)) {
                    Some(id) => match watcher.create_lifetime(*id).await {
                        Ok(lt) => lifetimes.push((o, c, lt, false)),
                        Err(_) => ok = false,
                    },
                    None => ok = false,
                }
            }
            "do" => match objects.remove(&o) {
                Some(obj) => {
                    services.retain(|k, _| k.0 != o);
                    ok = obj.destroy().await.is_ok();
                }
                None => ok = false,
            },
            "cs" => match objects.get(&o) {
                Some(obj) => match obj.create_service(su(s), ServiceInfo::new(1)).await {
                    Ok(svc) => {
                        c = tok.of(svc.id().cookie.0);
                        services.insert((o, s), svc);
                    }
                    Err(_) => ok = false,
                },
                None => ok = false,
            },
            "ds" => match services.remove(&(o, s)) {
                Some(svc) => ok = svc.destroy().await.is_ok(),
                None => ok = false,
            },
            "build" => match build(&watcher, scope == "current").await {
                Ok(d) => disc = Some(d),
                Err(_) => ok = false,
            },
            "restart" => match disc.as_mut() {
                Some(d) => {
                    let r = if scope == "current" { d.restart_current_only().await } else { d.restart().await };
                    ok = r.is_ok();
                }
                None => ok = false,
            },
            other => panic!("discovery-replay: operation {other} is not mapped"),
        }

        // everything the broker told the watcher because of this operation is queued at its client
        // once the reply to a later request of the watcher has arrived
        let _ = watcher.sync_broker().await;
        bus_driver::yields(2).await;
        let mut events = Vec::new();
        let mut view = Vec::new();
        let mut finished = false;
        if let Some(d) = disc.as_mut() {
            loop {
                let next = std::future::poll_fn(|cx| match d.poll_next_event(cx) {
                    Poll::Ready(x) => Poll::Ready(Some(x)),
                    Poll::Pending => Poll::Ready(None),
                })
                .await;
                match next {
                    Some(Some(e)) => events.push(json!({"key": e.key(), "created": e.is_created(),
                        "o": oidx(e.object_id().uuid), "c": tok.of(e.object_id().cookie.0)})),
                    _ => break,
                }
            }
            finished = d.is_finished();
            for (key, _, svcs) in entries() {
                let mut items = Vec::new();
                for it in d.entry_iter(key) {
                    let oid = it.object_id();
                    let sv: Vec<J> = svcs
                        .iter()
                        .map(|s| json!({"s": s, "c": tok.of(it.service_id(su(*s)).cookie.0)}))
                        .collect();
                    items.push(json!({"o": oidx(oid.uuid), "c": tok.of(oid.cookie.0), "svcs": sv}));
                }
                view.push(json!({"key": key, "items": items}));
            }
        }
        // every bound lifetime is polled once
        let mut lts = Vec::new();
        for (lo, lc, lt, ended) in lifetimes.iter_mut() {
            if !*ended {
                let r = std::future::poll_fn(|cx| match lt.poll_ended(cx) {
                    Poll::Ready(()) => Poll::Ready(true),
                    Poll::Pending => Poll::Ready(false),
                })
                .await;
                *ended = r;
            }
            lts.push(json!({"o": lo, "c": lc, "ended": ended}));
        }
        log.borrow_mut().push(json!({"t": "step", "op": name, "o": o, "s": s, "c": c, "scope": scope, "ok": ok,
            "running": disc.is_some(), "finished": finished, "events": events, "view": view, "lts": lts}));
    }
}

fn one(ops: Vec<J>, seed: u64) -> (Vec<J>, J) {
    let mut rng = Rng::new(seed);
    let mut bus = Bus::new();
    let fifos = [None, Some(1), Some(2), Some(16)];
    for _ in 0..2 {
        let fifo = *rng.pick(&fifos);
        bus.add_client3(&mut rng, fifo, None, None, None);
    }
    let owner = bus.clients[0].handle.clone().expect("owner");
    let watcher = bus.clients[1].handle.clone().expect("watcher");
    let log: Rc<RefCell<Vec<J>>> = Rc::new(RefCell::new(Vec::new()));
    let n = ops.len();
    bus.spawn_app("script", script(owner, watcher, ops, log.clone()));
    let mut stuck = bus.run(&mut rng, STEP_BOUND) == RunOutcome::StepBound;
    let unfinished = bus.apps_running();
    for i in 0..bus.clients.len() {
        if let Some(h) = bus.clients[i].handle.take() {
            h.shutdown();
        }
    }
    bus.spawn_shutdown_idle();
    if bus.run(&mut rng, STEP_BOUND) == RunOutcome::StepBound {
        stuck = true;
    }
    let panics: Vec<String> = bus.exec.panicked().iter().map(|p| format!("{}: {}", p.1, p.2)).collect();
    let mut lines = log.borrow().clone();
    for p in &panics {
        lines.push(json!({"t": "panic", "msg": p}));
    }
    if stuck || unfinished || lines.iter().filter(|l| l["t"] == "step").count() != n {
        lines.push(json!({"t": "incomplete", "stuck": stuck, "unfinished": unfinished}));
    }
    let _ = bus.finish(stuck);
    (lines, json!({"steps": n, "stuck": stuck, "unfinished": unfinished, "panics": panics}))
}

fn main() {
    let mut input: Option<PathBuf> = None;
    let mut out: Option<PathBuf> = None;
    let mut seed = 1u64;
    let a: Vec<String> = std::env::args().collect();
    let mut k = 1;
    while k + 1 < a.len() {
        match a[k].as_str() {
            "--in" => input = Some(PathBuf::from(&a[k + 1])),
            "--out" => out = Some(PathBuf::from(&a[k + 1])),
            "--seed" => seed = a[k + 1].parse().expect("seed"),
            other => panic!("unknown argument {other}"),
        }
        k += 2;
    }
    install_panic_hook();
    let f = std::io::BufReader::new(std::fs::File::open(input.expect("--in")).expect("open"));
    let mut rng = Rng::new(seed);
    let mut lines = Vec::new();
    let (mut n, mut steps, mut flagged) = (0u64, 0u64, Vec::new());
    for line in f.lines() {
        let line = line.expect("read");
        if line.trim().is_empty() {
            continue;
        }
        let ops: Vec<J> = serde_json::from_str(&line).expect("behaviour json");
        let (l, summary) = one(ops, rng.next_u64());
        lines.push(json!({"t": "reset", "run": n}));
        lines.extend(l);
        steps += summary["steps"].as_u64().unwrap();
        if (summary["stuck"] == true || summary["unfinished"] == true || !summary["panics"].as_array().unwrap().is_empty()) && flagged.len() < 20 {
            flagged.push(json!({"run": n, "summary": summary}));
        }
        n += 1;
    }
    vcore::write_ndjson(&out.expect("--out"), &lines).expect("write trace");
    println!("{}", json!({"driver": "discovery-replay", "behaviours": n, "steps": steps, "records": lines.len(), "flagged": flagged}));
}
