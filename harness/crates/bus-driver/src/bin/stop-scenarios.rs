//! stop-scenarios (C15): enumerated small scenarios around the moment a client stops, complementing
//! the fault sweep: a caller holds one pending call (the callee never answers), a stop is requested
//! (explicit shutdown / last handle dropped / broker shutdown), the client is given 0..`depth`
//! scheduling rounds, and then the application drops the pending reply (or the pending call's
//! callee, or nothing).  Every client must then return from `run`.
//!
//! A poll of code under test that never returns cannot be interrupted by the executor.  A watchdog
//! thread therefore writes what has been logged so far plus a `hang` record and ends the process
//! (exit code 0, the log is the data) when one scenario makes no progress for `--watchdog` seconds.

use aldrin::low_level::{Proxy, ServiceInfo};
use bus_driver::roles::{obj_uuid, svc_uuid};
use bus_driver::Bus;
use serde_json::{json, Value as J};
use std::path::PathBuf;
use std::sync::atomic::{AtomicU64, Ordering};
use std::sync::{Arc, Mutex};
use vcore::exec::{install_panic_hook, RunOutcome};
use vcore::rng::Rng;

const STEP_BOUND: u64 = 400_000;
const STOPS: [&str; 3] = ["shutdown", "lasthandle", "broker"];
const THEN: [&str; 3] = ["dropreply", "nothing", "dropcallee"];

fn scenario(seed: u64, stop: &str, rounds: u64, then: &str, fifo: Option<usize>, burst: u32) -> Vec<J> {
    let mut rng = Rng::new(seed);
    let mut bus = Bus::new();
    for _ in 0..2 {
        bus.add_client3(&mut rng, fifo, None, None, None);
    }
    bus.log.push(json!({"t": "cause", "cl": 1, "cause": stop, "k": rounds}));
    let callee = bus.clients[0].handle.clone().expect("callee");
    let caller = bus.clients[1].handle.take().expect("caller");
    let stop_s = stop.to_string();
    let then_s = then.to_string();
    let log = bus.log.clone();
    let broker = bus.handle.clone();
    bus.spawn_app("c1.script", async move {
        let object = callee.create_object(obj_uuid(950)).await.expect("object");
        let mut service = object.create_service(svc_uuid(950), ServiceInfo::new(1)).await.expect("service");
        let proxy = Proxy::new(&caller, service.id()).await.expect("proxy");
        if burst > 0 {
            // a backlog of events on their way to the client that is about to stop
            let _ = proxy.subscribe(0).await;
            let _ = callee.sync_broker().await;
            for k in 0..burst {
                let _ = service.emit(0, k);
            }
        }
        let reply = proxy.call(0, 7u32, None);
        if burst == 0 {
            let _ = caller.sync_broker().await;
            let _ = callee.sync_broker().await;
        }
        // the callee takes the call and keeps it unanswered
        let held = if burst == 0 { service.next_call().await } else { None };
        let id = log.start("c1.script", "stop", json!({"how": stop_s}));
        let mut caller = Some(caller);
        let mut proxy = Some(proxy);
        match stop_s.as_str() {
            "shutdown" => caller.as_ref().unwrap().shutdown(),
            "lasthandle" => {
                proxy = None;
                caller = None;
            }
            _ => {
                let mut b = broker.clone();
                b.shutdown().await;
            }
        }
        bus_driver::yields(rounds).await;
        match then_s.as_str() {
            "dropreply" => drop(reply),
            "dropcallee" => {
                drop(held);
                drop(service);
                drop(object);
                bus_driver::yields(4).await;
                drop(reply);
            }
            _ => {
                bus_driver::yields(4).await;
                drop(reply);
            }
        }
        bus_driver::yields(8).await;
        drop(proxy);
        drop(caller);
        log.ret("c1.script", "stop", id, "ok", json!({}));
    });
    let mut stuck = bus.run(&mut rng, STEP_BOUND) == RunOutcome::StepBound;
    let unfinished = bus.apps_running();
    let panics: Vec<String> = bus.exec.panicked().iter().map(|p| format!("{}: {}", p.1, p.2)).collect();
    bus.log.push(json!({"t": "quiescent", "unfinished": unfinished, "panics": panics}));
    if let Some(h) = bus.clients[0].handle.take() {
        h.shutdown();
    }
    bus.spawn_shutdown_idle();
    if bus.run(&mut rng, STEP_BOUND) == RunOutcome::StepBound {
        stuck = true;
    }
    let (lines, _items) = bus.finish(stuck);
    lines
}

fn main() {
    let mut out: Option<PathBuf> = None;
    let mut seed = 1u64;
    let mut depth = 6u64;
    let mut watchdog = 20u64;
    let a: Vec<String> = std::env::args().collect();
    let mut k = 1;
    while k + 1 < a.len() {
        match a[k].as_str() {
            "--out" => out = Some(PathBuf::from(&a[k + 1])),
            "--seed" => seed = a[k + 1].parse().expect("seed"),
            "--depth" => depth = a[k + 1].parse().expect("depth"),
            "--watchdog" => watchdog = a[k + 1].parse().expect("watchdog"),
            other => panic!("unknown argument {other}"),
        }
        k += 2;
    }
    let out = out.expect("--out");
    install_panic_hook();
    let lines: Arc<Mutex<Vec<J>>> = Arc::new(Mutex::new(Vec::new()));
    let progress = Arc::new(AtomicU64::new(0));
    {
        let lines = lines.clone();
        let progress = progress.clone();
        let out = out.clone();
        std::thread::spawn(move || {
            let mut last = 0;
            let mut since = std::time::Instant::now();
            loop {
                std::thread::sleep(std::time::Duration::from_millis(250));
                let p = progress.load(Ordering::SeqCst);
                if p != last {
                    last = p;
                    since = std::time::Instant::now();
                } else if since.elapsed().as_secs() >= watchdog {
                    let mut l = lines.lock().unwrap().clone();
                    l.push(json!({"t": "hang", "secs": watchdog}));
                    vcore::write_ndjson(&out, &l).expect("write");
                    println!("{}", json!({"driver": "stop-scenarios", "scenarios": last, "hang": true}));
                    std::process::exit(0);
                }
            }
        });
    }
    let mut rng = Rng::new(seed);
    let fifos = [None, Some(1), Some(16)];
    let mut n = 0u64;
    for stop in STOPS {
        for then in THEN {
            for rounds in 0..=depth {
                let fifo = fifos[(n % 3) as usize];
                // the scenario is announced before it runs: if it hangs, the log says which one
                lines.lock().unwrap().push(json!({"t": "reset", "run": n, "scenario": {"stop": stop, "then": then, "rounds": rounds, "fifo": fifo.unwrap_or(0)}}));
                lines.lock().unwrap().push(json!({"t": "cause", "cl": 1, "cause": stop, "k": rounds}));
                let l = scenario(rng.next_u64(), stop, rounds, then, fifo, 0);
                lines.lock().unwrap().extend(l);
                n += 1;
                progress.store(n, Ordering::SeqCst);
            }
        }
    }
    // a client stops while events are queued for it on a bounded transport
    for stop in ["shutdown", "lasthandle"] {
        for burst in [6u32, 40] {
            for fifo in [Some(1usize), Some(4), Some(16)] {
                for rounds in 0..=depth {
                    lines.lock().unwrap().push(json!({"t": "reset", "run": n, "scenario": {"stop": stop, "then": "nothing", "rounds": rounds, "fifo": fifo.unwrap_or(0), "burst": burst}}));
                    lines.lock().unwrap().push(json!({"t": "cause", "cl": 1, "cause": stop, "k": rounds}));
                    let l = scenario(rng.next_u64(), stop, rounds, "nothing", fifo, burst);
                    lines.lock().unwrap().extend(l);
                    n += 1;
                    progress.store(n, Ordering::SeqCst);
                }
            }
        }
    }
    let l = lines.lock().unwrap().clone();
    vcore::write_ndjson(&out, &l).expect("write");
    println!("{}", json!({"driver": "stop-scenarios", "scenarios": n, "hang": false, "records": l.len()}));
}
