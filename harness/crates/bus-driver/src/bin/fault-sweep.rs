//! fault-sweep (C15): for seeded random closed programs with a victim client holding one value of
//! every kind (battery role), a fault-free dry run counts the victim's transport operations; then
//! the program is re-run once per (cause, k): the victim's k-th transport operation fails ("io"),
//! or at that point the victim requests shutdown, the broker shuts down, the victim's connection
//! is shut down through the broker handle, or its connection task is dropped.

use bus_driver::roles::{self, Slot};
use bus_driver::Bus;
use serde_json::json;
use std::cell::Cell;
use std::path::PathBuf;
use std::rc::Rc;
use vcore::exec::{install_panic_hook, RunOutcome};
use vcore::link::TapEvent;
use vcore::rng::Rng;
use vcore::trace::{build_trace, Namer};

const STEP_BOUND: u64 = 2_000_000;
const CAUSES: [&str; 6] = ["io", "sendio", "peerio", "shutdown", "broker", "sdc"];

struct Outcome {
    lines: Vec<serde_json::Value>,
    items: Vec<vcore::trace::Item>,
    victim_ops: u64,
    /// transport operations of the victim including its final, clean shutdown
    total_ops: u64,
    triggered: bool,
    flagged: bool,
}

fn one(program_seed: u64, schedule_seed: u64, cause: &str, k: u64) -> Outcome {
    let mut prng = Rng::new(program_seed);
    let mut srng = Rng::new(schedule_seed);
    let mut bus = Bus::new();
    let fifos = [None, Some(1), Some(2), Some(16)];
    let nclients = 2 + prng.below(2) as usize;
    let victim = 0usize;
    for i in 0..nclients {
        let fifo = *prng.pick(&fifos);
        let fail = if i == victim && (cause == "io" || cause == "sendio") && k > 0 { Some(k) } else { None };
        // "sendio": only the victim's sending direction breaks (half-open connection)
        bus.half_open_next = i == victim && cause == "sendio";
        let peer_fail = if i == victim && cause == "peerio" && k > 0 { Some(k) } else { None };
        bus.add_client2(&mut srng, fifo, fail, peer_fail);
    }
    if cause != "none" {
        // the observer must know from the start that this run has an injected termination cause
        bus.log.push(json!({"t": "cause", "cl": victim, "cause": cause, "k": k}));
    }
    if bus.clients.len() < nclients {
        // the fault hit the handshake: the connect error is the outcome; the clients that did connect
        // are shut down cleanly
        // (the victim is not among bus.clients: the indices of the run records are those of the others)
        bus.log.push(json!({"t": "fault", "cl": -1, "cause": cause, "k": k}));
        for i in 0..bus.clients.len() {
            if let Some(h) = bus.clients[i].handle.take() {
                h.shutdown();
            }
        }
        bus.spawn_shutdown_idle();
        let stuck = bus.run(&mut srng, STEP_BOUND) == RunOutcome::StepBound;
        let (lines, items) = bus.finish(stuck);
        return Outcome { lines, items, victim_ops: 0, total_ops: 0, triggered: true, flagged: stuck };
    }
    let tokens = Rc::new(Cell::new(0u32));
    let (_n, slots) = bus_driver::program::spawn_program(&mut bus, &mut prng, "calls,events,channels,chaos", &tokens);
    let fault: Rc<Slot<bool>> = Slot::new();
    let ctx = bus_driver::program::mk_ctx(&bus, victim, format!("c{victim}.battery"), &mut prng, &tokens);
    bus.spawn_app(ctx.name.clone(), roles::battery(ctx, slots.first().cloned(), fault.clone()));

    let label = format!("c{victim}");
    let ops = |bus: &Bus| bus.taps.borrow().ops.get(&label).copied().unwrap_or(0);
    let mut triggered = false;
    let mut stuck = false;
    let mut steps = 0u64;
    loop {
        if !triggered && cause != "io" && cause != "sendio" && cause != "peerio" && k > 0 && ops(&bus) >= k {
            triggered = true;
            match cause {
                "shutdown" => {
                    if let Some(h) = &bus.clients[victim].handle {
                        h.shutdown();
                    }
                }
                "broker" => bus.spawn_shutdown_broker(),
                "sdc" => {
                    let mut h = bus.handle.clone();
                    let ch = bus.clients[victim].conn_handle.clone();
                    bus.exec.spawn("aux-sdc", async move {
                        let _ = h.shutdown_connection(&ch).await;
                    });
                }
                _ => {}
            }
        }
        if bus.exec.step(&mut srng).is_none() {
            break;
        }
        steps += 1;
        if steps > STEP_BOUND {
            stuck = true;
            break;
        }
    }
    if cause == "io" || cause == "sendio" || cause == "peerio" {
        let flabel = if cause != "peerio" { label.clone() } else { format!("b{victim}") };
        let injected = bus.taps.borrow().events.iter().any(|(_, l, e)| l == &flabel && matches!(e, TapEvent::Failed(_, vcore::link::TErr::Injected)));
        if injected {
            triggered = true;
            bus.log.push(json!({"t": "fault", "cl": victim, "cause": cause, "k": k}));
        }
    }
    let victim_ops = ops(&bus);
    // now the battery
    fault.set(triggered);
    if bus.run(&mut srng, STEP_BOUND) == RunOutcome::StepBound {
        stuck = true;
    }
    let unfinished = bus.apps_running();
    let panics_now: Vec<String> = bus.exec.panicked().iter().map(|p| format!("{}: {}", p.1, p.2)).collect();
    bus.log.push(json!({"t": "quiescent", "unfinished": unfinished, "panics": panics_now}));
    for i in 0..bus.clients.len() {
        if let Some(h) = bus.clients[i].handle.take() {
            if prng.chance(1, 2) {
                h.shutdown();
            }
            drop(h);
        }
    }
    bus.spawn_shutdown_idle();
    if bus.run(&mut srng, STEP_BOUND) == RunOutcome::StepBound {
        stuck = true;
    }
    if (cause == "io" || cause == "sendio" || cause == "peerio") && !triggered {
        // the fault point lies in the victim's final shutdown
        let flabel = if cause != "peerio" { label.clone() } else { format!("b{victim}") };
        let injected = bus.taps.borrow().events.iter().any(|(_, l, e)| l == &flabel && matches!(e, TapEvent::Failed(_, vcore::link::TErr::Injected)));
        if injected {
            triggered = true;
            bus.log.push(json!({"t": "fault", "cl": victim, "cause": cause, "k": k}));
        }
    }
    let total_ops = ops(&bus);
    let flagged = stuck || unfinished || !bus.exec.panicked().is_empty();
    let (lines, items) = bus.finish(stuck);
    Outcome { lines, items, victim_ops, total_ops, triggered, flagged }
}

fn main() {
    install_panic_hook();
    let v: Vec<String> = std::env::args().collect();
    let mut seed = 1u64;
    let mut programs = 3u64;
    let mut points = 12u64; // fault points per (program, cause); 0 = all
    let mut out_client = PathBuf::from("client.ndjson");
    let mut out_broker = PathBuf::from("broker.ndjson");
    let mut i = 1;
    while i < v.len() {
        let val = v.get(i + 1).cloned().unwrap_or_default();
        match v[i].as_str() {
            "--seed" => seed = val.parse().unwrap(),
            "--programs" => programs = val.parse().unwrap(),
            "--points" => points = val.parse().unwrap(),
            "--out-client" => out_client = PathBuf::from(val),
            "--out-broker" => out_broker = PathBuf::from(val),
            x => panic!("unknown argument {x}"),
        }
        i += 2;
    }
    let mut rng = Rng::new(seed);
    // the logs are streamed: a thorough sweep produces millions of records
    use std::io::Write;
    let mut client_out = std::io::BufWriter::new(std::fs::File::create(&out_client).expect("create client log"));
    let mut broker_out = std::io::BufWriter::new(std::fs::File::create(&out_broker).expect("create broker log"));
    let mut client_records = 0u64;
    let mut broker_records = 0u64;
    let mut runs = 0u64;
    let mut triggered = 0u64;
    let mut flagged = Vec::new();
    let mut ops_seen = Vec::new();
    for p in 0..programs {
        let program_seed = rng.next_u64();
        let schedule_seed = program_seed ^ 0x5151;
        let dry = one(program_seed, schedule_seed, "none", 0);
        let n = dry.victim_ops;
        let total = dry.total_ops;
        ops_seen.push(n);
        let mut emit = |o: Outcome, tag: serde_json::Value| {
            writeln!(client_out, "{}", json!({"t": "reset", "run": tag})).expect("write");
            for l in &o.lines {
                writeln!(client_out, "{l}").expect("write");
            }
            client_records += 1 + o.lines.len() as u64;
            let mut namer = Namer::new();
            writeln!(broker_out, "{}", json!({"t": "reset", "run": 0, "out": []})).expect("write");
            let bt = build_trace(&mut namer, &o.items);
            for l in &bt {
                writeln!(broker_out, "{l}").expect("write");
            }
            broker_records += 1 + bt.len() as u64;
        };
        if dry.flagged {
            flagged.push(json!({"program": p, "cause": "none"}));
        }
        emit(dry, json!({"program": p, "cause": "none", "k": 0}));
        runs += 1;
        for cause in CAUSES {
            let mut ks: Vec<u64> = if points == 0 || n <= points {
                (1..=n).collect()
            } else {
                let mut ks: Vec<u64> = (0..points).map(|_| 1 + rng.below(n)).collect();
                ks.sort();
                ks.dedup();
                ks
            };
            if cause == "io" || cause == "sendio" || cause == "peerio" {
                // every transport operation of the victim's own final shutdown is a fault point too
                let from = if points == 0 { n + 1 } else { (n + 1).max(total.saturating_sub(11)) };
                ks.extend(from..=total + 1);
            }
            for k in ks {
                // the same schedule seed: up to the fault point the run is the dry run
                let o = one(program_seed, schedule_seed, cause, k);
                runs += 1;
                if o.triggered {
                    triggered += 1;
                }
                if o.flagged {
                    flagged.push(json!({"program": p, "cause": cause, "k": k}));
                }
                emit(o, json!({"program": p, "cause": cause, "k": k}));
            }
        }
    }
    client_out.flush().expect("flush");
    broker_out.flush().expect("flush");
    println!(
        "{}",
        json!({"driver": "fault-sweep", "seed": seed, "programs": programs, "runs": runs, "triggered": triggered,
            "victim_ops": ops_seen, "client_records": client_records, "broker_records": broker_records, "flagged": flagged})
    );
}
