//! Specification -> implementation at the client API: performs behaviours of `MC_BusApi.tla` (one
//! JSON array of operations per line) through real `aldrin::Client`s on a real broker -- client 0
//! owns one service, every user client holds one proxy -- and logs, after every operation (all
//! clients synchronised with the broker, every proxy and every pending reply polled once), what
//! became observable.  `Trace_BusApi.tla` checks every logged step against `BusApi.tla`.

use aldrin::low_level::{PendingReply, Proxy, Service, ServiceInfo};
use aldrin::{Handle, Object};
use bus_driver::roles::{obj_uuid, svc_uuid};
use bus_driver::{err_class, Bus};
use serde_json::{json, Value as J};
use std::cell::RefCell;
use std::future::Future;
use std::io::BufRead;
use std::path::PathBuf;
use std::pin::Pin;
use std::rc::Rc;
use std::task::Poll;
use vcore::exec::{install_panic_hook, RunOutcome};
use vcore::rng::Rng;

const STEP_BOUND: u64 = 400_000;
const USERS: usize = 2;

fn class(e: &aldrin::Error) -> String {
    match err_class(e).as_str() {
        "InvalidService" => "invalidService".into(),
        "CallAborted" => "aborted".into(),
        "InvalidFunction" => "invalidFunction".into(),
        "InvalidArguments" => "invalidArgs".into(),
        other => other.to_string(),
    }
}

async fn sync_all(owner: &Handle, users: &[Handle]) {
    for _ in 0..2 {
        for u in users {
            let _ = u.sync_broker().await;
        }
        let _ = owner.sync_broker().await;
    }
    bus_driver::yields(2).await;
}

struct Outstanding {
    t: u32,
    c: usize,
    reply: PendingReply,
}

async fn script(owner: Handle, users: Vec<Handle>, ops: Vec<J>, log: Rc<RefCell<Vec<J>>>) {
    let object: Object = owner.create_object(obj_uuid(900)).await.expect("object");
    let info = ServiceInfo::new(1);
    let mut service: Option<Service> = Some(object.create_service(svc_uuid(900), info).await.expect("service"));
    let id = service.as_ref().unwrap().id();
    let mut proxies: Vec<Proxy> = Vec::new();
    for u in &users {
        proxies.push(Proxy::new(u, id).await.expect("proxy"));
    }
    let mut over = vec![false; users.len()];
    let mut next_k = 1u32;
    let mut next_t = 1u32;
    let mut outstanding: Vec<Outstanding> = Vec::new();

    for op in ops {
        let name = op["op"].as_str().unwrap().to_string();
        let c = op["c"].as_u64().unwrap_or(0) as usize;
        let ev = op["ev"].as_u64().unwrap_or(0) as u32;
        let how = op["how"].as_str().unwrap_or("").to_string();
        let mut res = "ok".to_string();
        let mut served: i64 = 0;
        let r2s = |r: Result<(), aldrin::Error>| match r {
            Ok(()) => "ok".to_string(),
            Err(e) => class(&e),
        };
        match name.as_str() {
            "sub" => res = r2s(proxies[c - 1].subscribe(ev).await),
            "unsub" => res = r2s(proxies[c - 1].unsubscribe(ev).await),
            "suball" => res = r2s(proxies[c - 1].subscribe_all().await),
            "unsuball" => res = r2s(proxies[c - 1].unsubscribe_all().await),
            "emit" => match service.as_ref() {
                Some(s) => {
                    res = r2s(s.emit(ev, next_k));
                    next_k += 1;
                }
                None => res = "noService".into(),
            },
            "call" => {
                let t = next_t;
                next_t += 1;
                let reply = proxies[c - 1].call(0, t, None);
                outstanding.push(Outstanding { t, c, reply });
            }
            "serve" => match service.as_mut() {
                Some(s) => {
                    let got = std::future::poll_fn(|cx| match s.poll_next_call(cx) {
                        Poll::Ready(x) => Poll::Ready(Some(x)),
                        Poll::Pending => Poll::Ready(None),
                    })
                    .await;
                    match got {
                        Some(Some(call)) => {
                            let t: u32 = call.deserialize().unwrap_or(0);
                            served = t as i64;
                            let r = match how.as_str() {
                                "ok" => call.ok(t),
                                "err" => call.err(t),
                                "abort" => call.abort(),
                                "invalidFunction" => call.invalid_function(),
                                "invalidArgs" => call.invalid_args(),
                                _ => {
                                    drop(call);
                                    Ok(())
                                }
                            };
                            res = r2s(r);
                        }
                        Some(None) => res = "ended".into(),
                        None => res = "noCall".into(),
                    }
                }
                None => res = "noService".into(),
            },
            "abort" => match outstanding.iter().position(|o| o.c == c) {
                Some(i) => drop(outstanding.remove(i)),
                None => res = "nothingToAbort".into(),
            },
            "destroy" => match service.take() {
                Some(s) => res = r2s(s.destroy().await),
                None => res = "noService".into(),
            },
            other => panic!("api-replay: operation {other} is not mapped"),
        }
        sync_all(&owner, &users).await;

        // what became observable
        let mut events = Vec::new();
        let mut ended = Vec::new();
        for (i, p) in proxies.iter_mut().enumerate() {
            let mut items = Vec::new();
            loop {
                let next = std::future::poll_fn(|cx| match p.poll_next_event(cx) {
                    Poll::Ready(x) => Poll::Ready(Some(x)),
                    Poll::Pending => Poll::Ready(None),
                })
                .await;
                match next {
                    Some(Some(e)) => {
                        let k: Option<u32> = e.deserialize().ok();
                        items.push(json!({"ev": e.id(), "k": k.map(|x| x as i64).unwrap_or(-1)}));
                    }
                    Some(None) => {
                        if !over[i] {
                            over[i] = true;
                            ended.push(i + 1);
                        }
                        break;
                    }
                    None => break,
                }
            }
            events.push(json!({"c": i + 1, "items": items}));
        }
        let mut results = Vec::new();
        let mut still = Vec::new();
        for mut o in outstanding.drain(..) {
            let polled = std::future::poll_fn(|cx| match Pin::new(&mut o.reply).poll(cx) {
                Poll::Ready(x) => Poll::Ready(Some(x)),
                Poll::Pending => Poll::Ready(None),
            })
            .await;
            match polled {
                Some(Ok(rep)) => {
                    let (cls, v) = match rep.args() {
                        Ok(v) => ("ok", v.deserialize::<u32>().ok()),
                        Err(v) => ("errval", v.deserialize::<u32>().ok()),
                    };
                    results.push(json!({"t": o.t, "c": o.c, "res": cls, "val": v.map(|x| x as i64).unwrap_or(-1)}));
                }
                Some(Err(e)) => results.push(json!({"t": o.t, "c": o.c, "res": class(&e), "val": 0})),
                None => still.push(o),
            }
        }
        outstanding = still;
        log.borrow_mut().push(json!({"t": "step", "op": name, "c": c, "ev": ev, "how": how, "res": res, "served": served,
            "events": events, "ended": ended, "results": results}));
    }
}

fn one(ops: Vec<J>, seed: u64) -> (Vec<J>, J) {
    let mut rng = Rng::new(seed);
    let mut bus = Bus::new();
    let fifos = [None, Some(1), Some(2), Some(16)];
    for _ in 0..(1 + USERS) {
        let fifo = *rng.pick(&fifos);
        bus.add_client3(&mut rng, fifo, None, None, None);
    }
    let owner = bus.clients[0].handle.clone().expect("owner");
    let users: Vec<Handle> = (1..=USERS).map(|i| bus.clients[i].handle.clone().expect("user")).collect();
    let log: Rc<RefCell<Vec<J>>> = Rc::new(RefCell::new(Vec::new()));
    let n = ops.len();
    bus.spawn_app("script", script(owner, users, ops, log.clone()));
    let mut stuck = bus.run(&mut rng, STEP_BOUND) == RunOutcome::StepBound;
    let unfinished = bus.apps_running();
    for i in 0..bus.clients.len() {
        if let Some(h) = bus.clients[i].handle.take() {
            h.shutdown();
        }
    }
    bus.spawn_shutdown_idle();
    if bus.run(&mut rng, STEP_BOUND) == RunOutcome::StepBound {
        stuck = true;
    }
    let panics: Vec<String> = bus.exec.panicked().iter().map(|p| format!("{}: {}", p.1, p.2)).collect();
    let mut lines = log.borrow().clone();
    for p in &panics {
        lines.push(json!({"t": "panic", "msg": p}));
    }
    if stuck || unfinished || lines.iter().filter(|l| l["t"] == "step").count() != n {
        lines.push(json!({"t": "incomplete", "stuck": stuck, "unfinished": unfinished}));
    }
    let _ = bus.finish(stuck);
    (lines, json!({"steps": n, "stuck": stuck, "unfinished": unfinished, "panics": panics}))
}

fn main() {
    let mut input: Option<PathBuf> = None;
    let mut out: Option<PathBuf> = None;
    let mut seed = 1u64;
    let a: Vec<String> = std::env::args().collect();
    let mut k = 1;
    while k + 1 < a.len() {
        match a[k].as_str() {
            "--in" => input = Some(PathBuf::from(&a[k + 1])),
            "--out" => out = Some(PathBuf::from(&a[k + 1])),
            "--seed" => seed = a[k + 1].parse().expect("seed"),
            other => panic!("unknown argument {other}"),
        }
        k += 2;
    }
    install_panic_hook();
    let f = std::io::BufReader::new(std::fs::File::open(input.expect("--in")).expect("open"));
    let mut rng = Rng::new(seed);
    let mut lines = Vec::new();
    let (mut n, mut steps, mut flagged) = (0u64, 0u64, Vec::new());
    for line in f.lines() {
        let line = line.expect("read");
        if line.trim().is_empty() {
            continue;
        }
        let ops: Vec<J> = serde_json::from_str(&line).expect("behaviour json");
        let (l, summary) = one(ops, rng.next_u64());
        lines.push(json!({"t": "reset", "run": n}));
        lines.extend(l);
        steps += summary["steps"].as_u64().unwrap();
        if (summary["stuck"] == true || summary["unfinished"] == true || !summary["panics"].as_array().unwrap().is_empty()) && flagged.len() < 20 {
            flagged.push(json!({"run": n, "summary": summary}));
        }
        n += 1;
    }
    vcore::write_ndjson(&out.expect("--out"), &lines).expect("write trace");
    println!("{}", json!({"driver": "api-replay", "behaviours": n, "steps": steps, "records": lines.len(), "flagged": flagged}));
}
