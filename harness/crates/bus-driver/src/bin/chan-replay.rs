//! Specification -> implementation for the channel API (C05 end to end): performs behaviours of
//! `MC_ChanApi.tla` (one JSON array of operations per line) with the real low-level channel API --
//! client 1 holds the sender, client 2 the receiver, either may be the creator -- and logs the result
//! of every operation (futures are polled once: a send without credit and a receive without an
//! item stay pending and are abandoned).  `Trace_ChanApi.tla` checks every step against `ChanApi.tla`.

use aldrin::low_level::{Receiver, Sender, UnboundReceiver, UnboundSender};
use aldrin::Handle;
use bus_driver::{err_class, Bus};
use serde_json::{json, Value as J};
use std::cell::RefCell;
use std::future::Future;
use std::io::BufRead;
use std::path::PathBuf;
use std::pin::pin;
use std::rc::Rc;
use std::task::Poll;
use vcore::exec::{install_panic_hook, RunOutcome};
use vcore::rng::Rng;

const STEP_BOUND: u64 = 400_000;
const USERS: usize = 2;

fn class(e: &aldrin::Error) -> String {
    match err_class(e).as_str() {
        "InvalidChannel" => "invalidChannel".into(),
        other => other.to_string(),
    }
}

async fn sync_all(users: &[Handle]) {
    for _ in 0..3 {
        for u in users {
            let _ = u.sync_broker().await;
        }
    }
    bus_driver::yields(2).await;
}

async fn poll_once<F: Future>(f: F) -> Option<F::Output> {
    let mut f = pin!(f);
    std::future::poll_fn(|cx| match f.as_mut().poll(cx) {
        Poll::Ready(x) => Poll::Ready(Some(x)),
        Poll::Pending => Poll::Ready(None),
    })
    .await
}

async fn script(users: Vec<Handle>, ops: Vec<J>, log: Rc<RefCell<Vec<J>>>) {
    let mut sender: Option<Sender> = None;
    let mut receiver: Option<Receiver> = None;
    let mut next_k = 1u32;
    for op in ops {
        let name = op["op"].as_str().unwrap().to_string();
        let n = op["n"].as_u64().unwrap_or(0) as u32;
        let creator = op["creator"].as_str().unwrap_or("").to_string();
        let mut res = "ok".to_string();
        let mut val: i64 = 0;
        match name.as_str() {
            "open" => {
                let r: Result<(Sender, Receiver), aldrin::Error> = async {
                    if creator == "sender" {
                        let (pending, unclaimed) = users[0].create_low_level_channel().claim_sender().await?;
                        let cookie = unclaimed.unbind().cookie();
                        let rcv = UnboundReceiver::new(cookie).bind(users[1].clone()).claim(n).await?;
                        let snd = pending.establish().await?;
                        Ok((snd, rcv))
                    } else {
                        let (unclaimed, pending) = users[1].create_low_level_channel().claim_receiver(n).await?;
                        let cookie = unclaimed.unbind().cookie();
                        let snd = UnboundSender::new(cookie).bind(users[0].clone()).claim().await?;
                        let rcv = pending.establish().await?;
                        Ok((snd, rcv))
                    }
                }
                .await;
                match r {
                    Ok((s, r)) => {
                        sender = Some(s);
                        receiver = Some(r);
                    }
                    Err(e) => res = class(&e),
                }
            }
            "send" => match sender.as_mut() {
                Some(s) => match poll_once(s.send_item(next_k)).await {
                    Some(Ok(())) => {
                        val = next_k as i64;
                        next_k += 1;
                    }
                    Some(Err(e)) => res = class(&e),
                    None => res = "pending".into(),
                },
                None => res = "noSender".into(),
            },
            "recv" => match receiver.as_mut() {
                Some(r) => match poll_once(r.next_item::<u32>()).await {
                    Some(Ok(Some(k))) => {
                        res = "item".into();
                        val = k as i64;
                    }
                    Some(Ok(None)) => res = "end".into(),
                    Some(Err(e)) => res = class(&e),
                    None => res = "pending".into(),
                },
                None => res = "noReceiver".into(),
            },
            "closeS" => match sender.as_mut() {
                Some(s) => {
                    if let Err(e) = s.close().await {
                        res = class(&e);
                    }
                }
                None => res = "noSender".into(),
            },
            "closeR" => match receiver.as_mut() {
                Some(r) => {
                    if let Err(e) = r.close().await {
                        res = class(&e);
                    }
                }
                None => res = "noReceiver".into(),
            },
            "probe" => match sender.as_mut() {
                Some(s) => match poll_once(s.receiver_closed()).await {
                    Some(()) => res = "closed".into(),
                    None => res = "pending".into(),
                },
                None => res = "noSender".into(),
            },
            other => panic!("chan-replay: operation {other} is not mapped"),
        }
        sync_all(&users).await;
        log.borrow_mut().push(json!({"t": "step", "op": name, "n": n, "creator": creator, "res": res, "val": val}));
    }
}

fn one(ops: Vec<J>, seed: u64) -> (Vec<J>, J) {
    let mut rng = Rng::new(seed);
    let mut bus = Bus::new();
    let fifos = [None, Some(1), Some(2), Some(16)];
    for _ in 0..USERS {
        let fifo = *rng.pick(&fifos);
        bus.add_client3(&mut rng, fifo, None, None, None);
    }
    let users: Vec<Handle> = (0..USERS).map(|i| bus.clients[i].handle.clone().expect("user")).collect();
    let log: Rc<RefCell<Vec<J>>> = Rc::new(RefCell::new(Vec::new()));
    let n = ops.len();
    bus.spawn_app("script", script(users, ops, log.clone()));
    let mut stuck = bus.run(&mut rng, STEP_BOUND) == RunOutcome::StepBound;
    let unfinished = bus.apps_running();
    for i in 0..bus.clients.len() {
        if let Some(h) = bus.clients[i].handle.take() {
            h.shutdown();
        }
    }
    bus.spawn_shutdown_idle();
    if bus.run(&mut rng, STEP_BOUND) == RunOutcome::StepBound {
        stuck = true;
    }
    let panics: Vec<String> = bus.exec.panicked().iter().map(|p| format!("{}: {}", p.1, p.2)).collect();
    let mut lines = log.borrow().clone();
    for p in &panics {
        lines.push(json!({"t": "panic", "msg": p}));
    }
    if stuck || unfinished || lines.iter().filter(|l| l["t"] == "step").count() != n {
        lines.push(json!({"t": "incomplete", "stuck": stuck, "unfinished": unfinished}));
    }
    let _ = bus.finish(stuck);
    (lines, json!({"steps": n, "stuck": stuck, "unfinished": unfinished, "panics": panics}))
}

fn main() {
    let mut input: Option<PathBuf> = None;
    let mut out: Option<PathBuf> = None;
    let mut seed = 1u64;
    let a: Vec<String> = std::env::args().collect();
    let mut k = 1;
    while k + 1 < a.len() {
        match a[k].as_str() {
            "--in" => input = Some(PathBuf::from(&a[k + 1])),
            "--out" => out = Some(PathBuf::from(&a[k + 1])),
            "--seed" => seed = a[k + 1].parse().expect("seed"),
            other => panic!("unknown argument {other}"),
        }
        k += 2;
    }
    install_panic_hook();
    let f = std::io::BufReader::new(std::fs::File::open(input.expect("--in")).expect("open"));
    let mut rng = Rng::new(seed);
    let mut lines = Vec::new();
    let (mut n, mut steps, mut flagged) = (0u64, 0u64, Vec::new());
    for line in f.lines() {
        let line = line.expect("read");
        if line.trim().is_empty() {
            continue;
        }
        let ops: Vec<J> = serde_json::from_str(&line).expect("behaviour json");
        let (l, summary) = one(ops, rng.next_u64());
        lines.push(json!({"t": "reset", "run": n}));
        lines.extend(l);
        steps += summary["steps"].as_u64().unwrap();
        if (summary["stuck"] == true || summary["unfinished"] == true || !summary["panics"].as_array().unwrap().is_empty()) && flagged.len() < 20 {
            flagged.push(json!({"run": n, "summary": summary}));
        }
        n += 1;
    }
    vcore::write_ndjson(&out.expect("--out"), &lines).expect("write trace");
    println!("{}", json!({"driver": "chan-replay", "behaviours": n, "steps": steps, "records": lines.len(), "flagged": flagged}));
}
