//! Bus world: the real broker, real connection tasks and real clients (aldrin::Client) on the
//! deterministic executor, with taps on every client transport, plus application tasks ("roles")
//! that use only the public client API. Everything observable is appended to one event log ordered
//! by a global sequence counter: transport messages (tap), API operations (start / return),
//! results of `Client::run` / `Connection::run`, task outcomes.

pub mod discovery;
pub mod program;
pub mod roles;

use aldrin::{Client, Handle};
use aldrin_core::message::MessageOps;
use aldrin_broker::verif::Record;
use aldrin_broker::{Broker, BrokerHandle};
use serde_json::{json, Value as J};
use std::cell::RefCell;
use std::collections::VecDeque;
use std::future::Future;
use std::pin::Pin;
use std::rc::Rc;
use std::task::{Context, Poll, Waker};
use vcore::exec::{shared, Executor, RunOutcome, Shared, TaskId, TaskState};
use vcore::link::{pair, Tap, TapEvent, TapLog};
use vcore::rng::Rng;
use vcore::trace::Item;

/// The client-level event log.
#[derive(Clone, Default)]
pub struct Log(pub Rc<RefCell<Vec<(u64, J)>>>);

impl Log {
    pub fn push(&self, j: J) {
        self.0.borrow_mut().push((vcore::seq::next(), j));
    }

    /// An API operation started.
    pub fn start(&self, task: &str, op: &str, detail: J) -> u64 {
        let id = vcore::seq::next();
        self.0
            .borrow_mut()
            .push((id, json!({"t": "api", "ph": "start", "id": id, "task": task, "op": op, "d": detail})));
        id
    }

    /// An API operation returned.
    pub fn ret(&self, task: &str, op: &str, id: u64, res: &str, detail: J) {
        self.push(json!({"t": "api", "ph": "ret", "id": id, "task": task, "op": op, "res": res, "d": detail}));
    }

    /// A fact an application task states (e.g. "served call t with nonce n").
    pub fn fact(&self, task: &str, what: &str, detail: J) {
        self.push(json!({"t": "fact", "task": task, "what": what, "d": detail}));
    }
}

pub struct ClientInfo {
    pub handle: Option<Handle>,
    pub run_task: TaskId,
    pub conn_task: TaskId,
    pub run_result: Shared<Option<String>>,
    pub conn_result: Shared<Option<String>>,
    pub fifo: Option<usize>,
    pub version: u32,
    pub conn_handle: aldrin_broker::ConnectionHandle,
}

pub struct Bus {
    pub exec: Executor,
    pub handle: BrokerHandle,
    pub broker_task: TaskId,
    pub items: Shared<Vec<Item>>,
    pub taps: Shared<TapLog>,
    pub log: Log,
    pub clients: Vec<ClientInfo>,
    pub app_tasks: Vec<(TaskId, String)>,
    /// the next client's injected failure (`fail_at`) breaks only its sending direction
    pub half_open_next: bool,
}

impl Bus {
    pub fn new() -> Self {
        vcore::seq::reset();
        let items: Shared<Vec<Item>> = shared(Vec::new());
        let sink_items = items.clone();
        aldrin_broker::verif::set_sink(Some(Box::new(move |rec: Record| {
            sink_items.borrow_mut().push(Item::Hook(rec));
        })));
        let mut exec = Executor::new();
        let broker = Broker::new();
        let handle = broker.handle().clone();
        let broker_task = exec.spawn("broker", broker.run());
        Self {
            exec,
            handle,
            broker_task,
            items,
            taps: shared(TapLog::default()),
            log: Log::default(),
            clients: Vec::new(),
            app_tasks: Vec::new(),
            half_open_next: false,
        }
    }

    /// Connects a real client over the repository's channel transport (`fifo = None`: unbounded).
    /// `fail_at`: fail the k-th completed transport operation of the client's end.
    pub fn add_client(&mut self, rng: &mut Rng, fifo: Option<usize>, fail_at: Option<u64>) -> Option<usize> {
        self.add_client2(rng, fifo, fail_at, None)
    }

    /// As `add_client`; `fail_broker_end` fails the k-th transport operation of the broker's end.
    pub fn add_client2(&mut self, rng: &mut Rng, fifo: Option<usize>, fail_at: Option<u64>, fail_broker_end: Option<u64>) -> Option<usize> {
        self.add_client3(rng, fifo, fail_at, fail_broker_end, None)
    }

    /// As `add_client2`; `minor` makes the client negotiate protocol 1.<minor>.
    pub fn add_client3(
        &mut self,
        rng: &mut Rng,
        fifo: Option<usize>,
        fail_at: Option<u64>,
        fail_broker_end: Option<u64>,
        minor: Option<u32>,
    ) -> Option<usize> {
        let i = self.clients.len();
        let (broker_end, client_end) = pair(fifo, format!("b{i}"), format!("c{i}"), Some(self.taps.clone()));
        let client_end = client_end.fail_at(fail_at).send_only(self.half_open_next).rewrite_connect_minor(minor);
        self.half_open_next = false;
        let broker_end = broker_end.fail_at(fail_broker_end);

        let conn_slot: Shared<Option<Result<aldrin_broker::Connection<Tap>, String>>> = shared(None);
        let cs = conn_slot.clone();
        let mut bh = self.handle.clone();
        let t_acc = self.exec.spawn(format!("accept{i}"), async move {
            let r = bh.connect(broker_end).await.map_err(|e| format!("{e:?}"));
            *cs.borrow_mut() = Some(r);
        });
        let client_slot: Shared<Option<Result<Client<Tap>, String>>> = shared(None);
        let cl = client_slot.clone();
        let t_con = self.exec.spawn(format!("connect{i}"), async move {
            let r = Client::connect(client_end).await.map_err(|e| format!("{e:?}"));
            *cl.borrow_mut() = Some(r);
        });
        let mut guard = 0;
        while (self.exec.is_running(t_acc) || self.exec.is_running(t_con)) && guard < 100_000 {
            if self.exec.step(rng).is_none() {
                break;
            }
            guard += 1;
        }
        let conn = conn_slot.borrow_mut().take();
        let client = client_slot.borrow_mut().take();
        match (conn, client) {
            (Some(Ok(conn)), Some(Ok(client))) => {
                let handle = client.handle().clone();
                let version = minor.unwrap_or(20).min(20);
                let conn_handle = conn.handle().clone();
                let run_result = shared(None);
                let rr = run_result.clone();
                let run_task = self.exec.spawn(format!("client{i}"), async move {
                    let r = client.run().await;
                    *rr.borrow_mut() = Some(match r {
                        Ok(()) => "ok".to_string(),
                        Err(aldrin::error::RunError::UnexpectedMessageReceived(m)) => format!("unexpected:{m:?}"),
                        Err(e) => format!("error:{e:?}"),
                    });
                });
                let conn_result = shared(None);
                let cr = conn_result.clone();
                let conn_task = self.exec.spawn(format!("conn{i}"), async move {
                    let r = conn.run().await;
                    *cr.borrow_mut() = Some(match r {
                        Ok(()) => "ok".to_string(),
                        Err(e) => format!("error:{e:?}"),
                    });
                });
                self.clients.push(ClientInfo {
                    handle: Some(handle),
                    run_task,
                    conn_task,
                    run_result,
                    conn_result,
                    fifo,
                    version,
                    conn_handle,
                });
                self.log.push(json!({"t": "client", "cl": i, "ver": version, "fifo": fifo.map(|x| x as i64).unwrap_or(-1)}));
                Some(i)
            }
            (a, b) => {
                self.log.push(json!({"t": "connect-failed", "cl": i,
                    "conn": a.as_ref().map(|x| x.is_ok()).unwrap_or(false), "client": b.as_ref().map(|x| x.is_ok()).unwrap_or(false)}));
                // the broker may have accepted the connection although the client's side of the handshake
                // failed: its connection task must run, or nobody ever tells the broker that the peer is gone
                // (a connection whose task is never run stays registered by design, DESIGN 2.5)
                if let Some(Ok(conn)) = a {
                    self.exec.spawn(format!("conn{i}-orphan"), async move {
                        let _ = conn.run().await;
                    });
                }
                drop(b);
                None
            }
        }
    }

    pub fn spawn_app(&mut self, name: impl Into<String>, fut: impl Future<Output = ()> + 'static) -> TaskId {
        let name = name.into();
        let id = self.exec.spawn(name.clone(), fut);
        self.app_tasks.push((id, name));
        id
    }

    pub fn apps_running(&self) -> bool {
        self.app_tasks.iter().any(|(t, _)| self.exec.is_running(*t))
    }

    pub fn run(&mut self, rng: &mut Rng, max_steps: u64) -> RunOutcome {
        self.exec.run_until_quiescent(rng, max_steps)
    }

    pub fn spawn_shutdown_idle(&mut self) {
        let mut h = self.handle.clone();
        self.exec.spawn("aux-sdi", async move {
            h.shutdown_idle().await;
        });
    }

    pub fn spawn_shutdown_broker(&mut self) {
        let mut h = self.handle.clone();
        self.exec.spawn("aux-sdb", async move {
            h.shutdown().await;
        });
    }

    /// Final records: task outcomes, run results, end marker. Returns (client log lines, broker items).
    pub fn finish(self, stuck: bool) -> (Vec<J>, Vec<Item>) {
        aldrin_broker::verif::set_sink(None);
        let log = self.log.clone();
        for (t, name) in &self.app_tasks {
            let (st, msg) = match self.exec.state(*t) {
                TaskState::Running => ("running", String::new()),
                TaskState::Done => ("done", String::new()),
                TaskState::Panicked(m) => ("panic", m.clone()),
                TaskState::Dropped => ("dropped", String::new()),
            };
            log.push(json!({"t": "task", "task": name, "st": st, "msg": msg}));
        }
        for (i, c) in self.clients.iter().enumerate() {
            let st = |t: TaskId| match self.exec.state(t) {
                TaskState::Running => "running".to_string(),
                TaskState::Done => "done".to_string(),
                TaskState::Panicked(m) => format!("panic:{m}"),
                TaskState::Dropped => "dropped".to_string(),
            };
            log.push(json!({"t": "run", "cl": i, "strict": true, "client": st(c.run_task), "conn": st(c.conn_task),
                "res": c.run_result.borrow().clone().unwrap_or_else(|| "none".into()),
                "connRes": c.conn_result.borrow().clone().unwrap_or_else(|| "none".into())}));
        }
        let broker = match self.exec.state(self.broker_task) {
            TaskState::Running => "running".to_string(),
            TaskState::Done => "done".to_string(),
            TaskState::Panicked(m) => format!("panic:{m}"),
            TaskState::Dropped => "dropped".to_string(),
        };
        log.push(json!({"t": "end", "stuck": stuck, "broker": broker}));

        // merge the tap events into the log by sequence number
        let mut all: Vec<(u64, J)> = log.0.borrow().clone();
        let mut namer = vcore::trace::Namer::new();
        for (seq, label, ev) in self.taps.borrow().events.iter() {
            // only the client ends are part of the client-level trace
            if !label.starts_with('c') {
                continue;
            }
            let cl: i64 = label[1..].parse().unwrap_or(-1);
            let j = match ev {
                TapEvent::Sent(m) => {
                    // the payload as a u32 if it is one (event and item payloads of the roles are)
                    let pv: i64 = m.value().and_then(|v| v.deserialize::<u32>().ok()).map(|x| x as i64).unwrap_or(-1);
                    json!({"t": "tap", "cl": cl, "dir": "tx", "pv": pv, "m": vcore::trace::msg_json(&mut namer, m)})
                }
                TapEvent::Received(m) => {
                    // C12: a payload delivered to a client must already be in the encoding epoch of its
                    // negotiated version: converting it to that version must not change it
                    let ver = self.clients.get(cl as usize).map(|c| c.version).unwrap_or(20);
                    let epoch_ok = match m.value() {
                        Some(v) => {
                            let mut copy = v.to_owned();
                            match copy.convert(None, aldrin_core::ProtocolVersion::new(1, ver)) {
                                Ok(()) => {
                                    let a: &[u8] = copy.as_ref();
                                    let b: &[u8] = v.as_ref();
                                    a == b
                                }
                                Err(_) => true, // ill-formed payloads are not this property's business
                            }
                        }
                        None => true,
                    };
                    json!({"t": "tap", "cl": cl, "dir": "rx", "ver": ver, "epochOk": epoch_ok, "m": vcore::trace::msg_json(&mut namer, m)})
                }
                TapEvent::Failed(op, e) => json!({"t": "tapfail", "cl": cl, "op": format!("{op:?}"), "err": format!("{e:?}")}),
            };
            all.push((*seq, j));
        }
        all.sort_by_key(|x| x.0);
        // service cookies mentioned by facts get the token the tap messages use for them
        for (_, j) in all.iter_mut() {
            if j["t"] == "fact" {
                if let Some(c) = j["d"]["svcCookie"].as_str().and_then(|c| uuid::Uuid::parse_str(c).ok()) {
                    j["d"]["svcTok"] = json!(namer.uuid(c));
                }
            }
        }
        let lines = all.into_iter().map(|x| x.1).collect();
        let items = self.items.borrow().clone();
        (lines, items)
    }
}

impl Default for Bus {
    fn default() -> Self {
        Self::new()
    }
}

// ------------------------------------------------------------------------------------------------
// small async utilities for application tasks (no runtime, no external crates)

/// An unbounded mailbox with async `pop`.
pub struct Mailbox<T> {
    q: RefCell<VecDeque<T>>,
    wakers: RefCell<Vec<Waker>>,
}

impl<T> Mailbox<T> {
    pub fn new() -> Rc<Self> {
        Rc::new(Self {
            q: RefCell::new(VecDeque::new()),
            wakers: RefCell::new(Vec::new()),
        })
    }

    pub fn push(&self, v: T) {
        self.q.borrow_mut().push_back(v);
        for w in self.wakers.borrow_mut().drain(..) {
            w.wake();
        }
    }

    pub fn pop(self: &Rc<Self>) -> impl Future<Output = T> + '_ {
        std::future::poll_fn(move |cx| match self.q.borrow_mut().pop_front() {
            Some(v) => Poll::Ready(v),
            None => {
                self.wakers.borrow_mut().push(cx.waker().clone());
                Poll::Pending
            }
        })
    }
}

/// A counter tasks can wait on (`wait_zero`).
pub struct Latch {
    n: RefCell<i64>,
    wakers: RefCell<Vec<Waker>>,
}

impl Latch {
    pub fn new(n: i64) -> Rc<Self> {
        Rc::new(Self {
            n: RefCell::new(n),
            wakers: RefCell::new(Vec::new()),
        })
    }

    pub fn add(&self, d: i64) {
        *self.n.borrow_mut() += d;
        if *self.n.borrow() <= 0 {
            for w in self.wakers.borrow_mut().drain(..) {
                w.wake();
            }
        }
    }

    pub fn wait_zero(self: &Rc<Self>) -> impl Future<Output = ()> + '_ {
        std::future::poll_fn(move |cx| {
            if *self.n.borrow() <= 0 {
                Poll::Ready(())
            } else {
                self.wakers.borrow_mut().push(cx.waker().clone());
                Poll::Pending
            }
        })
    }
}

/// Yields to the executor `n` times (the task stays ready, so this does not hide a deadlock: it
/// terminates by itself).
pub async fn yields(n: u64) {
    for _ in 0..n {
        let mut first = true;
        std::future::poll_fn(|cx| {
            if first {
                first = false;
                cx.waker().wake_by_ref();
                Poll::Pending
            } else {
                Poll::Ready(())
            }
        })
        .await;
    }
}

pub enum Either<A, B> {
    Left(A),
    Right(B),
}

/// Completes with whichever future completes first (left is polled first).
pub async fn select2<A, B>(a: A, b: B) -> Either<A::Output, B::Output>
where
    A: Future,
    B: Future,
{
    let mut a = Box::pin(a);
    let mut b = Box::pin(b);
    std::future::poll_fn(move |cx: &mut Context| {
        if let Poll::Ready(v) = Pin::new(&mut a).poll(cx) {
            return Poll::Ready(Either::Left(v));
        }
        if let Poll::Ready(v) = Pin::new(&mut b).poll(cx) {
            return Poll::Ready(Either::Right(v));
        }
        Poll::Pending
    })
    .await
}

pub fn err_class(e: &aldrin::Error) -> String {
    let s = format!("{e:?}");
    s.split(|c: char| !c.is_alphanumeric()).next().unwrap_or("Error").to_string()
}
