//! Shared parts of the codec drivers (C01 / C07 / C13).
//!
//! Nothing here decides a property against an oracle of its own: `RV` is the tree that
//! /verif/spec/MC_ValueCodec.tla prints (the specification's value, with the element order the
//! specification chose for its encodings), `to_value` builds the real `aldrin_core::Value` from
//! it, `ApiSer` drives the real public `Serializer` API over it, and the `real_*` functions run
//! the real decoder / skipper / converter on raw bytes and classify what came back.

use aldrin_core::message::{ItemReceived, MessageOps};
use aldrin_core::{
    tags, Bytes, ChannelCookie, Deserialize, DeserializeError, Deserializer, Enum, ObjectCookie,
    ObjectId, ObjectUuid, ProtocolVersion, Serialize, SerializeError, SerializedValue,
    SerializedValueSlice, Serializer, ServiceCookie, ServiceId, ServiceUuid, Struct,
    UnknownFields, UnknownVariant, Value, ValueConversionError,
};
use bytes::BytesMut;
use serde_json::Value as J;
use std::alloc::{GlobalAlloc, Layout, System};
use std::cell::RefCell;
use std::collections::{HashMap, HashSet};
use std::hash::Hash;
use std::panic::{catch_unwind, AssertUnwindSafe};
use std::sync::atomic::{AtomicUsize, Ordering};
use uuid::Uuid;

// ------------------------------------------------------------------------------------------------
// counting allocator

pub struct Counting;

static CUR: AtomicUsize = AtomicUsize::new(0);
static PEAK: AtomicUsize = AtomicUsize::new(0);
/// A single request above this is refused (null), which aborts the process: the python side
/// reports the input that was being processed. Keeps a wild length field from eating the machine.
pub const ALLOC_CAP: usize = 1 << 30;

fn bump(cur_after: usize) {
    let mut p = PEAK.load(Ordering::Relaxed);
    while cur_after > p {
        match PEAK.compare_exchange_weak(p, cur_after, Ordering::Relaxed, Ordering::Relaxed) {
            Ok(_) => break,
            Err(x) => p = x,
        }
    }
}

unsafe impl GlobalAlloc for Counting {
    unsafe fn alloc(&self, l: Layout) -> *mut u8 {
        if l.size() > ALLOC_CAP {
            return std::ptr::null_mut();
        }
        let p = System.alloc(l);
        if !p.is_null() {
            bump(CUR.fetch_add(l.size(), Ordering::Relaxed) + l.size());
        }
        p
    }

    unsafe fn alloc_zeroed(&self, l: Layout) -> *mut u8 {
        if l.size() > ALLOC_CAP {
            return std::ptr::null_mut();
        }
        let p = System.alloc_zeroed(l);
        if !p.is_null() {
            bump(CUR.fetch_add(l.size(), Ordering::Relaxed) + l.size());
        }
        p
    }

    unsafe fn dealloc(&self, p: *mut u8, l: Layout) {
        System.dealloc(p, l);
        CUR.fetch_sub(l.size(), Ordering::Relaxed);
    }

    unsafe fn realloc(&self, p: *mut u8, l: Layout, new: usize) -> *mut u8 {
        if new > ALLOC_CAP {
            return std::ptr::null_mut();
        }
        // counted as "new block allocated while the old one is still alive"
        bump(CUR.load(Ordering::Relaxed) + new);
        let q = System.realloc(p, l, new);
        if !q.is_null() {
            if new >= l.size() {
                CUR.fetch_add(new - l.size(), Ordering::Relaxed);
            } else {
                CUR.fetch_sub(l.size() - new, Ordering::Relaxed);
            }
        }
        q
    }
}

/// Peak number of bytes allocated above the level at entry while `f` runs (single-threaded use).
pub fn measure<T>(f: impl FnOnce() -> T) -> (T, usize) {
    let base = CUR.load(Ordering::Relaxed);
    PEAK.store(base, Ordering::Relaxed);
    let r = f();
    let peak = PEAK.load(Ordering::Relaxed);
    (r, peak.saturating_sub(base))
}

// ------------------------------------------------------------------------------------------------
// small deterministic RNG (splitmix64)

pub struct Rng(pub u64);

impl Rng {
    pub fn next(&mut self) -> u64 {
        self.0 = self.0.wrapping_add(0x9E37_79B9_7F4A_7C15);
        let mut z = self.0;
        z = (z ^ (z >> 30)).wrapping_mul(0xBF58_476D_1CE4_E5B9);
        z = (z ^ (z >> 27)).wrapping_mul(0x94D0_49BB_1331_11EB);
        z ^ (z >> 31)
    }

    pub fn below(&mut self, n: usize) -> usize {
        if n == 0 {
            0
        } else {
            (self.next() % n as u64) as usize
        }
    }

    pub fn byte(&mut self) -> u8 {
        (self.next() & 0xff) as u8
    }
}

// ------------------------------------------------------------------------------------------------
// the specification's value tree

#[derive(Debug, Clone, PartialEq)]
pub enum Key {
    U8(u8),
    I8(i8),
    U16(u16),
    I16(i16),
    U32(u32),
    I32(i32),
    U64(u64),
    I64(i64),
    Str(String),
    Uuid([u8; 16]),
}

#[derive(Debug, Clone, PartialEq)]
pub enum RV {
    None,
    Some(Box<RV>),
    Bool(bool),
    U8(u8),
    I8(i8),
    U16(u16),
    I16(i16),
    U32(u32),
    I32(i32),
    U64(u64),
    I64(i64),
    F32(u32),
    F64(u64),
    String(String),
    Uuid([u8; 16]),
    ObjectId([u8; 32]),
    ServiceId([u8; 64]),
    Sender([u8; 16]),
    Receiver([u8; 16]),
    Vec(Vec<RV>),
    Bytes(Vec<u8>),
    Map(String, Vec<(Key, RV)>),
    Set(String, Vec<Key>),
    Struct(Vec<(u32, RV)>),
    Enum(u32, Box<RV>),
}

pub fn bytes_of(j: &J) -> Result<Vec<u8>, String> {
    j.as_array()
        .ok_or_else(|| format!("not a byte array: {j}"))?
        .iter()
        .map(|b| {
            b.as_u64()
                .filter(|b| *b < 256)
                .map(|b| b as u8)
                .ok_or_else(|| format!("not a byte: {b}"))
        })
        .collect()
}

fn arr<const N: usize>(j: &J) -> Result<[u8; N], String> {
    let v = bytes_of(j)?;
    v.try_into().map_err(|v: Vec<u8>| format!("expected {N} bytes, got {}", v.len()))
}

fn key_of(kk: &str, j: &J) -> Result<Key, String> {
    Ok(match kk {
        "U8" => Key::U8(arr::<1>(j)?[0]),
        "I8" => Key::I8(arr::<1>(j)?[0] as i8),
        "U16" => Key::U16(u16::from_le_bytes(arr(j)?)),
        "I16" => Key::I16(i16::from_le_bytes(arr(j)?)),
        "U32" => Key::U32(u32::from_le_bytes(arr(j)?)),
        "I32" => Key::I32(i32::from_le_bytes(arr(j)?)),
        "U64" => Key::U64(u64::from_le_bytes(arr(j)?)),
        "I64" => Key::I64(i64::from_le_bytes(arr(j)?)),
        "String" => Key::Str(String::from_utf8(bytes_of(j)?).map_err(|e| e.to_string())?),
        "Uuid" => Key::Uuid(arr(j)?),
        _ => return Err(format!("unknown key kind {kk}")),
    })
}

impl RV {
    /// From the JSON of MC_ValueCodec's `Export(v)`.
    pub fn from_json(j: &J) -> Result<RV, String> {
        let k = j["k"].as_str().ok_or("value without k")?;
        Ok(match k {
            "None" => RV::None,
            "Some" => RV::Some(Box::new(RV::from_json(&j["v"])?)),
            "Bool" => RV::Bool(j["b"].as_bool().ok_or("bool")?),
            "U8" => RV::U8(arr::<1>(&j["n"])?[0]),
            "I8" => RV::I8(arr::<1>(&j["n"])?[0] as i8),
            "U16" => RV::U16(u16::from_le_bytes(arr(&j["n"])?)),
            "I16" => RV::I16(i16::from_le_bytes(arr(&j["n"])?)),
            "U32" => RV::U32(u32::from_le_bytes(arr(&j["n"])?)),
            "I32" => RV::I32(i32::from_le_bytes(arr(&j["n"])?)),
            "U64" => RV::U64(u64::from_le_bytes(arr(&j["n"])?)),
            "I64" => RV::I64(i64::from_le_bytes(arr(&j["n"])?)),
            "F32" => RV::F32(u32::from_le_bytes(arr(&j["s"])?)),
            "F64" => RV::F64(u64::from_le_bytes(arr(&j["s"])?)),
            "String" => RV::String(String::from_utf8(bytes_of(&j["s"])?).map_err(|e| e.to_string())?),
            "Uuid" => RV::Uuid(arr(&j["s"])?),
            "ObjectId" => RV::ObjectId(arr(&j["s"])?),
            "ServiceId" => RV::ServiceId(arr(&j["s"])?),
            "Sender" => RV::Sender(arr(&j["s"])?),
            "Receiver" => RV::Receiver(arr(&j["s"])?),
            "Bytes" => RV::Bytes(bytes_of(&j["s"])?),
            "Vec" => RV::Vec(
                j["e"].as_array().ok_or("vec")?.iter().map(RV::from_json).collect::<Result<_, _>>()?,
            ),
            "Map" => {
                let kk = j["kk"].as_str().ok_or("kk")?;
                let mut m = Vec::new();
                for e in j["m"].as_array().ok_or("map")? {
                    m.push((key_of(kk, &e[0])?, RV::from_json(&e[1])?));
                }
                RV::Map(kk.to_owned(), m)
            }
            "Set" => {
                let kk = j["kk"].as_str().ok_or("kk")?;
                let mut s = Vec::new();
                for e in j["s"].as_array().ok_or("set")? {
                    s.push(key_of(kk, e)?);
                }
                RV::Set(kk.to_owned(), s)
            }
            "Struct" => {
                let mut f = Vec::new();
                for e in j["f"].as_array().ok_or("struct")? {
                    f.push((u32::from_le_bytes(arr(&e[0])?), RV::from_json(&e[1])?));
                }
                RV::Struct(f)
            }
            "Enum" => RV::Enum(u32::from_le_bytes(arr(&j["id"])?), Box::new(RV::from_json(&j["v"])?)),
            _ => return Err(format!("unknown value kind {k}")),
        })
    }

    /// True if some map / set / struct below has two or more entries (then the real encoder,
    /// which iterates hash maps, is free to choose another order than the specification did).
    pub fn order_free(&self) -> bool {
        match self {
            RV::Some(v) | RV::Enum(_, v) => v.order_free(),
            RV::Vec(e) => e.iter().any(RV::order_free),
            RV::Map(_, m) => m.len() > 1 || m.iter().any(|(_, v)| v.order_free()),
            RV::Set(_, s) => s.len() > 1,
            RV::Struct(f) => f.len() > 1 || f.iter().any(|(_, v)| v.order_free()),
            _ => false,
        }
    }

    pub fn has_container(&self) -> bool {
        matches!(
            self,
            RV::Some(_) | RV::Enum(..) | RV::Vec(_) | RV::Map(..) | RV::Set(..) | RV::Struct(_) | RV::Bytes(_)
        )
    }
}

fn uuid(b: &[u8]) -> Uuid {
    Uuid::from_bytes(b.try_into().unwrap())
}

macro_rules! map_of {
    ($m:expr, $variant:ident, $key:ident) => {{
        let mut h = HashMap::new();
        for (k, v) in $m {
            if let Key::$key(k) = k {
                h.insert(k.clone(), to_value(v));
            }
        }
        Value::$variant(h)
    }};
}

macro_rules! set_of {
    ($s:expr, $variant:ident, $key:ident) => {{
        let mut h = HashSet::new();
        for k in $s {
            if let Key::$key(k) = k {
                h.insert(k.clone());
            }
        }
        Value::$variant(h)
    }};
}

/// The real dynamic value that the specification's value denotes.
pub fn to_value(v: &RV) -> Value {
    match v {
        RV::None => Value::None,
        RV::Some(v) => Value::Some(Box::new(to_value(v))),
        RV::Bool(b) => Value::Bool(*b),
        RV::U8(n) => Value::U8(*n),
        RV::I8(n) => Value::I8(*n),
        RV::U16(n) => Value::U16(*n),
        RV::I16(n) => Value::I16(*n),
        RV::U32(n) => Value::U32(*n),
        RV::I32(n) => Value::I32(*n),
        RV::U64(n) => Value::U64(*n),
        RV::I64(n) => Value::I64(*n),
        RV::F32(b) => Value::F32(f32::from_bits(*b)),
        RV::F64(b) => Value::F64(f64::from_bits(*b)),
        RV::String(s) => Value::String(s.clone()),
        RV::Uuid(b) => Value::Uuid(uuid(b)),
        RV::ObjectId(b) => Value::ObjectId(ObjectId::new(ObjectUuid(uuid(&b[..16])), ObjectCookie(uuid(&b[16..])))),
        RV::ServiceId(b) => Value::ServiceId(ServiceId::new(
            ObjectId::new(ObjectUuid(uuid(&b[..16])), ObjectCookie(uuid(&b[16..32]))),
            ServiceUuid(uuid(&b[32..48])),
            ServiceCookie(uuid(&b[48..])),
        )),
        RV::Sender(b) => Value::Sender(ChannelCookie(uuid(b))),
        RV::Receiver(b) => Value::Receiver(ChannelCookie(uuid(b))),
        RV::Vec(e) => Value::Vec(e.iter().map(to_value).collect()),
        RV::Bytes(b) => Value::Bytes(Bytes::new(b.clone())),
        RV::Map(kk, m) => match kk.as_str() {
            "U8" => map_of!(m, U8Map, U8),
            "I8" => map_of!(m, I8Map, I8),
            "U16" => map_of!(m, U16Map, U16),
            "I16" => map_of!(m, I16Map, I16),
            "U32" => map_of!(m, U32Map, U32),
            "I32" => map_of!(m, I32Map, I32),
            "U64" => map_of!(m, U64Map, U64),
            "I64" => map_of!(m, I64Map, I64),
            "String" => map_of!(m, StringMap, Str),
            _ => {
                let mut h = HashMap::new();
                for (k, v) in m {
                    if let Key::Uuid(k) = k {
                        h.insert(uuid(k), to_value(v));
                    }
                }
                Value::UuidMap(h)
            }
        },
        RV::Set(kk, s) => match kk.as_str() {
            "U8" => set_of!(s, U8Set, U8),
            "I8" => set_of!(s, I8Set, I8),
            "U16" => set_of!(s, U16Set, U16),
            "I16" => set_of!(s, I16Set, I16),
            "U32" => set_of!(s, U32Set, U32),
            "I32" => set_of!(s, I32Set, I32),
            "U64" => set_of!(s, U64Set, U64),
            "I64" => set_of!(s, I64Set, I64),
            "String" => set_of!(s, StringSet, Str),
            _ => {
                let mut h = HashSet::new();
                for k in s {
                    if let Key::Uuid(k) = k {
                        h.insert(uuid(k));
                    }
                }
                Value::UuidSet(h)
            }
        },
        RV::Struct(f) => Value::Struct(Struct(f.iter().map(|(id, v)| (*id, to_value(v))).collect())),
        RV::Enum(id, v) => Value::Enum(Box::new(Enum::new(*id, to_value(v)))),
    }
}

fn map_eq<K: Eq + Hash>(a: &HashMap<K, Value>, b: &HashMap<K, Value>) -> bool {
    a.len() == b.len() && a.iter().all(|(k, x)| b.get(k).is_some_and(|y| value_eq(x, y)))
}

/// Equality of dynamic values: floats bit for bit, maps and sets as sets.
pub fn value_eq(a: &Value, b: &Value) -> bool {
    use Value::*;
    match (a, b) {
        (None, None) => true,
        (Some(a), Some(b)) => value_eq(a, b),
        (Bool(a), Bool(b)) => a == b,
        (U8(a), U8(b)) => a == b,
        (I8(a), I8(b)) => a == b,
        (U16(a), U16(b)) => a == b,
        (I16(a), I16(b)) => a == b,
        (U32(a), U32(b)) => a == b,
        (I32(a), I32(b)) => a == b,
        (U64(a), U64(b)) => a == b,
        (I64(a), I64(b)) => a == b,
        (F32(a), F32(b)) => a.to_bits() == b.to_bits(),
        (F64(a), F64(b)) => a.to_bits() == b.to_bits(),
        (String(a), String(b)) => a == b,
        (Uuid(a), Uuid(b)) => a == b,
        (ObjectId(a), ObjectId(b)) => a == b,
        (ServiceId(a), ServiceId(b)) => a == b,
        (Vec(a), Vec(b)) => a.len() == b.len() && a.iter().zip(b).all(|(x, y)| value_eq(x, y)),
        (Bytes(a), Bytes(b)) => a == b,
        (U8Map(a), U8Map(b)) => map_eq(a, b),
        (I8Map(a), I8Map(b)) => map_eq(a, b),
        (U16Map(a), U16Map(b)) => map_eq(a, b),
        (I16Map(a), I16Map(b)) => map_eq(a, b),
        (U32Map(a), U32Map(b)) => map_eq(a, b),
        (I32Map(a), I32Map(b)) => map_eq(a, b),
        (U64Map(a), U64Map(b)) => map_eq(a, b),
        (I64Map(a), I64Map(b)) => map_eq(a, b),
        (StringMap(a), StringMap(b)) => map_eq(a, b),
        (UuidMap(a), UuidMap(b)) => map_eq(a, b),
        (U8Set(a), U8Set(b)) => a == b,
        (I8Set(a), I8Set(b)) => a == b,
        (U16Set(a), U16Set(b)) => a == b,
        (I16Set(a), I16Set(b)) => a == b,
        (U32Set(a), U32Set(b)) => a == b,
        (I32Set(a), I32Set(b)) => a == b,
        (U64Set(a), U64Set(b)) => a == b,
        (I64Set(a), I64Set(b)) => a == b,
        (StringSet(a), StringSet(b)) => a == b,
        (UuidSet(a), UuidSet(b)) => a == b,
        (Struct(a), Struct(b)) => map_eq(&a.0, &b.0),
        (Enum(a), Enum(b)) => a.id == b.id && value_eq(&a.value, &b.value),
        (Sender(a), Sender(b)) => a == b,
        (Receiver(a), Receiver(b)) => a == b,
        _ => false,
    }
}

// ------------------------------------------------------------------------------------------------
// driving the real public Serializer API over a specification value, container by container, in
// the specification's element order and with the encoding epoch chosen per nesting level
// (ep[0] at odd depths, ep[1] at even depths; 1 = legacy counted, 2 = current terminated)

#[derive(Clone, Copy)]
pub struct ApiSer<'a> {
    pub v: &'a RV,
    pub ep: [u8; 2],
    pub depth: usize,
}

impl<'a> ApiSer<'a> {
    pub fn new(v: &'a RV, ep: [u8; 2]) -> Self {
        Self { v, ep, depth: 1 }
    }

    fn child(&self, v: &'a RV) -> Self {
        Self { v, ep: self.ep, depth: self.depth + 1 }
    }

    fn two(&self) -> bool {
        self.ep[1 - self.depth % 2] == 2
    }
}

macro_rules! ser_map {
    ($self:expr, $s:expr, $m:expr, $tag:ty, $key:ident, $conv:expr) => {{
        if $self.two() {
            let mut ms = $s.serialize_map2::<$tag>()?;
            for (k, v) in $m {
                if let Key::$key(k) = k {
                    ms.serialize::<tags::Value>(&$conv(k), $self.child(v))?;
                }
            }
            ms.finish()
        } else {
            let mut ms = $s.serialize_map1::<$tag>($m.len())?;
            for (k, v) in $m {
                if let Key::$key(k) = k {
                    ms.serialize::<tags::Value>(&$conv(k), $self.child(v))?;
                }
            }
            ms.finish()
        }
    }};
}

macro_rules! ser_set {
    ($self:expr, $s:expr, $set:expr, $tag:ty, $key:ident, $conv:expr) => {{
        if $self.two() {
            let mut ss = $s.serialize_set2::<$tag>()?;
            for k in $set {
                if let Key::$key(k) = k {
                    ss.serialize(&$conv(k))?;
                }
            }
            ss.finish()
        } else {
            let mut ss = $s.serialize_set1::<$tag>($set.len())?;
            for k in $set {
                if let Key::$key(k) = k {
                    ss.serialize(&$conv(k))?;
                }
            }
            ss.finish()
        }
    }};
}

fn idk<T: Clone>(k: &T) -> T {
    k.clone()
}

fn uuk(k: &[u8; 16]) -> Uuid {
    Uuid::from_bytes(*k)
}

impl Serialize<tags::Value> for ApiSer<'_> {
    fn serialize(self, s: Serializer) -> Result<(), SerializeError> {
        match self.v {
            RV::None => s.serialize_none(),
            RV::Some(v) => s.serialize_some::<tags::Value>(self.child(v)),
            RV::Bool(b) => s.serialize_bool(*b),
            RV::U8(n) => s.serialize_u8(*n),
            RV::I8(n) => s.serialize_i8(*n),
            RV::U16(n) => s.serialize_u16(*n),
            RV::I16(n) => s.serialize_i16(*n),
            RV::U32(n) => s.serialize_u32(*n),
            RV::I32(n) => s.serialize_i32(*n),
            RV::U64(n) => s.serialize_u64(*n),
            RV::I64(n) => s.serialize_i64(*n),
            RV::F32(b) => s.serialize_f32(f32::from_bits(*b)),
            RV::F64(b) => s.serialize_f64(f64::from_bits(*b)),
            RV::String(x) => s.serialize_string(x),
            RV::Uuid(b) => s.serialize_uuid(uuid(b)),
            RV::ObjectId(_) | RV::ServiceId(_) | RV::Sender(_) | RV::Receiver(_) => match to_value(self.v) {
                Value::ObjectId(x) => s.serialize_object_id(x),
                Value::ServiceId(x) => s.serialize_service_id(x),
                Value::Sender(x) => s.serialize_sender(x),
                Value::Receiver(x) => s.serialize_receiver(x),
                _ => unreachable!(),
            },
            RV::Vec(e) => {
                if self.two() {
                    let mut vs = s.serialize_vec2()?;
                    for x in e {
                        vs.serialize::<tags::Value>(self.child(x))?;
                    }
                    vs.finish()
                } else {
                    let mut vs = s.serialize_vec1(e.len())?;
                    for x in e {
                        vs.serialize::<tags::Value>(self.child(x))?;
                    }
                    vs.finish()
                }
            }
            RV::Bytes(b) => {
                if self.two() {
                    let mut bs = s.serialize_bytes2()?;
                    bs.serialize(b)?;
                    bs.finish()
                } else {
                    let mut bs = s.serialize_bytes1(b.len())?;
                    bs.serialize(b)?;
                    bs.finish()
                }
            }
            RV::Map(kk, m) => match kk.as_str() {
                "U8" => ser_map!(self, s, m, tags::U8, U8, idk),
                "I8" => ser_map!(self, s, m, tags::I8, I8, idk),
                "U16" => ser_map!(self, s, m, tags::U16, U16, idk),
                "I16" => ser_map!(self, s, m, tags::I16, I16, idk),
                "U32" => ser_map!(self, s, m, tags::U32, U32, idk),
                "I32" => ser_map!(self, s, m, tags::I32, I32, idk),
                "U64" => ser_map!(self, s, m, tags::U64, U64, idk),
                "I64" => ser_map!(self, s, m, tags::I64, I64, idk),
                "String" => ser_map!(self, s, m, tags::String, Str, idk),
                _ => ser_map!(self, s, m, tags::Uuid, Uuid, uuk),
            },
            RV::Set(kk, set) => match kk.as_str() {
                "U8" => ser_set!(self, s, set, tags::U8, U8, idk),
                "I8" => ser_set!(self, s, set, tags::I8, I8, idk),
                "U16" => ser_set!(self, s, set, tags::U16, U16, idk),
                "I16" => ser_set!(self, s, set, tags::I16, I16, idk),
                "U32" => ser_set!(self, s, set, tags::U32, U32, idk),
                "I32" => ser_set!(self, s, set, tags::I32, I32, idk),
                "U64" => ser_set!(self, s, set, tags::U64, U64, idk),
                "I64" => ser_set!(self, s, set, tags::I64, I64, idk),
                "String" => ser_set!(self, s, set, tags::String, Str, idk),
                _ => ser_set!(self, s, set, tags::Uuid, Uuid, uuk),
            },
            RV::Struct(f) => {
                if self.two() {
                    let mut ss = s.serialize_struct2()?;
                    for (id, v) in f {
                        ss.serialize::<tags::Value>(*id, self.child(v))?;
                    }
                    ss.finish()
                } else {
                    let mut ss = s.serialize_struct1(f.len())?;
                    for (id, v) in f {
                        ss.serialize::<tags::Value>(*id, self.child(v))?;
                    }
                    ss.finish()
                }
            }
            RV::Enum(id, v) => s.serialize_enum::<tags::Value>(*id, self.child(v)),
        }
    }
}

// ------------------------------------------------------------------------------------------------
// the real code on raw bytes

/// A `SerializedValue` holding exactly `bytes` (len >= 1), obtained the way untrusted bytes enter
/// the library: as the payload of a message taken off the wire.
pub fn raw_value(bytes: &[u8]) -> SerializedValue {
    assert!(!bytes.is_empty());
    thread_local! {
        static KIND: u8 = {
            let m = ItemReceived { cookie: ChannelCookie(Uuid::nil()), value: SerializedValue::serialize(()).unwrap() };
            m.serialize_message().unwrap()[4]
        };
    }
    let total = 9 + bytes.len() + 16;
    let mut f = BytesMut::with_capacity(total);
    f.extend_from_slice(&(total as u32).to_le_bytes());
    f.extend_from_slice(&[KIND.with(|k| *k)]);
    f.extend_from_slice(&(bytes.len() as u32).to_le_bytes());
    f.extend_from_slice(bytes);
    f.extend_from_slice(&[0u8; 16]);
    ItemReceived::deserialize_message(f).expect("framing of a raw value").value
}

pub fn de_class(e: &DeserializeError) -> &'static str {
    match e {
        DeserializeError::InvalidSerialization => "invalid",
        DeserializeError::UnexpectedEoi => "eoi",
        DeserializeError::UnexpectedValue => "unexpected",
        DeserializeError::TooDeeplyNested => "tooDeep",
        DeserializeError::NoMoreElements => "noMore",
        DeserializeError::MoreElementsRemain => "moreRemain",
        DeserializeError::TrailingData => "trailing",
    }
}

pub fn conv_class(e: &ValueConversionError) -> String {
    match e {
        ValueConversionError::InvalidVersion => "invalidVersion".into(),
        ValueConversionError::Serialize(e) => format!("ser:{e:?}"),
        ValueConversionError::Deserialize(e) => de_class(e).into(),
    }
}

/// Outcome of one walker on one input: class ("ok", an error class, "panic") and, for "ok", the
/// number of bytes of the input that make up the value (-1 if that could not be established).
#[derive(Debug, Clone, PartialEq)]
pub struct Verdict {
    pub r: String,
    pub n: i64,
}

impl Verdict {
    pub fn json(&self) -> J {
        serde_json::json!({"r": self.r, "n": self.n})
    }

    fn err(r: impl Into<String>) -> Self {
        Verdict { r: r.into(), n: -1 }
    }
}

pub fn quiet<T>(f: impl FnOnce() -> T) -> Result<T, ()> {
    catch_unwind(AssertUnwindSafe(f)).map_err(|_| ())
}

/// Runs `whole` on the input; if it reports trailing data, finds the prefix on which it
/// succeeds: first the candidate `hint`, then every shorter prefix (the walkers are prefix
/// deterministic: what they do depends on the bytes they have read only).
fn with_prefix<T>(
    bytes: &[u8],
    hint: Option<usize>,
    whole: &dyn Fn(&[u8]) -> Result<Result<T, DeserializeError>, ()>,
) -> (Verdict, Option<T>) {
    match whole(bytes) {
        Err(()) => (Verdict::err("panic"), None),
        Ok(Ok(t)) => (Verdict { r: "ok".into(), n: bytes.len() as i64 }, Some(t)),
        Ok(Err(DeserializeError::TrailingData)) => {
            let mut cands: Vec<usize> = Vec::new();
            if let Some(h) = hint {
                if h >= 1 && h < bytes.len() {
                    cands.push(h);
                }
            }
            cands.extend(1..bytes.len());
            for k in cands {
                match whole(&bytes[..k]) {
                    Err(()) => return (Verdict::err("panic"), None),
                    Ok(Ok(t)) => return (Verdict { r: "ok".into(), n: k as i64 }, Some(t)),
                    Ok(Err(_)) => {}
                }
            }
            (Verdict { r: "ok".into(), n: -1 }, None)
        }
        Ok(Err(e)) => (Verdict::err(de_class(&e)), None),
    }
}

/// Full typed decoding as a dynamic value.
pub fn real_decode(bytes: &[u8], hint: Option<usize>) -> (Verdict, Option<Value>) {
    with_prefix(bytes, hint, &|b| {
        let sv = raw_value(b);
        quiet(|| sv.deserialize_as_value())
    })
}

struct SkipProbe;

impl Deserialize<tags::Value> for SkipProbe {
    fn deserialize(d: Deserializer) -> Result<Self, DeserializeError> {
        d.skip().map(|()| SkipProbe)
    }
}

/// `Deserializer::skip`.
pub fn real_skip(bytes: &[u8], hint: Option<usize>) -> Verdict {
    with_prefix(bytes, hint, &|b| {
        let sv = raw_value(b);
        quiet(|| sv.deserialize_as::<tags::Value, SkipProbe>().map(|_| ()))
    })
    .0
}

thread_local! {
    static LEN_OUT: RefCell<Option<Result<usize, DeserializeError>>> = const { RefCell::new(None) };
    static SPLIT_OUT: RefCell<Option<Result<Vec<u8>, DeserializeError>>> = const { RefCell::new(None) };
}

struct LenProbe;

impl Deserialize<tags::Value> for LenProbe {
    fn deserialize(d: Deserializer) -> Result<Self, DeserializeError> {
        let l = d.len();
        LEN_OUT.with(|o| *o.borrow_mut() = Some(l));
        let s = d.split_off_serialized_value().map(|s| s.to_vec());
        SPLIT_OUT.with(|o| *o.borrow_mut() = Some(s));
        Ok(LenProbe)
    }
}

/// `Deserializer::len` and `Deserializer::split_off_serialized_value` (which report the length
/// directly). The split-off bytes must be the prefix they claim to be, else "ok" with n = -2.
pub fn real_len_split(bytes: &[u8]) -> (Verdict, Verdict) {
    LEN_OUT.with(|o| *o.borrow_mut() = None);
    SPLIT_OUT.with(|o| *o.borrow_mut() = None);
    let sv = raw_value(bytes);
    let r = quiet(|| sv.deserialize_as::<tags::Value, LenProbe>().map(|_| ()));
    let len = match LEN_OUT.with(|o| o.borrow_mut().take()) {
        Some(Ok(n)) => Verdict { r: "ok".into(), n: n as i64 },
        Some(Err(e)) => Verdict::err(de_class(&e)),
        None => Verdict::err(if r.is_err() { "panic" } else { "unreached" }),
    };
    let split = match SPLIT_OUT.with(|o| o.borrow_mut().take()) {
        Some(Ok(s)) => Verdict {
            r: "ok".into(),
            n: if bytes.len() >= s.len() && bytes[..s.len()] == s[..] { s.len() as i64 } else { -2 },
        },
        Some(Err(e)) => Verdict::err(de_class(&e)),
        None => Verdict::err(if r.is_err() { "panic" } else { "unreached" }),
    };
    (len, split)
}

/// `Deserialize for SerializedValue` (the opaque-value path used by generated code).
pub fn real_opaque(bytes: &[u8], hint: Option<usize>) -> Verdict {
    let (v, got) = with_prefix(bytes, hint, &|b| {
        let sv = raw_value(b);
        quiet(|| sv.deserialize_as::<tags::Value, SerializedValue>().map(|x| x.to_vec()))
    });
    match (&v, got) {
        (Verdict { n, .. }, Some(x)) if *n >= 0 && x[..] != bytes[..*n as usize] => Verdict { r: "ok".into(), n: -2 },
        _ => v,
    }
}

pub fn real_kind(bytes: &[u8]) -> Verdict {
    let sv = raw_value(bytes);
    match quiet(|| sv.kind()) {
        Err(()) => Verdict::err("panic"),
        Ok(Ok(k)) => Verdict { r: "ok".into(), n: u8::from(k) as i64 },
        Ok(Err(e)) => Verdict::err(de_class(&e)),
    }
}

pub fn version(minor: u32) -> ProtocolVersion {
    ProtocolVersion::new(1, minor)
}

/// `SerializedValueSlice::convert`; Ok(bytes of the result, borrowed = input returned as is).
pub fn real_convert(
    sv: &SerializedValueSlice,
    from: Option<ProtocolVersion>,
    to: ProtocolVersion,
) -> Result<Result<(Vec<u8>, bool), String>, ()> {
    quiet(|| match sv.convert(from, to) {
        Ok(std::borrow::Cow::Borrowed(b)) => Ok((b.to_vec(), true)),
        Ok(std::borrow::Cow::Owned(o)) => Ok((o.to_vec(), false)),
        Err(e) => Err(conv_class(&e)),
    })
}

// capture of unknown struct fields / unknown enum variants and what they re-decode to

struct FieldsProbe(UnknownFields);

impl Deserialize<tags::Value> for FieldsProbe {
    fn deserialize(d: Deserializer) -> Result<Self, DeserializeError> {
        let mut sd = d.deserialize_struct()?;
        while let Some(f) = sd.deserialize()? {
            f.add_to_unknown_fields()?;
        }
        sd.finish_with(|u| Ok(FieldsProbe(u)))
    }
}

struct FieldsSer<'a>(&'a UnknownFields);

impl Serialize<tags::Value> for FieldsSer<'_> {
    fn serialize(self, s: Serializer) -> Result<(), SerializeError> {
        s.serialize_struct2_with_unknown_fields(self.0)?.finish()
    }
}

struct VariantProbe(UnknownVariant);

impl Deserialize<tags::Value> for VariantProbe {
    fn deserialize(d: Deserializer) -> Result<Self, DeserializeError> {
        d.deserialize_enum()?.into_unknown_variant().map(VariantProbe)
    }
}

struct VariantSer<'a>(&'a UnknownVariant);

impl Serialize<tags::Value> for VariantSer<'_> {
    fn serialize(self, s: Serializer) -> Result<(), SerializeError> {
        s.serialize_unknown_variant(self.0)
    }
}

/// For a complete, skippable value `bytes` whose kind is a struct or an enum: capture every
/// field / the variant as opaque values with the real fallback machinery, re-decode them and
/// re-serialize them, and compare with what full decoding gives (`full`: result of the real
/// full decode of the same bytes, None if that failed).
/// "same" | "diff:<what>" | "both-fail" | "capture-fail:<class>" | "panic" | "na"
pub fn real_capture(bytes: &[u8], full: Option<&Value>) -> String {
    let sv = raw_value(bytes);
    let r = quiet(|| -> String {
        match bytes[0] {
            39 | 65 => match sv.deserialize_as::<tags::Value, FieldsProbe>() {
                Err(e) => match full {
                    Some(_) => format!("diff:capture failed ({}) but full decoding succeeded", de_class(&e)),
                    None => format!("capture-fail:{}", de_class(&e)),
                },
                Ok(FieldsProbe(u)) => {
                    let again = u.deserialize_as_value();
                    match (full, again) {
                        (Some(Value::Struct(f)), Ok(a)) => {
                            if !value_eq(&Value::Struct(f.clone()), &Value::Struct(a)) {
                                return "diff:captured fields re-decode to another struct".into();
                            }
                            match SerializedValue::serialize_as::<tags::Value>(FieldsSer(&u)) {
                                Err(e) => format!("diff:re-serializing captured fields failed ({e:?})"),
                                Ok(s) => match s.deserialize_as_value() {
                                    Ok(v) if value_eq(&v, &Value::Struct(f.clone())) => "same".into(),
                                    Ok(_) => "diff:re-serialized captured fields decode to another struct".into(),
                                    Err(e) => format!("diff:re-serialized captured fields do not decode ({})", de_class(&e)),
                                },
                            }
                        }
                        (Some(_), Ok(_)) => "diff:full decoding did not give a struct".into(),
                        (Some(_), Err(e)) => format!("diff:captured fields do not re-decode ({})", de_class(&e)),
                        (None, Err(_)) => "both-fail".into(),
                        (None, Ok(_)) => "diff:captured fields re-decode but full decoding failed".into(),
                    }
                }
            },
            40 => match sv.deserialize_as::<tags::Value, VariantProbe>() {
                Err(e) => match full {
                    Some(_) => format!("diff:capture failed ({}) but full decoding succeeded", de_class(&e)),
                    None => format!("capture-fail:{}", de_class(&e)),
                },
                Ok(VariantProbe(u)) => {
                    let again = u.value().deserialize_as_value();
                    match (full, again) {
                        (Some(Value::Enum(f)), Ok(a)) => {
                            if f.id != u.id() || !value_eq(&f.value, &a) {
                                return "diff:captured variant re-decodes to another value".into();
                            }
                            match SerializedValue::serialize_as::<tags::Value>(VariantSer(&u)) {
                                Err(e) => format!("diff:re-serializing the captured variant failed ({e:?})"),
                                Ok(s) => match s.deserialize_as_value() {
                                    Ok(v) if value_eq(&v, &Value::Enum(f.clone())) => "same".into(),
                                    Ok(_) => "diff:re-serialized captured variant decodes to another value".into(),
                                    Err(e) => format!("diff:re-serialized captured variant does not decode ({})", de_class(&e)),
                                },
                            }
                        }
                        (Some(_), Ok(_)) => "diff:full decoding did not give an enum".into(),
                        (Some(_), Err(e)) => format!("diff:captured variant does not re-decode ({})", de_class(&e)),
                        (None, Err(_)) => "both-fail".into(),
                        (None, Ok(_)) => "diff:captured variant re-decodes but full decoding failed".into(),
                    }
                }
            },
            _ => "na".into(),
        }
    });
    r.unwrap_or_else(|()| "panic".into())
}

pub fn install_quiet_panic_hook() {
    std::panic::set_hook(Box::new(|_| {}));
}

pub fn jbytes(b: &[u8]) -> J {
    J::Array(b.iter().map(|x| J::from(*x)).collect())
}
