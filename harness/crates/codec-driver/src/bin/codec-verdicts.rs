//! codec-verdicts: records what the REAL value codec of /repo/core does on untrusted bytes, one
//! ndjson record per input, for validation by TLC against /verif/spec/ValueCodec.tla
//! (Trace_ValueCodec.tla decides; this program only observes).
//!
//!   codec-verdicts --vectors <ndjson> --seed S --mutants N --random R --short-len L --valid-max V
//!                  --out <records.ndjson> [--progress <file>] [--corrupt K]
//!
//! Inputs: the valid encodings of the vectors (both epochs, mixed, non-canonical); seeded bit flips,
//! truncations, splices, length inflation, kind substitution, byte substitution and trailing
//! garbage applied to them; uniformly random strings; every string up to length L over the
//! reduced alphabet of MC_ValueCodecBytes.
//! Per input: full decode, Deserializer::skip / len / split_off_serialized_value, Deserialize for
//! SerializedValue, kind(), conversion to 1.14 (+ what the result decodes to, second conversion),
//! UnknownFields / UnknownVariant capture and re-decode, peak allocation of each walker.
//! `--corrupt K` (self test): record K gets a wrong skip length.

use aldrin_core::Value;
use codec_driver::*;
use serde_json::{json, Value as J};
use std::collections::HashSet;
use std::io::{BufRead, BufReader, Write};

#[global_allocator]
static A: Counting = Counting;

const ALPHABET: [u8; 24] = [0, 1, 2, 3, 13, 14, 17, 18, 19, 27, 29, 39, 40, 41, 43, 44, 45, 53, 55, 65, 66, 195, 252, 255];
const INTERESTING: [u8; 16] = [0, 1, 2, 0x7f, 0x80, 0xf7, 0xf8, 0xfb, 0xfc, 0xfd, 0xfe, 0xff, 13, 40, 43, 65];

fn mutate(rng: &mut Rng, pool: &[Vec<u8>]) -> (Vec<u8>, &'static str) {
    let base = &pool[rng.below(pool.len())];
    let mut b = base.clone();
    let op = rng.below(9);
    let name = match op {
        0 => {
            for _ in 0..1 + rng.below(3) {
                let i = rng.below(b.len());
                b[i] ^= 1 << rng.below(8);
            }
            "bitflip"
        }
        1 => {
            let n = 1 + rng.below(b.len());
            b.truncate(n);
            "truncate"
        }
        2 => {
            // splice: a range of another encoding replaces / is inserted at a range of this one
            let other = &pool[rng.below(pool.len())];
            let (s1, l1) = (rng.below(b.len()), rng.below(4));
            let e1 = (s1 + l1).min(b.len());
            let s2 = rng.below(other.len());
            let e2 = (s2 + 1 + rng.below(8)).min(other.len());
            b.splice(s1..e1, other[s2..e2].iter().copied());
            "splice"
        }
        3 => {
            // length inflation: a count / length byte (the byte after a container, string or bytes
            // kind when there is one) is raised, possibly into a multi-byte varint
            let cands: Vec<usize> = (0..b.len().saturating_sub(1))
                .filter(|i| matches!(b[*i], 13 | 17..=39))
                .map(|i| i + 1)
                .collect();
            let i = if !cands.is_empty() && rng.below(4) != 0 { cands[rng.below(cands.len())] } else { rng.below(b.len()) };
            match rng.below(4) {
                0 => b[i] = b[i].wrapping_add(1 + rng.below(3) as u8),
                1 => b[i] = [0x7f, 0xfb, 200, 100][rng.below(4)],
                2 => {
                    b[i] = 0xfc + rng.below(4) as u8;
                    let k = (b[i] - 0xfb) as usize;
                    let fill: Vec<u8> = (0..k).map(|j| if j + 1 == k { [1u8, 0x7f, 0xff][rng.below(3)] } else { rng.byte() }).collect();
                    b.splice(i + 1..i + 1, fill);
                }
                _ => {
                    b[i] = 0xff;
                    b.splice(i + 1..i + 1, [0xff, 0xff, 0xff, 0xff]);
                }
            }
            "inflate"
        }
        4 => {
            let i = if rng.below(2) == 0 { 0 } else { rng.below(b.len()) };
            b[i] = if rng.below(8) == 0 { 66 + rng.below(190) as u8 } else { rng.below(66) as u8 };
            "kind"
        }
        5 => {
            let i = rng.below(b.len());
            b[i] = INTERESTING[rng.below(INTERESTING.len())];
            "byte"
        }
        6 => {
            for _ in 0..1 + rng.below(3) {
                b.push(if rng.below(2) == 0 { rng.byte() } else { ALPHABET[rng.below(ALPHABET.len())] });
            }
            "trailing"
        }
        7 => {
            // delete or duplicate a range
            let s = rng.below(b.len());
            let e = (s + 1 + rng.below(4)).min(b.len());
            if rng.below(2) == 0 && b.len() > e - s {
                b.drain(s..e);
            } else {
                let dup: Vec<u8> = b[s..e].to_vec();
                b.splice(e..e, dup);
            }
            "range"
        }
        _ => {
            // 1.20 <-> legacy kind swap of one container kind byte, framing left as it is
            let cands: Vec<usize> = (0..b.len()).filter(|i| (17..=39).contains(&b[*i]) || (43..=65).contains(&b[*i])).collect();
            if cands.is_empty() {
                let i = rng.below(b.len());
                b[i] = rng.below(66) as u8;
            } else {
                let i = cands[rng.below(cands.len())];
                b[i] = if b[i] >= 43 { b[i] - 26 } else { b[i] + 26 };
            }
            "epoch-swap"
        }
    };
    if b.is_empty() {
        b.push(rng.byte());
    }
    (b, name)
}

fn observe(i: usize, input: &[u8], src: &str) -> J {
    // the skip path first: its length is the hint for finding what full decoding consumed
    let ((len, split), a_len) = measure(|| real_len_split(input));
    let hint = if len.r == "ok" && len.n > 0 { Some(len.n as usize) } else { None };
    let (skip, a_skip) = measure(|| real_skip(input, hint));
    let (opaque, a_opq) = measure(|| real_opaque(input, hint));
    let (((dec, val), prefix_dec), a_dec) = measure(|| {
        // peak allocation is that of the (first) decode of the whole input
        (real_decode(input, hint), ())
    });
    let _ = prefix_dec;
    let kind = real_kind(input);

    // conversion of the whole input to the legacy epoch
    let sv = raw_value(input);
    let (cr, a_conv) = measure(|| real_convert(&sv, None, version(14)));
    let mut conv = json!({"r": "panic", "out": [], "same": "na", "idem": "na", "kind": -1});
    match cr {
        Err(()) => {}
        Ok(Err(e)) => conv["r"] = json!(e),
        Ok(Ok((out, _))) => {
            conv["r"] = json!("ok");
            conv["out"] = jbytes(&out);
            let k = real_kind(&out);
            conv["kind"] = json!(if k.r == "ok" { k.n } else { -1 });
            // what the result decodes to, compared with what the input decodes to (whole input)
            let din: Option<Value> = if dec.r == "ok" && dec.n == input.len() as i64 { val.clone() } else { None };
            let dout = quiet(|| raw_value(&out).deserialize_as_value());
            conv["same"] = json!(match (&din, &dout) {
                (_, Err(())) => "panic".to_owned(),
                (Some(a), Ok(Ok(b))) => if value_eq(a, b) { "same".to_owned() } else { "diff".to_owned() },
                (Some(_), Ok(Err(e))) => format!("lost:{}", de_class(e)),
                (None, Ok(Ok(_))) => "gained".to_owned(),
                (None, Ok(Err(_))) => "both-fail".to_owned(),
            });
            conv["idem"] = json!(match real_convert(&raw_value(&out), None, version(14)) {
                Err(()) => "panic".to_owned(),
                Ok(Ok((o2, _))) => if o2 == out { "same".to_owned() } else { "diff".to_owned() },
                Ok(Err(e)) => format!("fail:{e}"),
            });
        }
    }
    // same-or-newer epoch: returned as is, whatever the bytes are
    let keep = match real_convert(&sv, None, version(20)) {
        Err(()) => "panic",
        Ok(Ok((b, _))) if b == input => "same",
        Ok(Ok(_)) => "diff",
        Ok(Err(_)) => "fail",
    };

    // capture of unknown fields / variants on the value proper (the skippable prefix)
    let capture = if skip.r == "ok" && skip.n > 0 && matches!(input[0], 39 | 40 | 65) {
        let p = &input[..skip.n as usize];
        let full = if dec.r == "ok" && dec.n == skip.n { val.as_ref() } else { None };
        real_capture(p, full)
    } else {
        "na".to_owned()
    };
    let capture = match capture.split_once(':') {
        Some((c, d)) => json!({"r": c, "d": d}),
        None => json!({"r": capture, "d": ""}),
    };

    json!({"t": "verdict", "i": i, "src": src, "in": jbytes(input),
           "dec": dec.json(), "skip": skip.json(), "len": len.json(), "split": split.json(), "opaque": opaque.json(),
           "kind": kind.json(), "conv": conv, "keep": keep, "capture": capture,
           "alloc": {"dec": a_dec, "skip": a_skip.max(a_len).max(a_opq), "conv": a_conv}})
}

fn main() {
    let args: Vec<String> = std::env::args().collect();
    install_quiet_panic_hook();
    let get = |k: &str| args.iter().position(|a| a == k).map(|i| args[i + 1].clone());
    let num = |k: &str, d: usize| get(k).map(|s| s.parse().unwrap()).unwrap_or(d);
    let vectors = get("--vectors").expect("--vectors");
    let out = get("--out").expect("--out");
    let seed = num("--seed", 1) as u64;
    let (mutants, random, short_len, valid_max) = (num("--mutants", 4000), num("--random", 500), num("--short-len", 3), num("--valid-max", 3000));
    let corrupt = get("--corrupt").map(|s| s.parse::<usize>().unwrap());
    let progress = get("--progress");
    let single = get("--input"); // replay: one input as a JSON byte array

    let mut inputs: Vec<(Vec<u8>, String)> = Vec::new();
    let mut seen: HashSet<Vec<u8>> = HashSet::new();
    let mut add = |b: Vec<u8>, src: &str, inputs: &mut Vec<(Vec<u8>, String)>| {
        if !b.is_empty() && b.len() < 60000 && seen.insert(b.clone()) {
            inputs.push((b, src.to_owned()));
        }
    };

    if let Some(s) = single {
        let j: J = serde_json::from_str(&s).unwrap();
        add(bytes_of(&j).unwrap(), "replay", &mut inputs);
    } else {
        // the pool of valid encodings
        let mut pool: Vec<Vec<u8>> = Vec::new();
        let mut pool_seen: HashSet<Vec<u8>> = HashSet::new();
        for line in BufReader::new(std::fs::File::open(vectors).unwrap()).lines() {
            let line = line.unwrap();
            let Ok(j) = serde_json::from_str::<J>(&line) else { continue };
            if j.get("epochs").is_some() || j.get("id").is_none() {
                continue;
            }
            for f in ["e22", "e11", "e12", "e21"] {
                let b = bytes_of(&j[f]).unwrap();
                if pool_seen.insert(b.clone()) {
                    pool.push(b);
                }
            }
            for a in j["alts"].as_array().unwrap() {
                let b = bytes_of(&a["a"]).unwrap();
                if pool_seen.insert(b.clone()) {
                    pool.push(b);
                }
            }
        }
        let mut rng = Rng(seed.wrapping_mul(0x1234_5678_9abc_def1) ^ 0xC0DEC);
        // valid encodings as they are (a seeded sample when there are too many)
        if pool.len() <= valid_max {
            for b in &pool {
                add(b.clone(), "valid", &mut inputs);
            }
        } else {
            for _ in 0..valid_max {
                let b = pool[rng.below(pool.len())].clone();
                add(b, "valid", &mut inputs);
            }
        }
        // every truncation of some encodings
        for _ in 0..(mutants / 40).max(5) {
            let b = &pool[rng.below(pool.len())];
            if b.len() <= 80 {
                for n in 1..b.len() {
                    add(b[..n].to_vec(), "truncate-all", &mut inputs);
                }
            }
        }
        for _ in 0..mutants {
            let (b, name) = mutate(&mut rng, &pool);
            add(b, name, &mut inputs);
        }
        for _ in 0..random {
            let n = 1 + rng.below(16);
            let uniform = rng.below(2) == 0;
            let b: Vec<u8> = (0..n).map(|_| if uniform { rng.byte() } else { ALPHABET[rng.below(ALPHABET.len())] }).collect();
            add(b, if uniform { "random" } else { "random-alphabet" }, &mut inputs);
        }
        // long containers of tiny elements: where the decoder's memory use per input byte peaks
        for n in [300usize, 1000] {
            let count = |n: usize| vec![253u8, (n & 0xff) as u8, (n >> 8) as u8];
            let mut v1 = vec![17u8];
            v1.extend(count(n));
            v1.extend(std::iter::repeat(0u8).take(n));
            add(v1, "stress", &mut inputs);
            let mut v2 = vec![43u8];
            for _ in 0..n {
                v2.extend([1u8, 0]);
            }
            v2.push(0);
            add(v2, "stress", &mut inputs);
            let mut m1 = vec![21u8]; // U16Map1: keys 0..n (one or three bytes each), values None
            m1.extend(count(n));
            for k in 0..n {
                if k > 253 {
                    m1.extend([255u8, (k & 0xff) as u8, (k >> 8) as u8]);
                } else {
                    m1.push(k as u8);
                }
                m1.push(0);
            }
            add(m1, "stress", &mut inputs);
            let mut s1 = vec![29u8]; // U8Set1 with n (repeating) keys
            s1.extend(count(n));
            s1.extend((0..n).map(|k| k as u8));
            add(s1, "stress", &mut inputs);
            let mut st = vec![13u8]; // string
            st.extend(count(n));
            st.extend(std::iter::repeat(b'a').take(n));
            add(st, "stress", &mut inputs);
            let mut b2 = vec![44u8]; // bytes in chunks of one
            for k in 0..n {
                b2.extend([1u8, k as u8]);
            }
            b2.push(0);
            add(b2, "stress", &mut inputs);
        }
        // every short string over the reduced alphabet
        let mut level: Vec<Vec<u8>> = vec![vec![]];
        for _ in 0..short_len {
            let mut next = Vec::new();
            for s in &level {
                for a in ALPHABET {
                    let mut t = s.clone();
                    t.push(a);
                    next.push(t);
                }
            }
            for s in &next {
                add(s.clone(), "short", &mut inputs);
            }
            level = next;
        }
    }

    let mut w = std::io::BufWriter::new(std::fs::File::create(&out).unwrap());
    let mut by_src: std::collections::BTreeMap<String, usize> = Default::default();
    let mut max_ratio = (0f64, 0usize, 0usize);
    let mut panics = 0usize;
    let nontrivial = inputs.iter().filter(|(b, src)| b.len() >= 2 && src != "valid").count();
    // on a thread with a modest stack: deep recursion of the code under test is part of what is observed
    let n_inputs = inputs.len();
    let mut samples: Vec<J> = Vec::new();
    let mut progress_file = progress.as_ref().map(|p| std::fs::File::create(p).unwrap());
    let handle = std::thread::Builder::new()
        .stack_size(8 * 1024 * 1024)
        .spawn(move || {
            for (i, (b, src)) in inputs.iter().enumerate() {
                if let Some(f) = &mut progress_file {
                    // if the process dies (abort on allocation failure, stack overflow), python reports this input
                    use std::io::{Seek, SeekFrom};
                    let line = format!("{}", json!({"i": i + 1, "in": jbytes(b), "src": src}));
                    let _ = f.seek(SeekFrom::Start(0));
                    let _ = f.write_all(line.as_bytes());
                    let _ = f.set_len(line.len() as u64);
                }
                let mut r = observe(i + 1, b, src);
                if corrupt == Some(i + 1) {
                    r["skip"] = json!({"r": "ok", "n": b.len() + 1});
                }
                *by_src.entry(src.clone()).or_default() += 1;
                let peak = r["alloc"]["dec"].as_u64().unwrap().max(r["alloc"]["skip"].as_u64().unwrap()) as usize;
                let ratio = peak as f64 / b.len() as f64;
                if peak > 4096 && ratio > max_ratio.0 {
                    max_ratio = (ratio, peak, b.len());
                }
                if r.to_string().contains("\"panic\"") {
                    panics += 1;
                }
                if samples.len() < 3 && matches!(src.as_str(), "inflate" | "epoch-swap" | "splice") && r["dec"]["r"] != r["skip"]["r"] || (samples.is_empty() && i == 40) {
                    samples.push(json!({"in": r["in"], "src": src, "dec": r["dec"], "skip": r["skip"], "conv": r["conv"]["r"], "alloc": r["alloc"]}));
                }
                writeln!(w, "{r}").unwrap();
            }
            w.flush().unwrap();
            (by_src, max_ratio, panics, samples)
        })
        .unwrap();
    let (by_src, max_ratio, panics, samples) = handle.join().unwrap();
    println!(
        "{}",
        json!({"records": n_inputs, "nontrivial": nontrivial, "samples": samples, "by_source": by_src, "panics": panics,
               "max_alloc_ratio": {"ratio": max_ratio.0, "peak": max_ratio.1, "len": max_ratio.2}})
    );
}
