//! codec-vectors: replays the vectors enumerated by TLC from /verif/spec/MC_ValueCodec.tla on the
//! real value codec of /repo/core, with the specification's value / bytes as the oracle.
//!
//!   codec-vectors --mode c01|c13 --vectors <ndjson> --records <out.ndjson> [--corrupt N]
//!   codec-vectors --deep-child            (internal: nesting chains of 100 000 levels, small stack)
//!
//! Property level findings go to "violations", conformance level ones (byte-exact equality with the
//! reference encodings, non-canonical inputs) to "drifts" of the JSON summary printed last.
//! `--records` receives one record per real encoder / converter output for validation by TLC
//! (Trace_ValueCodec.tla).  `--corrupt N` (self test) flips one expected value of vector N.

use aldrin_core::message::{ItemReceived, MessageOps};
use aldrin_core::{tags, ChannelCookie, ProtocolVersion, SerializeError, SerializedValue, Value};
use codec_driver::*;
use serde_json::{json, Value as J};
use std::collections::HashSet;
use std::io::{BufRead, BufReader, Write};

#[global_allocator]
static A: Counting = Counting;

struct Out {
    violations: Vec<J>,
    drifts: Vec<J>,
    nviol: usize,
    ndrift: usize,
    checks: usize,
    changed: usize,
}

impl Out {
    fn viol(&mut self, id: i64, what: &str, detail: String) {
        self.nviol += 1;
        if self.violations.len() < 40 {
            self.violations.push(json!({"id": id, "what": what, "detail": detail}));
        }
    }

    fn drift(&mut self, id: i64, what: &str, detail: String) {
        self.ndrift += 1;
        if self.drifts.len() < 40 {
            self.drifts.push(json!({"id": id, "what": what, "detail": detail}));
        }
    }
}

const EPS: [(&str, [u8; 2]); 4] = [("e22", [2, 2]), ("e11", [1, 1]), ("e12", [1, 2]), ("e21", [2, 1])];

fn hex(b: &[u8]) -> String {
    let mut s = String::new();
    for (i, x) in b.iter().enumerate() {
        if i >= 48 {
            s.push_str("..");
            break;
        }
        s.push_str(&format!("{x:02x}"));
    }
    s
}

fn decode_whole(bytes: &[u8]) -> Result<Result<Value, String>, ()> {
    let sv = raw_value(bytes);
    quiet(|| sv.deserialize_as_value().map_err(|e| de_class(&e).to_owned()))
}

fn expect_decodes_to(o: &mut Out, id: i64, what: &str, bytes: &[u8], val: &Value, drift_only: bool) {
    o.checks += 1;
    let bad = match decode_whole(bytes) {
        Err(()) => Some("the real decoder panicked".to_owned()),
        Ok(Err(e)) => Some(format!("the real decoder rejected it: {e}")),
        Ok(Ok(v)) if !value_eq(&v, val) => Some(format!("the real decoder returned another value: {v:?}")),
        Ok(Ok(_)) => None,
    };
    if let Some(b) = bad {
        let d = format!("{b}; bytes {}", hex(bytes));
        if drift_only {
            o.drift(id, what, d)
        } else {
            o.viol(id, what, d)
        }
    }
}

fn c01(o: &mut Out, rec: &mut dyn Write, j: &J, seen: &mut HashSet<Vec<u8>>) {
    let id = j["id"].as_i64().unwrap();
    let ok = j["ok"].as_bool().unwrap();
    let rv = match RV::from_json(&j["v"]) {
        Ok(v) => v,
        Err(e) => {
            o.viol(id, "vector", format!("unreadable vector: {e}"));
            return;
        }
    };
    let val = to_value(&rv);
    // (the long nesting chains come in the two pure encodings only: "mixed" is false for them)
    let mixed = j["mixed"].as_bool().unwrap_or(true);
    let refs: Vec<(&str, [u8; 2], Vec<u8>)> = EPS
        .iter()
        .filter(|(n, _)| mixed || *n == "e22" || *n == "e11")
        .map(|(n, ep)| (*n, *ep, bytes_of(&j[*n]).unwrap()))
        .collect();

    // the real serializer on the real dynamic value
    o.checks += 1;
    match quiet(|| SerializedValue::serialize(&val)) {
        Err(()) => o.viol(id, "serialize", "SerializedValue::serialize panicked".into()),
        Ok(Ok(s)) if ok => {
            let real = s.to_vec();
            expect_decodes_to(o, id, "roundtrip(current encoding)", &real, &val, false);
            if !rv.order_free() && real != refs[0].2 {
                o.drift(id, "Enc2", format!("real {} reference {}", hex(&real), hex(&refs[0].2)));
            }
            if seen.insert(real.clone()) {
                writeln!(rec, "{}", json!({"t": "enc", "id": id, "in": jbytes(&real), "ref": jbytes(&refs[0].2)})).unwrap();
            }
        }
        Ok(Ok(_)) => o.viol(id, "nesting(serialize)", format!("a value nested {} levels was serialized", j["depth"])),
        Ok(Err(SerializeError::TooDeeplyNested)) if !ok => {}
        Ok(Err(e)) if ok => o.viol(id, "serialize", format!("a value nested {} levels was refused: {e:?}", j["depth"])),
        Ok(Err(e)) => o.viol(id, "nesting(serialize)", format!("too deep value refused with {e:?} instead of the nesting error")),
    }

    // the public container API, legacy / current / mixed, in the reference's element order
    for (name, ep, reference) in &refs {
        o.checks += 1;
        let legacy = *name == "e11";
        match quiet(|| SerializedValue::serialize_as::<tags::Value>(ApiSer::new(&rv, *ep))) {
            Err(()) => o.viol(id, "serialize(api)", format!("serializer API panicked ({name})")),
            Ok(Ok(s)) if ok => {
                let real = s.to_vec();
                expect_decodes_to(
                    o,
                    id,
                    if legacy { "roundtrip(legacy encoding)" } else { "roundtrip(api)" },
                    &real,
                    &val,
                    false,
                );
                if real != *reference {
                    o.drift(id, name, format!("real {} reference {}", hex(&real), hex(reference)));
                    if seen.insert(real.clone()) {
                        writeln!(rec, "{}", json!({"t": "enc", "id": id, "in": jbytes(&real), "ref": jbytes(reference)})).unwrap();
                    }
                }
            }
            Ok(Ok(_)) => o.viol(id, "nesting(serialize)", format!("a value nested {} levels was serialized through the API ({name})", j["depth"])),
            Ok(Err(SerializeError::TooDeeplyNested)) if !ok => {}
            Ok(Err(e)) if ok => o.viol(id, "serialize(api)", format!("refused ({name}): {e:?}")),
            Ok(Err(e)) => o.viol(id, "nesting(serialize)", format!("too deep value refused with {e:?} ({name})")),
        }
    }

    // the reference's bytes through the real decoder
    let mut done: HashSet<&Vec<u8>> = HashSet::new();
    for (name, _, reference) in &refs {
        if !done.insert(reference) {
            continue;
        }
        if ok {
            expect_decodes_to(o, id, &format!("decode(reference {name})"), reference, &val, false);
        } else {
            o.checks += 1;
            match decode_whole(reference) {
                Err(()) => o.viol(id, "nesting(deserialize)", format!("panic on {name}")),
                Ok(Err(e)) if e == "tooDeep" => {}
                Ok(Err(e)) => o.viol(id, "nesting(deserialize)", format!("{name} nested {} levels refused with {e} instead of the nesting error", j["depth"])),
                Ok(Ok(_)) => o.viol(id, "nesting(deserialize)", format!("{name} nested {} levels was accepted", j["depth"])),
            }
            let k = real_skip(reference, None);
            if k.r != "tooDeep" {
                o.drift(id, "nesting(skip)", format!("{name}: skip gave {}", k.r));
            }
        }
    }
    if ok {
        for a in j["alts"].as_array().unwrap() {
            let b = bytes_of(&a["a"]).unwrap();
            expect_decodes_to(o, id, "decode(non-canonical)", &b, &val, true);
        }
    }
}

fn epoch(table: &[(u32, u32, u8)], v: ProtocolVersion) -> u8 {
    table.iter().find(|(ma, mi, _)| *ma == v.major() && *mi == v.minor()).map(|t| t.2).unwrap_or(0)
}

fn c13(o: &mut Out, rec: &mut dyn Write, j: &J, table: &[(u32, u32, u8)], seen: &mut HashSet<(Vec<u8>, Vec<u8>)>) {
    let id = j["id"].as_i64().unwrap();
    let ok = j["ok"].as_bool().unwrap();
    let rv = match RV::from_json(&j["v"]) {
        Ok(v) => v,
        Err(e) => {
            o.viol(id, "vector", format!("unreadable vector: {e}"));
            return;
        }
    };
    let val = to_value(&rv);
    let e11 = bytes_of(&j["e11"]).unwrap();
    // (input, expected legacy form, non-canonical?)
    let mut inputs: Vec<(Vec<u8>, Vec<u8>, bool)> = Vec::new();
    for (n, _) in EPS {
        let b = bytes_of(&j[n]).unwrap();
        if !inputs.iter().any(|(x, _, _)| *x == b) {
            inputs.push((b, e11.clone(), false));
        }
    }
    if ok {
        for a in j["alts"].as_array().unwrap() {
            inputs.push((bytes_of(&a["a"]).unwrap(), bytes_of(&a["c"]).unwrap(), true));
        }
        if let Ok(Ok(s)) = quiet(|| SerializedValue::serialize(&val)) {
            let b = s.to_vec();
            if !inputs.iter().any(|(x, _, _)| *x == b) {
                inputs.push((b, Vec::new(), true));
            }
        }
    }

    let mut versions: Vec<Option<ProtocolVersion>> = vec![None];
    versions.extend((13..=21).map(|m| Some(version(m))));
    versions.extend([Some(ProtocolVersion::new(0, 14)), Some(ProtocolVersion::new(2, 14)), Some(ProtocolVersion::new(0, 20)), Some(ProtocolVersion::new(2, 20))]);

    for (x, expect, noncanon) in &inputs {
        let sv = raw_value(x);
        let mut outs: Vec<Vec<u8>> = Vec::new();
        for from in &versions {
            for to in versions.iter().flatten() {
                o.checks += 1;
                let fe = from.map(|f| epoch(table, f)).unwrap_or(2);
                let te = epoch(table, *to);
                let what = format!("convert({} -> {})", from.map(|f| f.to_string()).unwrap_or("none".into()), to);
                match real_convert(&sv, *from, *to) {
                    Err(()) => o.viol(id, "convert panicked", format!("{what} on {}", hex(x))),
                    Ok(r) => {
                        if fe == 0 || te == 0 {
                            if r != Err("invalidVersion".to_owned()) {
                                o.viol(id, "version check", format!("{what} gave {r:?} instead of InvalidVersion"));
                            }
                        } else if r == Err("invalidVersion".to_owned()) {
                            o.viol(id, "version check", format!("{what} gave InvalidVersion"));
                        } else if te >= fe {
                            match r {
                                Ok((b, _)) if b == *x => {}
                                other => o.viol(id, "same or newer epoch", format!("{what} did not return the input unchanged: {other:?}")),
                            }
                        } else if !ok {
                            match r {
                                Err(e) if e == "tooDeep" => {}
                                other => o.drift(id, "convert(too deep)", format!("{what}: {other:?}")),
                            }
                        } else {
                            match r {
                                Err(e) => o.viol(id, "convert failed", format!("{what} failed with {e} on the well-formed {}", hex(x))),
                                Ok((b, _)) => {
                                    if !outs.contains(&b) {
                                        outs.push(b)
                                    }
                                }
                            }
                        }
                    }
                }
            }
        }
        if !ok {
            continue;
        }
        if outs.len() > 1 {
            o.drift(id, "convert", format!("different legacy forms for different (from, to): {}", outs.iter().map(|b| hex(b)).collect::<Vec<_>>().join(" / ")));
        }
        for out in &outs {
            expect_decodes_to(o, id, "decode(converted)", out, &val, false);
            o.checks += 2;
            let k = real_kind(out);
            if k.r != "ok" || k.n >= 43 {
                o.viol(id, "1.20 kind left", format!("kind() of the converted value is {k:?}; {}", hex(out)));
            }
            match real_convert(&raw_value(out), None, version(14)) {
                Ok(Ok((b, _))) if b == *out => {}
                other => o.viol(id, "convert twice", format!("second conversion of {} gave {other:?}", hex(out))),
            }
            if !expect.is_empty() && out != expect {
                o.drift(id, if *noncanon { "Conv(non-canonical)" } else { "Conv" }, format!("real {} reference {}", hex(out), hex(expect)));
            }
            if seen.insert((x.clone(), out.clone())) {
                if x != out {
                    o.changed += 1;
                }
                writeln!(rec, "{}", json!({"t": "conv", "id": id, "in": jbytes(x), "out": jbytes(out)})).unwrap();
            }
        }
        // the same through a value-carrying message
        o.checks += 1;
        let mut msg = ItemReceived { cookie: ChannelCookie(uuid::Uuid::nil()), value: raw_value(x) };
        match quiet(|| msg.convert_value(None, version(15)).map_err(|e| conv_class(&e))) {
            Err(()) => o.viol(id, "convert panicked", "MessageOps::convert_value".into()),
            Ok(Err(e)) => o.viol(id, "convert failed", format!("MessageOps::convert_value failed with {e}")),
            Ok(Ok(())) => {
                if !outs.contains(&msg.value.to_vec()) {
                    expect_decodes_to(o, id, "decode(convert_value)", &msg.value.to_vec(), &val, false);
                }
            }
        }
    }
}

fn deep_child() {
    // nesting chains far beyond any stack: 100 000 levels of each nesting step, on 256 KiB of stack
    let chains: Vec<(&str, Vec<u8>, Vec<u8>)> = vec![
        ("some", vec![1], vec![]),
        ("vec2", vec![43, 1], vec![]),
        ("vec1", vec![17, 1], vec![]),
        ("enum", vec![40, 7], vec![]),
        ("struct2", vec![65, 1, 3], vec![]),
        ("struct1", vec![39, 1, 3], vec![]),
        ("map2", vec![45, 1, 9], vec![]),
        ("map1", vec![27, 1, 1, 97], vec![]),
    ];
    let h = std::thread::Builder::new()
        .stack_size(256 * 1024)
        .spawn(move || {
            let mut res = serde_json::Map::new();
            for (name, step, _) in &chains {
                let mut b = Vec::new();
                for _ in 0..100_000 {
                    b.extend_from_slice(step);
                }
                b.push(0);
                let d = real_decode(&b, None).0;
                let s = real_skip(&b, None);
                let (l, sp) = real_len_split(&b);
                let c = match real_convert(&raw_value(&b), None, version(14)) {
                    Err(()) => "panic".to_owned(),
                    Ok(Ok(_)) => "ok".to_owned(),
                    Ok(Err(e)) => e,
                };
                res.insert((*name).to_owned(), json!({"dec": d.r, "skip": s.r, "len": l.r, "split": sp.r, "conv": c}));
                println!("{}", json!({"progress": name}));
            }
            println!("{}", J::Object(res));
        })
        .unwrap();
    h.join().unwrap();
}

fn main() {
    let args: Vec<String> = std::env::args().collect();
    install_quiet_panic_hook();
    if args.iter().any(|a| a == "--deep-child") {
        deep_child();
        return;
    }
    let get = |k: &str| args.iter().position(|a| a == k).map(|i| args[i + 1].clone());
    let mode = get("--mode").unwrap_or("c01".into());
    let vectors = get("--vectors").expect("--vectors");
    let records = get("--records").expect("--records");
    let corrupt: Option<i64> = get("--corrupt").map(|s| s.parse().unwrap());
    let mut rec = std::io::BufWriter::new(std::fs::File::create(records).unwrap());
    let mut o = Out { violations: vec![], drifts: vec![], nviol: 0, ndrift: 0, checks: 0, changed: 0 };
    let mut table: Vec<(u32, u32, u8)> = Vec::new();
    let mut n = 0usize;
    let mut deep = 0usize;
    let mut containers = 0usize;
    let mut seen_enc = HashSet::new();
    let mut seen_conv = HashSet::new();
    let mut samples: Vec<J> = Vec::new();
    for line in BufReader::new(std::fs::File::open(vectors).unwrap()).lines() {
        let line = line.unwrap();
        if line.trim().is_empty() {
            continue;
        }
        let mut j: J = serde_json::from_str(&line).unwrap();
        if let Some(e) = j.get("epochs") {
            for t in e.as_array().unwrap() {
                table.push((t[0].as_u64().unwrap() as u32, t[1].as_u64().unwrap() as u32, t[2].as_u64().unwrap() as u8));
            }
            continue;
        }
        if corrupt == j["id"].as_i64() {
            // self test: the oracle's bytes are changed in one place; the run must report it
            for f in ["e22", "e11", "e12", "e21"] {
                let a = j[f].as_array_mut().unwrap();
                let last = a.len() - 1;
                a[last] = J::from((a[last].as_u64().unwrap() + 1) % 2 + 2);
            }
        }
        n += 1;
        if !j["ok"].as_bool().unwrap() {
            deep += 1;
        }
        if RV::from_json(&j["v"]).map(|v| v.has_container()).unwrap_or(false) {
            containers += 1;
        }
        if samples.len() < 3 && n % 400 == 7 {
            samples.push(json!({"id": j["id"], "v": j["v"], "e22": j["e22"], "e11": j["e11"]}));
        }
        match mode.as_str() {
            "c01" => c01(&mut o, &mut rec, &j, &mut seen_enc),
            _ => c13(&mut o, &mut rec, &j, &table, &mut seen_conv),
        }
    }
    rec.flush().unwrap();

    // stack safety: in a child process, because a stack overflow cannot be caught
    let mut deep_res = json!("not-run");
    if mode == "c01" || mode == "c13" {
        let me = std::env::current_exe().unwrap();
        let out = std::process::Command::new(me).arg("--deep-child").output().unwrap();
        let text = String::from_utf8_lossy(&out.stdout).to_string();
        if !out.status.success() {
            let last = text.lines().last().unwrap_or("").to_owned();
            o.viol(-1, "stack exhaustion", format!("the process died ({}) on a 100000-level nesting chain; last progress line: {last}", out.status));
            deep_res = json!("crashed");
        } else {
            let r: J = serde_json::from_str(text.lines().last().unwrap_or("{}")).unwrap_or(json!({}));
            for (name, v) in r.as_object().cloned().unwrap_or_default() {
                let fields: &[&str] = if mode == "c01" { &["dec"] } else { &[] };
                for f in fields {
                    o.checks += 1;
                    if v[*f] != "tooDeep" {
                        o.viol(-1, "nesting(deserialize)", format!("100000-level {name} chain: {f} gave {}", v[*f]));
                    }
                }
                for f in ["dec", "skip", "len", "split", "conv"] {
                    if v[f] == "panic" {
                        o.viol(-1, "panic", format!("100000-level {name} chain: {f} panicked"));
                    } else if v[f] != "tooDeep" && !fields.contains(&f) {
                        o.drift(-1, "nesting", format!("100000-level {name} chain: {f} gave {}", v[f]));
                    }
                }
            }
            deep_res = r;
        }
    }

    println!(
        "{}",
        json!({"mode": mode, "vectors": n, "too_deep_vectors": deep, "container_vectors": containers, "checks": o.checks,
               "violations": o.nviol, "drifts": o.ndrift, "violation_list": o.violations, "drift_list": o.drifts,
               "enc_records": seen_enc.len(), "conv_records": seen_conv.len(), "conv_changed": o.changed, "deep_chains": deep_res, "samples": samples})
    );
}
