//! Real serialized `aldrin_core::message::Message` values of a requested total size, and a small RNG.

use aldrin_core::message::{CallFunction, CreateObject, Message, MessageOps, SendItem, Shutdown, Sync};
use aldrin_core::{Bytes, ChannelCookie, ObjectUuid, SerializedValue, ServiceCookie};
use std::collections::HashMap;
use std::sync::Arc;
use uuid::Uuid;

#[derive(Clone)]
pub struct Rng(u64);

impl Rng {
    pub fn new(seed: u64) -> Self {
        Self(seed.wrapping_mul(0x9E37_79B9_7F4A_7C15) ^ 0x1234_5678_9ABC_DEF1)
    }

    pub fn next(&mut self) -> u64 {
        // splitmix64
        self.0 = self.0.wrapping_add(0x9E37_79B9_7F4A_7C15);
        let mut z = self.0;
        z = (z ^ (z >> 30)).wrapping_mul(0xBF58_476D_1CE4_E5B9);
        z = (z ^ (z >> 27)).wrapping_mul(0x94D0_49BB_1331_11EB);
        z ^ (z >> 31)
    }

    pub fn below(&mut self, n: u64) -> u64 {
        if n == 0 { 0 } else { self.next() % n }
    }
}

#[derive(Clone)]
pub struct Frame {
    pub msg: Message,
    pub bytes: Arc<Vec<u8>>,
}

fn uuid_of(salt: u32) -> Uuid {
    let mut r = Rng::new(salt as u64 + 77);
    Uuid::from_u64_pair(r.next(), r.next())
}

fn payload(n: usize, salt: u32) -> Vec<u8> {
    let mut r = Rng::new(salt as u64 * 1_000_003 + n as u64);
    let mut v = Vec::with_capacity(n);
    while v.len() < n {
        let x = r.next().to_le_bytes();
        let k = (n - v.len()).min(8);
        v.extend_from_slice(&x[..k]);
    }
    v
}

/// a u32 whose varint encoding has `len` bytes (1..=5), varied by salt
fn varint_of_len(len: usize, salt: u32) -> u32 {
    match len {
        1 => salt % 200,
        2 => 252 + salt % 4,
        3 => 256 + salt % 60_000,
        4 => 65_536 + salt % 1_000_000,
        _ => (1 << 24) + salt,
    }
}

fn candidates(len: usize, salt: u32) -> Vec<Message> {
    let mut c = Vec::new();
    match len {
        5 => c.push(Message::Shutdown(Shutdown)),
        6..=10 => c.push(Message::Sync(Sync { serial: varint_of_len(len - 5, salt) })),
        22..=26 => c.push(Message::CreateObject(CreateObject { serial: varint_of_len(len - 21, salt), uuid: ObjectUuid(uuid_of(salt)) })),
        27.. => {
            // SendItem: 4 length + 1 kind + 4 value length + value (1 kind + varint + payload) + 16 cookie
            for slack in 2..=7 {
                if len >= 25 + slack {
                    let p = len - 25 - slack;
                    if let Ok(value) = SerializedValue::serialize(Bytes(payload(p, salt))) {
                        c.push(Message::SendItem(SendItem { cookie: ChannelCookie(uuid_of(salt)), value }));
                    }
                }
            }
            // the same with a string value (no chunk terminator: covers the sizes Bytes cannot reach)
            for slack in 2..=7 {
                if len >= 25 + slack {
                    let p = len - 25 - slack;
                    let text: String = payload(p, salt).into_iter().map(|b| (b'a' + b % 26) as char).collect();
                    if let Ok(value) = SerializedValue::serialize(text) {
                        c.push(Message::SendItem(SendItem { cookie: ChannelCookie(uuid_of(salt)), value }));
                    }
                }
            }
            // CallFunction: two more varints to absorb a jump of the payload's length prefix
            for slack in 4..=12 {
                for (a, b) in [(1, 1), (2, 1), (3, 1), (2, 2), (3, 2)] {
                    if len >= 25 + slack + a + b {
                        let p = len - 25 - slack;
                        if let Ok(value) = SerializedValue::serialize(Bytes(payload(p, salt))) {
                            c.push(Message::CallFunction(CallFunction {
                                serial: varint_of_len(a, salt),
                                service_cookie: ServiceCookie(uuid_of(salt)),
                                function: varint_of_len(b, salt),
                                value,
                            }));
                        }
                    }
                }
            }
        }
        _ => {}
    }
    c
}

#[derive(Default)]
pub struct FrameCache(HashMap<(usize, u32), Frame>);

impl FrameCache {
    /// A real message whose serialization has exactly `len` bytes (frames with different salts differ
    /// whenever the size leaves room for it).
    pub fn get(&mut self, len: usize, salt: u32) -> Result<Frame, String> {
        if let Some(f) = self.0.get(&(len, salt)) {
            return Ok(f.clone());
        }
        for m in candidates(len, salt) {
            if let Ok(b) = m.clone().serialize_message() {
                if b.len() == len && b[..4] == (len as u32).to_le_bytes() {
                    let f = Frame { msg: m, bytes: Arc::new(b.to_vec()) };
                    self.0.insert((len, salt), f.clone());
                    return Ok(f);
                }
            }
        }
        Err(format!("no message with a serialized size of {len} bytes (supported: 5..=10, 22.. )"))
    }
}
